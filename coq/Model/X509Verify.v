(* Model/X509Verify.v -- executable SPECIFICATION of X.509 server-certificate verification as a TLS
   client configured like mitmproxy configures OpenSSL for upstream connections
   (X509_CHECK_FLAG_NO_PARTIAL_WILDCARDS + X509_CHECK_FLAG_NEVER_CHECK_SUBJECT).  Owner: C15.
   Other properties (C16) may import this file read-only.  Executable definitions only; the lemmas
   are in Proofs/X509VerifyLemmas.v.

   INTERFACE
     cert                 abstract certificate (record below); names and keys are identities (N):
                            c_subject / c_issuer   distinguished names (equal number = equal DN)
                            c_key                  the public key certified
                            c_sigkey               the key whose private half made the signature
                            c_not_before/after     validity window, seconds since the epoch (Z)
                            c_ca, c_pathlen        basicConstraints
                            c_dns, c_ips           subjectAltName dNSName values / iPAddress octets (4 or 16)
                            c_cn                   subject commonName, if any (never consulted by name_ok)
     target               THost h (the reference DNS name, bytes as given to X509_VERIFY_PARAM_set1_host)
                          | TIp ip (packed address as given to X509_VERIFY_PARAM_set1_ip)
     dns_match pat host   one presented dNSName against the reference name
     name_ok c t          RFC 6125 matching of the leaf against the target, SAN only
     time_ok now c        not_before <= now <= not_after
     chain_ok trust pool now leaf
                          some path leaf = c0 <- c1 <- ... <- cn exists with every c(i+1) taken from
                          trust ++ pool, c(i+1) issues c(i) (name, key, CA flag, path length), every
                          certificate valid at now, and cn self-issued (subject = issuer) and a member of trust
     x509_ok trust chain now t
                          chain = leaf :: extra certificates as sent by the server;
                          chain_ok trust extra now leaf && name_ok leaf t
   Not part of the specification (callers must not rely on it): key usage / extended key usage, name
   constraints, policies, revocation, signature algorithm strength, critical unknown extensions,
   self-issued intermediates in the path-length count, chains deeper than the search fuel,
   reference names that start with a dot, and the behaviour exactly at now = not_after
   (OpenSSL treats that second as expired). *)
From Coq Require Import List Bool NArith ZArith.
From MV Require Import Base.Bytes.
Import ListNotations.

Record cert := mkCert {
  c_subject : N;
  c_issuer : N;
  c_key : N;
  c_sigkey : N;
  c_not_before : Z;
  c_not_after : Z;
  c_ca : bool;
  c_pathlen : option N;
  c_dns : list bytes;
  c_ips : list bytes;
  c_cn : option bytes
}.

Inductive target := THost (h : bytes) | TIp (ip : bytes).

Definition cert_eqb (a b : cert) : bool :=
  (c_subject a =? c_subject b)%N && (c_issuer a =? c_issuer b)%N
  && (c_key a =? c_key b)%N && (c_sigkey a =? c_sigkey b)%N
  && (c_not_before a =? c_not_before b)%Z && (c_not_after a =? c_not_after b)%Z
  && Bool.eqb (c_ca a) (c_ca b) && option_eqb N.eqb (c_pathlen a) (c_pathlen b)
  && list_eqb bytes_eqb (c_dns a) (c_dns b) && list_eqb bytes_eqb (c_ips a) (c_ips b)
  && option_eqb bytes_eqb (c_cn a) (c_cn b).

(* ---------- names ---------- *)

Definition eq_nocase (a b : bytes) : bool := bytes_eqb (lower a) (lower b).

Definition is_ldh (b : byte) : bool := is_digit b || is_alpha b || byte_eqb b x2d.

Definition is_nul (b : byte) : bool := byte_eqb b x00.

(* Python-style split: always at least one part *)
Fixpoint split_on (sep : byte) (s : bytes) : list bytes :=
  match s with
  | [] => [[]]
  | c :: r =>
      let ps := split_on sep r in
      if byte_eqb c sep then [] :: ps
      else match ps with p :: t => (c :: p) :: t | [] => [[c]] end
  end.

(* a label of the fixed part of a wildcard pattern: non-empty, letters/digits/hyphen, no hyphen at either end *)
Definition label_ok (l : bytes) : bool :=
  match l with
  | [] => false
  | f :: _ => forallb is_ldh l && negb (byte_eqb f x2d) && negb (byte_eqb (last l x00) x2d)
  end.

(* Some suffix (the pattern without its star, so it starts with a dot) iff pat is star-dot-rest with
   the star being the whole left-most label, rest having at least two well-formed labels and no
   further star.  Everything else, in particular every partial wildcard, is not a wildcard. *)
Definition wildcard_suffix (pat : bytes) : option bytes :=
  match pat with
  | x2a :: x2e :: rest =>
      let labels := split_on x2e rest in
      if (2 <=? length labels)%nat && forallb label_ok labels then Some (x2e :: rest) else None
  | _ => None
  end.

(* the star stands for exactly one non-empty label of letters/digits/hyphens (or a literal star) *)
Definition wildcard_match (suf host : bytes) : bool :=
  let n := (length host - length suf)%nat in
  (length suf <? length host)%nat
  && eq_nocase (skipn n host) suf
  && (forallb is_ldh (firstn n host) || bytes_eqb (firstn n host) [x2a]).

Definition dns_match (pat host : bytes) : bool :=
  negb (existsb is_nul pat)
  && match wildcard_suffix pat with
     | Some suf => wildcard_match suf host
     | None => eq_nocase pat host
     end.

Definition name_ok (c : cert) (t : target) : bool :=
  match t with
  | THost h => existsb (fun p => dns_match p h) (c_dns c)
  | TIp ip => existsb (bytes_eqb ip) (c_ips c)
  end.

(* ---------- validity window ---------- *)

Definition time_ok (now : Z) (c : cert) : bool :=
  (c_not_before c <=? now)%Z && (now <=? c_not_after c)%Z.

(* ---------- chain ---------- *)

(* a root: subject = issuer.  The signature on a trust anchor is not part of path validation
   (RFC 5280 6.1: an anchor is a name and a key trusted by configuration), so c_sigkey is not consulted *)
Definition self_issued (c : cert) : bool := (c_subject c =? c_issuer c)%N.

(* p at chain index below+1 issues the certificate at index below *)
Definition pathlen_ok (p : cert) (below : N) : bool :=
  match c_pathlen p with None => true | Some n => (below <=? n)%N end.

Definition issues (p c : cert) (below : N) : bool :=
  (c_subject p =? c_issuer c)%N && (c_key p =? c_sigkey c)%N && c_ca p && pathlen_ok p below.

(* timechk = false gives the same search ignoring validity windows (used only to classify failures) *)
Fixpoint path_search (fuel : nat) (timechk : bool) (trust pool : list cert) (now : Z)
         (c : cert) (depth : N) : bool :=
  (negb timechk || time_ok now c)
  && ((self_issued c && existsb (cert_eqb c) trust)
      || match fuel with
         | O => false
         | S f => existsb (fun p => issues p c depth
                                    && path_search f timechk trust pool now p (depth + 1)%N)
                          (trust ++ pool)
         end).

Definition search_fuel (trust pool : list cert) : nat := S (length (trust ++ pool)).

Definition chain_ok (trust pool : list cert) (now : Z) (leaf : cert) : bool :=
  path_search (search_fuel trust pool) true trust pool now leaf 0%N.

Definition chain_ok_notime (trust pool : list cert) (now : Z) (leaf : cert) : bool :=
  path_search (search_fuel trust pool) false trust pool now leaf 0%N.

Definition x509_ok (trust chain : list cert) (now : Z) (t : target) : bool :=
  match chain with
  | [] => false
  | leaf :: extra => chain_ok trust extra now leaf && name_ok leaf t
  end.
