(* Model/TlsTunnel.v -- mitmproxy/proxy/tunnel.py TunnelLayer and proxy/layers/tls.py
   TLSLayer / ClientTLSLayer / ServerTLSLayer over an abstract record layer (the OpenSSL
   connection object) and an arbitrary child layer.  Executable definitions only.

   Python generators mutate self and yield commands; here a handler is a function in the
   monad  M A = st -> option A * st * list titem : the option is None when a Python
   exception escaped (the handler is aborted, mutations made so far persist), the list is
   the ordered trace of everything the layer did (commands yielded upwards, events given
   to the child, commands obtained from the child).
   Blocking hooks (tls_clienthello, tls_start, tls_established, tls_failed) and the
   layer's own OpenConnection are completed immediately (Layer pause/resume is C04).
   Not modelled: ignore_connection, establish_server_tls_first, DTLS, debug logging. *)
From Coq Require Import List Bool Arith NArith.
From MV Require Import Base.Bytes.
Import ListNotations.

Inductive conn := Client | Server.
Inductive hook := HClientHello | HTlsStart (c : conn) | HTlsEstablished (c : conn) | HTlsFailed (c : conn).
Inductive event :=
| EStart
| EData (c : conn) (d : bytes)
| EClose (c : conn)
| EOpened (c : conn) (err : bool)      (* OpenConnectionCompleted(command for c, err) *)
| EOther (t : N).                      (* any other event (Wakeup, ...) *)
Inductive cmd :=
| CSend (c : conn) (d : bytes)
| CClose (c : conn) (half : bool)
| COpen (c : conn)
| CHook (h : hook)
| CLog
| COther (t : N).
Inductive titem :=
| TCmd (c : cmd)            (* command yielded to the parent *)
| TChild (e : event)        (* child_layer.handle_event(e) called *)
| TFromChild (c : cmd)      (* command obtained from the child *)
| TDrop (d : bytes)         (* ghost: sendall raised ZeroReturn/SysCall, data discarded *)
| TReplay (e : event).      (* ghost: e taken from _event_queue by _handshake_finished *)

Inductive tstate := INACTIVE | ESTABLISHING | OPEN | CLOSED.
Inductive crash := NoTls | AssertTls | SendRaise | RecvRaise | ChildRaise | OutOfFuel.
Inductive herr := ErrParse | ErrClosed | ErrClosedEarly | ErrSsl.

Inductive recv_res := RData (b : bytes) | RWantRead | RZeroReturn | RError | RRaise.
Inductive send_res := SOk | SZeroReturn | SSysCall | SRaise.
Inductive hs_res := HsDone | HsWantRead | HsError.
Inductive hello_res := HelloIncomplete | HelloOk | HelloInvalid.

Definition conn_eqb (a b : conn) : bool :=
  match a, b with Client, Client | Server, Server => true | _, _ => false end.
Definition tstate_eqb (a b : tstate) : bool :=
  match a, b with
  | INACTIVE, INACTIVE | ESTABLISHING, ESTABLISHING | OPEN, OPEN | CLOSED, CLOSED => true
  | _, _ => false
  end.
Definition nonempty (b : bytes) : bool := match b with [] => false | _ => true end.

Record cfg := mkCfg {
  me : conn;                 (* Client: ClientTLSLayer, Server: ServerTLSLayer *)
  provide_tls : bool;        (* the tls_start hook sets ssl_conn *)
  child_is_client_tls : bool;(* isinstance(self.child_layer, ClientTLSLayer) *)
  open_at_start : bool;      (* tunnel_connection.state is not CLOSED at Start *)
  fuel : nat                 (* bound for the while True loops and the nesting depth *)
}.

Section Layer.
  (* the OpenSSL connection object *)
  Variable R : Type.
  Variable bio_write : R -> bytes -> R.
  Variable recv : R -> R * recv_res.
  Variable bio_read : R -> R * option bytes.          (* None: WantReadError *)
  Variable sendall : R -> bytes -> R * send_res.
  Variable do_handshake : R -> R * hs_res.
  Variable parse_hello : bytes -> hello_res.          (* parse_client_hello: None / hello / ValueError *)
  (* the child layer: new state, commands, and whether an exception escaped it *)
  Variable CS : Type.
  Variable child : CS -> event -> CS * list cmd * bool.
  Variable cf : cfg.

  Record st := mkSt {
    tunnel_state : tstate;
    queue : list event;          (* _event_queue *)
    reply_to : bool;             (* command_to_reply_to is set *)
    has_tls : bool;              (* self.tls is set *)
    tls : R;
    hello_parsed : bool;         (* client_hello_parsed *)
    recv_buffer : bytes;
    errored : bool;              (* event_to_child = self.errored *)
    wait_hello : bool;           (* wait_for_clienthello *)
    close_sent : bool;           (* ConnectionClosed(conn) already dispatched to the child *)
    open_replies : list bool;    (* environment: errors replied to our OpenConnection *)
    crashed : option crash;
    cstate : CS
  }.

  Definition M (A : Type) := st -> option A * st * list titem.
  Definition ret {A} (a : A) : M A := fun s => (Some a, s, []).
  Definition bind {A B} (m : M A) (f : A -> M B) : M B := fun s =>
    match m s with
    | (Some a, s1, t1) => let '(b, s2, t2) := f a s1 in (b, s2, t1 ++ t2)
    | (None, s1, t1) => (None, s1, t1)
    end.
  Definition get : M st := fun s => (Some s, s, []).
  Definition modify (f : st -> st) : M unit := fun s => (Some tt, f s, []).
  Definition emit (t : titem) : M unit := fun s => (Some tt, s, [t]).
  Definition set_crashed (k : crash) (s : st) : st :=
    mkSt (tunnel_state s) (queue s) (reply_to s) (has_tls s) (tls s) (hello_parsed s) (recv_buffer s)
         (errored s) (wait_hello s) (close_sent s) (open_replies s) (Some k) (cstate s).
  Definition raise {A} (k : crash) : M A := fun s => (None, set_crashed k s, []).

  Notation "x <- m ;; f" := (bind m (fun x => f)) (at level 61, m at next level, right associativity).
  Notation "m ;;; f" := (bind m (fun _ => f)) (at level 61, right associativity).

  Fixpoint iter {A} (f : A -> M unit) (l : list A) : M unit :=
    match l with
    | [] => ret tt
    | x :: l' => f x ;;; iter f l'
    end.
  Definition when (b : bool) (m : M unit) : M unit := if b then m else ret tt.

  (* field updates *)
  Definition set_tunnel_state v s := mkSt v (queue s) (reply_to s) (has_tls s) (tls s) (hello_parsed s)
    (recv_buffer s) (errored s) (wait_hello s) (close_sent s) (open_replies s) (crashed s) (cstate s).
  Definition set_queue v s := mkSt (tunnel_state s) v (reply_to s) (has_tls s) (tls s) (hello_parsed s)
    (recv_buffer s) (errored s) (wait_hello s) (close_sent s) (open_replies s) (crashed s) (cstate s).
  Definition set_reply_to v s := mkSt (tunnel_state s) (queue s) v (has_tls s) (tls s) (hello_parsed s)
    (recv_buffer s) (errored s) (wait_hello s) (close_sent s) (open_replies s) (crashed s) (cstate s).
  Definition set_has_tls v s := mkSt (tunnel_state s) (queue s) (reply_to s) v (tls s) (hello_parsed s)
    (recv_buffer s) (errored s) (wait_hello s) (close_sent s) (open_replies s) (crashed s) (cstate s).
  Definition set_tls v s := mkSt (tunnel_state s) (queue s) (reply_to s) (has_tls s) v (hello_parsed s)
    (recv_buffer s) (errored s) (wait_hello s) (close_sent s) (open_replies s) (crashed s) (cstate s).
  Definition set_hello_parsed v s := mkSt (tunnel_state s) (queue s) (reply_to s) (has_tls s) (tls s) v
    (recv_buffer s) (errored s) (wait_hello s) (close_sent s) (open_replies s) (crashed s) (cstate s).
  Definition set_recv_buffer v s := mkSt (tunnel_state s) (queue s) (reply_to s) (has_tls s) (tls s)
    (hello_parsed s) v (errored s) (wait_hello s) (close_sent s) (open_replies s) (crashed s) (cstate s).
  Definition set_errored v s := mkSt (tunnel_state s) (queue s) (reply_to s) (has_tls s) (tls s)
    (hello_parsed s) (recv_buffer s) v (wait_hello s) (close_sent s) (open_replies s) (crashed s) (cstate s).
  Definition set_wait_hello v s := mkSt (tunnel_state s) (queue s) (reply_to s) (has_tls s) (tls s)
    (hello_parsed s) (recv_buffer s) (errored s) v (close_sent s) (open_replies s) (crashed s) (cstate s).
  Definition set_close_sent v s := mkSt (tunnel_state s) (queue s) (reply_to s) (has_tls s) (tls s)
    (hello_parsed s) (recv_buffer s) (errored s) (wait_hello s) v (open_replies s) (crashed s) (cstate s).
  Definition set_open_replies v s := mkSt (tunnel_state s) (queue s) (reply_to s) (has_tls s) (tls s)
    (hello_parsed s) (recv_buffer s) (errored s) (wait_hello s) (close_sent s) v (crashed s) (cstate s).
  Definition set_cstate v s := mkSt (tunnel_state s) (queue s) (reply_to s) (has_tls s) (tls s)
    (hello_parsed s) (recv_buffer s) (errored s) (wait_hello s) (close_sent s) (open_replies s) (crashed s) v.

  (* self.tls.<op>(...): AttributeError on None when no connection object was attached *)
  Definition tls_op {A} (op : R -> R * A) : M A := fun s =>
    if has_tls s then let '(r, a) := op (tls s) in (Some a, set_tls r s, [])
    else raise NoTls s.
  Definition tls_bio_write (d : bytes) : M unit := tls_op (fun r => (bio_write r d, tt)).

  (* TLSLayer.tls_interact *)
  Fixpoint tls_interact (n : nat) : M unit :=
    match n with
    | O => raise OutOfFuel
    | S n' =>
      r <- tls_op bio_read ;;
      match r with
      | None => ret tt
      | Some d => emit (TCmd (CSend (me cf) d)) ;;; tls_interact n'
      end
    end.

  (* the while True loop of TLSLayer.receive_data: (plaintext, close) *)
  Fixpoint recv_loop (n : nat) (acc : bytes) : M (bytes * bool) :=
    match n with
    | O => raise OutOfFuel
    | S n' =>
      r <- tls_op recv ;;
      match r with
      | RData b => recv_loop n' (acc ++ b)
      | RWantRead => ret (acc, false)
      | RZeroReturn => ret (acc, true)
      | RError => emit (TCmd CLog) ;;; ret (acc, false)
      | RRaise => raise RecvRaise
      end
    end.

  Definition pop_open_reply : M bool := fun s =>
    match open_replies s with
    | [] => (Some false, s, [])
    | b :: l => (Some b, set_open_replies l s, [])
    end.

  Definition call_child (e : event) : M (list cmd * bool) := fun s =>
    let '(cs, cmds, r) := child (cstate s) e in (Some (cmds, r), set_cstate cs s, [TChild e]).

  Section Nested.
    (* event_to_child one nesting level down *)
    Variable etc : event -> M unit.

    (* TLSLayer.receive_data (with the close_sent guard of fixes/C14-close-once.diff) *)
    Definition receive_data (d : bytes) : M unit :=
      when (nonempty d) (tls_bio_write d) ;;;
      pc <- recv_loop (fuel cf) [] ;;
      tls_interact (fuel cf) ;;;
      when (nonempty (fst pc)) (etc (EData (me cf) (fst pc))) ;;;
      when (snd pc)
        (s <- get ;;
         if close_sent s then ret tt
         else modify (set_close_sent true) ;;; etc (EClose (me cf))).

    (* TLSLayer.receive_close *)
    Definition receive_close : M unit :=
      s <- get ;;
      if close_sent s then ret tt
      else modify (set_close_sent true) ;;; etc (EClose (me cf)).

    (* TLSLayer.send_data *)
    Definition send_data (d : bytes) : M unit :=
      r <- tls_op (fun r => sendall r d) ;;
      match r with
      | SOk => ret tt
      | SZeroReturn | SSysCall => emit (TDrop d)
      | SRaise => raise SendRaise
      end ;;;
      tls_interact (fuel cf).

    (* TLSLayer.start_tls *)
    Definition start_tls : M unit :=
      s <- get ;;
      if has_tls s then raise AssertTls
      else
        emit (TCmd (CHook (HTlsStart (me cf)))) ;;;
        if provide_tls cf then modify (set_has_tls true)
        else emit (TCmd CLog) ;;; emit (TCmd (CClose (me cf) false)).

    (* TLSLayer.receive_handshake_data: (done, err) *)
    Definition tls_receive_handshake_data (d : bytes) : M (bool * option herr) :=
      when (nonempty d) (tls_bio_write d) ;;;
      r <- tls_op do_handshake ;;
      match r with
      | HsWantRead => tls_interact (fuel cf) ;;; ret (false, None)
      | HsError => ret (false, Some ErrSsl)
      | HsDone =>
        emit (TCmd (CHook (HTlsEstablished (me cf)))) ;;;
        receive_data [] ;;;
        ret (true, None)
      end.

    (* ClientTLSLayer.receive_handshake_data / TLSLayer.receive_handshake_data *)
    Definition receive_handshake_data (d : bytes) : M (bool * option herr) :=
      match me cf with
      | Server => tls_receive_handshake_data d
      | Client =>
        s <- get ;;
        if hello_parsed s then tls_receive_handshake_data d
        else
          modify (fun s => set_recv_buffer (recv_buffer s ++ d) s) ;;;
          s <- get ;;
          match parse_hello (recv_buffer s) with
          | HelloInvalid => ret (false, Some ErrParse)
          | HelloIncomplete => ret (false, None)
          | HelloOk =>
            modify (set_hello_parsed true) ;;;
            emit (TCmd (CHook HClientHello)) ;;;
            start_tls ;;;
            (* if not self.conn.connected: only the CloseConnection of start_tls can have closed it *)
            if negb (provide_tls cf) then ret (false, Some ErrClosedEarly)
            else
              r <- tls_receive_handshake_data (recv_buffer s) ;;
              modify (set_recv_buffer []) ;;;
              ret r
          end
      end.

    (* ServerTLSLayer.start_handshake / ClientTLSLayer.start_handshake *)
    Definition start_handshake : M unit :=
      match me cf with
      | Client => ret tt
      | Server =>
        s <- get ;;
        if negb (reply_to s) && child_is_client_tls cf then
          modify (set_wait_hello true) ;;; modify (set_tunnel_state CLOSED)
        else
          start_tls ;;;
          s <- get ;;
          if has_tls s then (_ <- tls_receive_handshake_data [] ;; ret tt) else ret tt
      end.

    (* TunnelLayer._handle_command, with ServerTLSLayer.event_to_child swallowing the
       OpenConnection of the tunnel connection while wait_for_clienthello *)
    Definition handle_command (c : cmd) : M unit :=
      match c with
      | CSend c' d => if conn_eqb c' (me cf) then send_data d else emit (TCmd c)
      | CClose c' h => emit (TCmd c)                       (* send_close: yield command *)
      | COpen c' =>
        if conn_eqb c' (me cf) then
          (* self.command_to_reply_to = command; self.tunnel_state = ESTABLISHING *)
          modify (fun s => set_tunnel_state ESTABLISHING (set_reply_to true s)) ;;;
          s <- get ;;
          err <- (if wait_hello s then modify (set_wait_hello false) ;;; ret false
                  else emit (TCmd (COpen (me cf))) ;;; pop_open_reply) ;;
          if err then etc (EOpened (me cf) true) ;;; modify (set_tunnel_state CLOSED)
          else start_handshake
        else emit (TCmd c)
      | _ => emit (TCmd c)
      end.
  End Nested.

  (* TunnelLayer.event_to_child (ClientTLSLayer.errored after a failed client handshake) *)
  Fixpoint event_to_child (n : nat) (e : event) : M unit :=
    s <- get ;;
    if errored s then ret tt
    else if tstate_eqb (tunnel_state s) ESTABLISHING && negb (reply_to s) then
      modify (fun s => set_queue (queue s ++ [e]) s)
    else
      match n with
      | O => raise OutOfFuel
      | S n' =>
        cr <- call_child e ;;
        iter (fun c => emit (TFromChild c) ;;; handle_command (event_to_child n') c) (fst cr) ;;;
        if snd cr then raise ChildRaise else ret tt
      end.

  Definition etc_top : event -> M unit := event_to_child (fuel cf).

  (* on_handshake_error of ClientTLSLayer / ServerTLSLayer *)
  Definition on_handshake_error (err : herr) : M unit :=
    match me cf with
    | Client =>
      when (match err with ErrClosedEarly => false | _ => true end) (emit (TCmd CLog)) ;;;
      emit (TCmd (CHook (HTlsFailed Client))) ;;;
      emit (TCmd (CClose Client false)) ;;;
      modify (set_errored true)
    | Server =>
      emit (TCmd CLog) ;;;
      emit (TCmd (CHook (HTlsFailed Server))) ;;;
      emit (TCmd (CClose Server false))
    end.

  (* TunnelLayer._handshake_finished. The for loop runs over the queue as it is when the loop
     starts: nothing can be appended meanwhile, see Proofs (replay_no_requeue). *)
  Definition handshake_finished (err : bool) : M unit :=
    modify (set_tunnel_state (if err then CLOSED else OPEN)) ;;;
    s <- get ;;
    if reply_to s then
      etc_top (EOpened (me cf) err) ;;; modify (set_reply_to false)
    else
      iter (fun e => emit (TReplay e) ;;; etc_top e) (queue s) ;;;
      modify (set_queue []).

  (* TunnelLayer._handle_event *)
  Definition handle_event (e : event) : M unit :=
    match e with
    | EStart =>
      when (open_at_start cf)
        (modify (set_tunnel_state ESTABLISHING) ;;; start_handshake etc_top) ;;;
      etc_top e
    | EData c d =>
      if conn_eqb c (me cf) then
        s <- get ;;
        if tstate_eqb (tunnel_state s) ESTABLISHING then
          de <- receive_handshake_data etc_top d ;;
          match snd de with
          | Some err => on_handshake_error err ;;; handshake_finished true
          | None => when (fst de) (handshake_finished false)
          end
        else receive_data etc_top d
      else etc_top e
    | EClose c =>
      if conn_eqb c (me cf) then
        s <- get ;;
        (if tstate_eqb (tunnel_state s) OPEN then receive_close etc_top
         else if tstate_eqb (tunnel_state s) ESTABLISHING then
           on_handshake_error ErrClosed ;;; handshake_finished true
         else ret tt) ;;;
        modify (set_tunnel_state CLOSED)
      else etc_top e
    | _ => etc_top e
    end.

  (* the layer as seen by its parent: one event in, the commands out; after an escaped
     exception the driver stops feeding events *)
  Definition step (s : st) (e : event) : st * list titem :=
    match crashed s with
    | Some _ => (s, [])
    | None => let '(_, s', tr) := handle_event e s in (s', tr)
    end.
  Fixpoint run (s : st) (evs : list event) : st * list titem :=
    match evs with
    | [] => (s, [])
    | e :: evs' => let '(s1, t1) := step s e in let '(s2, t2) := run s1 evs' in (s2, t1 ++ t2)
    end.

  Definition init (r : R) (replies : list bool) (cs : CS) : st :=
    mkSt INACTIVE [] false false r false [] false false false replies None cs.
End Layer.

Arguments mkSt {R CS}. Arguments tunnel_state {R CS}. Arguments queue {R CS}. Arguments reply_to {R CS}.
Arguments has_tls {R CS}. Arguments tls {R CS}. Arguments hello_parsed {R CS}. Arguments recv_buffer {R CS}.
Arguments errored {R CS}. Arguments wait_hello {R CS}. Arguments close_sent {R CS}.
Arguments open_replies {R CS}. Arguments crashed {R CS}. Arguments cstate {R CS}.
Arguments init {R CS}.

(* projections of traces *)
Definition cmds_of (tr : list titem) : list cmd :=
  flat_map (fun t => match t with TCmd c => [c] | _ => [] end) tr.
(* plaintext given to the child for connection c *)
Definition child_data (c : conn) (tr : list titem) : bytes :=
  flat_map (fun t => match t with TChild (EData c' d) => if conn_eqb c' c then d else [] | _ => [] end) tr.
(* plaintext the child asked to send on c *)
Definition child_sends (c : conn) (tr : list titem) : bytes :=
  flat_map (fun t => match t with TFromChild (CSend c' d) => if conn_eqb c' c then d else [] | _ => [] end) tr.
(* bytes written to the wire of c *)
Definition sent_wire (c : conn) (tr : list titem) : bytes :=
  flat_map (fun t => match t with TCmd (CSend c' d) => if conn_eqb c' c then d else [] | _ => [] end) tr.
(* number of ConnectionClosed(c) given to the child *)
Definition child_closes (c : conn) (tr : list titem) : nat :=
  length (filter (fun t => match t with TChild (EClose c') => conn_eqb c' c | _ => false end) tr).
Definition drops (tr : list titem) : nat :=
  length (filter (fun t => match t with TDrop _ => true | _ => false end) tr).
Definition replayed (tr : list titem) : list event :=
  flat_map (fun t => match t with TReplay e => [e] | _ => [] end) tr.
(* wire bytes received on c *)
Definition tunnel_data (c : conn) (evs : list event) : bytes :=
  flat_map (fun e => match e with EData c' d => if conn_eqb c' c then d else [] | _ => [] end) evs.
