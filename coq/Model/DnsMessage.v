(* Model/DnsMessage.v -- mitmproxy/dns.py: DNSMessage.unpack / unpack_from / packed, and
   mitmproxy/proxy/layers/dns.py: pack_message and the forward path (unpack, no addon
   change, pack_message).  Executable definitions only.  Integer fields are N (negative
   Python ints are outside the model); the timestamp is not a wire field and is omitted.
   The flag word is modelled arithmetically (shifts and masks by powers of two). *)
From Coq Require Import List Bool Arith NArith Lia.
From MV Require Import Base.Bytes Model.DnsNames.
Import ListNotations.

Record question := mkQ { q_name : name; q_type : N; q_class : N }.
Record rr := mkRR { r_name : name; r_type : N; r_class : N; r_ttl : N; r_data : bytes }.
Record message := mkMsg {
  m_id : N; m_query : bool; m_op_code : N; m_aa : bool; m_tc : bool; m_rd : bool; m_ra : bool;
  m_reserved : N; m_rcode : N;
  m_questions : list question; m_answers : list rr; m_authorities : list rr;
  m_additionals : list rr }.

Definition put_u32be (n : N) : bytes :=
  [Nb (n / 16777216 mod 256); Nb (n / 65536 mod 256); Nb (n / 256 mod 256); Nb (n mod 256)]%N.
Definition u32be (a b c d : byte) : N :=
  (bN a * 16777216 + bN b * 65536 + bN c * 256 + bN d)%N.

(* ---------- unpack_from ---------- *)

Definition bit (flags : N) (k : N) : bool := ((flags / 2 ^ k) mod 2 =? 1)%N.

(* the closure unpack_domain_name: returns name, new offset, new cache *)
Definition unpack_domain_name (buf : bytes) (off : nat) (c : cache)
  : result (name * nat) * cache :=
  match unpack_fwc buf off c with
  | (Ok (n, len), c') => (Ok (n, off + len), c')
  | (Err e, c') => (Err e, c')
  end.

Fixpoint unpack_questions (count : nat) (buf : bytes) (off : nat) (c : cache)
  : result (list question * nat * cache) :=
  match count with
  | O => Ok ([], off, c)
  | S k =>
      match unpack_domain_name buf off c with
      | (Err e, _) => Err e
      | (Ok (n, off1), c1) =>
          match skipn off1 buf with
          | t1 :: t2 :: c1b :: c2b :: _ =>
              match unpack_questions k buf (off1 + 4) c1 with
              | Err e => Err e
              | Ok (qs, off2, c2) => Ok (mkQ n (u16be t1 t2) (u16be c1b c2b) :: qs, off2, c2)
              end
          | _ => Err EStruct
          end
      end
  end.

Fixpoint unpack_rrs (count : nat) (buf : bytes) (off : nat) (c : cache)
  : result (list rr * nat * cache) :=
  match count with
  | O => Ok ([], off, c)
  | S k =>
      match unpack_domain_name buf off c with
      | (Err e, _) => Err e
      | (Ok (n, off1), c1) =>
          match skipn off1 buf with
          | t1 :: t2 :: k1 :: k2 :: l1 :: l2 :: l3 :: l4 :: d1 :: d2 :: _ =>
              let type := u16be t1 t2 in
              let len_data := N.to_nat (u16be d1 d2) in
              let off2 := off1 + 10 in
              let end_data := off2 + len_data in
              if length buf <? end_data then Err EStruct
              else
                let dres :=
                  if record_data_can_have_compression type
                  then decompress_from_record_data buf off2 end_data c1
                  else (Ok (firstn len_data (skipn off2 buf)), c1) in
                match dres with
                | (Err e, _) => Err e
                | (Ok data, c2) =>
                    match unpack_rrs k buf end_data c2 with
                    | Err e => Err e
                    | Ok (rs, off3, c3) =>
                        Ok (mkRR n type (u16be k1 k2) (u32be l1 l2 l3 l4) data :: rs, off3, c3)
                    end
                end
          | _ => Err EStruct
          end
      end
  end.

Definition unpack_from (buf : bytes) (off : nat) : result (nat * message) :=
  match skipn off buf with
  | i1 :: i2 :: f1 :: f2 :: q1 :: q2 :: a1 :: a2 :: n1 :: n2 :: x1 :: x2 :: _ =>
      let flags := u16be f1 f2 in
      match unpack_questions (N.to_nat (u16be q1 q2)) buf (off + 12) [] with
      | Err e => Err e
      | Ok (qs, o1, c1) =>
      match unpack_rrs (N.to_nat (u16be a1 a2)) buf o1 c1 with
      | Err e => Err e
      | Ok (ans, o2, c2) =>
      match unpack_rrs (N.to_nat (u16be n1 n2)) buf o2 c2 with
      | Err e => Err e
      | Ok (aut, o3, c3) =>
      match unpack_rrs (N.to_nat (u16be x1 x2)) buf o3 c3 with
      | Err e => Err e
      | Ok (add, o4, _) =>
          Ok (o4, mkMsg (u16be i1 i2) (negb (bit flags 15)) ((flags / 2048) mod 16)%N
                    (bit flags 10) (bit flags 9) (bit flags 8) (bit flags 7)
                    ((flags / 16) mod 8)%N (flags mod 16)%N qs ans aut add)
      end end end end
  | _ => Err EStruct
  end.

Definition unpack (buf : bytes) : result message :=
  match unpack_from buf 0 with
  | Err e => Err e
  | Ok (len, m) => if len =? length buf then Ok m else Err EStruct
  end.

(* ---------- packed ---------- *)

Definition b2n (b : bool) (v : N) : N := if b then v else 0%N.

Definition flags_of (m : message) : N :=
  (b2n (negb (m_query m)) 32768 + m_op_code m * 2048 + b2n (m_aa m) 1024 + b2n (m_tc m) 512
   + b2n (m_rd m) 256 + b2n (m_ra m) 128 + m_reserved m * 16 + m_rcode m)%N.

(* struct.pack of an H field: struct.error when out of range *)
Definition pack_u16 (n : N) : result bytes :=
  if (n <? 65536)%N then Ok (put_u16be n) else Err EStruct.
Definition pack_u32 (n : N) : result bytes :=
  if (n <? 4294967296)%N then Ok (put_u32be n) else Err EStruct.

Definition bind {A B} (r : result A) (f : A -> result B) : result B :=
  match r with Ok a => f a | Err e => Err e end.

Definition pack_header (m : message) : result bytes :=
  if (65535 <? m_id m)%N then Err EValue
  else if (15 <? m_op_code m)%N then Err EValue
  else if (7 <? m_reserved m)%N then Err EValue
  else if (15 <? m_rcode m)%N then Err EValue
  else
    bind (pack_u16 (N.of_nat (length (m_questions m)))) (fun q =>
    bind (pack_u16 (N.of_nat (length (m_answers m)))) (fun a =>
    bind (pack_u16 (N.of_nat (length (m_authorities m)))) (fun n =>
    bind (pack_u16 (N.of_nat (length (m_additionals m)))) (fun x =>
      Ok (put_u16be (m_id m) ++ put_u16be (flags_of m) ++ q ++ a ++ n ++ x))))).

Definition pack_question (q : question) : result bytes :=
  bind (pack (q_name q)) (fun n =>
  bind (pack_u16 (q_type q)) (fun t =>
  bind (pack_u16 (q_class q)) (fun c => Ok (n ++ t ++ c)))).

Definition pack_rr (r : rr) : result bytes :=
  bind (pack (r_name r)) (fun n =>
  bind (pack_u16 (r_type r)) (fun t =>
  bind (pack_u16 (r_class r)) (fun c =>
  bind (pack_u32 (r_ttl r)) (fun l =>
  bind (pack_u16 (N.of_nat (length (r_data r)))) (fun d =>
    Ok (n ++ t ++ c ++ l ++ d ++ r_data r)))))).

Fixpoint pack_list {A} (f : A -> result bytes) (l : list A) : result bytes :=
  match l with
  | [] => Ok []
  | x :: r => bind (f x) (fun b => bind (pack_list f r) (fun bs => Ok (b ++ bs)))
  end.

Definition packed (m : message) : result bytes :=
  bind (pack_header m) (fun h =>
  bind (pack_list pack_question (m_questions m)) (fun qs =>
  bind (pack_list pack_rr (m_answers m ++ m_authorities m ++ m_additionals m)) (fun rs =>
    Ok (h ++ qs ++ rs)))).

(* ---------- layers/dns.py ---------- *)

Definition pack_message (m : message) (tcp : bool) : result bytes :=
  bind (packed m) (fun p =>
    if tcp then bind (pack_u16 (N.of_nat (length p))) (fun l => Ok (l ++ p)) else Ok p).

(* one datagram through the layer with no addon change: unpack, then pack_message *)
Definition forward_udp (buf : bytes) : result bytes :=
  bind (unpack buf) (fun m => pack_message m false).

(* one length-prefixed message of a TCP stream through the layer: unpack_message copies the frame
   out (so compression pointers are relative to the message, not to the stream buffer), then
   pack_message with the 2-byte length prefix *)
Definition forward_tcp_frame (msg : bytes) : result bytes :=
  bind (unpack msg) (fun m => pack_message m true).

(* a stream of frames that are all forwarded: the bytes sent on, in order; None as soon as one is not *)
Fixpoint forward_tcp_stream (msgs : list bytes) : option bytes :=
  match msgs with
  | [] => Some []
  | m :: r => match forward_tcp_frame m, forward_tcp_stream r with
              | Ok f, Some o => Some (f ++ o)
              | _, _ => None
              end
  end.
