(* Model/View.v -- executable model of mitmproxy/addons/view.py (View, _OrderKey, Focus, Settings)
   and of the part of sortedcontainers.SortedKeyList it uses.  No proofs here.

   Python objects: a flow object is identified by its id; its mutable attributes (sort keys,
   filter verdicts, marked) live in [heap]; store, view and focus hold references (ids).
   SortedKeyList: parallel lists _lists/_keys are a list of (key, id) pairs; the key of an element is
   computed once when it is inserted (as in the library).  bisect on the sorted list is a linear scan.
   Exceptions are explicit: [Err EValue | EKey | EIndex]. *)
From Coq Require Import List Bool Arith NArith ZArith.
From MV Require Import Base.Bytes.
Import ListNotations.

(* the five _OrderKey objects of a View: default_order (a second OrderRequestStart, selected initially
   and never again) and orders[time|method|url|size]; each has its own cache slot *)
Inductive order := ODefault | OTime | OMethod | OUrl | OSize.

Definition order_eqb (a b : order) : bool :=
  match a, b with
  | ODefault, ODefault | OTime, OTime | OMethod, OMethod | OUrl, OUrl | OSize, OSize => true
  | _, _ => false
  end.

(* a flow object: id, the value each _OrderKey.generate returns now, the verdict of every filter of the
   dictionary (index n-1 for filter n; filter 0 is flowfilter.match_all), the marked flag *)
Record flow := mkFlow {
  fid : N; ktime : N; kmethod : N; kurl : N; ksize : N; fmatch : list bool; fmarked : bool }.

(* OrderRequestStart/Method/URL/KeySize .generate *)
Definition generate (o : order) (f : flow) : N :=
  match o with ODefault => ktime f | OTime => ktime f | OMethod => kmethod f | OUrl => kurl f | OSize => ksize f end.

(* self.filter(f) *)
Definition fmatches (flt : nat) (f : flow) : bool :=
  match flt with O => true | S n => nth n (fmatch f) false end.

(* settings[f] restricted to the _order_<id> entries *)
Record cache := mkCache { c_default : option N; c_time : option N; c_method : option N; c_url : option N; c_size : option N }.
Definition cempty := mkCache None None None None None.
Definition cget (o : order) (c : cache) : option N :=
  match o with ODefault => c_default c | OTime => c_time c | OMethod => c_method c | OUrl => c_url c | OSize => c_size c end.
Definition cset (o : order) (k : N) (c : cache) : cache :=
  match o with
  | ODefault => mkCache (Some k) (c_time c) (c_method c) (c_url c) (c_size c)
  | OTime => mkCache (c_default c) (Some k) (c_method c) (c_url c) (c_size c)
  | OMethod => mkCache (c_default c) (c_time c) (Some k) (c_url c) (c_size c)
  | OUrl => mkCache (c_default c) (c_time c) (c_method c) (Some k) (c_size c)
  | OSize => mkCache (c_default c) (c_time c) (c_method c) (c_url c) (Some k)
  end.

Inductive sig :=
| ViewAdd (id : N) | ViewRemove (id : N) (idx : nat) | ViewUpdate (id : N) | ViewRefresh
| StoreRemove (id : N) | StoreRefresh.

Inductive err := EValue | EKey | EIndex.
Inductive result (A : Type) := Ok (a : A) | Err (e : err).
Arguments Ok {A} a. Arguments Err {A} e.

Record state := mkState {
  heap : list flow;              (* attributes of every flow object seen so far *)
  store : list N;                (* View._store (OrderedDict), insertion order *)
  view : list (N * N);           (* View._view: (key, id), ascending *)
  filt : nat;                    (* View.filter: index into the filter dictionary, 0 = match_all *)
  okey : order;                  (* View.order_key *)
  reversed : bool;               (* View.order_reversed *)
  show_marked : bool;
  focus_follow : bool;
  focus : option N;              (* Focus._flow *)
  settings : list (N * cache);   (* Settings._values *)
  log : list sig                 (* signals sent during the current operation *)
}.

(* add/update after fixes/C43-marked-only-add-update.diff:
   self.filter(f) and not (self.show_marked and not f.marked) *)
Definition shows (s : state) (f : flow) : bool :=
  fmatches (filt s) f && negb (show_marked s && negb (fmarked f)).

Definition init : state := mkState [] [] [] 0 ODefault false false false None [] [].

Definition set_heap x s := mkState x (store s) (view s) (filt s) (okey s) (reversed s) (show_marked s) (focus_follow s) (focus s) (settings s) (log s).
Definition set_store x s := mkState (heap s) x (view s) (filt s) (okey s) (reversed s) (show_marked s) (focus_follow s) (focus s) (settings s) (log s).
Definition set_view x s := mkState (heap s) (store s) x (filt s) (okey s) (reversed s) (show_marked s) (focus_follow s) (focus s) (settings s) (log s).
Definition set_filt x s := mkState (heap s) (store s) (view s) x (okey s) (reversed s) (show_marked s) (focus_follow s) (focus s) (settings s) (log s).
Definition set_okey x s := mkState (heap s) (store s) (view s) (filt s) x (reversed s) (show_marked s) (focus_follow s) (focus s) (settings s) (log s).
Definition set_reversed_f x s := mkState (heap s) (store s) (view s) (filt s) (okey s) x (show_marked s) (focus_follow s) (focus s) (settings s) (log s).
Definition set_show_marked x s := mkState (heap s) (store s) (view s) (filt s) (okey s) (reversed s) x (focus_follow s) (focus s) (settings s) (log s).
Definition set_focus_follow_f x s := mkState (heap s) (store s) (view s) (filt s) (okey s) (reversed s) (show_marked s) x (focus s) (settings s) (log s).
Definition set_focus x s := mkState (heap s) (store s) (view s) (filt s) (okey s) (reversed s) (show_marked s) (focus_follow s) x (settings s) (log s).
Definition set_settings x s := mkState (heap s) (store s) (view s) (filt s) (okey s) (reversed s) (show_marked s) (focus_follow s) (focus s) x (log s).
Definition set_log x s := mkState (heap s) (store s) (view s) (filt s) (okey s) (reversed s) (show_marked s) (focus_follow s) (focus s) (settings s) x.

(* ---- exception/state monad ---- *)
Definition M (A : Type) := state -> result (A * state).
Definition ret {A} (a : A) : M A := fun s => Ok (a, s).
Definition bind {A B} (m : M A) (k : A -> M B) : M B :=
  fun s => match m s with Ok (a, s') => k a s' | Err e => Err e end.
Definition raise {A} (e : err) : M A := fun _ => Err e.
Definition gets {A} (f : state -> A) : M A := fun s => Ok (f s, s).
Definition modify (f : state -> state) : M unit := fun s => Ok (tt, f s).
Notation "x <- m ;; k" := (bind m (fun x => k)) (at level 61, m at next level, right associativity).
Notation "m ;;; k" := (bind m (fun _ => k)) (at level 61, right associativity).

Fixpoint forM {A} (l : list A) (f : A -> M unit) : M unit :=
  match l with [] => ret tt | x :: t => f x ;;; forM t f end.
Fixpoint mapM {A B} (f : A -> M B) (l : list A) : M (list B) :=
  match l with [] => ret [] | x :: t => y <- f x ;; ys <- mapM f t ;; ret (y :: ys) end.

(* ---- heap, store and settings dictionaries ---- *)
Definition memN (x : N) (l : list N) : bool := existsb (N.eqb x) l.

Fixpoint hget (h : list flow) (id : N) : flow :=
  match h with
  | [] => mkFlow id 0 0 0 0 [] false
  | f :: t => if N.eqb (fid f) id then f else hget t id
  end.
Fixpoint hset (h : list flow) (f : flow) : list flow :=
  match h with
  | [] => [f]
  | g :: t => if N.eqb (fid g) (fid f) then f :: t else g :: hset t f
  end.
Definition attr (s : state) (id : N) : flow := hget (heap s) id.

Fixpoint sget (l : list (N * cache)) (id : N) : option cache :=
  match l with
  | [] => None
  | (i, c) :: t => if N.eqb i id then Some c else sget t id
  end.
Fixpoint sset (l : list (N * cache)) (id : N) (c : cache) : list (N * cache) :=
  match l with
  | [] => [(id, c)]
  | (i, c0) :: t => if N.eqb i id then (id, c) :: t else (i, c0) :: sset t id c
  end.
Definition sdel (l : list (N * cache)) (id : N) : list (N * cache) :=
  filter (fun e => negb (N.eqb (fst e) id)) l.

(* ---- _OrderKey.__call__ : cached per flow id while the flow is stored ---- *)
Definition okey_call (o : order) (id : N) : M N := fun s =>
  let f := attr s id in
  if memN id (store s) then
    match sget (settings s) id with          (* s = self.view.settings[f]  (setdefault) *)
    | Some c =>
        match cget o c with
        | Some k => Ok (k, s)
        | None => let v := generate o f in Ok (v, set_settings (sset (settings s) id (cset o v c)) s)
        end
    | None => let v := generate o f in Ok (v, set_settings (sset (settings s) id (cset o v cempty)) s)
    end
  else Ok (generate o f, s).

(* ---- sortedcontainers.SortedKeyList over (key, id) pairs ---- *)
Fixpoint sl_add (k id : N) (l : list (N * N)) : list (N * N) :=      (* insert at bisect_right *)
  match l with
  | [] => [(k, id)]
  | (k', id') :: t => if N.leb k' k then (k', id') :: sl_add k id t else (k, id) :: l
  end.
Fixpoint sl_index (k id : N) (l : list (N * N)) : option nat :=      (* bisect_left, then scan the run of equal keys *)
  match l with
  | [] => None
  | (k', id') :: t =>
      if N.ltb k' k then option_map S (sl_index k id t)
      else if N.eqb k' k then (if N.eqb id' id then Some O else option_map S (sl_index k id t))
      else None
  end.
Fixpoint sl_remove (k id : N) (l : list (N * N)) : option (list (N * N)) :=
  match l with
  | [] => None
  | (k', id') :: t =>
      if N.ltb k' k then option_map (cons (k', id')) (sl_remove k id t)
      else if N.eqb k' k then (if N.eqb id' id then Some t else option_map (cons (k', id')) (sl_remove k id t))
      else None
  end.
Fixpoint sl_bisect_right (k : N) (l : list (N * N)) : nat :=
  match l with
  | [] => O
  | (k', _) :: t => if N.leb k' k then S (sl_bisect_right k t) else O
  end.
(* update() of an empty list: sorted(values, key) is a stable sort = successive bisect_right insertion *)
Definition sl_sorted (kv : list (N * N)) : list (N * N) :=
  fold_left (fun acc e => sl_add (fst e) (snd e) acc) kv [].

(* the methods of self._view, with self._key = the current order key *)
Definition _view_key (id : N) : M N := o <- gets okey ;; okey_call o id.
Definition _view_find (id : N) : M (option nat) :=      (* common part of __contains__ and index *)
  v <- gets view ;;
  match v with
  | [] => ret None                                  (* empty list: the key function is not called *)
  | _ => k <- _view_key id ;; v <- gets view ;; ret (sl_index k id v)
  end.
Definition _view_contains (id : N) : M bool :=
  r <- _view_find id ;; ret (match r with Some _ => true | None => false end).
Definition _view_index (id : N) : M nat :=
  r <- _view_find id ;; match r with Some i => ret i | None => raise EValue end.
Definition _view_remove (id : N) : M unit :=
  v <- gets view ;;
  match v with
  | [] => raise EValue
  | _ => k <- _view_key id ;; v <- gets view ;;
         match sl_remove k id v with Some v' => modify (set_view v') | None => raise EValue end
  end.
Definition _view_add (id : N) : M unit :=
  k <- _view_key id ;; modify (fun s => set_view (sl_add k id (view s)) s).
Definition _view_bisect_right (id : N) : M nat :=
  k <- _view_key id ;; v <- gets view ;; ret (sl_bisect_right k v).
Definition _view_getitem (i : Z) : M N :=              (* SortedList.__getitem__(int) *)
  v <- gets view ;;
  let n := Z.of_nat (length v) in
  let j := if Z.ltb i 0 then Z.add i n else i in
  if Z.ltb j 0 || Z.leb n j then raise EIndex
  else match nth_error v (Z.to_nat j) with Some e => ret (snd e) | None => raise EIndex end.

(* ---- View: sequence protocol ---- *)
Definition view_len : M Z := v <- gets view ;; ret (Z.of_nat (length v)).
Definition _rev (idx : Z) : M Z :=
  r <- gets reversed ;;
  if r then
    if Z.ltb idx 0 then ret (Z.sub (Z.opp idx) 1)
    else n <- view_len ;;
         let i := Z.sub (Z.sub n idx) 1 in
         if Z.ltb i 0 then raise EIndex else ret i
  else ret idx.
Definition view_getitem (offset : Z) : M N := i <- _rev offset ;; _view_getitem i.
Definition _bisect (id : N) : M Z :=
  v <- _view_bisect_right id ;; r <- _rev (Z.sub (Z.of_nat v) 1) ;; ret (Z.add r 1).
Definition view_contains (id : N) : M bool := _view_contains id.

(* ---- Focus ---- *)
Definition focus_set_flow (f : option N) : M unit :=
  match f with
  | None => modify (set_focus None)
  | Some id => b <- view_contains id ;;
               if b then modify (set_focus (Some id)) else raise EValue
  end.
Definition focus_set_index (idx : Z) : M unit :=
  n <- view_len ;;
  if Z.ltb idx 0 || Z.ltb (Z.sub n 1) idx then raise EValue
  else f <- view_getitem idx ;; focus_set_flow (Some f).
Definition focus_nearest (id : N) : M Z :=
  b <- _bisect id ;; n <- view_len ;; ret (Z.min b (Z.sub n 1)).
Definition focus_sig_view_remove (id : N) (index : nat) : M unit :=
  n <- view_len ;;
  if Z.eqb n 0 then focus_set_flow None
  else fo <- gets focus ;;
       match fo with
       | Some g => if N.eqb g id then focus_set_index (Z.min (Z.of_nat index) (Z.sub n 1)) else ret tt
       | None => ret tt
       end.
Definition focus_sig_view_refresh : M unit :=
  n <- view_len ;;
  if Z.eqb n 0 then focus_set_flow None
  else fo <- gets focus ;;
       match fo with
       | None => f <- view_getitem 0 ;; focus_set_flow (Some f)
       | Some g => b <- view_contains g ;;
                   if b then ret tt
                   else i <- focus_nearest g ;; f <- view_getitem i ;; focus_set_flow (Some f)
       end.
Definition focus_sig_view_add (id : N) : M unit :=
  fo <- gets focus ;;
  match fo with None => focus_set_flow (Some id) | Some _ => ret tt end.

(* ---- Settings ---- *)
Definition settings_getitem (id : N) : M cache :=          (* Settings.__getitem__: KeyError / setdefault *)
  st <- gets store ;;
  if memN id st then
    ss <- gets settings ;;
    match sget ss id with
    | Some c => ret c
    | None => modify (fun s => set_settings (sset (settings s) id cempty) s) ;;; ret cempty
    end
  else raise EKey.
Definition settings_sig_store_remove (id : N) : M unit :=
  modify (fun s => set_settings (sdel (settings s) id) s).
Definition settings_sig_store_refresh : M unit :=
  modify (fun s => set_settings (filter (fun e => memN (fst e) (store s)) (settings s)) s).

(* ---- signals: record, then run the connected receivers ---- *)
Definition emit (e : sig) : M unit := modify (fun s => set_log (log s ++ [e]) s).
Definition send_view_add (id : N) : M unit := emit (ViewAdd id) ;;; focus_sig_view_add id.
Definition send_view_remove (id : N) (idx : nat) : M unit := emit (ViewRemove id idx) ;;; focus_sig_view_remove id idx.
Definition send_view_update (id : N) : M unit := emit (ViewUpdate id).
Definition send_view_refresh : M unit := emit ViewRefresh ;;; focus_sig_view_refresh.
Definition send_store_remove (id : N) : M unit := emit (StoreRemove id) ;;; settings_sig_store_remove id.
Definition send_store_refresh : M unit := emit StoreRefresh ;;; settings_sig_store_refresh.

(* ---- _OrderKey.refresh ---- *)
Definition okey_refresh (o : order) (id : N) : M unit :=
  c <- settings_getitem id ;;
  match cget o c with
  | None => raise EKey
  | Some old =>
      f <- gets (fun s => attr s id) ;;
      let new := generate o f in
      if N.eqb old new then ret tt
      else _view_remove id ;;;
           c' <- settings_getitem id ;;
           modify (fun s => set_settings (sset (settings s) id (cset o new c')) s) ;;;
           _view_add id ;;;
           send_view_refresh
  end.

(* ---- View ---- *)
(* self.settings[f]["_order_<id(o)>"] = o.generate(f)   (fixes/C43-stale-order-key.diff: always regenerate) *)
Definition regen (o : order) (id : N) : M unit :=
  f <- gets (fun s => attr s id) ;;                        (* right-hand side first *)
  c <- settings_getitem id ;;
  modify (fun s => set_settings (sset (settings s) id (cset o (generate o f) c)) s).

Definition _base_add (id : N) : M unit :=
  o <- gets okey ;;
  regen o id ;;;
  _view_add id.

Definition _refilter : M unit :=
  modify (set_view []) ;;;
  st <- gets store ;;
  forM st (fun i =>
    s <- gets (fun s => s) ;;
    if show_marked s && negb (fmarked (attr s i)) then ret tt
    else if fmatches (filt s) (attr s i) then _base_add i else ret tt) ;;;
  send_view_refresh.

Definition set_reversed (b : bool) : M unit :=
  modify (set_reversed_f b) ;;; send_view_refresh.

Definition set_order (o : order) : M unit :=
  modify (set_okey o) ;;;
  ids <- gets (fun s => map snd (view s)) ;;
  forM ids (regen o) ;;;                                   (* keys cached for this order may be outdated *)
  kv <- mapM (fun id => k <- okey_call o id ;; ret (k, id)) ids ;;
  modify (set_view (sl_sorted kv)).

Definition set_filter (n : nat) : M unit := modify (set_filt n) ;;; _refilter.

Definition clear : M unit :=
  modify (set_store []) ;;; modify (set_view []) ;;; send_view_refresh ;;; send_store_refresh.

Definition clear_not_marked : M unit :=
  modify (fun s => set_store (filter (fun i => fmarked (attr s i)) (store s)) s) ;;;
  _refilter ;;; send_store_refresh.

Definition remove (ids : list N) : M unit :=
  forM ids (fun id =>
    st <- gets store ;;
    if memN id st then
      b <- _view_contains id ;;
      (if b then idx <- _view_index id ;; _view_remove id ;;; send_view_remove id idx else ret tt) ;;;
      modify (fun s => set_store (filter (fun i => negb (N.eqb i id)) (store s)) s) ;;;
      send_store_remove id
    else ret tt).

(* add(flows): the objects passed are [fs]; an object whose id is already stored is ignored *)
Definition add (fs : list flow) : M unit :=
  forM fs (fun f =>
    let id := fid f in
    st <- gets store ;;
    if memN id st then ret tt
    else
      modify (fun s => set_store (store s ++ [id]) (set_heap (hset (heap s) f) s)) ;;;
      s1 <- gets (fun s => s) ;;
      if shows s1 f then
        _base_add id ;;;
        ff <- gets focus_follow ;;
        (if ff then focus_set_flow (Some id) else ret tt) ;;;
        send_view_add id
      else ret tt).

Definition toggle_marked : M unit :=
  modify (fun s => set_show_marked (negb (show_marked s)) s) ;;; _refilter.

Definition update (ids : list N) : M unit :=
  forM ids (fun id =>
    st <- gets store ;;
    if memN id st then
      s <- gets (fun s => s) ;;
      if shows s (attr s id) then
        b <- _view_contains id ;;
        if negb b then
          _base_add id ;;;
          ff <- gets focus_follow ;;
          (if ff then focus_set_flow (Some id) else ret tt) ;;;
          send_view_add id
        else
          o <- gets okey ;; okey_refresh o id ;;; send_view_update id
      else
        r <- _view_find id ;;
        match r with
        | None => ret tt                                     (* index raised ValueError: pass *)
        | Some idx => _view_remove id ;;; send_view_remove id idx
        end
    else ret tt).

(* the flow objects [fs] are mutated, then update(fs) is called *)
Definition mutate (fs : list flow) : M unit :=
  forM fs (fun f => modify (fun s => set_heap (hset (heap s) f) s)).

(* ---- operations and histories ---- *)
Inductive op :=
| Add (f : flow) | Update (f : flow) | Remove (id : N)
| SetFilter (n : nat) | SetOrder (o : order) | SetReversed (b : bool)
| ToggleMarked | Clear | ClearNotMarked | SetFocusFollow (b : bool).

Definition do_op (o : op) : M unit :=
  match o with
  | Add f => add [f]
  | Update f => mutate [f] ;;; update [fid f]
  | Remove id => remove [id]
  | SetFilter n => set_filter n
  | SetOrder o => set_order o
  | SetReversed b => set_reversed b
  | ToggleMarked => toggle_marked
  | Clear => clear
  | ClearNotMarked => clear_not_marked
  | SetFocusFollow b => modify (set_focus_follow_f b)
  end.

Definition step (o : op) (s : state) : result state :=
  match do_op o (set_log [] s) with Ok (_, s') => Ok s' | Err e => Err e end.

Fixpoint run (ops : list op) (s : state) : result state :=
  match ops with
  | [] => Ok s
  | o :: t => match step o s with Ok s' => run t s' | Err e => Err e end
  end.

(* list(view): Sequence.__iter__ through __getitem__ and _rev *)
Definition raw_ids (s : state) : list N := map snd (view s).
Definition visible (s : state) : list N := if reversed s then rev (raw_ids s) else raw_ids s.
Definition settings_ids (s : state) : list N := map fst (settings s).
