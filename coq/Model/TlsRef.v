(* Model/TlsRef.v -- C13.  Independent reference description of a ClientHello flight, written from the RFCs
   in the TLS presentation language (a grammar = an abstract value plus its wire encoding), not from
   mitmproxy:
     RFC 8446 4.1.2 / RFC 5246 7.4.1.2  ClientHello
     RFC 6347 4.2.1, 4.2.2              DTLS cookie, DTLS handshake header
     RFC 8446 4.2                        Extension { extension_type; opaque extension_data<0..2^16-1> }
     RFC 6066 3                          ServerNameList, HostName
     RFC 7301 3.1                        ProtocolNameList
     RFC 8446 5.1 / RFC 6347 4.1         record layer (TLSPlaintext / DTLSPlaintext), type handshake = 22
   What the reference reads (ref_sni, ref_alpn, ref_ciphers, ref_exts) is read off the abstract value.
   This file does not import the model. *)
From Coq Require Import List Bool NArith Lia.
From MV Require Import Base.Bytes.
Import ListNotations.
Local Open Scope N_scope.

Definition len (b : bytes) : N := N.of_nat (length b).
Definition put_u8 (n : N) : bytes := [Nb n].
Definition put_u24 (n : N) : bytes := [Nb (n / 65536 mod 256); Nb (n / 256 mod 256); Nb (n mod 256)].
Definition vec8 (b : bytes) : bytes := put_u8 (len b) ++ b.        (* opaque x<..2^8-1>  *)
Definition vec16 (b : bytes) : bytes := put_u16be (len b) ++ b.    (* opaque x<..2^16-1> *)

(* --- host names (RFC 6066: ASCII DNS host name without trailing dot) --- *)
Definition ref_label_char (b : byte) : bool :=
  is_alpha b || is_digit b || byte_eqb b x2d || byte_eqb b x5f.
Definition ref_label (l : bytes) : Prop :=
  l <> [] /\ len l <= 63 /\ forallb ref_label_char l = true.
Fixpoint join_dot (ls : list bytes) : bytes :=
  match ls with
  | [] => []
  | [l] => l
  | l :: t => l ++ x2e :: join_dot t
  end.

(* --- extensions --- *)
Inductive rext :=
| RSni (labels : list bytes)          (* server_name with the single HostName join_dot labels *)
| RAlpn (protos : list bytes)         (* application_layer_protocol_negotiation *)
| ROther (ty : N) (body : bytes).     (* anything else, GREASE included: opaque *)

Definition ext_type_of (e : rext) : N :=
  match e with RSni _ => 0 | RAlpn _ => 16 | ROther ty _ => ty end.
Definition ext_data (e : rext) : bytes :=
  match e with
  | RSni ls => vec16 (x00 :: vec16 (join_dot ls))      (* ServerNameList of one { host_name(0), HostName } *)
  | RAlpn ps => vec16 (concat (map vec8 ps))           (* ProtocolNameList *)
  | ROther _ body => body
  end.
Definition enc_ext (e : rext) : bytes := put_u16be (ext_type_of e) ++ vec16 (ext_data e).

Record rhello := {
  r_ver : byte * byte;        (* legacy_version / client_version *)
  r_random : bytes;           (* 32 bytes *)
  r_sid : bytes;              (* legacy_session_id<0..32> *)
  r_cookie : bytes;           (* DTLS only: cookie<0..2^8-1> *)
  r_ciphers : list N;         (* cipher_suites<2..2^16-2> *)
  r_comp : bytes;             (* legacy_compression_methods<1..2^8-1> *)
  r_exts : option (list rext) (* None: the message ends after the compression methods *)
}.

Definition enc_hello (dtls : bool) (r : rhello) : bytes :=
  [fst (r_ver r); snd (r_ver r)] ++ r_random r ++ vec8 (r_sid r)
  ++ (if dtls then vec8 (r_cookie r) else [])
  ++ vec16 (concat (map put_u16be (r_ciphers r)))
  ++ vec8 (r_comp r)
  ++ match r_exts r with None => [] | Some es => vec16 (concat (map enc_ext es)) end.

(* Handshake { client_hello(1), uint24 length, [DTLS: message_seq, fragment_offset = 0, fragment_length = length] } *)
Definition enc_handshake (dtls : bool) (mseq : byte * byte) (r : rhello) : bytes :=
  let body := enc_hello dtls r in
  x01 :: put_u24 (len body)
  ++ (if dtls then [fst mseq; snd mseq] ++ put_u24 0 ++ put_u24 (len body) else [])
  ++ body.

(* One RFC 6347 4.2.3 fragment of the message: own header with fragment_offset / fragment_length *)
Definition enc_fragment (mseq : byte * byte) (body : bytes) (off n : nat) : bytes :=
  x01 :: put_u24 (len body) ++ [fst mseq; snd mseq] ++ put_u24 (N.of_nat off) ++ put_u24 (N.of_nat n)
  ++ firstn n (skipn off body).

(* --- well-formedness (the vector bounds of the presentation language) --- *)
Definition wf_ext (e : rext) : Prop :=
  match e with
  | RSni ls => ls <> [] /\ Forall ref_label ls /\ len (join_dot ls) <= 253
  | RAlpn ps => ps <> [] /\ Forall (fun p => 1 <= len p <= 255) ps
                /\ len (concat (map vec8 ps)) < 65534
  | ROther ty body => ty < 65536 /\ ty <> 0 /\ ty <> 16 /\ len body < 65536
  end.

Definition wf_hello (r : rhello) : Prop :=
  len (r_random r) = 32
  /\ len (r_sid r) <= 32
  /\ len (r_cookie r) <= 255
  /\ r_ciphers r <> [] /\ Forall (fun c => c < 65536) (r_ciphers r) /\ N.of_nat (length (r_ciphers r)) <= 32767
  /\ 1 <= len (r_comp r) <= 255
  /\ match r_exts r with
     | None => True
     | Some es => Forall wf_ext es /\ len (concat (map enc_ext es)) < 65536
     end.

(* --- what an independent reader of this grammar reports --- *)
Fixpoint find_sni (es : list rext) : option bytes :=
  match es with [] => None | RSni ls :: _ => Some (join_dot ls) | _ :: t => find_sni t end.
Fixpoint find_alpn (es : list rext) : list bytes :=
  match es with [] => [] | RAlpn ps :: _ => ps | _ :: t => find_alpn t end.
Definition exts_list (r : rhello) : list rext := match r_exts r with Some es => es | None => [] end.
Definition ref_sni (r : rhello) : option bytes := find_sni (exts_list r).
Definition ref_alpn (r : rhello) : list bytes := find_alpn (exts_list r).
Definition ref_ciphers (r : rhello) : list N := r_ciphers r.
Definition ref_exts (r : rhello) : list (N * bytes) := map (fun e => (ext_type_of e, ext_data e)) (exts_list r).
(* the labels of every server_name offered (for the IDNA library hypothesis) *)
Fixpoint sni_labels (es : list rext) : list bytes :=
  match es with [] => [] | RSni ls :: t => ls ++ sni_labels t | _ :: t => sni_labels t end.

(* --- record layer --- *)
(* TLSPlaintext: type 22, legacy_record_version 03 00..03, length, fragment (non-empty for handshake) *)
Definition tls_record_header (h : bytes) (n : nat) : Prop :=
  exists minor, h = [x16; x03; minor] ++ put_u16be (N.of_nat n) /\ bN minor <= 3.
(* DTLSPlaintext: type 22, version FE FF (1.0) or FE FD (1.2 / 1.3 legacy), epoch, 48 bit sequence number, length *)
Definition dtls_record_header (h : bytes) (n : nat) : Prop :=
  exists minor es, h = [x16; xfe; minor] ++ es ++ put_u16be (N.of_nat n)
                   /\ (minor = xff \/ minor = xfd) /\ length es = 8%nat.
Definition record_header (dtls : bool) := if dtls then dtls_record_header else tls_record_header.

(* a record = (header, fragment) *)
Definition wf_record (dtls : bool) (rc : bytes * bytes) : Prop :=
  record_header dtls (fst rc) (length (snd rc)) /\ 1 <= len (snd rc) < 65536.
Definition stream (recs : list (bytes * bytes)) : bytes := concat (map (fun rc => fst rc ++ snd rc) recs).
Definition payloads (recs : list (bytes * bytes)) : bytes := concat (map snd recs).
