(* Model/LayerCore.v — mitmproxy/proxy/layer.py: Layer.handle_event, __process,
   __continue, the `command.blocking = self` hand-off, and NextLayer.
   A handler (_handle_event) is a resumption program: it yields commands and is
   resumed with the reply (blocking command) or with None (non-blocking command).
   Python generators mutate `self`; here the handler state S is threaded explicitly.
   Executable definitions only. *)
From Coq Require Import List Bool Arith.
Import ListNotations.

Inductive blocking := NotBlocking | Blocking | Owned (layer : nat).
Record cmd := mkCmd { cid : nat; ctag : nat; cblock : blocking }.

(* Ext: any event that is not a CommandCompleted (kind, payload id);
   Completed c r: CommandCompleted for the command with identity c and reply r. *)
Inductive event := Ext (kind : nat) (eid : nat) | Completed (c : nat) (reply : nat).

Definition blocking_eqb (a b : blocking) : bool :=
  match a, b with
  | NotBlocking, NotBlocking => true
  | Blocking, Blocking => true
  | Owned x, Owned y => Nat.eqb x y
  | _, _ => false
  end.
Definition cmd_eqb (a b : cmd) : bool :=
  Nat.eqb (cid a) (cid b) && Nat.eqb (ctag a) (ctag b) && blocking_eqb (cblock a) (cblock b).
Definition event_eqb (a b : event) : bool :=
  match a, b with
  | Ext k i, Ext k' i' => Nat.eqb k k' && Nat.eqb i i'
  | Completed c r, Completed c' r' => Nat.eqb c c' && Nat.eqb r r'
  | _, _ => false
  end.

(* what the layer did, in order *)
Inductive titem :=
| THandle (ev : event)            (* _handle_event(ev) started *)
| TPause (c : nat)                (* paused on blocking command c *)
| TResume (c : nat) (reply : nat) (* the generator waiting on c was sent reply *).

Definition titem_eqb (a b : titem) : bool :=
  match a, b with
  | THandle e, THandle e' => event_eqb e e'
  | TPause c, TPause c' => Nat.eqb c c'
  | TResume c r, TResume c' r' => Nat.eqb c c' && Nat.eqb r r'
  | _, _ => false
  end.

Section Layer.
  Variable S : Type.

  Inductive prog := Ret (s : S) | Yield (c : cmd) (k : option nat -> prog).

  Variable h : S -> event -> prog.   (* _handle_event *)
  Variable me : nat.                 (* identity of this layer, for blocking = self *)

  Inductive runstate := Idle (s : S) | Waiting (c : nat) (k : option nat -> prog).
  Record lst := mkLst { run : runstate; queue : list event }.

  Definition own (c : cmd) : cmd := mkCmd (cid c) (ctag c) (Owned me).

  (* __process: run the generator up to its end or its first blocking command.
     `command.blocking is True` is the test; a layer reference is not True. *)
  Fixpoint process (p : prog) : runstate * list cmd * list titem :=
    match p with
    | Ret s => (Idle s, [], [])
    | Yield c k =>
      match cblock c with
      | Blocking => (Waiting (cid c) k, [own c], [TPause (cid c)])
      | _ => let '(r, out, tr) := process (k None) in (r, c :: out, tr)
      end
    end.

  (* the while loop of __continue: replay queued events until paused again *)
  Fixpoint drain (s : S) (q : list event) : runstate * list event * list cmd * list titem :=
    match q with
    | [] => (Idle s, [], [], [])
    | ev :: q' =>
      let '(r, out, tr) := process (h s ev) in
      match r with
      | Idle s' => let '(r2, q2, out2, tr2) := drain s' q' in (r2, q2, out ++ out2, THandle ev :: tr ++ tr2)
      | Waiting _ _ => (r, q', out, THandle ev :: tr)
      end
    end.

  (* handle_event; the bool says whether ev was consumed as the awaited completion *)
  Definition handle_event (st : lst) (ev : event) : lst * list cmd * list titem * bool :=
    match run st with
    | Waiting c k =>
      match ev with
      | Completed c' r =>
        if Nat.eqb c' c then
          let '(res, out, tr) := process (k (Some r)) in
          match res with
          | Idle s' =>
            let '(r2, q2, out2, tr2) := drain s' (queue st) in
            (mkLst r2 q2, out ++ out2, TResume c r :: tr ++ tr2, true)
          | Waiting _ _ => (mkLst res (queue st), out, TResume c r :: tr, true)
          end
        else (mkLst (run st) (queue st ++ [ev]), [], [], false)
      | _ => (mkLst (run st) (queue st ++ [ev]), [], [], false)
      end
    | Idle s =>
      let '(res, out, tr) := process (h s ev) in
      (mkLst res (queue st), out, THandle ev :: tr, false)
    end.

  Fixpoint run_events (st : lst) (evs : list event)
    : lst * list cmd * list titem * list bool :=
    match evs with
    | [] => (st, [], [], [])
    | ev :: evs' =>
      let '(st1, out1, tr1, f1) := handle_event st ev in
      let '(st2, out2, tr2, fs) := run_events st1 evs' in
      (st2, out1 ++ out2, tr1 ++ tr2, f1 :: fs)
    end.

  Definition init (s : S) : lst := mkLst (Idle s) [].

  (* a parent layer that relays its child's commands: for cmd in child.handle_event(e): yield cmd *)
  Fixpoint relay (out : list cmd) (fin : prog) : prog :=
    match out with
    | [] => fin
    | c :: out' => Yield c (fun _ => relay out' fin)
    end.
End Layer.

Arguments Ret {S}. Arguments Yield {S}. Arguments Idle {S}. Arguments Waiting {S}.
Arguments mkLst {S}. Arguments run {S}. Arguments queue {S}.
Arguments process {S}. Arguments drain {S}. Arguments handle_event {S}.
Arguments run_events {S}. Arguments init {S}. Arguments relay {S}.

(* projections of traces *)
Fixpoint handled (tr : list titem) : list event :=
  match tr with
  | THandle ev :: tr' => ev :: handled tr'
  | _ :: tr' => handled tr'
  | [] => []
  end.
Fixpoint resumed (tr : list titem) : list event :=
  match tr with
  | TResume c r :: tr' => Completed c r :: resumed tr'
  | _ :: tr' => resumed tr'
  | [] => []
  end.
Fixpoint select {A} (keep : bool -> bool) (l : list A) (fs : list bool) : list A :=
  match l, fs with
  | x :: l', f :: fs' => if keep f then x :: select keep l' fs' else select keep l' fs'
  | _, _ => []
  end.

(* well-bracketing: after TPause c the next item is TResume c _; no THandle while pending *)
Fixpoint bracketed (pending : option nat) (tr : list titem) : bool :=
  match tr with
  | [] => true
  | THandle _ :: tr' => match pending with None => bracketed None tr' | Some _ => false end
  | TPause c :: tr' => match pending with None => bracketed (Some c) tr' | Some _ => false end
  | TResume c _ :: tr' =>
    match pending with Some c' => Nat.eqb c c' && bracketed None tr' | None => false end
  end.
Fixpoint pending_after (pending : option nat) (tr : list titem) : option nat :=
  match tr with
  | [] => pending
  | THandle _ :: tr' => pending_after pending tr'
  | TPause c :: tr' => pending_after (Some c) tr'
  | TResume _ _ :: tr' => pending_after None tr'
  end.

(* ------------------------------------------------------------------ *)
(* A finite handler language shared with the Python test layer         *)
(* ------------------------------------------------------------------ *)
Inductive ast :=
| ARet
| AYield (tag : nat) (blk : bool) (next : ast)
| AIfOdd (a b : ast)       (* branch on the last blocking reply being odd *)
| ASwitch (mode : nat) (next : ast).   (* self._handle_event = <another handler>, as real layers do to change state *)

(* handler state: (next command id, which handler is installed in self._handle_event) *)
Fixpoint interp (a : ast) (st : nat * nat) (last : option nat) : prog (nat * nat) :=
  match a with
  | ARet => Ret st
  | AYield tag blk next =>
    Yield (mkCmd (fst st) tag (if blk then Blocking else NotBlocking))
          (fun r => interp next (Datatypes.S (fst st), snd st) (if blk then r else last))
  | AIfOdd x y =>
    match last with
    | Some r => if Nat.odd r then interp x st last else interp y st last
    | None => interp y st last
    end
  | ASwitch mode next => interp next (fst st, mode) last
  end.

(* table: handler per event kind (Ext kinds 0..; completions seen by the handler use the last entry); the installed
   handler number rotates the table, so that handling an event with a stale handler is observable *)
Definition table_handler (table : list ast) (st : nat * nat) (ev : event) : prog (nat * nat) :=
  let k := match ev with Ext kind _ => kind | Completed _ _ => length table - 1 end in
  interp (nth ((k + snd st) mod (length table)) table ARet) st None.

(* ------------------------------------------------------------------ *)
(* NextLayer                                                            *)
(* ------------------------------------------------------------------ *)
(* Event kinds understood by NextLayer._handle_event *)
Definition K_START := 0.   (* events.Start *)
Definition K_DATA := 1.    (* DataReceived *)
Definition K_CLOSE_CLIENT := 2. (* ConnectionClosed(client) *)
Definition TAG_HOOK := 1000.  (* NextLayerHook, blocking *)
Definition TAG_CLOSE := 1001. (* CloseConnection(client) *)

Section NextLayer.
  (* NextLayer written as an explicit state machine: its only blocking point is the
     NextLayerHook in _ask, so the Layer machinery above specialises to: waiting = the hook
     command awaited, pq = _paused_event_queue.  The child is a generic Layer. *)
  Variable CS : Type.                       (* child handler state *)
  Variable ch : CS -> event -> prog CS.     (* child _handle_event *)
  Variable child_id : nat.
  Variable me : nat.
  Variable ask_on_start : bool.

  Record nls := mkNls {
    nl_events : list event;      (* self.events *)
    nl_chosen : bool;            (* self.layer set and handle_event rebound *)
    nl_child : lst CS;
    nl_waiting : option nat;     (* NextLayerHook command awaited *)
    nl_pq : list event;          (* _paused_event_queue *)
    nl_ctr : nat;                (* identity of the next NextLayer command *)
    nl_delivered : list event    (* ghost: events passed to child.handle_event, in order *)
  }.

  Fixpoint feed_child (c : lst CS) (evs : list event) : lst CS * list cmd :=
    match evs with
    | [] => (c, [])
    | ev :: evs' =>
      let '(c1, out1, _, _) := handle_event ch child_id c ev in
      let '(c2, out2) := feed_child c1 evs' in (c2, out1 ++ out2)
    end.

  (* NextLayer._handle_event on one event while no layer is chosen and not waiting *)
  Definition nl_handler (s : nls) (ev : event) : nls * list cmd :=
    let evs1 := nl_events s ++ [ev] in
    let hook := mkCmd (nl_ctr s) TAG_HOOK (Owned me) in
    let asked := (mkNls evs1 false (nl_child s) (Some (nl_ctr s)) (nl_pq s) (Datatypes.S (nl_ctr s)) (nl_delivered s), [hook]) in
    let quiet := (mkNls evs1 false (nl_child s) None (nl_pq s) (nl_ctr s) (nl_delivered s), []) in
    match ev with
    | Ext kind _ =>
      if ask_on_start && Nat.eqb kind K_START then asked
      else if Nat.eqb kind K_CLOSE_CLIENT then
        (mkNls evs1 false (nl_child s) None (nl_pq s) (Datatypes.S (nl_ctr s)) (nl_delivered s),
         [mkCmd (nl_ctr s) TAG_CLOSE NotBlocking])
      else if Nat.eqb kind K_DATA then asked
      else quiet
    | Completed _ _ => quiet
    end.

  (* the while loop of __continue with the NextLayer handler: stops when the hook is asked again *)
  Fixpoint nl_drain (s : nls) (q : list event) : nls * list cmd :=
    match q with
    | [] => (mkNls (nl_events s) (nl_chosen s) (nl_child s) (nl_waiting s) [] (nl_ctr s) (nl_delivered s), [])
    | ev :: q' =>
      let '(s1, out1) := nl_handler (mkNls (nl_events s) (nl_chosen s) (nl_child s) (nl_waiting s) q' (nl_ctr s) (nl_delivered s)) ev in
      match nl_waiting s1 with
      | Some _ => (s1, out1)
      | None => let '(s2, out2) := nl_drain s1 q' in (s2, out1 ++ out2)
      end
    end.

  Definition nl_step (s : nls) (ev : event) : nls * list cmd * bool :=
    if nl_chosen s then
      let '(c', out, _, _) := handle_event ch child_id (nl_child s) ev in
      (mkNls (nl_events s) true c' None (nl_pq s) (nl_ctr s) (nl_delivered s ++ [ev]), out, false)
    else
      match nl_waiting s with
      | Some c =>
        match ev with
        | Completed c' r =>
          if Nat.eqb c' c then
            if Nat.odd r then
              (* an addon set self.layer: replay self.events, rebind, then the queued events *)
              let '(c1, out1) := feed_child (nl_child s) (nl_events s) in
              let '(c2, out2) := feed_child c1 (nl_pq s) in
              (mkNls [] true c2 None [] (nl_ctr s) (nl_delivered s ++ nl_events s ++ nl_pq s), out1 ++ out2, true)
            else
              let '(s', out) := nl_drain (mkNls (nl_events s) false (nl_child s) None (nl_pq s) (nl_ctr s) (nl_delivered s)) (nl_pq s) in
              (s', out, true)
          else (mkNls (nl_events s) false (nl_child s) (nl_waiting s) (nl_pq s ++ [ev]) (nl_ctr s) (nl_delivered s), [], false)
        | _ => (mkNls (nl_events s) false (nl_child s) (nl_waiting s) (nl_pq s ++ [ev]) (nl_ctr s) (nl_delivered s), [], false)
        end
      | None => let '(s', out) := nl_handler s ev in (s', out, false)
      end.

  Fixpoint nl_run (s : nls) (evs : list event) : nls * list cmd * list bool :=
    match evs with
    | [] => (s, [], [])
    | ev :: evs' =>
      let '(s1, out1, f1) := nl_step s ev in
      let '(s2, out2, fs) := nl_run s1 evs' in (s2, out1 ++ out2, f1 :: fs)
    end.

  Definition nl_init (c0 : CS) (ctr0 : nat) : nls := mkNls [] false (init c0) None [] ctr0 [].
End NextLayer.

Arguments mkNls {CS}. Arguments nl_events {CS}. Arguments nl_chosen {CS}. Arguments nl_child {CS}.
Arguments nl_waiting {CS}. Arguments nl_pq {CS}. Arguments nl_ctr {CS}. Arguments nl_delivered {CS}.
Arguments feed_child {CS}. Arguments nl_handler {CS}. Arguments nl_drain {CS}. Arguments nl_step {CS}.
Arguments nl_run {CS}. Arguments nl_init {CS}.
