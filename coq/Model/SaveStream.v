(* Model/SaveStream.v -- the writer state of mitmproxy/addons/save.py (Save.configure,
   maybe_rotate_to_new_file, save_flow, done) together with the options rollback of
   optmanager.update_known / rollback. Definitions only.
   Paths are numbers, a file is the list of record ids it holds (record framing and reading are
   the subject of Model/Tnet.v), [openable p = false] = opening p raises OSError (a directory, a
   parent that is a regular file). Not modelled: strftime clock (oracle kind rotate), filters,
   active_flows (flows finish atomically here: start hook + end hook). *)
From Coq Require Import List Bool Arith.
Import ListNotations.

Record spec := { sp_append : bool; sp_path : nat }.          (* "+path" / "path" *)

Record sstate := {
  opt : option spec;          (* ctx.options.save_stream_file *)
  cur : option nat;           (* self.current_path *)
  strm : option nat;          (* self.stream (the path its file object writes to) *)
  fs : nat -> list nat;       (* file contents on disk *)
  crashed : bool              (* sys.exit(1) in save_flow *)
}.

Definition upd (f : nat -> list nat) (p : nat) (v : list nat) : nat -> list nat :=
  fun q => if Nat.eqb q p then v else f q.

(* SetOptBadFilter o: ONE options.update carrying save_stream_file = o together with a
   save_stream_filter that does not parse *)
Inductive sev := SetOpt (o : option spec) | SetOptBadFilter (o : option spec) | Finish (r : nat).

Section Save.
  Variable openable : nat -> bool.

  Definition with_opt (s : sstate) (o : option spec) : sstate :=
    {| opt := o; cur := cur s; strm := strm s; fs := fs s; crashed := crashed s |}.

  (* maybe_rotate_to_new_file; None = OSError from open(); nothing is assigned before the open *)
  Definition maybe_rotate (s : sstate) : option sstate :=
    match opt s with
    | None => Some s
    | Some sp =>
        let path := sp_path sp in
        if match cur s with Some c => Nat.eqb c path | None => false end then Some s
        else if openable path then
          (* open(path, mode); close the old file; self.stream = ...; self.current_path = path *)
          Some {| opt := opt s; cur := Some path; strm := Some path;
                  fs := upd (fs s) path (if sp_append sp then fs s path else []);
                  crashed := crashed s |}
        else None
    end.

  Definition done (s : sstate) : sstate :=
    match strm s with
    | None => s
    | Some _ => {| opt := opt s; cur := None; strm := None; fs := fs s; crashed := crashed s |}
    end.

  (* Save.configure for updated = {save_stream_file}; None = OptionsError *)
  Definition configure (s : sstate) : option sstate :=
    match opt s with
    | Some _ => maybe_rotate s
    | None => Some (done s)
    end.

  (* options.update(save_stream_file=o): assign, notify; on OptionsError restore the old options
     and notify again (rollback); the bool says whether the update raised *)
  Definition set_option (o : option spec) (s : sstate) : sstate * bool :=
    match configure (with_opt s o) with
    | Some s2 => (s2, false)
    | None =>
        let s3 := with_opt s (opt s) in
        (match configure s3 with Some s4 => s4 | None => s3 end, true)
    end.

  (* the same update with an invalid save_stream_filter: configure parses the filter FIRST and raises
     OptionsError before it looks at the file option; then the rollback as above *)
  Definition set_option_bad_filter (o : option spec) (s : sstate) : sstate * bool :=
    let s3 := with_opt (with_opt s o) (opt s) in
    (match configure s3 with Some s4 => s4 | None => s3 end, true).

  (* the end hook of a flow: Save.save_flow *)
  Definition save_flow (r : nat) (s : sstate) : sstate :=
    match strm s with
    | None => s
    | Some _ =>
        match maybe_rotate s with
        | None => {| opt := opt s; cur := cur s; strm := strm s; fs := fs s; crashed := true |}
        | Some s1 =>
            match strm s1 with
            | Some p => {| opt := opt s1; cur := cur s1; strm := strm s1;
                           fs := upd (fs s1) p (fs s1 p ++ [r]); crashed := crashed s1 |}
            | None => s1
            end
        end
    end.

  Definition step (s : sstate) (e : sev) : sstate * bool :=
    match e with
    | SetOpt o => set_option o s
    | SetOptBadFilter o => set_option_bad_filter o s
    | Finish r => (save_flow r s, false)
    end.

  Fixpoint run (s : sstate) (evs : list sev) : sstate :=
    match evs with [] => s | e :: r => run (fst (step s e)) r end.

  (* what the files must hold: the flows finished while a path was the stream target, since it
     was last opened successfully (overwrite) / in addition to what it held (append); a change
     to a path that cannot be opened changes nothing *)
  Fixpoint reference (evs : list sev) (c : option spec) (f : nat -> list nat) : nat -> list nat :=
    match evs with
    | [] => f
    | SetOpt None :: r => reference r None f
    | SetOpt (Some sp) :: r =>
        if match c with Some c0 => Nat.eqb (sp_path c0) (sp_path sp) | None => false end
        then reference r (Some sp) f
        else if openable (sp_path sp)
             then reference r (Some sp) (upd f (sp_path sp) (if sp_append sp then f (sp_path sp) else []))
             else reference r c f
    | SetOptBadFilter _ :: r => reference r c f
    | Finish x :: r =>
        match c with
        | Some c0 => reference r c (upd f (sp_path c0) (f (sp_path c0) ++ [x]))
        | None => reference r c f
        end
    end.
End Save.

Definition init_state (f : nat -> list nat) : sstate :=
  {| opt := None; cur := None; strm := None; fs := f; crashed := false |}.
