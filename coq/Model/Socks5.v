(* Model/Socks5.v -- mitmproxy/proxy/layers/modes.py: class Socks5Proxy
   (socks_err, _handle_event for DataReceived, state_greet, state_auth, state_connect)
   and DestinationKnown.finish_start / done, byte-exactly over the accumulated buffer.
   Executable definitions only.

   State = (phase, observables).  The phase carries self.buf while the handshake
   runs; after socks_err / a failed finish_start the handler is [done] which never
   reads buf again, and after success buf is handed to the child and deleted, so
   Relay/Done carry no buffer.  Crashed = a Python exception escaping from
   inet_ntop / struct.unpack (wrong slice length); proved unreachable.
   Observables: concatenation of SendData payloads to the client, server address,
   OpenConnection issued, CloseConnection(client) issued, the (raw) credentials given
   to the socks5_auth hook, concatenation of DataReceived payloads given to the child.
   Not modelled: Log commands, ConnectionClosed events, the child Start event. *)
From Coq Require Import List Bool Arith NArith.
From MV Require Import Base.Bytes.
Import ListNotations.

Definition SOCKS5_VERSION : byte := x05.
Definition SOCKS5_METHOD_NO_AUTHENTICATION_REQUIRED : byte := x00.
Definition SOCKS5_METHOD_USER_PASSWORD_AUTHENTICATION : byte := x02.
Definition SOCKS5_METHOD_NO_ACCEPTABLE_METHODS : byte := xff.
Definition SOCKS5_ATYP_IPV4_ADDRESS : byte := x01.
Definition SOCKS5_ATYP_DOMAINNAME : byte := x03.
Definition SOCKS5_ATYP_IPV6_ADDRESS : byte := x04.
Definition SOCKS5_REP_HOST_UNREACHABLE : byte := x04.
Definition SOCKS5_REP_COMMAND_NOT_SUPPORTED : byte := x07.
Definition SOCKS5_REP_ADDRESS_TYPE_NOT_SUPPORTED : byte := x08.

(* Python helpers *)
Definition blen (b : byte) : nat := N.to_nat (bN b).                      (* buf[i] as int *)
Definition slice (a e : nat) (l : bytes) : bytes := firstn (e - a) (skipn a l). (* l[a:e], a <= e <= len *)
Definition at_ (i : nat) (l : bytes) : byte := nth i l x00.                (* l[i], i < len *)

(* server address host: a str (carried as its UTF-8 bytes) or, for ATYP 4, the 16 raw
   bytes (socket.inet_ntop(AF_INET6, .) is compared through ipaddress parsing) *)
Inductive host := HText (s : bytes) | HV6 (raw : bytes).

Definition DOT : byte := x2e.
Definition dotted (a b c d : byte) : bytes :=
  dec_of_N (bN a) ++ DOT :: dec_of_N (bN b) ++ DOT :: dec_of_N (bN c) ++ DOT :: dec_of_N (bN d).

(* socket.inet_ntop(AF_INET, packed): ValueError unless len(packed) = 4 *)
Definition inet_ntop4 (p : bytes) : option host :=
  match p with [a; b; c; d] => Some (HText (dotted a b c d)) | _ => None end.
(* socket.inet_ntop(AF_INET6, packed): ValueError unless len(packed) = 16 *)
Definition inet_ntop6 (p : bytes) : option host :=
  if length p =? 16 then Some (HV6 p) else None.
(* bytes.decode(ascii, replace): every byte >= 0x80 becomes U+FFFD (EF BF BD in UTF-8) *)
Definition decode_ascii_replace (s : bytes) : bytes :=
  flat_map (fun b => if (bN b <? 128)%N then [b] else [xef; xbf; xbd]) s.
(* struct.unpack(!H, b): struct.error unless len(b) = 2 *)
Definition unpack_H (p : bytes) : option N :=
  match p with [h; l] => Some (u16be h l) | _ => None end.

Record cfg := mkCfg {
  proxyauth : bool;                  (* proxyauth in options and options.proxyauth *)
  authok : bytes -> bytes -> bool;   (* data.valid after the socks5_auth hook, per (user, password) *)
  eager : bool;                      (* options.connection_strategy == eager *)
  open_fails : bool                  (* OpenConnection is answered with an error *)
}.

Record obs := mkObs {
  sent : bytes;
  dest : option (host * N);
  opened : bool;
  closed : bool;
  creds : option (bytes * bytes);
  child : bytes
}.

Definition obs0 : obs := mkObs [] None false false None [].
Definition send (o : obs) (d : bytes) : obs :=
  mkObs (sent o ++ d) (dest o) (opened o) (closed o) (creds o) (child o).
Definition close (o : obs) : obs :=
  mkObs (sent o) (dest o) (opened o) true (creds o) (child o).
Definition set_dest (o : obs) (a : host * N) : obs :=
  mkObs (sent o) (Some a) (opened o) (closed o) (creds o) (child o).
Definition set_opened (o : obs) : obs :=
  mkObs (sent o) (dest o) true (closed o) (creds o) (child o).
Definition set_creds (o : obs) (u p : bytes) : obs :=
  mkObs (sent o) (dest o) (opened o) (closed o) (Some (u, p)) (child o).
Definition child_data (o : obs) (d : bytes) : obs :=
  mkObs (sent o) (dest o) (opened o) (closed o) (creds o) (child o ++ d).

Inductive phase :=
| Greet (buf : bytes) | Auth (buf : bytes) | Connect (buf : bytes)
| Relay | Done | Crashed.

Definition st := (phase * obs)%type.
Definition st0 : st := (Greet [], obs0).

Definition REPLY_TAIL : bytes := [x00; x01; x00; x00; x00; x00; x00; x00].
Definition REPLY_UNREACHABLE : bytes := [x05; x04; x00; x01; x00; x00; x00; x00; x00; x00].
Definition REPLY_SUCCESS : bytes := [x05; x00; x00; x01; x00; x00; x00; x00; x00; x00].

(* Socks5Proxy.socks_err(message, reply_code) *)
Definition socks_err (o : obs) (reply_code : option byte) : st :=
  let o1 := match reply_code with
            | Some c => send o ([SOCKS5_VERSION; c] ++ REPLY_TAIL)
            | None => o
            end in
  (Done, close o1).

(* DestinationKnown.finish_start: (err is not None, observables).
   server.address is a non-empty tuple and transport_protocol is tcp here. *)
Definition finish_start (c : cfg) (o : obs) : bool * obs :=
  if eager c then
    let o1 := set_opened o in
    if open_fails c then (true, o1) else (false, o1)
  else (false, o).

(* message length of the connect request, None = unknown address type *)
Definition message_len (atyp : byte) (buf : bytes) : option nat :=
  if byte_eqb atyp SOCKS5_ATYP_IPV4_ADDRESS then Some (4 + 4 + 2)
  else if byte_eqb atyp SOCKS5_ATYP_IPV6_ADDRESS then Some (4 + 16 + 2)
  else if byte_eqb atyp SOCKS5_ATYP_DOMAINNAME then Some (4 + 1 + blen (at_ 4 buf) + 2)
  else None.

Definition parse_host (atyp : byte) (msg : bytes) : option host :=
  let n := length msg in
  if byte_eqb atyp SOCKS5_ATYP_IPV4_ADDRESS then inet_ntop4 (slice 4 (n - 2) msg)
  else if byte_eqb atyp SOCKS5_ATYP_IPV6_ADDRESS then inet_ntop6 (slice 4 (n - 2) msg)
  else Some (HText (decode_ascii_replace (slice 5 (n - 2) msg))).

(* tail of state_connect after host and port are known; rest = self.buf after the split *)
Definition connect_finish (c : cfg) (o : obs) (h : host) (port : N) (rest : bytes) : st :=
  let o1 := set_dest o (h, port) in
  let '(err, o2) := finish_start c o1 in
  if err then (Done, close (send o2 REPLY_UNREACHABLE))
  else
    let o3 := send o2 REPLY_SUCCESS in
    match rest with
    | [] => (Relay, o3)
    | _ :: _ => (Relay, child_data o3 rest)
    end.

Definition state_connect (c : cfg) (buf : bytes) (o : obs) : st :=
  if length buf <? 5 then (Connect buf, o)
  else if negb (bytes_eqb (firstn 3 buf) [x05; x01; x00]) then
    socks_err o (Some SOCKS5_REP_COMMAND_NOT_SUPPORTED)
  else
    let atyp := at_ 3 buf in
    match message_len atyp buf with
    | None => socks_err o (Some SOCKS5_REP_ADDRESS_TYPE_NOT_SUPPORTED)
    | Some ml =>
      if length buf <? ml then (Connect buf, o)
      else
        let msg := firstn ml buf in
        let rest := skipn ml buf in
        match parse_host atyp msg with
        | None => (Crashed, o)
        | Some h =>
          match unpack_H (skipn (length msg - 2) msg) with
          | None => (Crashed, o)
          | Some port => connect_finish c o h port rest
          end
        end
    end.

Definition state_auth (c : cfg) (buf : bytes) (o : obs) : st :=
  if length buf <? 3 then (Auth buf, o)
  else
    let user_len := blen (at_ 1 buf) in
    if length buf <? 3 + user_len then (Auth buf, o)
    else
      let pass_len := blen (at_ (2 + user_len) buf) in
      if length buf <? 3 + user_len + pass_len then (Auth buf, o)
      else
        let user := slice 2 (2 + user_len) buf in
        let password := slice (3 + user_len) (3 + user_len + pass_len) buf in
        let o1 := set_creds o user password in
        if negb (authok c user password) then
          socks_err (send o1 [x01; x01]) None
        else
          state_connect c (skipn (3 + user_len + pass_len) buf) (send o1 [x01; x00]).

Definition state_greet (c : cfg) (buf : bytes) (o : obs) : st :=
  if length buf <? 2 then (Greet buf, o)
  else if negb (byte_eqb (at_ 0 buf) SOCKS5_VERSION) then socks_err o None
  else
    let n_methods := blen (at_ 1 buf) in
    if length buf <? 2 + n_methods then (Greet buf, o)
    else
      let method := if proxyauth c then SOCKS5_METHOD_USER_PASSWORD_AUTHENTICATION
                    else SOCKS5_METHOD_NO_AUTHENTICATION_REQUIRED in
      if negb (existsb (byte_eqb method) (slice 2 (2 + n_methods) buf)) then
        socks_err o (Some SOCKS5_METHOD_NO_ACCEPTABLE_METHODS)
      else
        let o1 := send o [SOCKS5_VERSION; method] in
        let rest := skipn (2 + n_methods) buf in
        if proxyauth c then state_auth c rest o1 else state_connect c rest o1.

(* layer.handle_event(DataReceived(client, data)) *)
Definition handle_data (c : cfg) (s : st) (data : bytes) : st :=
  match fst s with
  | Greet buf => state_greet c (buf ++ data) (snd s)
  | Auth buf => state_auth c (buf ++ data) (snd s)
  | Connect buf => state_connect c (buf ++ data) (snd s)
  | Relay => (Relay, child_data (snd s) data)
  | Done => s
  | Crashed => s
  end.

Definition feed_all (c : cfg) (s : st) (segs : list bytes) : st :=
  fold_left (handle_data c) segs s.

Definition run (c : cfg) (segs : list bytes) : st := feed_all c st0 segs.
