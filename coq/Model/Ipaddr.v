(* Model/Ipaddr.v -- run-time vocabulary shared by the generated models Gen/Block.v (C22) and
   Gen/SelfConnect.v (C23): parsed IP addresses as family + integer (the value of
   ipaddress.IPv4Address._ip / IPv6Address._ip) and networks as closed integer intervals
   (int(network_address), int(broadcast_address)).  Executable definitions only. *)
From Coq Require Import NArith List Bool.
Import ListNotations.
Open Scope N_scope.

Inductive ip := IPv4 (n : N) | IPv6 (n : N).

Definition net := (N * N)%type.

(* Python: addr in net  (for operands of the same version; _BaseNetwork.__contains__ is
   network_address._ip <= addr._ip <= broadcast_address._ip). *)
Definition in_net (a : N) (nt : net) : bool := (fst nt <=? a) && (a <=? snd nt).

Definition in_nets (a : N) (t : list net) : bool := existsb (in_net a) t.

Definition ip_is_v6 (a : ip) : bool := match a with IPv6 _ => true | IPv4 _ => false end.

Definition ip_eqb (a b : ip) : bool :=
  match a, b with
  | IPv4 x, IPv4 y => x =? y
  | IPv6 x, IPv6 y => x =? y
  | _, _ => false
  end.

(* Python: x or y, for x : Optional[IPv4Address].  Every IPv4Address object is truthy (the class
   defines neither __bool__ nor __len__), so the result is x unless x is None. *)
Definition or_else {A : Type} (x : option A) (y : A) : A :=
  match x with Some v => v | None => y end.

Definition max_v4 : N := 4294967295.                                  (* 2^32 - 1 *)
Definition max_v6 : N := 340282366920938463463374607431768211455.     (* 2^128 - 1 *)

Definition ip_wf (a : ip) : bool :=
  match a with IPv4 n => n <=? max_v4 | IPv6 n => n <=? max_v6 end.
