(* Model/Har.v -- executable model of the HAR exporter and importer (C41).
   One function per Python function, same names, same branch order:
     mitmproxy/addons/savehar.py   SaveHar.make_har, SaveHar.flow_entry (fields the property talks about), format_multidict
     mitmproxy/io/har.py           fix_headers, request_to_flow
     mitmproxy/io/io.py            FlowReader.stream, HAR branch (import_har: flows yielded before the first failing entry)
     mitmproxy/http.py             Message.get_content / set_content / get_text / set_text / decode, Request.make (library of the
                                   anchored code, modelled by hand)
     mitmproxy/utils/strutils.py   is_mostly_bin
   Header collections are Model/Headers.v (C35).  Literal tables come from Gen/HarTables.v (translated from the source).
   The codec library is ABSTRACT: record [lib].  Representation conventions:
     - a Python str that was obtained from bytes by utf-8/surrogateescape (method, version, header names and values, encoding
       and content-type names) is represented by those bytes;
     - a body text is a list of code points [str];
     - [res]: Ok / EValue (ValueError and subclasses) / EOther (any other exception) / Missing (only produced by the
       table-driven library of the correspondence check when the model asks for a call the implementation did not make).
   No proofs in this file. *)
From Coq Require Import List Bool NArith.
From MV Require Import Base.Bytes Model.Headers Gen.HarTables.
Import ListNotations.

Definition str := list N.
Inductive val := VB (b : bytes) | VS (s : str).
Inductive res (A : Type) := Ok (a : A) | EValue | EOther | Missing.
Arguments Ok {A} a.
Arguments EValue {A}.
Arguments EOther {A}.
Arguments Missing {A}.

Definition bind {A B} (r : res A) (f : A -> res B) : res B :=
  match r with Ok a => f a | EValue => EValue | EOther => EOther | Missing => Missing end.
Notation "x <- r ;; k" := (bind r (fun x => k)) (at level 61, r at next level, right associativity).

(* ---------------------------------------------------------------- abstract codec library *)
Record lib := mkLib {
  l_decode  : val -> bytes -> res val;      (* mitmproxy.net.encoding.decode(encoded, encoding) *)
  l_encode  : val -> bytes -> res val;      (* mitmproxy.net.encoding.encode(decoded, encoding) *)
  l_infer   : bytes -> bytes -> bytes;      (* infer_content_encoding(content_type, content) *)
  l_b64enc  : bytes -> res val;             (* base64.b64encode(b).decode() *)
  l_b64dec  : str -> res val;               (* base64.b64decode(s) *)
  l_utf8_ok : bytes -> res bool;            (* does bytes.decode() succeed (strict utf-8) *)
  l_dec_se  : bytes -> str;                 (* bytes.decode(utf8, surrogateescape) *)
  l_enc_se  : str -> res val;               (* str.encode(utf-8, surrogateescape) *)
  l_url_set : str -> res (bytes * str);     (* Request.url setter: (hostport written to an existing Host header, resulting .url) *)
  l_ctfix   : bytes -> bytes;               (* content-type value with charset=utf-8 forced (fallback of Message.set_text) *)
  l_authority : bytes -> bytes;             (* Request.authority getter: data.authority decoded (idna, else utf8/surrogateescape) *)
  l_parse_authority : bytes -> bytes * option N;     (* url.parse_authority(value, check=False) *)
  l_unparse : bytes -> bytes -> N -> bytes -> str    (* url.unparse(scheme, host, port, path) *)
}.

(* ---------------------------------------------------------------- data *)
Record request := mkRequest {
  rq_method : bytes; rq_scheme : bytes; rq_host : bytes; rq_port : N; rq_path : bytes; rq_authority : bytes;
  rq_version : bytes; rq_headers : list field; rq_raw : option bytes }.
Record response := mkResponse {
  rs_status : N; rs_version : bytes; rs_headers : list field; rs_raw : option bytes }.
Inductive flow := HttpFlow (rq : request) (rs : option response) | OtherFlow.

(* the fields of one HAR entry that the importer reads *)
Record entry := mkEntry {
  e_method : bytes; e_url : str; e_rver : bytes; e_rh : list field;
  e_post : option (option str);     (* postData present? its text (None = JSON null) *)
  e_status : N; e_sver : bytes; e_sh : list field;
  e_ctext : option str;             (* response.content.text, absent for the no-response dict *)
  e_enc : option bytes }.           (* response.content.encoding *)

(* an imported flow as observed after FlowReader *)
Record iflow := mkIflow {
  i_method : bytes; i_url : str; i_version : bytes; i_rh : list field; i_rraw : option bytes;
  i_status : N; i_sversion : bytes; i_sh : list field; i_sraw : option bytes }.

(* ---------------------------------------------------------------- header keys as spelled in the source *)
Definition K_CE : bytes := [x63;x6f;x6e;x74;x65;x6e;x74;x2d;x65;x6e;x63;x6f;x64;x69;x6e;x67].   (* content-encoding *)
Definition K_CT : bytes := [x63;x6f;x6e;x74;x65;x6e;x74;x2d;x74;x79;x70;x65].                   (* content-type *)
Definition K_CT_CAP : bytes := [x43;x6f;x6e;x74;x65;x6e;x74;x2d;x54;x79;x70;x65].               (* Content-Type *)
Definition K_CL : bytes := [x63;x6f;x6e;x74;x65;x6e;x74;x2d;x6c;x65;x6e;x67;x74;x68].           (* content-length *)
Definition K_TE : bytes := [x74;x72;x61;x6e;x73;x66;x65;x72;x2d;x65;x6e;x63;x6f;x64;x69;x6e;x67]. (* transfer-encoding *)
Definition K_HOST : bytes := [x48;x6f;x73;x74].                                                 (* Host *)
Definition IDENTITY : bytes := [x69;x64;x65;x6e;x74;x69;x74;x79].                               (* identity *)

Definition nonempty {A} (l : list A) : bool := match l with [] => false | _ :: _ => true end.
(* headers.get(key, default) *)
Definition get_default (hs : list field) (key dflt : bytes) : bytes :=
  match getitem hs key with Some v => v | None => dflt end.
(* headers.pop(key, None) *)
Definition pop (hs : list field) (key : bytes) : list field :=
  match delitem hs key with Some hs' => hs' | None => hs end.
(* x or identity *)
Definition or_identity (ce : option bytes) : bytes :=
  match ce with Some c => if nonempty c then c else IDENTITY | None => IDENTITY end.

(* ---------------------------------------------------------------- strutils.is_mostly_bin *)
Definition is_continuation_byte (b : byte) : bool := (N.shiftr (bN b) 6 =? 2)%N.

(* for cut in range(100, min(104, len(s))): ... break / else: s = s[:100] *)
Fixpoint cut_loop (s : bytes) (cuts : list nat) : bytes :=
  match cuts with
  | [] => firstn 100 s
  | cut :: rest =>
      match nth_error s cut with
      | None => firstn 100 s
      | Some b => if is_continuation_byte b then cut_loop s rest else firstn cut s
      end
  end.

Definition count (p : byte -> bool) (s : bytes) : N := N.of_nat (length (filter p s)).
Definition is_low (b : byte) : bool := ((bN b <? 9) || ((13 <? bN b) && (bN b <? 32)))%N.
Definition is_high (b : byte) : bool := (126 <? bN b)%N.

Definition is_mostly_bin (L : lib) (s : bytes) : res bool :=
  match s with
  | [] => Ok false
  | _ :: _ =>
      let s := if (100 <? N.of_nat (length s))%N then cut_loop s [100; 101; 102; 103]%nat else s in
      let len := N.of_nat (length s) in
      let low_bytes := count is_low s in
      let high_bytes := count is_high s in
      let ascii_bytes := (len - low_bytes - high_bytes)%N in
      (* ascii_bytes / len > 0.7 *)
      if (7 * len <? 10 * ascii_bytes)%N then Ok false
      (* (ascii_bytes + high_bytes) / len > 0.95 *)
      else if (19 * len <? 20 * (ascii_bytes + high_bytes))%N then
        ok <- l_utf8_ok L s ;; Ok (negb ok)
      else Ok true
  end.

(* ---------------------------------------------------------------- http.Message *)
(* get_content(strict) *)
Definition get_content (L : lib) (strict : bool) (hs : list field) (raw : option bytes) : res (option bytes) :=
  match raw with
  | None => Ok None
  | Some raw_content =>
      match getitem hs K_CE with
      | Some ce =>
          if nonempty ce then
            match l_decode L (VB raw_content) ce with
            | Ok (VB content) => Ok (Some content)
            | Ok (VS _) => if strict then EValue else Ok (Some raw_content)
            | EValue => if strict then EValue else Ok (Some raw_content)
            (* encoding.decode wraps everything but TypeError into ValueError, so EOther is TypeError here (a str-to-str
               codec such as rot13); since c0691f526 get_content turns it into ValueError / the raw content *)
            | EOther => if strict then EValue else Ok (Some raw_content)
            | Missing => Missing
            end
          else Ok (Some raw_content)
      | None => Ok (Some raw_content)
      end
  end.

(* set_content(value) for value : bytes; returns the new headers and raw_content *)
Definition set_content (L : lib) (hs : list field) (value : bytes) : res (list field * bytes) :=
  let ce := getitem hs K_CE in
  hr <- match l_encode L (VB value) (or_identity ce) with
        | Ok (VB raw) => Ok (hs, raw)
        | Ok (VS _) => EOther
        | EValue => match delitem hs K_CE with Some hs' => Ok (hs', value) | None => EOther end
        (* except (ValueError, TypeError) since c0691f526: a str codec such as utf8 cannot encode bytes *)
        | EOther => match delitem hs K_CE with Some hs' => Ok (hs', value) | None => EOther end
        | Missing => Missing
        end ;;
  let '(hs, raw) := hr in
  if contains hs K_TE then Ok (hs, raw)
  else Ok (setitem hs K_CL (dec_of_N (N.of_nat (length raw))), raw).

(* get_text(strict=False); the result of encoding.decode is not type-checked by the code (cast) *)
Definition get_text (L : lib) (hs : list field) (raw : option bytes) : res (option val) :=
  c <- get_content L false hs raw ;;
  match c with
  | None => Ok None
  | Some content =>
      let enc := l_infer L (get_default hs K_CT []) content in
      match l_decode L (VB content) enc with
      | Ok v => Ok (Some v)
      | EValue => Ok (Some (VS (l_dec_se L content)))
      | EOther => EOther
      | Missing => Missing
      end
  end.

(* set_text(text) for text : str *)
Definition set_text (L : lib) (hs : list field) (text : str) : res (list field * bytes) :=
  let enc := l_infer L (get_default hs K_CT []) [] in
  match l_encode L (VS text) enc with
  | Ok (VB b) => set_content L hs b
  | Ok (VS _) => EOther
  | EValue =>
      let hs := setitem hs K_CT (l_ctfix L (get_default hs K_CT [])) in
      v <- l_enc_se L text ;;
      match v with VB b => set_content L hs b | VS _ => EOther end
  | EOther => EOther
  | Missing => Missing
  end.

(* decode(strict=True) *)
Definition decode (L : lib) (hs : list field) (raw : option bytes) : res (list field * option bytes) :=
  match raw with
  | None => Ok (hs, raw)
  | Some [] => Ok (hs, raw)
  | Some (_ :: _) =>
      decoded <- get_content L true hs raw ;;
      let hs := pop hs K_CE in
      match decoded with
      | None => Ok (hs, None)
      | Some d => hr <- set_content L hs d ;; Ok (fst hr, Some (snd hr))
      end
  end.

(* Request.make(method, url, content, headers) with headers : Headers, content : str or None.
   Returns (url, headers, raw_content). *)
Definition request_make (L : lib) (url : str) (content : option str) (hs : list field)
  : res (str * list field * bytes) :=
  hu <- l_url_set L url ;;
  let '(hostport, url') := hu in
  let hs := if contains hs K_HOST then setitem hs K_HOST hostport else hs in
  match content with
  | None => EOther
  | Some text => hr <- set_text L hs text ;; Ok (url', fst hr, snd hr)
  end.

(* ---------------------------------------------------------------- savehar.py *)
(* Request.method: self.data.method.decode(utf-8, surrogateescape).upper() -- ASCII methods *)
Definition to_upper (b : byte) : byte := if is_lower b then Nb (bN b - 32) else b.
Definition method_of (rq : request) : bytes := map to_upper (rq_method rq).

Definition text_of (t : option val) : res str :=
  match t with
  | None => Ok []
  | Some (VS s) => Ok s
  | Some (VB _) => EOther          (* json.dumps: bytes are not serialisable *)
  end.

(* ---------------------------------------------------------------- http.Request.pretty_url (what the exporter writes as url) *)
Definition M_CONNECT : bytes := [x43;x4f;x4e;x4e;x45;x43;x54].                (* first_line_format: method == CONNECT *)
Definition HTTP20 : bytes := [x48;x54;x54;x50;x2f;x32;x2e;x30].              (* is_http2 *)
Definition HTTP3 : bytes := [x48;x54;x54;x50;x2f;x33].                       (* is_http3 *)
Definition S_HTTP : bytes := [x68;x74;x74;x70].
Definition S_HTTPS : bytes := [x68;x74;x74;x70;x73].
Definition STAR : bytes := [x2a].

(* url.default_port *)
Definition default_port (scheme : bytes) : option N :=
  if bytes_eqb scheme S_HTTP then Some 80%N else if bytes_eqb scheme S_HTTPS then Some 443%N else None.

(* Request.host_header: for HTTP/2 and HTTP/3 the authority, else (or if that is empty) the Host header *)
Definition host_header (L : lib) (rq : request) : option bytes :=
  if bytes_eqb (rq_version rq) HTTP20 || bytes_eqb (rq_version rq) HTTP3 then
    let a := l_authority L (rq_authority rq) in
    if nonempty a then Some a else getitem (rq_headers rq) K_HOST
  else getitem (rq_headers rq) K_HOST.

(* Request.pretty_url: the URL with the host AND PORT of the host header when there is one (a host header without port
   means the default port of the scheme), the connection's host and port otherwise *)
Definition pretty_url (L : lib) (rq : request) : str :=
  if bytes_eqb (method_of rq) M_CONNECT then l_dec_se L (l_authority L (rq_authority rq))
  else
    let path := if bytes_eqb (rq_path rq) STAR then [] else rq_path rq in
    match host_header L rq with
    | Some (c :: hh) =>
        let '(pretty_host, pretty_port) := l_parse_authority L (c :: hh) in
        let pretty_port :=
          match pretty_port with
          | Some (Npos p) => Npos p
          | _ => match default_port (rq_scheme rq) with Some d => d | None => 443%N end
          end in
        l_unparse L (rq_scheme rq) pretty_host pretty_port path
    | _ => l_unparse L (rq_scheme rq) (rq_host rq) (rq_port rq) path
    end.

Definition flow_entry (L : lib) (rq : request) (rs : option response) : res entry :=
  resp <- match rs with
          | Some r =>
              content <- match get_content L true (rs_headers r) (rs_raw r) with
                         | Ok c => Ok c
                         | EValue => Ok (rs_raw r)
                         | EOther => EOther
                         | Missing => Missing
                         end ;;
              bin <- match content with
                     | Some (b :: c) => is_mostly_bin L (b :: c)
                     | _ => Ok false
                     end ;;
              if bin then
                v <- l_b64enc L (match content with Some c => c | None => [] end) ;;
                match v with
                | VS s => Ok (rs_status r, rs_version r, rs_headers r, Some s, Some export_b64_tag)
                | VB _ => EOther
                end
              else
                t <- get_text L (rs_headers r) (rs_raw r) ;;
                s <- text_of t ;;
                Ok (rs_status r, rs_version r, rs_headers r, Some s, None)
          | None => Ok (noresp_status, noresp_version, [], None, None)
          end ;;
  let '(status, sver, sh, ctext, enc) := resp in
  let url := if bytes_eqb (method_of rq) connect_method
             then connect_url_prefix ++ pretty_url L rq ++ connect_url_suffix
             else pretty_url L rq in
  post <- (if existsb (bytes_eqb (method_of rq)) post_methods then
             t <- get_text L (rq_headers rq) (rq_raw rq) ;;
             match t with
             | None => Ok (Some None)
             | Some (VS s) => Ok (Some (Some s))
             | Some (VB _) => EOther
             end
           else Ok None) ;;
  Ok (mkEntry (method_of rq) url (rq_version rq) (rq_headers rq) post status sver sh ctext enc).

(* make_har: entries of the HTTP flows, in order; any exception aborts the export *)
Fixpoint make_har (L : lib) (flows : list flow) : res (list entry) :=
  match flows with
  | [] => Ok []
  | HttpFlow rq rs :: rest =>
      (* the response branch of flow_entry is evaluated before the request branch; both before the next flow *)
      e <- flow_entry L rq rs ;; es <- make_har L rest ;; Ok (e :: es)
  | OtherFlow :: rest => make_har L rest
  end.

(* ---------------------------------------------------------------- har.py *)
(* fix_headers: key.encode(), value.encode().  [se] = the importer encodes with surrogateescape
   (fixes/C41-header-surrogateescape.diff applied); the unchanged code uses strict utf-8. *)
Definition encode_header (se : bool) (L : lib) (b : bytes) : res bytes :=
  if se then Ok b else ok <- l_utf8_ok L b ;; if ok then Ok b else EValue.

Fixpoint fix_headers (se : bool) (L : lib) (hs : list field) : res (list field) :=
  match hs with
  | [] => Ok []
  | (k, v) :: rest =>
      k' <- encode_header se L k ;; v' <- encode_header se L v ;;
      rest' <- fix_headers se L rest ;; Ok ((k', v') :: rest')
  end.

Fixpoint match_version (table : list (bytes * bytes)) (dflt v : bytes) : bytes :=
  match table with
  | [] => dflt
  | (pat, out) :: rest => if bytes_eqb v pat then out else match_version rest dflt v
  end.

Definition request_to_flow (se : bool) (L : lib) (e : entry) : res iflow :=
  request_headers <- fix_headers se L (e_rh e) ;;
  let request_content := match e_post e with None => Some [] | Some t => t end in
  rq <- request_make L (e_url e) request_content request_headers ;;
  let '(url, rh, rraw) := rq in
  let response_content := match e_ctext e with Some t => t | None => [] end in
  response_headers <- fix_headers se L (e_sh e) ;;
  rc <- (if option_eqb bytes_eqb (e_enc e) (Some import_b64_tag) then l_b64dec L response_content
         else
           let enc := match e_enc e with
                      | Some c => if nonempty c then c else l_infer L (get_default response_headers K_CT []) []
                      | None => l_infer L (get_default response_headers K_CT []) []
                      end in
           match l_encode L (VS response_content) enc with
           | Ok v => Ok v
           | EValue => l_enc_se L response_content
           | EOther => EOther
           | Missing => Missing
           end) ;;
  rc2 <- l_encode L rc (or_identity (getitem response_headers K_CE)) ;;
  sraw <- match rc2 with VB b => Ok b | VS _ => EValue end ;;     (* http.Response refuses str content *)
  let rver := match_version req_version_table req_version_default (e_rver e) in
  let sver := match_version resp_version_table resp_version_default (e_sver e) in
  rd <- decode L rh (Some rraw) ;;
  sd <- decode L response_headers (Some sraw) ;;
  Ok (mkIflow (e_method e) url rver (fst rd) (snd rd) (e_status e) sver (fst sd) (snd sd)).

(* FlowReader.stream on a HAR file: flows yielded so far, and how the generator ended: exhausted (Clean), or
   FlowReadException because request_to_flow raised (Raised; `except Exception` catches every class).  NoTable is
   only produced under the table-driven library of the correspondence check. *)
Inductive stop := Clean | Raised | NoTable.

Fixpoint import_har (se : bool) (L : lib) (es : list entry) : list iflow * stop :=
  match es with
  | [] => ([], Clean)
  | e :: rest =>
      match request_to_flow se L e with
      | Ok f => let '(fs, st) := import_har se L rest in (f :: fs, st)
      | EValue => ([], Raised)
      | EOther => ([], Raised)
      | Missing => ([], NoTable)
      end
  end.
