(* Model/Headers.v -- executable model of mitmproxy header collections (C35).
   One function per Python function, same names, same branch order:
     mitmproxy/coretypes/multidict.py  _MultiDict.{__getitem__,__contains__ (Mapping mixin),
        __setitem__,__delitem__,__iter__,__len__,__eq__,get_all,set_all,add,insert}, MultiDict.__init__/copy
     mitmproxy/http.py                 Headers.{_kconv,_reduce_values,__bytes__}
     mitmproxy/net/http/http1/read.py  _read_headers
     h11/_receivebuffer.py             ReceiveBuffer.maybe_extract_lines (library; how mitmproxy cuts a head into lines)
   Header names and values are bytes (Headers converts str arguments with utf-8/surrogateescape,
   which is a bijection on the byte level; the harness observes everything as bytes).
   No proofs in this file. *)
From Coq Require Import List Bool NArith ZArith.
From MV Require Import Base.Bytes.
Import ListNotations.

Definition field := (bytes * bytes)%type.
Definition field_eqb (a b : field) : bool := pair_eqb bytes_eqb bytes_eqb a b.

Fixpoint mem (x : bytes) (s : list bytes) : bool :=
  match s with [] => false | y :: s' => bytes_eqb x y || mem x s' end.

(* sep.join(l) *)
Fixpoint join (sep : bytes) (l : list bytes) : bytes :=
  match l with
  | [] => []
  | x :: l' => match l' with [] => x | _ :: _ => x ++ sep ++ join sep l' end
  end.

(* ---------------------------------------------------------------- Headers hooks *)
(* Headers._kconv: key.lower() on bytes (ASCII only) *)
Definition _kconv (key : bytes) : bytes := lower key.
(* Headers._reduce_values: comma-space join *)
Definition _reduce_values (values : list bytes) : bytes := join [x2c; x20] values.

(* ---------------------------------------------------------------- _MultiDict *)
(* get_all: key = kconv(key); [value for k, value in fields if kconv(k) == key] *)
Definition get_all (fields : list field) (key : bytes) : list bytes :=
  let key := _kconv key in
  map snd (filter (fun f => bytes_eqb (_kconv (fst f)) key) fields).

(* __getitem__: None models KeyError *)
Definition getitem (fields : list field) (key : bytes) : option bytes :=
  let values := get_all fields key in
  match values with
  | [] => None
  | _ :: _ => Some (_reduce_values values)
  end.

(* Mapping.__contains__: try self[key] except KeyError: False else True *)
Definition contains (fields : list field) (key : bytes) : bool :=
  match getitem fields key with Some _ => true | None => false end.

(* set_all, first loop: for field in self.fields; returns (new_fields, remaining values) *)
Fixpoint set_all_loop (key_kconv : bytes) (fs : list field) (values : list bytes)
         (new_fields : list field) : list field * list bytes :=
  match fs with
  | [] => (new_fields, values)
  | field :: fs' =>
      if bytes_eqb (_kconv (fst field)) key_kconv then
        match values with
        | v :: values' => set_all_loop key_kconv fs' values' (new_fields ++ [(fst field, v)])
        | [] => set_all_loop key_kconv fs' [] new_fields
        end
      else set_all_loop key_kconv fs' values (new_fields ++ [field])
  end.

(* set_all, second loop: while values: new_fields.append((key, values.pop(0))) *)
Fixpoint set_all_rest (key : bytes) (values : list bytes) (new_fields : list field) : list field :=
  match values with
  | [] => new_fields
  | v :: values' => set_all_rest key values' (new_fields ++ [(key, v)])
  end.

Definition set_all (fields : list field) (key : bytes) (values : list bytes) : list field :=
  let key_kconv := _kconv key in
  let '(new_fields, values) := set_all_loop key_kconv fields values [] in
  set_all_rest key values new_fields.

(* __setitem__ *)
Definition setitem (fields : list field) (key value : bytes) : list field :=
  set_all fields key [value].

(* __delitem__: None models KeyError *)
Definition delitem (fields : list field) (key : bytes) : option (list field) :=
  if negb (contains fields key) then None
  else
    let key := _kconv key in
    Some (filter (fun field => negb (bytes_eqb key (_kconv (fst field)))) fields).

(* __iter__: seen set as a list; yield = cons on the output *)
Fixpoint iter_loop (fs : list field) (seen : list bytes) : list bytes :=
  match fs with
  | [] => []
  | (key, _) :: fs' =>
      let key_kconv := _kconv key in
      if negb (mem key_kconv seen) then key :: iter_loop fs' (key_kconv :: seen)
      else iter_loop fs' seen
  end.
Definition iter (fields : list field) : list bytes := iter_loop fields [].

(* __len__: len({kconv(key) for key, _ in fields}) *)
Fixpoint set_of (l : list bytes) (acc : list bytes) : list bytes :=
  match l with
  | [] => acc
  | x :: l' => set_of l' (if mem x acc then acc else x :: acc)
  end.
Definition len (fields : list field) : N :=
  N.of_nat (length (set_of (map (fun f => _kconv (fst f)) fields) [])).

(* __eq__ (other is a MultiDict): self.fields == other.fields *)
Definition eq (fields other : list field) : bool := list_eqb field_eqb fields other.

(* Python slice bound t[:index] / t[index:] for a sequence of length n *)
Definition slice_index (index : Z) (n : nat) : nat :=
  let n' := Z.of_nat n in
  let i := if (index <? 0)%Z then (index + n')%Z else index in
  let i := if (i <? 0)%Z then 0%Z else i in
  let i := if (n' <? i)%Z then n' else i in
  Z.to_nat i.

(* insert: fields[:index] + (item,) + fields[index:] *)
Definition insert (fields : list field) (index : Z) (key value : bytes) : list field :=
  let item := (key, value) in
  firstn (slice_index index (length fields)) fields ++ [item]
    ++ skipn (slice_index index (length fields)) fields.

(* add: insert(len(fields), key, value) *)
Definition add (fields : list field) (key value : bytes) : list field :=
  insert fields (Z.of_nat (length fields)) key value.

(* copy: Serializable.copy -> from_state(get_state()) -> Headers(fields): a new object, same tuples *)
Definition copy (fields : list field) : list field := fields.

(* ---------------------------------------------------------------- read views *)
(* Headers.items(multi=False) -> _MultiDict.items -> Mapping.items -> ItemsView:
   for key in self: yield (key, self[key]); None = a KeyError escaped *)
Fixpoint items_loop (fields : list field) (ks : list bytes) : option (list field) :=
  match ks with
  | [] => Some []
  | key :: ks' =>
      match getitem fields key with
      | None => None
      | Some v => match items_loop fields ks' with
                  | Some r => Some ((key, v) :: r)
                  | None => None
                  end
      end
  end.
Definition items (fields : list field) : option (list field) := items_loop fields (iter fields).
(* keys(multi=False) = (k for k, _ in self.items(False)); values likewise *)
Definition keys (fields : list field) : option (list bytes) := option_map (map fst) (items fields).
Definition values (fields : list field) : option (list bytes) := option_map (map snd) (items fields).
(* items(multi=True) = the fields; keys/values(multi=True) project them *)
Definition items_multi (fields : list field) : list field := fields.
Definition keys_multi (fields : list field) : list bytes := map fst (items_multi fields).
Definition values_multi (fields : list field) : list bytes := map snd (items_multi fields).

(* ---------------------------------------------------------------- operation histories *)
(* Two registers (header objects) so that copy and equality are observable inside a history.
   t selects the register an operation is applied to (false = register 0). *)
Inductive op :=
| OGetItem (t : bool) (key : bytes)
| OContains (t : bool) (key : bytes)
| OSetItem (t : bool) (key value : bytes)
| ODelItem (t : bool) (key : bytes)
| OGetAll (t : bool) (key : bytes)
| OSetAll (t : bool) (key : bytes) (values : list bytes)
| OAdd (t : bool) (key value : bytes)
| OInsert (t : bool) (index : Z) (key value : bytes)
| OIter (t : bool)
| OLen (t : bool)
| OEq                      (* reg0 == reg1 *)
| OCopy (t : bool).        (* reg[not t] := reg[t].copy() *)

Inductive result :=
| RNone
| RKeyError
| RVal (v : bytes)
| RVals (vs : list bytes)     (* get_all: values *)
| RKeys (ks : list bytes)     (* iteration: names as spelled *)
| RBool (b : bool)
| RLen (n : N)
| ROther.                  (* the implementation raised something else; never produced by the model *)

Definition state := (list field * list field)%type.
Definition reg (st : state) (t : bool) : list field := if t then snd st else fst st.
Definition set_reg (st : state) (t : bool) (fs : list field) : state :=
  if t then (fst st, fs) else (fs, snd st).

Definition step (st : state) (o : op) : result * state :=
  match o with
  | OGetItem t k =>
      (match getitem (reg st t) k with Some v => RVal v | None => RKeyError end, st)
  | OContains t k => (RBool (contains (reg st t) k), st)
  | OSetItem t k v => (RNone, set_reg st t (setitem (reg st t) k v))
  | ODelItem t k =>
      match delitem (reg st t) k with
      | Some fs => (RNone, set_reg st t fs)
      | None => (RKeyError, st)
      end
  | OGetAll t k => (RVals (get_all (reg st t) k), st)
  | OSetAll t k vs => (RNone, set_reg st t (set_all (reg st t) k vs))
  | OAdd t k v => (RNone, set_reg st t (add (reg st t) k v))
  | OInsert t i k v => (RNone, set_reg st t (insert (reg st t) i k v))
  | OIter t => (RKeys (iter (reg st t)), st)
  | OLen t => (RLen (len (reg st t)), st)
  | OEq => (RBool (eq (fst st) (snd st)), st)
  | OCopy t => (RNone, set_reg st (negb t) (copy (reg st t)))
  end.

(* the register whose fields tuple is observed after the operation *)
Definition target (o : op) : bool :=
  match o with
  | OGetItem t _ | OContains t _ | OSetItem t _ _ | ODelItem t _ | OGetAll t _ | OSetAll t _ _
  | OAdd t _ _ | OInsert t _ _ _ | OIter t | OLen t => t
  | OEq => false
  | OCopy t => negb t
  end.

Fixpoint run_ops (st : state) (ops : list op) : list (result * list field) * state :=
  match ops with
  | [] => ([], st)
  | o :: ops' =>
      let '(r, st') := step st o in
      let '(obs, st'') := run_ops st' ops' in
      ((r, reg st' (target o)) :: obs, st'')
  end.

(* ---------------------------------------------------------------- HTTP/1 serialisation *)
Definition CRLF : bytes := [x0d; x0a].
Definition COLON_SP : bytes := [x3a; x20].

(* Headers.__bytes__ *)
Definition headers_bytes (fields : list field) : bytes :=
  match fields with
  | [] => []
  | _ :: _ => join CRLF (map (fun field => join COLON_SP [fst field; snd field]) fields) ++ CRLF
  end.

(* ---------------------------------------------------------------- h11 line extraction *)
(* data.split(LF) *)
Fixpoint split_lf (s : bytes) : list bytes :=
  match s with
  | [] => [[]]
  | c :: s' =>
      if byte_eqb c x0a then [] :: split_lf s'
      else match split_lf s' with
           | p :: ps => (c :: p) :: ps
           | [] => [[c]]
           end
  end.

(* if line.endswith(CR): del line[-1] *)
Fixpoint strip_cr (line : bytes) : bytes :=
  match line with
  | [] => []
  | c :: l' => match l' with
               | [] => if byte_eqb c x0d then [] else [c]
               | _ :: _ => c :: strip_cr l'
               end
  end.

Definition is_blank (p : bytes) : bool :=
  match p with [] => true | [c] => byte_eqb c x0d | _ => false end.

(* pieces = data.split(LF); every piece but the last is followed by LF. The head ends at the first
   piece that is empty or a lone CR and is followed by LF (regex LF CR? LF, and the two special cases
   at offset 0); None = no blank line yet. *)
Fixpoint take_head (pieces : list bytes) : option (list bytes) :=
  match pieces with
  | [] => None
  | p :: ps =>
      match ps with
      | [] => None
      | _ :: _ =>
          if is_blank p then Some []
          else match take_head ps with
               | Some ls => Some (strip_cr p :: ls)
               | None => None
               end
      end
  end.

Definition maybe_extract_lines (data : bytes) : option (list bytes) := take_head (split_lf data).

(* ---------------------------------------------------------------- http1 _read_headers *)
(* bytes.strip(): ASCII whitespace = space, \t, \n, \r, \x0b, \x0c *)
Definition is_ws (c : byte) : bool :=
  byte_eqb c x20 || byte_eqb c x09 || byte_eqb c x0a || byte_eqb c x0d || byte_eqb c x0b || byte_eqb c x0c.
Fixpoint lstrip (s : bytes) : bytes :=
  match s with
  | [] => []
  | c :: s' => if is_ws c then lstrip s' else s
  end.
Definition rstrip (s : bytes) : bytes := rev (lstrip (rev s)).
Definition strip (s : bytes) : bytes := rstrip (lstrip s).

(* line.split(COLON, 1) when a colon is present; None = no colon (unpacking raises ValueError) *)
Fixpoint split_colon (s : bytes) : option (bytes * bytes) :=
  match s with
  | [] => None
  | c :: s' =>
      if byte_eqb c x3a then Some ([], s')
      else match split_colon s' with
           | Some (a, b) => Some (c :: a, b)
           | None => None
           end
  end.

Inductive rh_result :=
| RhOk (fs : list field)
| RhValueError               (* the documented error *)
| RhIndexError.              (* line[0] on an empty line *)

Definition CRLF_SP : bytes := [x0d; x0a; x20].

Fixpoint read_headers_loop (lines : list bytes) (ret : list field) : rh_result :=
  match lines with
  | [] => RhOk ret
  | line :: lines' =>
      match line with
      | [] => RhIndexError
      | c :: _ =>
          if byte_eqb c x20 || byte_eqb c x09 then
            match ret with
            | [] => RhValueError
            | _ :: _ =>
                let l := last ret ([], []) in
                read_headers_loop lines' (removelast ret ++ [(fst l, snd l ++ CRLF_SP ++ strip line)])
            end
          else
            match split_colon line with
            | None => RhValueError
            | Some (name, value) =>
                let value := strip value in
                match name with
                | [] => RhValueError
                | _ :: _ => read_headers_loop lines' (ret ++ [(name, value)])
                end
            end
      end
  end.

Definition _read_headers (lines : list bytes) : rh_result := read_headers_loop lines [].

(* bytes(headers) followed by the blank line, cut into lines by h11, parsed by _read_headers;
   None = h11 found no complete head *)
Definition read_back (fields : list field) : option rh_result :=
  match maybe_extract_lines (headers_bytes fields ++ CRLF) with
  | Some lines => Some (_read_headers lines)
  | None => None
  end.

(* valid header field for the HTTP/1 round trip *)
Definition valid_name (n : bytes) : bool :=
  match n with
  | [] => false
  | c :: _ => negb (byte_eqb c x20 || byte_eqb c x09)
              && forallb (fun b => negb (byte_eqb b x3a || byte_eqb b x0a)) n
  end.
Definition valid_value (v : bytes) : bool :=
  forallb (fun b => negb (byte_eqb b x0a)) v
  && match v with [] => true | c :: _ => negb (is_ws c) end
  && match rev v with [] => true | c :: _ => negb (is_ws c) end.
Definition valid_field (f : field) : bool := valid_name (fst f) && valid_value (snd f).
