(* Model/UpstreamAuth.v -- executable model for C24 (no proofs here).
   mitmproxy/addons/upstream_auth.py: parse_upstream_auth, UpstreamAuth.configure /
     http_connect_upstream / requestheaders (and, when c_fixed, http_connected + the tunnelled set
     of fixes/C24-tunnelled-plain-http.diff);
   mitmproxy/proxy/layers/http/_upstream_proxy.py: HttpUpstreamProxy.start_handshake (CONNECT head,
     http_connect_upstream hook) and receive_handshake_data (2xx opens the tunnel, anything else is an error);
   mitmproxy/proxy/layers/http/__init__.py: the destination rule of state_wait_for_request_headers,
     handle_connect_regular / handle_connect_upstream, HttpLayer.get_connection (reuse loop, context
     connection, the send_connect rule) -- i.e. which connection every request head is written to. *)
From Coq Require Import List Bool NArith.
From MV Require Import Base.Bytes.
Import ListNotations.
Open Scope N_scope.

(* ------------------------------------------------------------------ parse_upstream_auth *)
Definition b64_alphabet : bytes :=
  [x41;x42;x43;x44;x45;x46;x47;x48;x49;x4a;x4b;x4c;x4d;x4e;x4f;x50;x51;x52;x53;x54;x55;x56;x57;x58;x59;x5a;
   x61;x62;x63;x64;x65;x66;x67;x68;x69;x6a;x6b;x6c;x6d;x6e;x6f;x70;x71;x72;x73;x74;x75;x76;x77;x78;x79;x7a;
   x30;x31;x32;x33;x34;x35;x36;x37;x38;x39;x2b;x2f].
Definition b64char (n : N) : byte := nth (N.to_nat n) b64_alphabet x3d.

Fixpoint b64encode (s : bytes) : bytes :=
  match s with
  | [] => []
  | [a] => [b64char (bN a / 4); b64char ((bN a mod 4) * 16); x3d; x3d]
  | [a; b] => [b64char (bN a / 4); b64char ((bN a mod 4) * 16 + bN b / 16); b64char ((bN b mod 16) * 4); x3d]
  | a :: b :: c :: r =>
      b64char (bN a / 4) :: b64char ((bN a mod 4) * 16 + bN b / 16)
      :: b64char ((bN b mod 16) * 4 + bN c / 64) :: b64char (bN c mod 64) :: b64encode r
  end.

(* str.encode(utf8), strict: None = UnicodeEncodeError (lone surrogate); code points above 10FFFF cannot occur in a str *)
Definition utf8_char (c : N) : option bytes :=
  if c <? 128 then Some [Nb c]
  else if c <? 2048 then Some [Nb (192 + c / 64); Nb (128 + c mod 64)]
  else if (55296 <=? c) && (c <=? 57343) then None
  else if c <? 65536 then Some [Nb (224 + c / 4096); Nb (128 + (c / 64) mod 64); Nb (128 + c mod 64)]
  else if c <? 1114112 then
    Some [Nb (240 + c / 262144); Nb (128 + (c / 4096) mod 64); Nb (128 + (c / 64) mod 64); Nb (128 + c mod 64)]
  else None.

Fixpoint utf8_encode (s : list N) : option bytes :=
  match s with
  | [] => Some []
  | c :: r => match utf8_char c, utf8_encode r with
              | Some a, Some b => Some (a ++ b)
              | _, _ => None
              end
  end.

(* re.compile(".+:").search(auth) is not None: some colon directly preceded by a character other than LF *)
Fixpoint has_dotplus_colon (s : list N) : bool :=
  match s with
  | a :: ((b :: _) as r) => ((b =? 58) && negb (a =? 10)) || has_dotplus_colon r
  | _ => false
  end.

Inductive parse_result := POk (v : bytes) | POptionsError | PUnicodeError.

Definition basic_prefix : bytes := [x42;x61;x73;x69;x63;x20].     (* Basic + space *)

Definition parse_upstream_auth (auth : list N) : parse_result :=
  if negb (has_dotplus_colon auth) then POptionsError
  else match utf8_encode auth with
       | None => PUnicodeError
       | Some b => POk (basic_prefix ++ b64encode b)
       end.

(* UpstreamAuth.configure after an update of the option upstream_auth: the value of self.auth afterwards, given the
   value before (None when the option is None; when parse_upstream_auth raises, the option update is rolled back
   and self.auth keeps its value) *)
Definition configure (old : option bytes) (opt : option (list N)) : option bytes :=
  match opt with
  | None => None
  | Some s => match parse_upstream_auth s with POk v => Some v | _ => old end
  end.

(* ------------------------------------------------------------------ Headers.__setitem__ (MultiDict.set_all key [value]) *)
Definition field := (bytes * bytes)%type.

Definition name_eqb (a b : bytes) : bool := bytes_eqb (lower a) (lower b).

Fixpoint set_all1 (key value : bytes) (fs : list field) (pending : bool) : list field :=
  match fs with
  | [] => if pending then [(key, value)] else []
  | (k, v) :: r =>
      if name_eqb k key
      then (if pending then (k, value) :: set_all1 key value r false else set_all1 key value r false)
      else (k, v) :: set_all1 key value r pending
  end.
Definition set_item (key value : bytes) (fs : list field) : list field := set_all1 key value fs true.

Definition PA : bytes := [x50;x72;x6f;x78;x79;x2d;x41;x75;x74;x68;x6f;x72;x69;x7a;x61;x74;x69;x6f;x6e].
Definition AZ : bytes := [x41;x75;x74;x68;x6f;x72;x69;x7a;x61;x74;x69;x6f;x6e].
Definition HOST : bytes := [x48;x6f;x73;x74].

(* ------------------------------------------------------------------ configuration *)
Definition addr := (bytes * N)%type.
Definition addr_eqb (a b : addr) : bool := bytes_eqb (fst a) (fst b) && (snd a =? snd b).

(* client_conn.proxy_mode, with what the mode layer knows about the destination *)
Inductive pmode :=
| PRegular
| PUpstream (proxy : addr)                 (* upstream:http(s)://proxy *)
| PReverse (target : addr) (tls : bool)    (* reverse:http(s)://target *)
| PTransparent (dst : addr) (tls : bool)   (* original destination; tls = the client starts with TLS *)
| PSocks5 (dst : addr) (tls : bool).

Definition is_upstream (p : pmode) : bool := match p with PUpstream _ => true | _ => false end.
Definition is_reverse (p : pmode) : bool := match p with PReverse _ _ => true | _ => false end.

Record config := {
  c_auth : option bytes;        (* UpstreamAuth.auth at the time a hook runs (wstep takes it from ws_auth) *)
  c_send_host : bool;           (* option http_connect_send_host_header *)
  c_eager : bool;               (* option connection_strategy == eager *)
  c_fixed : bool                (* tree has fixes/C24-tunnelled-plain-http.diff *)
}.

(* ------------------------------------------------------------------ the addon hooks *)
Definition truthy (a : option bytes) : option bytes :=
  match a with Some (x :: r) => Some (x :: r) | _ => None end.

Definition http_connect_upstream (cfg : config) (hs : list field) : list field :=
  match truthy cfg.(c_auth) with
  | Some a => set_item PA a hs
  | None => hs
  end.

(* in_set: f.client_conn in self.tunnelled (only consulted by the repaired code) *)
Definition requestheaders (cfg : config) (pm : pmode) (https in_set : bool) (hs : list field) : list field :=
  match truthy cfg.(c_auth) with
  | Some a =>
      if is_upstream pm && negb https && negb (cfg.(c_fixed) && in_set) then set_item PA a hs
      else if is_reverse pm then set_item AZ a hs
      else hs
  | None => hs
  end.

(* ------------------------------------------------------------------ HttpLayer and its server connections *)
Inductive hmode := HRegular | HUpstream | HTransparent.
Definition is_hupstream (m : hmode) : bool := match m with HUpstream => true | _ => false end.

Record sconn := {
  sc_ord : N;          (* ordinal of the TCP connection (order of OpenConnection) *)
  sc_addr : addr;      (* Server.address *)
  sc_tls : bool;       (* Server.tls *)
  sc_via : bool;       (* Server.via is set *)
  sc_connect : bool;   (* established through HttpUpstreamProxy with send_connect *)
  sc_alive : bool      (* Server.connected *)
}.

Record hlayer := {
  hl_mode : hmode;
  hl_ctx : option (addr * bool);   (* context.server.address / .tls when known (transparent HTTPMode) *)
  hl_via : bool;                   (* context.server.via is set *)
  hl_conns : list sconn            (* server side of HttpLayer.connections, in insertion order;
                                      an opened, still unused context.server is kept here too *)
}.

Inductive wkind := WConnect | WRequest.
Record write := {
  w_pm : pmode;          (* mode of the client connection the request belongs to *)
  w_ord : N;
  w_hop : addr;          (* the TCP peer *)
  w_via : bool;          (* the TCP peer is the upstream proxy *)
  w_tunnelled : bool;    (* written after that proxy accepted a CONNECT, i.e. delivered to the CONNECT target *)
  w_kind : wkind;
  w_fields : list field
}.

(* GetHttpConnection.connection_spec_matches *)
Definition spec_matches (a : addr) (tls via : bool) (c : sconn) : bool :=
  addr_eqb a c.(sc_addr) && Bool.eqb tls c.(sc_tls) && Bool.eqb via c.(sc_via).

(* the reuse loop of get_connection (no connection is waiting or failed in this model: one request at a time,
   OpenConnection succeeds); a half-closed match is skipped *)
Fixpoint find_reusable (a : addr) (tls via : bool) (cs : list sconn) : option sconn :=
  match cs with
  | [] => None
  | c :: r => if spec_matches a tls via c && c.(sc_alive) then Some c else find_reusable a tls via r
  end.

(* We always send a CONNECT request, except for plaintext absolute-form HTTP requests in upstream mode. *)
Definition send_connect (m : hmode) (tls : bool) : bool := tls || negb (is_hupstream m).

Definition proxy_addr (pm : pmode) : addr := match pm with PUpstream p => p | _ => ([], 0) end.

Definition hop_of (pm : pmode) (c : sconn) : addr := if c.(sc_via) then proxy_addr pm else c.(sc_addr).

Definition mk_write (pm : pmode) (c : sconn) (tunnelled : bool) (k : wkind) (fs : list field) : write :=
  {| w_pm := pm; w_ord := c.(sc_ord); w_hop := hop_of pm c; w_via := c.(sc_via); w_tunnelled := tunnelled;
     w_kind := k; w_fields := fs |}.

Definition authority (a : addr) : bytes := fst a ++ [x3a] ++ dec_of_N (snd a).

(* HttpUpstreamProxy.start_handshake: the head of the CONNECT request (ASCII, non-IPv6 host names) *)
Definition connect_head (cfg : config) (a : addr) : list field :=
  http_connect_upstream cfg (if cfg.(c_send_host) then [(HOST, authority a)] else []).

(* ------------------------------------------------------------------ one client connection *)
Record cstate := {
  cs_pm : pmode;
  cs_alive : bool;        (* the client connection is still served *)
  cs_next : N;            (* next server connection ordinal *)
  cs_tunnel : bool;       (* a CONNECT from this client was accepted: everything that follows is tunnelled *)
  cs_layer : hlayer       (* the HttpLayer that reads the client requests now *)
}.

Inductive event :=
| EReq (tgt : option (bool * addr))   (* absolute-form target (https?, address), None for origin-form *)
       (hosthdr : option addr)        (* parsed Host header (port defaulted to 80) *)
       (hs : list field)              (* header fields as sent by the client *)
       (proxy_ok : bool)              (* answer of the upstream proxy if a CONNECT is sent to it now: 2xx or not *)
| EConnect (a : addr) (inner_tls : bool)   (* CONNECT a; the client then speaks TLS (or plain HTTP) in the tunnel *)
           (proxy_ok : bool)               (* as in EReq *)
| ESrvClose (ord : N).                     (* the peer of server connection ord closes it *)

Definition ctx_conn (ord : N) (a : addr) (tls : bool) : sconn :=
  {| sc_ord := ord; sc_addr := a; sc_tls := tls; sc_via := false; sc_connect := false; sc_alive := true |}.

(* a transparent-HTTPMode HttpLayer below a mode layer or a CONNECT; DestinationKnown.finish_start /
   handle_connect_regular open context.server right away when connection_strategy is eager
   (handle_connect_upstream never does) *)
Definition transparent_layer (cfg : config) (a : addr) (tls via : bool) (next : N) : hlayer * N :=
  if cfg.(c_eager) && negb via
  then ({| hl_mode := HTransparent; hl_ctx := Some (a, tls); hl_via := via; hl_conns := [ctx_conn next a tls] |}, next + 1)
  else ({| hl_mode := HTransparent; hl_ctx := Some (a, tls); hl_via := via; hl_conns := [] |}, next).

Definition init_cstate (cfg : config) (pm : pmode) : cstate :=
  match pm with
  | PRegular =>
      {| cs_pm := pm; cs_alive := true; cs_next := 1; cs_tunnel := false;
         cs_layer := {| hl_mode := HRegular; hl_ctx := None; hl_via := false; hl_conns := [] |} |}
  | PUpstream _ =>
      {| cs_pm := pm; cs_alive := true; cs_next := 1; cs_tunnel := false;
         cs_layer := {| hl_mode := HUpstream; hl_ctx := None; hl_via := true; hl_conns := [] |} |}
  | PReverse a tls | PTransparent a tls | PSocks5 a tls =>
      let (l, n) := transparent_layer cfg a tls false 1 in
      {| cs_pm := pm; cs_alive := true; cs_next := n; cs_tunnel := false; cs_layer := l |}
  end.

(* destination of a request: state_wait_for_request_headers *)
Definition resolve (l : hlayer) (tgt : option (bool * addr)) (hosthdr : option addr) : option (bool * addr) :=
  match l.(hl_mode) with
  | HTransparent => match l.(hl_ctx) with Some (a, tls) => Some (tls, a) | None => None end
  | _ => match tgt with
         | Some t => Some t
         | None => match hosthdr with Some a => Some (false, a) | None => None end
         end
  end.

Definition dead (st : cstate) : cstate :=
  {| cs_pm := st.(cs_pm); cs_alive := false; cs_next := st.(cs_next); cs_tunnel := st.(cs_tunnel); cs_layer := st.(cs_layer) |}.

Definition with_conns (l : hlayer) (cs : list sconn) : hlayer :=
  {| hl_mode := l.(hl_mode); hl_ctx := l.(hl_ctx); hl_via := l.(hl_via); hl_conns := cs |}.

Definition kill (c : sconn) : sconn :=
  {| sc_ord := c.(sc_ord); sc_addr := c.(sc_addr); sc_tls := c.(sc_tls); sc_via := c.(sc_via);
     sc_connect := c.(sc_connect); sc_alive := false |}.

(* get_connection + SendHttp of the request head *)
Definition send_request (cfg : config) (st : cstate) (tls : bool) (a : addr) (hs : list field) (proxy_ok : bool)
  : cstate * list write :=
  let l := st.(cs_layer) in
  let pm := st.(cs_pm) in
  match find_reusable a tls l.(hl_via) l.(hl_conns) with
  | Some c => (st, [mk_write pm c c.(sc_connect) WRequest hs])
  | None =>
      let sc := l.(hl_via) && send_connect l.(hl_mode) tls in
      let c := {| sc_ord := st.(cs_next); sc_addr := a; sc_tls := tls; sc_via := l.(hl_via);
                  sc_connect := sc; sc_alive := true |} in
      if sc && negb proxy_ok
      then (* the proxy refuses the tunnel: nothing else is written, the client gets an error and is closed *)
        (dead {| cs_pm := pm; cs_alive := true; cs_next := st.(cs_next) + 1; cs_tunnel := st.(cs_tunnel);
                 cs_layer := with_conns l (l.(hl_conns) ++ [kill c]) |},
         [mk_write pm c false WConnect (connect_head cfg a)])
      else
        ({| cs_pm := pm; cs_alive := true; cs_next := st.(cs_next) + 1; cs_tunnel := st.(cs_tunnel);
            cs_layer := with_conns l (l.(hl_conns) ++ [c]) |},
         (if sc then [mk_write pm c false WConnect (connect_head cfg a)] else [])
         ++ [mk_write pm c sc WRequest hs])
  end.

(* one event on one client connection; in_set = this client is in UpstreamAuth.tunnelled;
   third component = the http_connected hook fired *)
Definition step (cfg : config) (in_set : bool) (st : cstate) (ev : event) : cstate * list write * bool :=
  if negb st.(cs_alive) then (st, [], false) else
  match ev with
  | EReq tgt hosthdr hs proxy_ok =>
      match resolve st.(cs_layer) tgt hosthdr with
      | None => (dead st, [], false)           (* no destination: error response, connection closed *)
      | Some (tls, a) =>
          let hs' := requestheaders cfg st.(cs_pm) tls in_set hs in
          let (st', ws) := send_request cfg st tls a hs' proxy_ok in
          (st', ws, false)
      end
  | EConnect a inner_tls proxy_ok =>
      match st.(cs_layer).(hl_mode) with
      | HTransparent => (dead st, [], false)   (* validate_request: CONNECT outside regular/upstream mode *)
      | HRegular =>
          let (l, n) := transparent_layer cfg a inner_tls false st.(cs_next) in
          ({| cs_pm := st.(cs_pm); cs_alive := true; cs_next := n; cs_tunnel := true; cs_layer := l |}, [], true)
      | HUpstream =>
          if cfg.(c_eager) && inner_tls
          then (* TlsConfig.tls_clienthello asks for server TLS first: ClientTLSLayer opens context.server, which
                  HttpUpstreamProxy (send_connect) turns into a CONNECT to the upstream proxy right away; if the proxy
                  refuses, TLS with the client is established anyway *)
            let c := {| sc_ord := st.(cs_next); sc_addr := a; sc_tls := true; sc_via := true; sc_connect := true;
                        sc_alive := proxy_ok |} in
            ({| cs_pm := st.(cs_pm); cs_alive := true; cs_next := st.(cs_next) + 1; cs_tunnel := true;
                cs_layer := {| hl_mode := HTransparent; hl_ctx := Some (a, true); hl_via := true; hl_conns := [c] |} |},
             [mk_write st.(cs_pm) c false WConnect (connect_head cfg a)], true)
          else
            ({| cs_pm := st.(cs_pm); cs_alive := true; cs_next := st.(cs_next); cs_tunnel := true;
                cs_layer := {| hl_mode := HTransparent; hl_ctx := Some (a, inner_tls); hl_via := true; hl_conns := [] |} |},
             [], true)
      end
  | ESrvClose ord =>
      let l := st.(cs_layer) in
      ({| cs_pm := st.(cs_pm); cs_alive := true; cs_next := st.(cs_next); cs_tunnel := st.(cs_tunnel);
          cs_layer := with_conns l (map (fun c => if c.(sc_ord) =? ord then kill c else c) l.(hl_conns)) |}, [], false)
  end.

(* ------------------------------------------------------------------ several client connections, one addon *)
Inductive wevent :=
| WOpen (c : N) (pm : pmode)        (* a client connects to a listener running in mode pm *)
| WEv (c : N) (ev : event)
| WConfigure (opt : option (list N))   (* the option upstream_auth is updated at run time: configure hook *)
| WClose (c : N).                   (* the client disconnects *)

Record wstate := {
  ws_auth : option bytes;           (* UpstreamAuth.auth *)
  ws_set : list N;                  (* UpstreamAuth.tunnelled (ids of client connections) *)
  ws_conns : list (N * cstate)
}.

Definition ws_init : wstate := {| ws_auth := None; ws_set := []; ws_conns := [] |}.

Definition with_auth (cfg : config) (a : option bytes) : config :=
  {| c_auth := a; c_send_host := cfg.(c_send_host); c_eager := cfg.(c_eager); c_fixed := cfg.(c_fixed) |}.

Fixpoint lookup (c : N) (l : list (N * cstate)) : option cstate :=
  match l with
  | [] => None
  | (k, v) :: r => if k =? c then Some v else lookup c r
  end.

Fixpoint update (c : N) (v : cstate) (l : list (N * cstate)) : list (N * cstate) :=
  match l with
  | [] => []
  | (k, w) :: r => if k =? c then (k, v) :: r else (k, w) :: update c v r
  end.

Definition mem (c : N) (s : list N) : bool := existsb (N.eqb c) s.

(* every write is tagged with the client connection it belongs to *)
Definition wstep (cfg : config) (ws : wstate) (e : wevent) : wstate * list (N * write) :=
  match e with
  | WOpen c pm =>
      match lookup c ws.(ws_conns) with
      | Some _ => (ws, [])          (* ids are not reused *)
      | None => ({| ws_auth := ws.(ws_auth); ws_set := ws.(ws_set);
                    ws_conns := ws.(ws_conns) ++ [(c, init_cstate cfg pm)] |}, [])
      end
  | WEv c ev =>
      match lookup c ws.(ws_conns) with
      | None => (ws, [])
      | Some st =>
          let '(st', wr, connected) := step (with_auth cfg ws.(ws_auth)) (mem c ws.(ws_set)) st ev in
          (* http_connected records the client whatever the option value is at that time *)
          ({| ws_auth := ws.(ws_auth);
              ws_set := if connected && cfg.(c_fixed) then c :: ws.(ws_set) else ws.(ws_set);
              ws_conns := update c st' ws.(ws_conns) |},
           map (fun w => (c, w)) wr)
      end
  | WConfigure opt =>
      ({| ws_auth := configure ws.(ws_auth) opt; ws_set := ws.(ws_set); ws_conns := ws.(ws_conns) |}, [])
  | WClose c =>
      match lookup c ws.(ws_conns) with
      | None => (ws, [])
      | Some st => ({| ws_auth := ws.(ws_auth); ws_set := ws.(ws_set); ws_conns := update c (dead st) ws.(ws_conns) |}, [])
      end
  end.

Fixpoint wrun (cfg : config) (ws : wstate) (es : list wevent) : wstate * list (N * write) :=
  match es with
  | [] => (ws, [])
  | e :: r => let (ws1, w1) := wstep cfg ws e in
              let (ws2, w2) := wrun cfg ws1 r in (ws2, w1 ++ w2)
  end.

(* per-event outputs, for the correspondence check *)
Fixpoint wtrace (cfg : config) (ws : wstate) (es : list wevent) : list (list (N * write)) :=
  match es with
  | [] => []
  | e :: r => let (ws1, w1) := wstep cfg ws e in w1 :: wtrace cfg ws1 r
  end.
