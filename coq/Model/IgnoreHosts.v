(* Model/IgnoreHosts.v -- C19.  Executable model of
     mitmproxy/addons/next_layer.py : NextLayer._get_host_header (the two regular expressions as
         explicit backtracking scanners, WITH fixes/C19-host-header-no-ows.diff applied: Host:\s* ),
         _get_client_hello (TCP), _ignore_connection, step 1 of _next_layer;
     mitmproxy/proxy/layer.py : NextLayer (events buffer, data_client/data_server, ask on DataReceived,
         replay of the buffered events into the chosen layer);
     mitmproxy/proxy/layers/tcp.py : TCPLayer(ignore=True) (start / relay_messages / done);
     the connection-state bookkeeping of proxy/server.py as played by harness/lib/sansio.py.
   Python str values (host names) are carried as their UTF-8/surrogateescape bytes.
   Library boundary: re.search(user_pattern, host, re.IGNORECASE) is the Section variable
   [re_search]; encodings.idna (inside ClientHello.sni) is [ace_ok] as in Model/ClientHello.v.
   TCP only (for UDP _get_host_header returns None and _get_client_hello needs QUIC crypto).
   Definitions only; proofs are in Proofs/IgnoreHosts*.v. *)
From Coq Require Import List Bool NArith.
From MV Require Import Base.Bytes Model.ClientHello.
Import ListNotations.
Local Open Scope N_scope.

Definition CR : byte := x0d.
Definition LF : byte := x0a.
Definition CRLF : bytes := [x0d; x0a].
Definition is_cr (b : byte) : bool := byte_eqb b CR.
Definition is_lf (b : byte) : bool := byte_eqb b LF.
(* \s of a bytes pattern: [ \t\n\r\f\v] *)
Definition is_ws (b : byte) : bool := (bN b =? 32) || ((9 <=? bN b) && (bN b <=? 13)).

(* case-insensitive (ASCII) prefix test; [p] is given in lower case *)
Fixpoint starts_with_ci (p s : bytes) : bool :=
  match p, s with
  | [], _ => true
  | x :: p', y :: s' => byte_eqb x (to_lower y) && starts_with_ci p' s'
  | _ :: _, [] => false
  end.
Definition HTTP_SLASH : bytes := [x68; x74; x74; x70; x2f].   (* http/ *)
Definition HOST_COLON : bytes := [x68; x6f; x73; x74; x3a].   (* host: *)

(* ---------- re.match(rb[A-Z]{3,}.+HTTP/, data_client, re.IGNORECASE) ---------- *)
Fixpoint until_lf (s : bytes) : bytes :=
  match s with
  | [] => []
  | c :: r => if is_lf c then [] else c :: until_lf r
  end.
Fixpoint find_http (s : bytes) : bool :=
  starts_with_ci HTTP_SLASH s || match s with _ :: r => find_http r | [] => false end.
Definition host_header_expected (d : bytes) : bool :=
  match d with
  | a :: b :: c :: r =>
      is_alpha a && is_alpha b && is_alpha c &&
      match until_lf r with _ :: r' => find_http r' | [] => false end
  | _ => false
  end.

(* ---------- re.search over data_client (IGNORECASE) of: CRLF, optionally [Host: ws-star group1 ws-star], CRLF;
   group1 is the lazy dot-plus ---------- *)
(* \s*\r\n matches at the start of s *)
Fixpoint tail_ok (s : bytes) : bool :=
  starts_with CRLF s || match s with c :: r => is_ws c && tail_ok r | [] => false end.
(* (.+?) followed by \s*\r\n : shortest non-empty LF-free prefix after which tail_ok holds *)
Fixpoint lazy_host (s : bytes) : option bytes :=
  match s with
  | [] => None
  | c :: r => if is_lf c then None
              else if tail_ok r then Some [c]
              else match lazy_host r with Some h => Some (c :: h) | None => None end
  end.
(* greedy \s* with backtracking, then the lazy group *)
Fixpoint ws_star_host (s : bytes) : option bytes :=
  match s with
  | [] => None
  | c :: r => if is_ws c then match ws_star_host r with Some h => Some h | None => lazy_host s end
              else lazy_host s
  end.
(* leftmost match; Some (Some h): group 1 = h; Some None: group 1 did not participate *)
Fixpoint search_host (s : bytes) : option (option bytes) :=
  match s with
  | [] => None
  | _ :: r =>
      if starts_with CRLF s then
        let after := skipn 2 s in
        match (if starts_with_ci HOST_COLON after then ws_star_host (skipn 5 after) else None) with
        | Some h => Some (Some h)
        | None => if starts_with CRLF after then Some None else search_host r
        end
      else search_host r
  end.

Inductive hh := HNeeds | HNone | HSome (h : bytes).
Definition get_host_header (data_client data_server : bytes) : hh :=
  if negb (is_nil data_server) then HNone else
  if host_header_expected data_client then
    match search_host data_client with
    | Some (Some h) => HSome h
    | Some None => HNone
    | None => HNeeds
    end
  else HNone.

(* ---------- str level: bytes.decode(utf-8, surrogateescape) and re.search of colon digits end-of-string ---------- *)
Definition is_cont (b : byte) : bool := (128 <=? bN b) && (bN b <=? 191).
Definition in_rng (lo hi : N) (b : byte) : bool := (lo <=? bN b) && (bN b <=? hi).
Definition esc (b : byte) : N := 56320 + bN b.          (* U+DC00 + byte *)
Definition lo6 (b : byte) : N := bN b mod 64.
Fixpoint utf8_decode (s : bytes) : list N :=
  match s with
  | [] => []
  | a :: r =>
    let n := bN a in
    if n <? 128 then n :: utf8_decode r else
    match r with
    | [] => [esc a]
    | b :: r2 =>
      if in_rng 194 223 a && is_cont b then ((n mod 32) * 64 + lo6 b) :: utf8_decode r2 else
      match r2 with
      | [] => esc a :: utf8_decode r
      | c :: r3 =>
        if in_rng 224 239 a
           && (if n =? 224 then in_rng 160 191 b else if n =? 237 then in_rng 128 159 b else is_cont b)
           && is_cont c
        then ((n mod 16) * 4096 + lo6 b * 64 + lo6 c) :: utf8_decode r3 else
        match r3 with
        | [] => esc a :: utf8_decode r
        | d :: r4 =>
          if in_rng 240 244 a
             && (if n =? 240 then in_rng 144 191 b else if n =? 244 then in_rng 128 143 b else is_cont b)
             && is_cont c && is_cont d
          then ((n mod 8) * 262144 + lo6 b * 4096 + lo6 c * 64 + lo6 d) :: utf8_decode r4
          else esc a :: utf8_decode r
        end
      end
    end
  end.

(* first code points of the runs of ten decimal digits (category Nd, Unicode 15.0 = CPython 3.12) *)
Definition nd_starts : list N :=
  [48; 1632; 1776; 1984; 2406; 2534; 2662; 2790; 2918; 3046; 3174; 3302; 3430; 3558; 3664; 3792; 3872;
   4160; 4240; 6112; 6160; 6470; 6608; 6784; 6800; 6992; 7088; 7232; 7248; 42528; 43216; 43264; 43472;
   43504; 43600; 44016; 65296; 66720; 68912; 69734; 69872; 69942; 70096; 70384; 70736; 70864; 71248;
   71360; 71472; 71904; 72016; 72784; 73040; 73120; 73552; 92768; 92864; 93008; 120782; 120792; 120802;
   120812; 120822; 123200; 123632; 124144; 125264; 130032].
Definition is_decimal (c : N) : bool := existsb (fun lo => (lo <=? c) && (c <? lo + 10)) nd_starts.

(* \d+$ matches exactly at the start of cps ($: at the end, or before a final LF) *)
Fixpoint digits_to_end (cps : list N) : bool :=
  match cps with
  | [] => false
  | c :: r => is_decimal c && (match r with [] => true | [10] => true | _ => false end || digits_to_end r)
  end.
Fixpoint search_port (cps : list N) : bool :=
  match cps with
  | [] => false
  | c :: r => ((c =? 58) && digits_to_end r) || search_port r
  end.
Definition has_port (s : bytes) : bool := search_port (utf8_decode s).

Definition COLON_ : byte := x3a.
Definition fmt_hp (host : bytes) (port : N) : bytes := host ++ COLON_ :: dec_of_N port.

(* ---------- _get_client_hello (TCP) ---------- *)
Inductive chr := CNeeds | CNone | CSome (h : hello).
Definition get_client_hello (data_client : bytes) : chr :=
  if starts_like_tls_record data_client then
    match parse_client_hello data_client with
    | Invalid => CNone          (* except ValueError: pass *)
    | Fuel => CNone             (* unreachable, Proofs/ClientHelloMain.parse_total *)
    | Incomplete => CNeeds
    | Hello h => CSome h
    end
  else CNone.

(* ---------- _ignore_connection ---------- *)
Record cfg (pat : Type) := {
  ignore_hosts : list pat;
  allow_hosts : list pat;
  wireguard : bool;                     (* isinstance(client.proxy_mode, WireGuardMode) *)
  peername : option (bytes * N);        (* context.server.peername *)
  address : option (bytes * N);         (* context.server.address *)
  client_sni : option bytes             (* context.client.sni *)
}.
Arguments ignore_hosts {pat}. Arguments allow_hosts {pat}. Arguments wireguard {pat}.
Arguments peername {pat}. Arguments address {pat}. Arguments client_sni {pat}.

Definition WG_DNS : bytes := [x31; x30; x2e; x30; x2e; x30; x2e; x35; x33].   (* 10.0.0.53 *)

Inductive names := NNeeds | Names (l : list bytes).
Inductive decision := NeedsMore | Decided (ignore : bool) (hostnames : list bytes).

(* ---------- layer.NextLayer + TCPLayer(ignore=True) + connection bookkeeping ---------- *)
(* the Start event has been delivered to NextLayer (buffered) before the first event below *)
Inductive ev := EData (from_client : bool) (d : bytes) | EClosed (from_client : bool) | EOpened (ok : bool).
Inductive cmd :=
| CAsk                                  (* NextLayerHook *)
| CIntercept                            (* the addon chose a layer other than TCPLayer(ignore) *)
| CSend (to_server : bool) (d : bytes)
| COpen                                 (* OpenConnection(server) *)
| CClose (server : bool)                (* CloseConnection *)
| CHalf (server : bool).                (* CloseTcpConnection(half_close=True) *)
Inductive phase := PUndecided | PWaitOpen | PRelay | PDone | POther.

Record st := {
  ph : phase;
  nl_events : list ev;        (* NextLayer.events without the leading Start *)
  tq : list ev;               (* TCPLayer._paused_event_queue while OpenConnection is outstanding *)
  c_rd : bool; c_wr : bool;   (* client.state: CAN_READ, CAN_WRITE *)
  s_rd : bool; s_wr : bool;   (* server.state *)
  s_started : bool            (* server.timestamp_start is not None *)
}.
Definition init (server_open : bool) : st :=
  {| ph := PUndecided; nl_events := []; tq := []; c_rd := true; c_wr := true;
     s_rd := server_open; s_wr := server_open; s_started := server_open |}.

Definition data_of (fc : bool) (l : list ev) : list bytes :=
  flat_map (fun e => match e with EData f d => if Bool.eqb f fc then [d] else [] | _ => [] end) l.

(* server.py / sansio: state change when an event arrives *)
Definition env_arrive (s : st) (e : ev) : st :=
  match e with
  | EClosed true => {| ph := ph s; nl_events := nl_events s; tq := tq s; c_rd := false; c_wr := c_wr s;
                       s_rd := s_rd s; s_wr := s_wr s; s_started := s_started s |}
  | EClosed false => {| ph := ph s; nl_events := nl_events s; tq := tq s; c_rd := c_rd s; c_wr := c_wr s;
                        s_rd := false; s_wr := s_wr s; s_started := s_started s |}
  | EOpened true => {| ph := ph s; nl_events := nl_events s; tq := tq s; c_rd := c_rd s; c_wr := c_wr s;
                       s_rd := true; s_wr := true; s_started := true |}
  | _ => s
  end.
(* ... and when a command is executed *)
Definition env_cmd (s : st) (c : cmd) : st :=
  match c with
  | CClose true => {| ph := ph s; nl_events := nl_events s; tq := tq s; c_rd := c_rd s; c_wr := c_wr s;
                      s_rd := false; s_wr := false; s_started := s_started s |}
  | CClose false => {| ph := ph s; nl_events := nl_events s; tq := tq s; c_rd := false; c_wr := false;
                       s_rd := s_rd s; s_wr := s_wr s; s_started := s_started s |}
  | CHalf true => {| ph := ph s; nl_events := nl_events s; tq := tq s; c_rd := c_rd s; c_wr := c_wr s;
                     s_rd := s_rd s; s_wr := false; s_started := s_started s |}
  | CHalf false => {| ph := ph s; nl_events := nl_events s; tq := tq s; c_rd := c_rd s; c_wr := false;
                      s_rd := s_rd s; s_wr := s_wr s; s_started := s_started s |}
  | _ => s
  end.

Definition set_ph (s : st) (p : phase) (nl q : list ev) : st :=
  {| ph := p; nl_events := nl; tq := q; c_rd := c_rd s; c_wr := c_wr s; s_rd := s_rd s; s_wr := s_wr s;
     s_started := s_started s |}.

(* TCPLayer.relay_messages on one event; connection states are those at the start of the step *)
Definition relay_one (s : st) (e : ev) : phase * list cmd :=
  match e with
  | EData fc d => (PRelay, [CSend fc d])
  | EClosed fc =>
      if negb (c_rd s || s_rd s)
      then (PDone, (if s_rd s || s_wr s then [CClose true] else [])
                   ++ (if c_rd s || c_wr s then [CClose false] else []))
      else (PRelay, [CHalf fc])
  | EOpened _ => (PRelay, [])
  end.
(* a list of events through relay_messages / done *)
Fixpoint relay_many (s : st) (p : phase) (l : list ev) : phase * list cmd :=
  match l with
  | [] => (p, [])
  | e :: tl =>
      match p with
      | PRelay => let '(p1, o1) := relay_one s e in
                  let '(p2, o2) := relay_many s p1 tl in (p2, o1 ++ o2)
      | _ => (p, [])
      end
  end.


Section Addon.
  Variable pat : Type.
  Variable re_search : pat -> bytes -> bool.
  Variable ace_ok : bytes -> bool.

  (* the hostnames list (reached only when one of the two options is set and the WireGuard DNS
     exemption does not apply) *)
  Definition hostnames_of (c : cfg pat) (data_client data_server : bytes) : names :=
    let l1 := match peername c with Some (h, p) => [fmt_hp h p] | None => [] end in
    match address c with
    | None => Names l1
    | Some (h, p) =>
      let l2 := l1 ++ [fmt_hp h p] in
      match get_host_header data_client data_server with
      | HNeeds => NNeeds
      | hd =>
        let l3 := match hd with
                  | HSome v => l2 ++ [if has_port v then v else fmt_hp v p]
                  | _ => l2 end in
        match get_client_hello data_client with
        | CNeeds => NNeeds
        | ch =>
          let l4 := match ch with
                    | CSome hl => match sni ace_ok hl with
                                  | Some n => if is_nil n then l3 else l3 ++ [fmt_hp n p]
                                  | None => l3 end
                    | _ => l3 end in
          Names (match client_sni c with
                 | Some n => if is_nil n then l4 else l4 ++ [fmt_hp n p]
                 | None => l4 end)
        end
      end
    end.

  Definition any_match (rexes : list pat) (hosts : list bytes) : bool :=
    existsb (fun h => existsb (fun r => re_search r h) rexes) hosts.

  Definition wg_exempt (c : cfg pat) : bool :=
    wireguard c && match address c with Some (h, p) => bytes_eqb h WG_DNS && (p =? 53) | None => false end.

  Definition ignore_connection (c : cfg pat) (data_client data_server : bytes) : decision :=
    if is_nil (ignore_hosts c) && is_nil (allow_hosts c) then Decided false [] else
    if wg_exempt c then Decided false [] else
    match hostnames_of c data_client data_server with
    | NNeeds => NeedsMore
    | Names hs =>
      if is_nil hs then Decided false hs else
      if negb (is_nil (allow_hosts c)) && negb (any_match (allow_hosts c) hs) then Decided true hs else
      if negb (is_nil (ignore_hosts c)) && any_match (ignore_hosts c) hs then Decided true hs else
      Decided false hs
    end.

  (* layer.NextLayer asking after every DataReceived: the first decision that is not NeedsMoreData *)
  Fixpoint first_decision (c : cfg pat) (buf : bytes) (segs : list bytes) : decision :=
    match segs with
    | [] => NeedsMore
    | s :: tl => match ignore_connection c (buf ++ s) [] with
                 | NeedsMore => first_decision c (buf ++ s) tl
                 | d => d
                 end
    end.

  (* the layer part of one step (state already updated by env_arrive) *)
  Definition layer_step (c : cfg pat) (s : st) (e : ev) : st * list cmd :=
    match ph s with
    | PUndecided =>
        let evs := nl_events s ++ [e] in
        match e with
        | EClosed true => (set_ph s PUndecided evs [], [CClose false])
        | EData _ _ =>
            match ignore_connection c (concat (data_of true evs)) (concat (data_of false evs)) with
            | NeedsMore => (set_ph s PUndecided evs [], [CAsk])
            | Decided false _ => (set_ph s POther [] [], [CAsk; CIntercept])
            | Decided true _ =>
                (* TCPLayer(ignore=True).start, then the buffered events *)
                if s_started s
                then let '(p, o) := relay_many s PRelay evs in (set_ph s p [] [], CAsk :: o)
                else (set_ph s PWaitOpen [] evs, [CAsk; COpen])
            end
        | _ => (set_ph s PUndecided evs [], [])
        end
    | PWaitOpen =>
        match e with
        | EOpened true => let '(p, o) := relay_many s PRelay (tq s) in (set_ph s p [] [], o)
        | EOpened false => (set_ph s PDone [] [], [CClose false])
        | _ => (set_ph s PWaitOpen [] (tq s ++ [e]), [])
        end
    | PRelay => let '(p, o) := relay_one s e in (set_ph s p [] [], o)
    | PDone => (s, [])
    | POther => (s, [])
    end.

  Definition step (c : cfg pat) (s : st) (e : ev) : st * list cmd :=
    let '(s1, o) := layer_step c (env_arrive s e) e in (fold_left env_cmd o s1, o).

  Fixpoint run (c : cfg pat) (s : st) (l : list ev) : st * list cmd :=
    match l with
    | [] => (s, [])
    | e :: tl => let '(s1, o1) := step c s e in
                 let '(s2, o2) := run c s1 tl in (s2, o1 ++ o2)
    end.

  Definition sent (to_server : bool) (l : list cmd) : list bytes :=
    flat_map (fun c => match c with CSend ts d => if Bool.eqb ts to_server then [d] else [] | _ => [] end) l.
End Addon.


Arguments hostnames_of {pat}. Arguments any_match {pat}. Arguments wg_exempt {pat}.
Arguments ignore_connection {pat}. Arguments first_decision {pat}.
Arguments layer_step {pat}. Arguments step {pat}. Arguments run {pat}.
