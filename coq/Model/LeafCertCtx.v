(* Model/LeafCertCtx.v -- what tls_start_client PRESENTS over a history of cert-store reloads:
   the leaf comes from the current CertStore (TlsConfig.configure -> CertStore.from_store -> from_files),
   the rest of the chain from the SSL.Context returned by net.tls.create_client_proxy_context, an
   lru_cache keyed by (method, versions, cipher_list, curve, chain_file PATH, alpn callback,
   request_client_cert, extra_chain_certs, dhparams OBJECT).  The context loads the chain file when
   it is created (load_verify_locations), not when the store is loaded.  One confdir, CA files with
   more than one certificate (chain_file = the CA file).  Definitions only.
   A chain content is identified by a number (which intermediate + root the file holds); 0 = none. *)
From Coq Require Import List Bool Arith NArith.
Import ListNotations.
Local Open Scope N_scope.

Inductive op :=
| Rewrite (content : N)     (* mitmproxy-ca.pem replaced in place *)
| Reload                    (* options update with certs/confdir/key_size/cert_passphrase: store re-read *)
| Handshake (settings : N)  (* tls_start_client; settings = identity of all other cache-key components *)
| Evict (i : nat).          (* the lru_cache drops an entry *)

Record st := mkSt {
  file : N;                         (* chain currently in the CA file *)
  store_ca : N;                     (* chain the current CertStore was loaded from (its default_ca issues leaves) *)
  store_dh : N;                     (* identity of the current store's dhparams object *)
  next_dh : N;                      (* objects allocated so far *)
  cache : list ((N * N) * N)        (* (settings, dhparams identity) -> chain the context loaded *)
}.

Definition init : st := mkSt 0 0 0 1 [].

Definition key_eqb (a b : N * N) : bool := (fst a =? fst b) && (snd a =? snd b).

Fixpoint lookup (k : N * N) (c : list ((N * N) * N)) : option N :=
  match c with
  | [] => None
  | (k', v) :: r => if key_eqb k' k then Some v else lookup k r
  end.

Fixpoint remove_nth {A} (i : nat) (l : list A) : list A :=
  match l, i with
  | [], _ => []
  | _ :: r, O => r
  | x :: r, S j => x :: remove_nth j r
  end.

(* one observation per handshake: was the file in step with the store, which CA issued the leaf,
   which chain the SSL.Context holds *)
Record shown := mkShown { synced : bool; leaf_ca : N; ctx_chain : N }.

(* dh_shared = true: load_dhparam is memoised per path, every reload of the confdir gets the same object *)
Definition step (dh_shared : bool) (s : st) (o : op) : st * option shown :=
  match o with
  | Rewrite c => (mkSt c (store_ca s) (store_dh s) (next_dh s) (cache s), None)
  | Reload =>
      if dh_shared then (mkSt (file s) (file s) 1 (next_dh s) (cache s), None)
      else (mkSt (file s) (file s) (next_dh s) (next_dh s + 1) (cache s), None)
  | Handshake k =>
      let key := (k, store_dh s) in
      match lookup key (cache s) with
      | Some c => (s, Some (mkShown (file s =? store_ca s) (store_ca s) c))
      | None => (mkSt (file s) (store_ca s) (store_dh s) (next_dh s) ((key, file s) :: cache s),
                 Some (mkShown (file s =? store_ca s) (store_ca s) (file s)))
      end
  | Evict i => (mkSt (file s) (store_ca s) (store_dh s) (next_dh s) (remove_nth i (cache s)), None)
  end.

Fixpoint run (dh_shared : bool) (s : st) (ops : list op) : list shown :=
  match ops with
  | [] => []
  | o :: r => let '(s', out) := step dh_shared s o in
              match out with Some x => x :: run dh_shared s' r | None => run dh_shared s' r end
  end.

(* the presented chain is complete iff the context holds the chain of the CA that issued the leaf *)
Definition complete (x : shown) : bool := ctx_chain x =? leaf_ca x.
