(* Model/Watchdog.v — TimeoutWatchdog (mitmproxy/proxy/server.py) as a timed automaton.
   The sleep argument and the post-sleep test come from Gen/WatchdogCond.v, regenerated from
   the source on every run; disarm(), register_activity() and the asyncio.Event wake-up
   semantics are modelled by hand.  Time is integer ticks. *)
From Coq Require Import ZArith List Bool.
From MV Require Import Gen.WatchdogCond.
Import ListNotations.
Local Open Scope Z_scope.

Inductive wpc :=
| AtWait               (* about to execute `await self.can_timeout.wait()` (also the initial state) *)
| Blocked              (* suspended in wait(): the event was clear *)
| Woken                (* wait() future resolved by set(); proceeds at its next step even if cleared again *)
| Sleeping (tgt : Z)   (* in asyncio.sleep, timer due at tgt *)
| Fired.               (* callback awaited, task returned *)

Record wd := mkWd {
  now : Z; la : Z; blocker : Z; can_timeout : bool; pc : wpc; timeout : Z
}.

Inductive wevent :=
| Advance (d : Z)   (* the clock moves on by d >= 0 *)
| Activity          (* register_activity() *)
| HookStart         (* disarm().__enter__ *)
| HookEnd           (* disarm().__exit__ *)
| WatcherStep.      (* the event loop runs the watcher task if it is runnable; a sleeping watcher is
                       runnable once now >= tgt, i.e. with arbitrary wake-up latency *)

Definition init (T t0 : Z) : wd := mkWd t0 t0 0 true AtWait T.

(* from `await can_timeout.wait()` onwards, until the task blocks *)
Definition from_wait (s : wd) (passed : bool) : wpc :=
  if passed then Sleeping (now s + Z.max 0 (sleep_delay (la s) (timeout s) (now s) (blocker s) (can_timeout s)))
  else Blocked.

Definition watcher_step (s : wd) : wd :=
  match pc s with
  | AtWait => mkWd (now s) (la s) (blocker s) (can_timeout s) (from_wait s (can_timeout s)) (timeout s)
  | Woken => mkWd (now s) (la s) (blocker s) (can_timeout s) (from_wait s true) (timeout s)
  | Sleeping tgt =>
    if tgt <=? now s then
      if fire_cond (la s) (timeout s) (now s) (blocker s) (can_timeout s)
      then mkWd (now s) (la s) (blocker s) (can_timeout s) Fired (timeout s)
      else mkWd (now s) (la s) (blocker s) (can_timeout s) (from_wait s (can_timeout s)) (timeout s)
    else s
  | Blocked => s
  | Fired => s
  end.

Definition step (s : wd) (e : wevent) : wd :=
  match e with
  | Advance d => mkWd (now s + Z.max 0 d) (la s) (blocker s) (can_timeout s) (pc s) (timeout s)
  | Activity => mkWd (now s) (now s) (blocker s) (can_timeout s) (pc s) (timeout s)
  | HookStart => mkWd (now s) (la s) (blocker s + 1) false (pc s) (timeout s)
  | HookEnd =>
    if blocker s <=? 0 then s   (* no hook to end: not a reachable call *)
    else if blocker s =? 1 then
      (* last hook: register_activity(); can_timeout.set() wakes a blocked waiter *)
      mkWd (now s) (now s) 0 true (match pc s with Blocked => Woken | p => p end) (timeout s)
    else mkWd (now s) (la s) (blocker s - 1) (can_timeout s) (pc s) (timeout s)
  | WatcherStep => watcher_step s
  end.

Fixpoint run (s : wd) (evs : list wevent) : wd :=
  match evs with [] => s | e :: evs' => run (step s e) evs' end.

(* states after each event, for the correspondence check *)
Fixpoint run_trace (s : wd) (evs : list wevent) : list wd :=
  match evs with [] => [] | e :: evs' => let s' := step s e in s' :: run_trace s' evs' end.

Definition is_fired (s : wd) : bool := match pc s with Fired => true | _ => false end.
