(* Model/ClientHello.v -- C13.  Executable model of
     mitmproxy/proxy/layers/tls.py : handshake_record_contents, get_client_hello,
         parse_client_hello, the three DTLS twins, and the recv_buffer accumulation of
         ClientTLSLayer.receive_handshake_data;
     mitmproxy/net/tls.py : starts_like_tls_record, starts_like_dtls_record
         (the DTLS predicate is modelled WITH fixes/C13-dtls-record-version.diff applied);
     mitmproxy/contrib/kaitaistruct/{tls,dtls}_client_hello.py : the kaitai readers, as a small
         reader-combinator program over the remaining bytes (KaitaiStream.read_u1/u2be/u4be/
         read_bytes raise EndOfStreamError, a subclass of EOFError, on a short read: [Eof]);
     mitmproxy/tls.py : ClientHello.cipher_suites / sni / alpn_protocols / extensions;
     mitmproxy/net/check.py : is_valid_host for bytes (idna codec fast and slow path, label regex,
         ipaddress.ip_address fall-back).
   Library boundary: encodings.idna.ToUnicode on a label that starts with the ACE prefix
   (punycode + nameprep round trip) is the function parameter [ace_ok].
   Definitions only; proofs are in Proofs/ClientHello*.v. *)
From Coq Require Import List Bool NArith Lia.
From MV Require Import Base.Bytes.
Import ListNotations.
Local Open Scope N_scope.

Definition blen (s : bytes) : N := N.of_nat (length s).
Definition take (n : N) (s : bytes) : bytes := firstn (N.to_nat n) s.
Definition drop (n : N) (s : bytes) : bytes := skipn (N.to_nat n) s.
Definition at_ (i : nat) (s : bytes) : byte := nth i s x00.
Definition is_nil {A} (l : list A) : bool := match l with [] => true | _ => false end.

(* ---------------- mitmproxy/net/tls.py ---------------- *)
Definition starts_like_tls_record (d : bytes) : bool :=
  (2 <? blen d) && (bN (at_ 0 d) =? 22) && (bN (at_ 1 d) =? 3) && (bN (at_ 2 d) <=? 3).

(* repaired: 0xFD <= d[2] <= 0xFF (was <= 0xFE, which rejected record version FEFF = DTLS 1.0) *)
Definition starts_like_dtls_record (d : bytes) : bool :=
  (2 <? blen d) && (bN (at_ 0 d) =? 22) && (bN (at_ 1 d) =? 254)
  && (253 <=? bN (at_ 2 d)) && (bN (at_ 2 d) <=? 255).

(* ---------------- record layer (generator) ---------------- *)
(* How the Python generator ends once its yielded items are exhausted. *)
Inductive gen_end := EndReturn | EndRaise | EndFuel.

Definition hdr_len (dtls : bool) : N := if dtls then 13 else 5.
Definition starts_like (dtls : bool) : bytes -> bool :=
  if dtls then starts_like_dtls_record else starts_like_tls_record.
Definition record_size (dtls : bool) (hdr : bytes) : N :=
  if dtls then u16be (at_ 11 hdr) (at_ 12 hdr) else u16be (at_ 3 hdr) (at_ 4 hdr).

(* d is data[offset:]; one iteration of the while loop per unit of fuel *)
Fixpoint hrc (dtls : bool) (fuel : nat) (d : bytes) : list bytes * gen_end :=
  match fuel with
  | O => ([], EndFuel)
  | S f =>
    if blen d <? hdr_len dtls then ([], EndReturn) else
    let hdr := take (hdr_len dtls) d in
    if negb (starts_like dtls hdr) then ([], EndRaise) else
    let size := record_size dtls hdr in
    if size =? 0 then ([], EndRaise) else
    let d' := drop (hdr_len dtls) d in
    if blen d' <? size then ([], EndReturn) else
    let r := hrc dtls f (drop size d') in
    (take size d' :: fst r, snd r)
  end.

Definition handshake_record_contents (data : bytes) := hrc false (S (length data)) data.
Definition dtls_handshake_record_contents (data : bytes) := hrc true (S (length data)) data.

(* ---------------- get_client_hello ---------------- *)
Inductive gch_result := GNone | GSome (b : bytes) | GRaise | GFuel.

Definition hs_hdr (dtls : bool) : N := if dtls then 12 else 4.
Definition hs_min (dtls : bool) : N := if dtls then 13 else 4.
Definition u24 (s : bytes) (i : nat) : N :=
  bN (at_ i s) * 65536 + bN (at_ (i + 1) s) * 256 + bN (at_ (i + 2) s).
Definition hs_size (dtls : bool) (ch : bytes) : N :=
  (if dtls then u24 ch 9 else u24 ch 1) + hs_hdr dtls.

(* the for loop over the generator; the generator's end is only reached when no record completed the hello *)
Fixpoint gch_loop (dtls : bool) (client_hello : bytes) (recs : list bytes) (e : gen_end) : gch_result :=
  match recs with
  | [] => match e with EndReturn => GNone | EndRaise => GRaise | EndFuel => GFuel end
  | d :: tl =>
    let ch := client_hello ++ d in
    if hs_min dtls <=? blen ch then
      let size := hs_size dtls ch in
      if size <=? blen ch then GSome (take size ch) else gch_loop dtls ch tl e
    else gch_loop dtls ch tl e
  end.

Definition get_client_hello_gen (dtls : bool) (data : bytes) : gch_result :=
  let r := hrc dtls (S (length data)) data in gch_loop dtls [] (fst r) (snd r).
Definition get_client_hello := get_client_hello_gen false.
Definition get_dtls_client_hello := get_client_hello_gen true.

(* ---------------- KaitaiStream ---------------- *)
Inductive rd (A : Type) := Ok (a : A) | Eof | NoFuel.
Arguments Ok {A} a. Arguments Eof {A}. Arguments NoFuel {A}.
Definition bind {A B} (m : rd A) (f : A -> rd B) : rd B :=
  match m with Ok a => f a | Eof => Eof | NoFuel => NoFuel end.
Notation "'let*' x := m 'in' f" := (bind m (fun x => f)) (at level 200, x pattern, m at level 100, f at level 200).

Definition reader (A : Type) := bytes -> rd (A * bytes).
Definition read_bytes (n : N) : reader bytes :=
  fun s => if blen s <? n then Eof else Ok (take n s, drop n s).
Definition read_u1 : reader N :=
  fun s => match s with a :: r => Ok (bN a, r) | _ => Eof end.
Definition read_u2be : reader N :=
  fun s => match s with a :: b :: r => Ok (u16be a b, r) | _ => Eof end.
Definition read_u4be : reader N :=
  fun s => match s with a :: b :: c :: d :: r => Ok (u16be a b * 65536 + u16be c d, r) | _ => Eof end.

(* while not io.is_eof(): items.append(Item(io)) *)
Section Many.
  Context {A : Type} (item : reader A).
  Fixpoint many (fuel : nat) (s : bytes) : rd (list A) :=
    match s with
    | [] => Ok []
    | _ :: _ =>
      match fuel with
      | O => NoFuel
      | S f => let* (a, r) := item s in let* l := many f r in Ok (a :: l)
      end
    end.
End Many.

(* for i in range(n): items.append(io.read_u2be()) *)
Fixpoint read_n_u2be (n : nat) (s : bytes) : rd (list N * bytes) :=
  match n with
  | O => Ok ([], s)
  | S k => let* (x, r) := read_u2be s in let* (l, r') := read_n_u2be k r in Ok (x :: l, r')
  end.

(* ---------------- kaitai TlsClientHello / DtlsClientHello ---------------- *)
Record server_name := { sn_type : N; sn_length : N; sn_host : bytes }.
Inductive ext_body :=
| BodySni (list_length : N) (server_names : list server_name)
| BodyAlpn (ext_len : N) (alpn_protocols : list bytes)
| BodyRaw.
Record extension := { ext_type : N; ext_len_ : N; ext_raw : bytes; ext_body_ : ext_body }.
Record hello := {
  h_major : N; h_minor : N; h_time : N; h_random : bytes; h_sid : bytes;
  h_cookie : option bytes; h_ciphers : list N; h_comp : bytes;
  h_exts : option (N * list extension) }.

Definition read_server_name : reader server_name := fun s =>
  let* (t, s) := read_u1 s in
  let* (l, s) := read_u2be s in
  let* (h, s) := read_bytes l s in
  Ok ({| sn_type := t; sn_length := l; sn_host := h |}, s).

Definition read_protocol : reader bytes := fun s =>
  let* (l, s) := read_u1 s in
  let* (name, s) := read_bytes l s in
  Ok (name, s).

(* Sni / Alpn are read from the sub-stream made of the raw extension body *)
Definition read_sni (raw : bytes) : rd ext_body :=
  let* (ll, s) := read_u2be raw in
  let* names := many read_server_name (length s) s in
  Ok (BodySni ll names).

Definition read_alpn (raw : bytes) : rd ext_body :=
  let* (el, s) := read_u2be raw in
  let* ps := many read_protocol (length s) s in
  Ok (BodyAlpn el ps).

Definition read_extension : reader extension := fun s =>
  let* (ty, s) := read_u2be s in
  let* (len, s) := read_u2be s in
  if ty =? 0 then
    let* (raw, s) := read_bytes len s in
    let* body := read_sni raw in
    Ok ({| ext_type := ty; ext_len_ := len; ext_raw := raw; ext_body_ := body |}, s)
  else if ty =? 16 then
    let* (raw, s) := read_bytes len s in
    let* body := read_alpn raw in
    Ok ({| ext_type := ty; ext_len_ := len; ext_raw := raw; ext_body_ := body |}, s)
  else
    let* (raw, s) := read_bytes len s in
    Ok ({| ext_type := ty; ext_len_ := len; ext_raw := raw; ext_body_ := BodyRaw |}, s).

Definition read_client_hello (dtls : bool) (s : bytes) : rd hello :=
  let* (major, s) := read_u1 s in
  let* (minor, s) := read_u1 s in
  let* (time, s) := read_u4be s in
  let* (random, s) := read_bytes 28 s in
  let* (sidlen, s) := read_u1 s in
  let* (sid, s) := read_bytes sidlen s in
  let* (cookie, s) :=
    (if dtls then let* (cl, s) := read_u1 s in let* (c, s) := read_bytes cl s in Ok (Some c, s)
     else Ok (None, s)) in
  let* (cslen, s) := read_u2be s in
  let* (ciphers, s) := read_n_u2be (N.to_nat (cslen / 2)) s in
  let* (cmlen, s) := read_u1 s in
  let* (comp, s) := read_bytes cmlen s in
  let* exts :=
    (if is_nil s then Ok None
     else let* (el, s) := read_u2be s in
          let* l := many read_extension (length s) s in Ok (Some (el, l))) in
  Ok {| h_major := major; h_minor := minor; h_time := time; h_random := random; h_sid := sid;
        h_cookie := cookie; h_ciphers := ciphers; h_comp := comp; h_exts := exts |}.

(* ---------------- parse_client_hello / dtls_parse_client_hello ---------------- *)
(* Incomplete = returns None; Invalid = raises ValueError; Fuel never happens (Proofs: totality). *)
Inductive presult := Incomplete | Hello (h : hello) | Invalid | Fuel.

Definition parse_client_hello_gen (dtls : bool) (data : bytes) : presult :=
  match get_client_hello_gen dtls data with
  | GRaise => Invalid
  | GFuel => Fuel
  | GNone => Incomplete
  | GSome ch =>
    if is_nil ch then Incomplete else
    match read_client_hello dtls (drop (hs_hdr dtls) ch) with
    | Ok h => Hello h
    | Eof => Invalid       (* except EOFError: raise ValueError *)
    | NoFuel => Fuel
    end
  end.
Definition parse_client_hello := parse_client_hello_gen false.
Definition dtls_parse_client_hello := parse_client_hello_gen true.

(* ClientTLSLayer.receive_handshake_data before client_hello_parsed: recv_buffer.extend(data), parse the
   whole buffer again; returns the index of the segment that decided and the decision. *)
Fixpoint receive_handshake_data (dtls : bool) (recv_buffer : bytes) (segs : list bytes) (i : N) : N * presult :=
  match segs with
  | [] => (i, Incomplete)
  | data :: tl =>
    let buf := recv_buffer ++ data in
    match parse_client_hello_gen dtls buf with
    | Incomplete => receive_handshake_data dtls buf tl (i + 1)
    | r => (i, r)
    end
  end.

(* ---------------- mitmproxy/net/check.py is_valid_host (bytes argument) ---------------- *)
Definition DOT : byte := x2e.
Definition COLON : byte := x3a.
Definition ACE : bytes := [x78; x6e; x2d; x2d].

Fixpoint split_on (sep : byte) (s : bytes) : list bytes :=
  match s with
  | [] => [[]]
  | c :: r =>
    if byte_eqb c sep then [] :: split_on sep r
    else match split_on sep r with h :: t => (c :: h) :: t | [] => [[c]] end
  end.

Fixpoint contains_sub (p s : bytes) : bool :=
  starts_with p s || match s with [] => false | _ :: r => contains_sub p r end.
Definition contains_byte (b : byte) (s : bytes) : bool := existsb (byte_eqb b) s.

Definition is_ascii_b (b : byte) : bool := bN b <? 128.
Definition drop_last_if_empty (labels : list bytes) : list bytes :=
  match rev labels with [] :: r => rev r | _ => labels end.

(* encodings.idna.ToUnicode(label) does not raise *)
Definition to_unicode_ok (ace_ok : bytes -> bool) (l : bytes) : bool :=
  if 1024 <? blen l then false
  else if negb (starts_with ACE l) then forallb is_ascii_b l
  else ace_ok l.

(* bytes.decode(idna) does not raise *)
Definition idna_decodes (ace_ok : bytes -> bool) (h : bytes) : bool :=
  if is_nil h then true
  else if negb (contains_sub ACE h) && forallb is_ascii_b h then true
  else forallb (to_unicode_ok ace_ok) (drop_last_if_empty (split_on DOT h)).

(* _label_valid = re.compile(rb [A-Z\d\-_]{1,63}$ , re.IGNORECASE).match : the dollar also matches before a
   final line feed *)
Definition label_char (b : byte) : bool :=
  is_alpha b || is_digit b || byte_eqb b x2d || byte_eqb b x5f.
Definition label_valid (l : bytes) : bool :=
  let body := match rev l with x0a :: r => rev r | _ => l end in
  (1 <=? blen body) && (blen body <=? 63) && forallb label_char body.

(* ipaddress.IPv4Address(str) / IPv6Address(str) do not raise (CPython 3.12) *)
Fixpoint dec_val (acc : N) (s : bytes) : N :=
  match s with [] => acc | c :: r => dec_val (acc * 10 + (bN c - 48)) r end.
Definition parse_octet_ok (o : bytes) : bool :=
  negb (is_nil o) && forallb is_digit o && (blen o <=? 3)
  && negb (negb (bytes_eqb o [x30]) && byte_eqb (at_ 0 o) x30)
  && (dec_val 0 o <=? 255).
Definition ipv4_ok (s : bytes) : bool :=
  negb (contains_byte x2f s) && negb (is_nil s)
  && let os := split_on DOT s in Nat.eqb (length os) 4 && forallb parse_octet_ok os.

Definition is_hex (b : byte) : bool :=
  is_digit b || ((65 <=? bN b) && (bN b <=? 70)) || ((97 <=? bN b) && (bN b <=? 102)).
Definition hextet_ok (h : bytes) : bool := negb (is_nil h) && forallb is_hex h && (blen h <=? 4).

Fixpoint index_of_empty (i : nat) (l : list bytes) : option nat :=
  match l with [] => None | x :: r => if is_nil x then Some i else index_of_empty (S i) r end.
Definition count_empty (l : list bytes) : nat := length (filter is_nil l).
Definition lastn {A} (n : nat) (l : list A) : list A := skipn (length l - n) l.

Definition v6_addr_ok (a : bytes) : bool :=
  if is_nil a then false else
  let parts := split_on COLON a in
  if Nat.ltb (length parts) 3 then false else
  let lastp := last parts [] in
  let parts' :=
    if contains_byte DOT lastp
    then (if ipv4_ok lastp then Some (removelast parts ++ [[x30]; [x30]]) else None)
    else Some parts in
  match parts' with
  | None => false
  | Some parts =>
    if Nat.ltb 9 (length parts) then false else
    let middle := removelast (tl parts) in
    if Nat.ltb 1 (count_empty middle) then false else
    match index_of_empty 1 middle with
    | Some skip_index =>
      let hi := skip_index in
      let lo := (length parts - skip_index - 1)%nat in
      let first_empty := is_nil (hd [] parts) in
      let last_empty := is_nil (last parts []) in
      let hi' := if first_empty then (hi - 1)%nat else hi in
      let lo' := if last_empty then (lo - 1)%nat else lo in
      if first_empty && negb (Nat.eqb hi' 0) then false
      else if last_empty && negb (Nat.eqb lo' 0) then false
      else if Nat.ltb 7 (hi' + lo') then false
      else forallb hextet_ok (firstn hi' parts) && forallb hextet_ok (lastn lo' parts)
    | None =>
      Nat.eqb (length parts) 8 && negb (is_nil (hd [] parts)) && negb (is_nil (last parts []))
      && forallb hextet_ok parts
    end
  end.

Fixpoint partition_on (sep : byte) (s : bytes) : bytes * option bytes :=
  match s with
  | [] => ([], None)
  | c :: r => if byte_eqb c sep then ([], Some r)
              else let p := partition_on sep r in (c :: fst p, snd p)
  end.

Definition ipv6_ok (s : bytes) : bool :=
  if contains_byte x2f s then false else
  match partition_on x25 s with
  | (addr, None) => v6_addr_ok addr
  | (addr, Some scope) => if is_nil scope || contains_byte x25 scope then false else v6_addr_ok addr
  end.

Definition ip_address_ok (s : bytes) : bool := ipv4_ok s || ipv6_ok s.

Definition ends_with (b : byte) (s : bytes) : bool :=
  match rev s with c :: _ => byte_eqb c b | [] => false end.

Definition is_valid_host (ace_ok : bytes -> bool) (host : bytes) : bool :=
  if negb (idna_decodes ace_ok host) then false
  else if 255 <? blen host then false
  else
    let hb := if negb (is_nil host) && ends_with DOT host then removelast host else host in
    if forallb label_valid (split_on DOT hb) then true
    else if negb (idna_decodes ace_ok hb) then false
    else ip_address_ok hb.

(* ---------------- mitmproxy/tls.py ClientHello properties ---------------- *)
Definition exts_of (h : hello) : list extension :=
  match h_exts h with Some (_, l) => l | None => [] end.

Definition cipher_suites (h : hello) : list N := h_ciphers h.

(* is_valid_sni_extension, returning the host name when it holds *)
Definition valid_sni_extension (ace_ok : bytes -> bool) (e : extension) : option bytes :=
  if ext_type e =? 0 then
    match ext_body_ e with
    | BodySni _ [n] =>
      if (sn_type n =? 0) && is_valid_host ace_ok (sn_host n) then Some (sn_host n) else None
    | _ => None
    end
  else None.

Fixpoint sni_loop (ace_ok : bytes -> bool) (l : list extension) : option bytes :=
  match l with
  | [] => None
  | e :: tl => match valid_sni_extension ace_ok e with Some h => Some h | None => sni_loop ace_ok tl end
  end.
Definition sni (ace_ok : bytes -> bool) (h : hello) : option bytes := sni_loop ace_ok (exts_of h).

Fixpoint alpn_loop (l : list extension) : list bytes :=
  match l with
  | [] => []
  | e :: tl =>
    if ext_type e =? 16 then
      match ext_body_ e with BodyAlpn _ ps => ps | _ => [] end
    else alpn_loop tl
  end.
Definition alpn_protocols (h : hello) : list bytes := alpn_loop (exts_of h).

Definition extensions (h : hello) : list (N * bytes) :=
  map (fun e => (ext_type e, ext_raw e)) (exts_of h).
