(* Model/LeafCertSpec.v -- a small executable specification of what a strict X.509 verifier
   (OpenSSL X509_verify_cert for the sslserver purpose with X509_V_FLAG_X509_STRICT and a host or
   IP reference identity) accepts for a leaf issued directly by a given CA.  Name matching is the
   OpenSSL v3nam algorithm (crypto/x509/v3_utl.c: equal_nocase, valid_star, wildcard_match,
   equal_wildcard, do_x509_check) specialised to X509_CHECK_FLAG_NO_PARTIAL_WILDCARDS, the flag
   Python ssl and mitmproxy set; NEVER_CHECK_SUBJECT is the parameter check_subject = false.
   Definitions only.  Signatures and ASN.1 are abstract identities (see Model/LeafCert.v). *)
From Coq Require Import String.
From Coq Require Import List Bool Arith NArith ZArith.
From MV Require Import Base.Bytes Model.LeafCert.
Import ListNotations.
Local Open Scope N_scope.

Inductive target := THost (h : bytes) | TIP (packed_addr : bytes).

Definition has_nul (s : bytes) : bool := contains_byte x00 s.

(* skip_prefix with _X509_CHECK_FLAG_DOT_SUBDOMAINS: a reference name that starts with a dot is
   compared with the equally long suffix of a longer pattern (the skipped part has no NUL) *)
Definition skip_prefix (pattern subject : bytes) : bytes :=
  if (1 <? length subject)%nat && bytes_eqb (firstn 1 subject) [x2e] then
    let extra := (length pattern - length subject)%nat in
    if has_nul (firstn extra pattern) then pattern else skipn extra pattern
  else pattern.

(* the comparison loop of equal_nocase: same length, no NUL in the pattern, equal up to ASCII case *)
Definition equal_plain (pattern subject : bytes) : bool :=
  negb (has_nul pattern) && bytes_eqb (lower pattern) (lower subject).

(* equal_nocase *)
Definition equal_nocase (pattern subject : bytes) : bool :=
  equal_plain (skip_prefix pattern subject) subject.

Definition starts_nocase (p s : bytes) : bool := starts_with (lower p) (lower s).
Definition ACE : bytes := B "xn--".

(* valid_star: scanning state = LABEL_START, LABEL_IDNA, LABEL_HYPHEN, dots, star position *)
Record vst := mkVst { st_start : bool; st_idna : bool; st_hyphen : bool; st_dots : N; st_star : option nat }.

Definition is_some {A} (o : option A) : bool := match o with Some _ => true | None => false end.

Fixpoint valid_star_loop (i : nat) (p : bytes) (s : vst) : option vst :=
  match p with
  | [] => Some s
  | c :: r =>
      if byte_eqb c x2a then
        let atstart := st_start s in
        let atend := match r with [] => true | d :: _ => byte_eqb d x2e end in
        if is_some (st_star s) || st_idna s || (0 <? st_dots s) then None
        else if negb atstart || negb atend then None          (* NO_PARTIAL_WILDCARDS *)
        else valid_star_loop (S i) r (mkVst false (st_idna s) (st_hyphen s) (st_dots s) (Some i))
      else if is_alpha c || is_digit c then
        valid_star_loop (S i) r
          (mkVst false (st_idna s || (st_start s && starts_nocase ACE p)) false (st_dots s) (st_star s))
      else if byte_eqb c x2e then
        if st_hyphen s || st_start s then None
        else valid_star_loop (S i) r (mkVst true false false (st_dots s + 1) (st_star s))
      else if byte_eqb c x2d then
        if st_start s then None
        else valid_star_loop (S i) r (mkVst (st_start s) (st_idna s) true (st_dots s) (st_star s))
      else None
  end.

Definition valid_star (p : bytes) : option nat :=
  match valid_star_loop 0 p (mkVst true false false 0 None) with
  | Some s => if st_start s || st_hyphen s || (st_dots s <? 2) then None else st_star s
  | None => None
  end.

Definition ldh_or_hyphen (b : byte) : bool := is_alpha b || is_digit b || byte_eqb b x2d.

(* wildcard_match(prefix, suffix, subject); no MULTI_LABEL_WILDCARDS; it is only reached for a
   subject without a leading dot, where skip_prefix is the identity *)
Definition wildcard_match (prefix suffix subject : bytes) : bool :=
  let pl := length prefix in
  let sl := length suffix in
  let n := length subject in
  if (n <? pl + sl)%nat then false
  else if negb (equal_plain prefix (firstn pl subject)) then false
  else
    let wc := firstn (n - sl - pl) (skipn pl subject) in
    if negb (equal_plain (skipn (n - sl) subject) suffix) then false
    else
      let full_label := (pl =? 0)%nat && bytes_eqb (firstn 1 suffix) [x2e] in
      if full_label && is_nil wc then false
      else if negb full_label && (4 <=? n)%nat && starts_nocase ACE subject then false
      else if bytes_eqb wc [x2a] then true
      else forallb ldh_or_hyphen wc.

(* equal_wildcard *)
Definition equal_wildcard (pattern subject : bytes) : bool :=
  let star := if (1 <? length subject)%nat && bytes_eqb (firstn 1 subject) [x2e] then None
              else valid_star pattern in
  match star with
  | None => equal_nocase pattern subject
  | Some i => wildcard_match (firstn i pattern) (skipn (S i) pattern) subject
  end.

Definition dns_names (l : list gname) : list bytes :=
  flat_map (fun g => match g with GDNS v => [v] | _ => [] end) l.
Definition ip_names (l : list gname) : list bytes :=
  flat_map (fun g => match g with GIP a => [packed a] | _ => [] end) l.

(* do_x509_check for a host name: dNSName SANs decide; the subject CN is consulted only when there
   is no dNSName SAN and the verifier has not set NEVER_CHECK_SUBJECT *)
Definition host_match (check_subject : bool) (c : cert) (h : bytes) : bool :=
  if has_nul h then false else
  let dns := dns_names (c_sans c) in
  if existsb (fun p => equal_wildcard p h) dns then true
  else if negb (is_nil dns) then false
  else if check_subject then match c_cn c with Some cn => equal_wildcard cn h | None => false end
  else false.

Definition ip_match (c : cert) (p : bytes) : bool := existsb (bytes_eqb p) (ip_names (c_sans c)).

Definition name_match (check_subject : bool) (c : cert) (t : target) : bool :=
  match t with THost h => host_match check_subject c h | TIP p => ip_match c p end.

Definition zle3 (a b c : Z) : bool := (a <=? b)%Z && (b <=? c)%Z.

(* the issuing CA is itself acceptable as a trust anchor (or chains to one) at time now *)
Definition ca_ok (trust : ca) (now : Z) : bool :=
  ca_is_ca trust && ca_server_ok trust && zle3 (ca_nb trust) now (ca_na trust).

(* X509_check_akid: a key identifier in the AKI must equal the SKI of the issuer when it has one *)
Definition akid_ok (trust : ca) (c : cert) : bool :=
  match ca_ski trust with Some s => bytes_eqb (c_aki c) s | None => true end.

Definition has_subject (c : cert) : bool := is_some (c_cn c) || is_some (c_org c).

(* chain [c] verifies to trust at time now for reference identity t *)
Definition x509_ok (check_subject : bool) (trust : ca) (c : cert) (now : Z) (t : target) : bool :=
  (c_issuer c =? ca_subject trust) && (c_signer c =? ca_key trust)      (* issued and signed by the CA *)
  && akid_ok trust c
  && ca_ok trust now
  && zle3 (c_nb c) now (c_na c)                                         (* validity *)
  && existsb (N.eqb EKU_SERVER_AUTH) (c_eku c)                          (* purpose sslserver *)
  && negb (is_nil (c_sans c))                                           (* strict: SAN not empty *)
  && (has_subject c || c_san_critical c)                                (* strict: empty subject -> critical SAN *)
  && name_match check_subject c t.
