(* Model/FlowBackup.v -- executable model of the backup / revert / modified / copy machinery of
   mitmproxy/flow.py (class Flow: get_state, set_state, from_state, copy, modified, backup, revert)
   and of coretypes/serializable.py Serializable.copy.  No proofs here.

   A flow object is (id, live content, live, _backup).  The live content Obj stands for everything a
   subclass keeps next to the id: request / response / websocket / messages objects, error, the two
   connections, intercepted, is_replay, marked, metadata, comment, timestamp_created.  The state
   dict that get_state returns is St id content backup, where content : C stands for all entries
   of the dict other than id and backup (including the entries the subclasses HTTPFlow, TCPFlow,
   UDPFlow, DNSFlow add) and backup is the saved state embedded by Flow.get_state.
   get_c / set_c / new_o are the content part of get_state / set_state (with the overrides of the
   subclasses) and of the fresh flow_cls(client, server) made by from_state; they are Section
   variables: every theorem quantifies over them (contract in Proofs/FlowBackup.v).

   modified is the REPAIRED function (fixes/C40-modified-ignores-embedded-backup.diff): the two
   dicts are compared without their backup entries.  copy is the REPAIRED function
   (fixes/C40-copy-backup-id.diff): the saved state of a copy carries the id of the copy.  The
   functions as they were before the repairs are modified_unrepaired and copy_unrepaired below;
   they are used only by the theorems that document the two defects.

   Not modelled: the asserts on version and type in Flow.set_state (class constants), the second
   copy of request and response in HTTPFlow.copy (a no-op on the state; the correspondence check
   compares the content of every copy with its original), _resume_event. *)
From Coq Require Import List Bool NArith.
Import ListNotations.
Open Scope N_scope.

Definition ident := N.

Section Flow.
  Variable Obj : Type.
  Variable C : Type.
  Variable get_c : Obj -> C.
  Variable set_c : C -> Obj -> Obj.
  Variable new_o : Obj.
  Variable C_eqb : C -> C -> bool.     (* Python == on the content entries *)

  Inductive state := St (sid : ident) (sc : C) (sb : option state).

  Definition sid (s : state) := match s with St i _ _ => i end.
  Definition sc (s : state) := match s with St _ c _ => c end.
  Definition sb (s : state) := match s with St _ _ b => b end.

  Record flow := Flow { fid : ident; fo : Obj; flive : bool; fbackup : option state }.

  (* Python == on two state dicts *)
  Fixpoint state_eqb (a b : state) : bool :=
    match a, b with
    | St i c x, St j d y =>
        N.eqb i j && C_eqb c d &&
        match x, y with
        | None, None => true
        | Some x1, Some y1 => state_eqb x1 y1
        | _, _ => false
        end
    end.

  (* self._backup != state inside Flow.get_state.  At that point the dict under construction has
     neither a backup entry nor the entries the subclass adds afterwards, while every saved state
     has a backup entry, and None != dict holds as well: the comparison is always True. *)
  Definition backup_ne_partial (b : option state) (i : ident) (o : Obj) : bool := true.

  (* Flow.get_state plus the subclass override; copy.deepcopy is the identity on values *)
  Definition get_state (f : flow) : state :=
    St (fid f) (get_c (fo f))
       (if backup_ne_partial (fbackup f) (fid f) (fo f) then fbackup f else None).

  (* Flow.set_state plus the subclass override: live is not part of the state *)
  Definition set_state (s : state) (f : flow) : flow :=
    match s with
    | St i c b => Flow i (set_c c (fo f)) (flive f) b
    end.

  (* Flow.__init__ as called by from_state (i is the uuid4 it draws, overwritten at once) *)
  Definition new_flow (i : ident) : flow := Flow i new_o false None.

  Definition from_state (i : ident) (s : state) : flow := set_state s (new_flow i).

  (* Serializable.copy: the state is a dict with an id entry, which is replaced by a fresh uuid4 *)
  Definition serializable_copy (nid : ident) (f : flow) : flow :=
    match get_state f with
    | St _ c b => from_state nid (St nid c b)
    end.

  (* Flow.copy, repaired (fixes/C40-copy-backup-id.diff): a saved state that was copied along gets
     the id of the copy *)
  Definition copy (nid : ident) (f : flow) : flow :=
    let g := serializable_copy nid f in
    Flow (fid g) (fo g) false
         (match fbackup g with
          | Some (St _ c b) => Some (St (fid g) c b)
          | None => None
          end).

  (* Flow.copy before that repair: the saved state keeps the id of the original *)
  Definition copy_unrepaired (nid : ident) (f : flow) : flow :=
    let g := serializable_copy nid f in
    Flow (fid g) (fo g) false (fbackup g).

  (* Flow.modified, repaired *)
  Definition modified (f : flow) : bool :=
    match fbackup f with
    | Some b => negb (N.eqb (sid b) (fid f) && C_eqb (sc b) (get_c (fo f)))
    | None => false
    end.

  (* Flow.modified before the repair: self._backup != self.get_state() *)
  Definition modified_unrepaired (f : flow) : bool :=
    match fbackup f with
    | Some b => negb (state_eqb b (get_state f))
    | None => false
    end.

  (* Flow.backup (the force argument is ignored by the code) *)
  Definition backup (f : flow) : flow :=
    match fbackup f with
    | Some _ => f
    | None => Flow (fid f) (fo f) (flive f) (Some (get_state f))
    end.

  (* Flow.revert *)
  Definition revert (f : flow) : flow :=
    match fbackup f with
    | Some b => let g := set_state b f in Flow (fid g) (fo g) (flive g) None
    | None => f
    end.

  (* ---- operations on one flow: e is any edit of the live content ---- *)
  Inductive fop :=
  | FEdit (e : Obj -> Obj)
  | FLive (b : bool)
  | FBackup
  | FRevert
  | FReload.            (* f.set_state(f.get_state()) *)

  Definition fstep (f : flow) (o : fop) : flow :=
    match o with
    | FEdit e => Flow (fid f) (e (fo f)) (flive f) (fbackup f)
    | FLive b => Flow (fid f) (fo f) b (fbackup f)
    | FBackup => backup f
    | FRevert => revert f
    | FReload => set_state (get_state f) f
    end.

  Definition frun (f : flow) (h : list fop) : flow := fold_left fstep h f.

  (* ---- a store of flows: copies are appended ---- *)
  Inductive op :=
  | Edit (i : nat) (e : Obj -> Obj)
  | SetLive (i : nat) (b : bool)
  | Backup (i : nat)
  | Revert (i : nat)
  | Reload (i : nat)
  | Copy (i : nat) (nid : ident).

  Fixpoint upd (i : nat) (g : flow -> flow) (s : list flow) : list flow :=
    match s, i with
    | [], _ => []
    | f :: r, 0%nat => g f :: r
    | f :: r, S k => f :: upd k g r
    end.

  Definition step (s : list flow) (o : op) : list flow :=
    match o with
    | Edit i e => upd i (fun f => fstep f (FEdit e)) s
    | SetLive i b => upd i (fun f => fstep f (FLive b)) s
    | Backup i => upd i (fun f => fstep f FBackup) s
    | Revert i => upd i (fun f => fstep f FRevert) s
    | Reload i => upd i (fun f => fstep f FReload) s
    | Copy i nid =>
        match nth_error s i with
        | Some f => s ++ [copy nid f]
        | None => s
        end
    end.

  Definition run (s : list flow) (h : list op) : list flow := fold_left step h s.
End Flow.

Arguments St {C} _ _ _.
Arguments sid {C} _.
Arguments sc {C} _.
Arguments sb {C} _.
Arguments Flow {Obj C} _ _ _ _.
Arguments fid {Obj C} _.
Arguments fo {Obj C} _.
Arguments flive {Obj C} _.
Arguments fbackup {Obj C} _.
Arguments FEdit {Obj} _.
Arguments FLive {Obj} _.
Arguments FBackup {Obj}.
Arguments FRevert {Obj}.
Arguments FReload {Obj}.
Arguments Edit {Obj} _ _.
Arguments SetLive {Obj} _ _.
Arguments Backup {Obj} _.
Arguments Revert {Obj} _.
Arguments Reload {Obj} _.
Arguments Copy {Obj} _ _.

(* ---- the instance the correspondence check runs: live content = content state = a token
   (an index into the table of distinct content dicts seen in the case, interned with Python ==),
   get_state / set_state are the identity lens on it ---- *)
Definition tget (o : N) : N := o.
Definition tset (c : N) (_ : N) : N := c.
Definition tflow := flow N N.
Definition tstep : list tflow -> op N -> list tflow := step N N tget tset 0.
Definition tmodified : tflow -> bool := modified N N tget N.eqb.
Definition tget_state : tflow -> state N := get_state N N tget.
