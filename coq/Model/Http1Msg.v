(* Model/Http1Msg.v -- HTTP/1 message heads of mitmproxy as records, and the executable model of
     mitmproxy/net/http/http1/read.py      _read_request_line, _read_response_line, _read_headers,
                                           read_request_head, read_response_head, raise_if_http_version_unknown
     mitmproxy/net/http/http1/assemble.py  _assemble_request_line, _assemble_response_line, bytes(Headers),
                                           assemble_request_head, assemble_response_head, assemble_body
     mitmproxy/http.py                     Headers.get / __contains__ (case-insensitive multidict, folded with comma-space)
   Heads are parsed from a list of lines (the h11 ReceiveBuffer line extraction belongs to C02).
   Executable definitions only; same names and branch order as the Python code.  Python ValueError is
   [ValueError]; any other exception the code can raise on these inputs is [OtherError].
   The url module (parse_authority with check=True, parse) is a parameter [url_lib]: the framing theorems
   quantify over it, the correspondence check instantiates it with the observed results. *)
From Coq Require Import List Bool NArith ZArith.
From MV Require Import Base.Bytes.
Import ListNotations.

Inductive res (A : Type) : Type := Ok (a : A) | ValueError | OtherError.
Arguments Ok {A} a.
Arguments ValueError {A}.
Arguments OtherError {A}.

Definition header := (bytes * bytes)%type.
Definition headers := list header.

(* mitmproxy.http.Request / Response without body: exactly the data attributes the head carries *)
Record request_head := mkReq {
  rq_host : bytes; rq_port : N;
  rq_method : bytes; rq_scheme : bytes; rq_authority : bytes; rq_path : bytes;
  rq_version : bytes; rq_headers : headers }.

Record response_head := mkResp {
  rs_version : bytes; rs_status : Z; rs_reason : bytes; rs_headers : headers }.

Inductive message := MReq (r : request_head) | MResp (r : response_head).
Definition msg_headers (m : message) : headers :=
  match m with MReq r => rq_headers r | MResp r => rs_headers r end.
Definition msg_version (m : message) : bytes :=
  match m with MReq r => rq_version r | MResp r => rs_version r end.

(* ---------- byte constants *)
Definition SP : byte := x20.
Definition HT : byte := x09.
Definition CR : byte := x0d.
Definition LF : byte := x0a.
Definition COLON : byte := x3a.
Definition SLASH : byte := x2f.
Definition CRLF : bytes := [x0d; x0a].

(* ---------- Python bytes primitives *)
(* bytes.isspace per byte: space, tab, LF, VT, FF, CR *)
Definition is_pyspace (b : byte) : bool :=
  match b with x09 | x0a | x0b | x0c | x0d | x20 => true | _ => false end.

Fixpoint lstrip (s : bytes) : bytes :=
  match s with
  | b :: s' => if is_pyspace b then lstrip s' else s
  | [] => []
  end.

Fixpoint rstrip (s : bytes) : bytes :=
  match s with
  | [] => []
  | b :: s' => match rstrip s' with
               | [] => if is_pyspace b then [] else [b]
               | r => b :: r
               end
  end.

(* bytes.strip() *)
Definition strip (s : bytes) : bytes := rstrip (lstrip s).

(* bytes.split(): maximal runs of non-whitespace bytes; [cur] is the current word, reversed *)
Fixpoint split_ws_go (s : bytes) (cur : bytes) : list bytes :=
  match s with
  | [] => match cur with [] => [] | _ => [rev cur] end
  | b :: s' =>
      if is_pyspace b
      then match cur with [] => split_ws_go s' [] | _ => rev cur :: split_ws_go s' [] end
      else split_ws_go s' (b :: cur)
  end.
Definition split_ws (s : bytes) : list bytes := split_ws_go s [].

(* first whitespace-delimited word of an lstripped string, and what follows it *)
Fixpoint take_word (s : bytes) : bytes * bytes :=
  match s with
  | [] => ([], [])
  | b :: s' => if is_pyspace b then ([], s) else let (w, r) := take_word s' in (b :: w, r)
  end.

(* bytes.split(None, 2): two words and the remainder with leading (not trailing) whitespace removed *)
Definition split_ws_2 (s : bytes) : list bytes :=
  let (w1, r1) := take_word (lstrip s) in
  match w1 with
  | [] => []
  | _ => let (w2, r2) := take_word (lstrip r1) in
         match w2 with
         | [] => [w1]
         | _ => match lstrip r2 with [] => [w1; w2] | r3 => [w1; w2; r3] end
         end
  end.

(* s.partition(sep) for a one-byte separator: (before, found, after) *)
Fixpoint partition1 (sep : byte) (s : bytes) : bytes * bool * bytes :=
  match s with
  | [] => ([], false, [])
  | b :: s' => if byte_eqb b sep then ([], true, s')
               else let '(a, f, r) := partition1 sep s' in (b :: a, f, r)
  end.

(* s.split(sep, 1) for a non-empty multi-byte separator: None when sep does not occur *)
Fixpoint split_once (sep s : bytes) : option (bytes * bytes) :=
  match s with
  | [] => match sep with [] => Some ([], []) | _ => None end
  | b :: s' => if starts_with sep s then Some ([], skipn (length sep) s)
               else match split_once sep s' with
                    | Some (a, r) => Some (b :: a, r)
                    | None => None
                    end
  end.

(* bytes.upper() *)
Definition to_upper (b : byte) : byte := if is_lower b then Nb (bN b - 32) else b.
Definition upper (s : bytes) : bytes := map to_upper s.

(* substring test: needle in hay *)
Fixpoint contains (needle hay : bytes) : bool :=
  match hay with
  | [] => match needle with [] => true | _ => false end
  | _ :: hay' => starts_with needle hay || contains needle hay'
  end.

(* int(word) for a whitespace-free ASCII byte string: optional sign, digits, single underscores between digits *)
Fixpoint int_digits (s : bytes) (acc : N) (prev_digit : bool) : option N :=
  match s with
  | [] => if prev_digit then Some acc else None
  | b :: s' =>
      if is_digit b then int_digits s' (acc * 10 + (bN b - 48))%N true
      else if byte_eqb b x5f then (if prev_digit then int_digits s' acc false else None)
      else None
  end.
Definition py_int (s : bytes) : option Z :=
  match s with
  | x2d :: s' => match int_digits s' 0%N false with Some n => Some (- Z.of_N n)%Z | None => None end
  | x2b :: s' => match int_digits s' 0%N false with Some n => Some (Z.of_N n) | None => None end
  | _ => match int_digits s 0%N false with Some n => Some (Z.of_N n) | None => None end
  end.

(* b"%d" % z *)
Definition dec_of_Z (z : Z) : bytes :=
  match z with
  | Z0 => [x30]
  | Zpos p => dec_of_N (Npos p)
  | Zneg p => x2d :: dec_of_N (Npos p)
  end.

(* b"%x" % n *)
Definition hex_digit (d : N) : byte := if (d <? 10)%N then Nb (48 + d) else Nb (87 + d).
Fixpoint hex_digits (fuel : nat) (n : N) (acc : bytes) : bytes :=
  match fuel with
  | O => acc
  | S f => let d := hex_digit (n mod 16) in
           if (n <? 16)%N then d :: acc else hex_digits f (n / 16)%N (d :: acc)
  end.
Definition hex_of_N (n : N) : bytes := hex_digits (S (N.to_nat (N.log2 n))) n [].

(* ---------- Headers (mitmproxy.http.Headers over coretypes.multidict) *)
(* get_all(name): values of all fields whose lower-cased name equals the lower-cased key *)
Definition get_all (key : bytes) (h : headers) : list bytes :=
  map snd (filter (fun f => bytes_eqb (lower (fst f)) (lower key)) h).

(* ", ".join(values) *)
Fixpoint join_comma_sp (vs : list bytes) : bytes :=
  match vs with
  | [] => []
  | [v] => v
  | v :: vs' => v ++ [x2c; x20] ++ join_comma_sp vs'
  end.

(* key in headers *)
Definition hcontains (key : bytes) (h : headers) : bool :=
  match get_all key h with [] => false | _ => true end.

(* headers.get(key): None when absent, else the values folded with comma-space
   (as the str obtained by decoding utf-8/surrogateescape: the same bytes) *)
Definition hget (key : bytes) (h : headers) : option bytes :=
  match get_all key h with [] => None | vs => Some (join_comma_sp vs) end.

(* headers.get(key, "") *)
Definition hget_default (key : bytes) (h : headers) : bytes :=
  match hget key h with Some v => v | None => [] end.

(* bytes(headers) *)
Fixpoint headers_bytes (h : headers) : bytes :=
  match h with
  | [] => []
  | (n, v) :: h' => n ++ [COLON; SP] ++ v ++ CRLF ++ headers_bytes h'
  end.

(* ---------- the url module as a parameter *)
Record url_lib := mkUrl {
  (* url.parse_authority(authority, check=True): None = ValueError; Some (host, port or None) *)
  parse_authority_check : bytes -> option (bytes * option N);
  (* url.parse(target) does not raise ValueError *)
  url_parse_ok : bytes -> bool }.

Definition default_port (scheme : bytes) : option N :=
  if bytes_eqb scheme [x68;x74;x74;x70] then Some 80%N
  else if bytes_eqb scheme [x68;x74;x74;x70;x73] then Some 443%N
  else None.

(* ---------- http1/read.py *)
(* re.match(rb"^HTTP/\d\.\d$", v): the dollar also matches before one final LF *)
Definition HTTP_SLASH : bytes := [x48; x54; x54; x50; x2f].
Definition version_shape (v : bytes) : bool :=
  match v with
  | [h; t1; t2; p; sl; a; dot; b] =>
      bytes_eqb [h; t1; t2; p; sl] HTTP_SLASH && is_digit a && byte_eqb dot x2e && is_digit b
  | _ => false
  end.
Definition http_version_known (v : bytes) : bool :=
  version_shape v
  || match v with
     | [h; t1; t2; p; sl; a; dot; b; nl] => version_shape [h; t1; t2; p; sl; a; dot; b] && byte_eqb nl LF
     | _ => false
     end.

Definition CONNECT : bytes := [x43;x4f;x4e;x4e;x45;x43;x54].
Definition HEAD : bytes := [x48;x45;x41;x44].
Definition STAR : bytes := [x2a].

(* (host, port, method, scheme, authority, path, http_version) *)
Definition _read_request_line (u : url_lib) (line : bytes)
  : res (bytes * N * bytes * bytes * bytes * bytes * bytes) :=
  match split_ws line with
  | [method; target; http_version] =>
      let after_target (x : bytes * N * bytes * bytes * bytes) :=
        let '(host, port, scheme, authority, path) := x in
        if http_version_known http_version
        then Ok (host, port, method, scheme, authority, path, http_version)
        else ValueError in
      if bytes_eqb target STAR || starts_with [SLASH] target then
        after_target ([], 0%N, [], [], target)
      else if bytes_eqb method CONNECT then
        match parse_authority_check u target with
        | None => ValueError
        | Some (host, None) => ValueError
        | Some (host, Some 0%N) => ValueError
        | Some (host, Some port) => after_target (host, port, [], target, [])
        end
      else
        match split_once [x3a; x2f; x2f] target with
        | None => ValueError
        | Some (scheme0, rest) =>
            let scheme := lower scheme0 in
            let '(authority, _, path_) := partition1 SLASH rest in
            let path := SLASH :: path_ in
            match parse_authority_check u authority with
            | None => ValueError
            | Some (host, port0) =>
                let port1 := match port0 with
                             | Some 0%N | None => default_port scheme
                             | Some p => Some p
                             end in
                match port1 with
                | None | Some 0%N => ValueError
                | Some port =>
                    if url_parse_ok u target
                    then after_target (host, port, scheme, authority, path)
                    else ValueError
                end
            end
        end
  | _ => ValueError
  end.

(* (http_version, status_code, reason) *)
Definition _read_response_line (line : bytes) : res (bytes * Z * bytes) :=
  let parts := split_ws_2 line in
  let parts := match parts with [a; b] => [a; b; []] | _ => parts end in
  match parts with
  | [http_version; status_code_str; reason] =>
      match py_int status_code_str with
      | None => ValueError
      | Some status_code =>
          if http_version_known http_version then Ok (http_version, status_code, reason) else ValueError
      end
  | _ => ValueError
  end.

(* the loop of _read_headers; [ret] is the list built so far, most recent field first *)
Fixpoint _read_headers_go (lines : list bytes) (ret : headers) : res headers :=
  match lines with
  | [] => Ok (rev ret)
  | line :: lines' =>
      match line with
      | [] => OtherError                     (* line[0] raises IndexError *)
      | c :: _ =>
          if byte_eqb c SP || byte_eqb c HT then
            match ret with
            | [] => ValueError
            | (n, v) :: ret' => _read_headers_go lines' ((n, v ++ [CR; LF; SP] ++ strip line) :: ret')
            end
          else
            match partition1 COLON line with
            | (_, false, _) => ValueError
            | (name, true, value) =>
                match name with
                | [] => ValueError
                | _ => _read_headers_go lines' ((name, strip value) :: ret)
                end
            end
      end
  end.
Definition _read_headers (lines : list bytes) : res headers := _read_headers_go lines [].

Definition read_request_head (u : url_lib) (lines : list bytes) : res request_head :=
  match lines with
  | [] => OtherError                         (* lines[0] raises IndexError *)
  | l0 :: rest =>
      match _read_request_line u l0 with
      | Ok (host, port, method, scheme, authority, path, http_version) =>
          match _read_headers rest with
          | Ok h => Ok (mkReq host port method scheme authority path http_version h)
          | ValueError => ValueError
          | OtherError => OtherError
          end
      | ValueError => ValueError
      | OtherError => OtherError
      end
  end.

Definition read_response_head (lines : list bytes) : res response_head :=
  match lines with
  | [] => OtherError
  | l0 :: rest =>
      match _read_response_line l0 with
      | Ok (http_version, status_code, reason) =>
          match _read_headers rest with
          | Ok h => Ok (mkResp http_version status_code reason h)
          | ValueError => ValueError
          | OtherError => OtherError
          end
      | ValueError => ValueError
      | OtherError => OtherError
      end
  end.

(* ---------- http1/assemble.py *)
Definition _assemble_request_line (r : request_head) : bytes :=
  if bytes_eqb (upper (rq_method r)) CONNECT then
    rq_method r ++ [SP] ++ rq_authority r ++ [SP] ++ rq_version r
  else match rq_authority r with
       | _ :: _ =>
           rq_method r ++ [SP] ++ rq_scheme r ++ [x3a; x2f; x2f] ++ rq_authority r ++ rq_path r ++ [SP] ++ rq_version r
       | [] => rq_method r ++ [SP] ++ rq_path r ++ [SP] ++ rq_version r
       end.

Definition assemble_request_head (r : request_head) : bytes :=
  _assemble_request_line r ++ CRLF ++ headers_bytes (rq_headers r) ++ CRLF.

Definition _assemble_response_line (r : response_head) : bytes :=
  rs_version r ++ [SP] ++ dec_of_Z (rs_status r) ++ [SP] ++ rs_reason r.

Definition assemble_response_head (r : response_head) : bytes :=
  _assemble_response_line r ++ CRLF ++ headers_bytes (rs_headers r) ++ CRLF.

Definition CHUNKED : bytes := [x63;x68;x75;x6e;x6b;x65;x64].
Definition TRANSFER_ENCODING : bytes := [x74;x72;x61;x6e;x73;x66;x65;x72;x2d;x65;x6e;x63;x6f;x64;x69;x6e;x67].
Definition CONTENT_LENGTH : bytes := [x63;x6f;x6e;x74;x65;x6e;x74;x2d;x6c;x65;x6e;x67;x74;x68].

(* the send-side framing decision shared by assemble_body, Http1Client.send and Http1Server.send:
   "chunked" in headers.get("transfer-encoding", "").lower() *)
Definition send_chunked (h : headers) : bool :=
  contains CHUNKED (lower (hget_default TRANSFER_ENCODING h)).

(* b"%x\r\n%s\r\n" % (len(chunk), chunk) *)
Definition emit_chunk (chunk : bytes) : bytes :=
  hex_of_N (N.of_nat (length chunk)) ++ CRLF ++ chunk ++ CRLF.

Definition LAST_CHUNK : bytes := [x30; x0d; x0a; x0d; x0a].

(* assemble_body(headers, body_chunks, trailers) joined; trailers = None or empty; a non-empty trailers value
   without chunked raises ValueError *)
Definition assemble_body (h : headers) (body_chunks : list bytes) (trailers : bytes) : res bytes :=
  if send_chunked h then
    Ok (concat (map (fun c => match c with [] => [] | _ => emit_chunk c end) body_chunks)
        ++ match trailers with
           | [] => LAST_CHUNK
           | _ => [x30; x0d; x0a] ++ trailers ++ CRLF
           end)
  else match trailers with
       | [] => Ok (concat body_chunks)
       | _ => ValueError
       end.
