(* Model/ServersUpdate.v -- hand model (DESIGN 3.2) of Servers.update in mitmproxy/addons/proxyserver.py:
   the registry Proxyserver.servers (spec -> server instance, a dict in insertion order) under a
   runtime update of the mode option.  Same branch order as the Python:
     new_instances: for each spec of the new mode list, the EXISTING instance if the spec is
       registered, else a new instance (whose start is attempted);
     stop every registered instance whose spec is not in new_instances;
     nothing to start and nothing to stop -> return True, registry untouched;
     registry := new_instances; stops are awaited, then starts; a start that fails leaves the new
       instance registered but not running (no listen addresses); the result is all_ok.
   Specs are numbers (the harness numbers the distinct mode specs of a history); instance identity is
   a creation counter.  Inputs that the model cannot know are parameters: [mk spec] is the server
   (transport, listen addresses) a new instance for that spec gets when its start succeeds, and
   [fails spec] says that its start raises (port busy).  stop() of a running instance succeeds; stop() of an
   instance whose start had failed raises (AsyncioServerInstance._stop asserts it has servers), which only makes
   the update report all_ok = False.
   Assumption: the specs of one mode list are pairwise distinct (Proxyserver.configure rejects
   duplicates of listen address, and equal specs have equal listen addresses).
   Executable definitions only. *)
From Coq Require Import NArith List Bool.
From MV Require Import Base.Bytes Model.SelfConnectBase.
Import ListNotations.
Open Scope N_scope.

Record inst := { i_id : N; i_running : bool; i_server : server }.

Definition registry := list (N * inst).

Fixpoint lookup (spec : N) (reg : registry) : option inst :=
  match reg with
  | [] => None
  | (s, i) :: r => if s =? spec then Some i else lookup spec r
  end.

Definition mem (spec : N) (l : list N) : bool := existsb (N.eqb spec) l.

Definition not_listening (sv : server) : server :=
  {| mode_transport := mode_transport sv; listen_addrs := [] |}.

(* the loop building new_instances; returns the new registry, the number of start tasks created and
   whether every start succeeded *)
Fixpoint build (reg : registry) (modes : list N) (next_id : N) (mk : N -> server) (fails : N -> bool)
  : registry * N * bool :=
  match modes with
  | [] => ([], next_id, true)
  | spec :: rest =>
      match lookup spec reg with
      | Some i =>
          let '(r, n, ok) := build reg rest next_id mk fails in ((spec, i) :: r, n, ok)
      | None =>
          let i := if fails spec
                   then {| i_id := next_id; i_running := false; i_server := not_listening (mk spec) |}
                   else {| i_id := next_id; i_running := true; i_server := mk spec |} in
          let '(r, n, ok) := build reg rest (next_id + 1) mk fails in
          ((spec, i) :: r, n, ok && negb (fails spec))
      end
  end.

Record result := { r_reg : registry; r_next : N; r_ok : bool; r_stopped : list inst }.

Definition update (reg : registry) (server_on : bool) (modes : list N) (next_id : N)
                  (mk : N -> server) (fails : N -> bool) : result :=
  let '(new_reg, n, ok) := if server_on then build reg modes next_id mk fails else ([], next_id, true) in
  let stopped := map snd (filter (fun p => negb (mem (fst p) (map fst new_reg))) reg) in
  if (n =? next_id) && (match stopped with [] => true | _ => false end)
  then {| r_reg := reg; r_next := next_id; r_ok := true; r_stopped := [] |}
  else {| r_reg := new_reg; r_next := n; r_ok := ok && forallb i_running stopped; r_stopped := stopped |}.

(* what server_connect iterates over: the instances of the registry with their CURRENT listen addresses *)
Definition servers_of (reg : registry) : list server := map (fun p => i_server (snd p)) reg.

(* a history of updates *)
Record step := { s_server_on : bool; s_modes : list N; s_mk : N -> server; s_fails : N -> bool }.

Fixpoint run_updates (reg : registry) (next_id : N) (h : list step) : list result :=
  match h with
  | [] => []
  | s :: r =>
      let res := update reg (s_server_on s) (s_modes s) next_id (s_mk s) (s_fails s) in
      res :: run_updates (r_reg res) (r_next res) r
  end.
