(* Model/RawRelay.v -- executable model of mitmproxy/proxy/layers/tcp.py (TCPLayer) and
   udp.py (UDPLayer), together with the two pieces of their environment that the code reads:
   (1) Layer.handle_event pausing/queueing (mitmproxy/proxy/layer.py, proved generically in C04):
       while a blocking command (flow hook, OpenConnection) is outstanding, arriving events are
       appended to _paused_event_queue and replayed in order after the reply;
   (2) the connection state bits maintained by mitmproxy/proxy/server.py: handle_connection clears
       CAN_READ (TCP) or sets CLOSED (UDP) BEFORE it delivers ConnectionClosed, close_connection
       clears CAN_WRITE for a half close and sets CLOSED for a full close as soon as the command
       is yielded, open_connection sets OPEN before it delivers OpenConnectionCompleted(None).
   Each generator function of the layer is split at its blocking yields: the part up to the yield
   and the continuation that runs when the reply arrives (field [wait] names the yield point).
   Model only, no proofs. *)
From Coq Require Import List Bool.
From MV Require Import Base.Bytes.
Import ListNotations.

Inductive proto := TCP | UDP.
Inductive side := Client | Server.
Definition other (s : side) : side := match s with Client => Server | Server => Client end.
Definition side_eqb (a b : side) : bool :=
  match a, b with Client, Client | Server, Server => true | _, _ => false end.
Definition side_of (from_client : bool) : side := if from_client then Client else Server.
Definition is_client (s : side) : bool := match s with Client => true | Server => false end.

(* ConnectionState flag: CLOSED = 0, CAN_READ = 1, CAN_WRITE = 2, OPEN = 3 *)
Record conn := mkConn { can_read : bool; can_write : bool }.
Definition OPEN := mkConn true true.
Definition CLOSED := mkConn false false.
Definition is_closed (c : conn) : bool := negb (can_read c || can_write c).

(* what an addon does while a flow hook is outstanding: optionally replace the content of
   flow.messages[-1] (honoured in the message hook only) and optionally flow.kill() *)
Record action := mkAction { edit : option bytes; kill : bool }.

Inductive event :=
| EStart
| EData (from : side) (d : bytes)            (* DataReceived(conn of from, d) *)
| EClosed (from : side)                      (* ConnectionClosed(conn of from) *)
| EInject (from_client : bool) (d : bytes)   (* Tcp/UdpMessageInjected(flow, Message(from_client, d)) *)
| EReply (a : action) (err : bool).          (* reply to the outstanding command: HookCompleted after the
                                                addon did [a], or OpenConnectionCompleted(err) *)

Inductive cmd :=
| StartHook | MessageHook | EndHook | ErrorHook
| OpenConnection
| SendData (to : side) (d : bytes)
| CloseConnection (c : side)                 (* commands.CloseConnection(c) *)
| HalfClose (c : side).                      (* commands.CloseTcpConnection(c, half_close=True) *)

Inductive phase := PStart | PRelay | PDone.  (* which method _handle_event is bound to *)
Inductive await :=
| NoWait
| WStartHook              (* start(): yield TcpStartHook *)
| WOpen                   (* start(): err = yield OpenConnection *)
| WErrorHook              (* start(): yield TcpErrorHook *)
| WMsgHook (to : side)    (* relay_messages(): yield TcpMessageHook; local send_to = to *)
| WEndHook.               (* relay_messages(): yield TcpEndHook *)

(* uni: the server connection is write-only once connected (state CAN_WRITE, e.g. the server side of a
   client-initiated unidirectional QUIC stream relayed by a TCPLayer); it never delivers ConnectionClosed *)
Record cfg := mkCfg { pr : proto; ignore : bool; server_open : bool; uni : bool }.
Definition connected_state (c : cfg) : conn :=
  match pr c with
  | TCP => if uni c then mkConn false true else mkConn true true
  | UDP => mkConn true true
  end.
(* flow.messages newest first: the head is flow.messages[-1] *)
Record flow := mkFlow { messages : list (bool * bytes); f_error : bool; f_live : bool }.

Record state := mkState {
  cf : cfg; ph : phase; wait : await; queue : list event;
  client : conn; server : conn; fl : flow; crashed : bool;
  eof_c : bool; eof_s : bool }.   (* TCPLayer._eof_handled contains True / False *)

Definition set_ph st v := mkState (cf st) v (wait st) (queue st) (client st) (server st) (fl st) (crashed st) (eof_c st) (eof_s st).
Definition set_wait st v := mkState (cf st) (ph st) v (queue st) (client st) (server st) (fl st) (crashed st) (eof_c st) (eof_s st).
Definition set_queue st v := mkState (cf st) (ph st) (wait st) v (client st) (server st) (fl st) (crashed st) (eof_c st) (eof_s st).
Definition set_client st v := mkState (cf st) (ph st) (wait st) (queue st) v (server st) (fl st) (crashed st) (eof_c st) (eof_s st).
Definition set_server st v := mkState (cf st) (ph st) (wait st) (queue st) (client st) v (fl st) (crashed st) (eof_c st) (eof_s st).
Definition set_fl st v := mkState (cf st) (ph st) (wait st) (queue st) (client st) (server st) v (crashed st) (eof_c st) (eof_s st).
Definition set_crashed st := mkState (cf st) (ph st) (wait st) (queue st) (client st) (server st) (fl st) true (eof_c st) (eof_s st).
Definition eof_of st (s : side) : bool := match s with Client => eof_c st | Server => eof_s st end.
Definition set_eof st (s : side) : state :=     (* self._eof_handled.add(from_client) *)
  match s with
  | Client => mkState (cf st) (ph st) (wait st) (queue st) (client st) (server st) (fl st) (crashed st) true (eof_s st)
  | Server => mkState (cf st) (ph st) (wait st) (queue st) (client st) (server st) (fl st) (crashed st) (eof_c st) true
  end.

Definition conn_of st (s : side) : conn := match s with Client => client st | Server => server st end.
Definition set_conn st (s : side) (c : conn) : state :=
  match s with Client => set_client st c | Server => set_server st c end.

Definition init (c : cfg) : state :=
  mkState c PStart NoWait [] OPEN (if server_open c then connected_state c else CLOSED)
          (mkFlow [] false true) false false false.

Definition has_flow st : bool := negb (ignore (cf st)).   (* if self.flow: *)

(* ---- environment: server.py executes each command as soon as it is yielded *)
Definition env_cmd (st : state) (c : cmd) : state :=
  match c with
  | CloseConnection s => set_conn st s CLOSED
  | HalfClose s =>
      let k := conn_of st s in
      if can_write k then set_conn st s (mkConn (can_read k) false) else st
  | _ => st
  end.
Definition yield (st : state) (c : cmd) : state * list cmd := (env_cmd st c, [c]).

(* ---- environment: state change made before an event is delivered *)
Definition env_arrive (st : state) (e : event) : state :=
  match e with
  | EClosed s =>
      match pr (cf st) with
      | TCP => set_conn st s (mkConn false (can_write (conn_of st s)))
      | UDP => set_conn st s CLOSED
      end
  | _ => st
  end.

(* ---- the addon *)
(* Flow.killable: live and error is not the KILLED error; kill() is the only source of that error and it
   clears live, so killable coincides with live *)
Definition killable (f : flow) : bool := f_live f.
Definition apply_kill (f : flow) (a : action) : flow :=
  if kill a && killable f then mkFlow (messages f) true false else f.
Definition apply_edit (f : flow) (a : action) : flow :=
  match edit a, messages f with
  | Some c, (fc, _) :: ms => mkFlow ((fc, c) :: ms) (f_error f) (f_live f)
  | _, _ => f
  end.
Definition last_content (f : flow) : bytes :=
  match messages f with (_, c) :: _ => c | [] => [] end.

(* ---- start() *)
(* TCPLayer only: a peer that cannot send is not waited for *)
Definition mark_unreadable st (s : side) : state :=
  match pr (cf st) with
  | TCP => if can_read (conn_of st s) then st else set_eof st s
  | UDP => st
  end.
Definition start_fail_close st : state * list cmd :=         (* yield CloseConnection(client); done *)
  let '(st1, o) := yield st (CloseConnection Client) in
  (set_ph (set_wait st1 NoWait) PDone, o).
Definition start_open_done st (err : bool) : state * list cmd :=   (* after err = yield OpenConnection *)
  if err then
    if has_flow st then
      (set_wait (set_fl st (mkFlow (messages (fl st)) true (f_live (fl st)))) WErrorHook, [ErrorHook])
    else start_fail_close st
  else (set_ph (set_wait (mark_unreadable st Server) NoWait) PRelay, []).
Definition start_open st : state * list cmd :=               (* after the start hook *)
  if negb (server_open (cf st))                               (* server.timestamp_start is None *)
  then (set_wait st WOpen, [OpenConnection])
  else (set_ph (set_wait st NoWait) PRelay, []).
Definition start st : state * list cmd :=
  let st := mark_unreadable st Client in
  let st := if server_open (cf st) then mark_unreadable st Server else st in   (* timestamp_start is not None *)
  if has_flow st then (set_wait st WStartHook, [StartHook]) else start_open st.

(* ---- relay_messages() *)
Definition relay_data st (from : side) (d : bytes) : state * list cmd :=
  let to := other from in
  if has_flow st then
    let f := fl st in
    (set_wait (set_fl st (mkFlow ((is_client from, d) :: messages f) (f_error f) (f_live f)))
              (WMsgHook to), [MessageHook])
  else (st, [SendData to d]).
Definition relay_data_hooked st (to : side) : state * list cmd :=  (* after the message hook *)
  (set_wait st NoWait, [SendData to (last_content (fl st))]).
Definition close_if_open (st : state) (s : side) : state * list cmd :=
  if negb (is_closed (conn_of st s)) then yield st (CloseConnection s) else (st, []).
Definition end_flow (st : state) : state * list cmd :=
  if has_flow st then (set_wait st WEndHook, [EndHook]) else (st, []).
Definition relay_closed st (from : side) : state * list cmd :=
  let to := other from in
  match pr (cf st) with
  | TCP =>
      (* the layer records which peers' closes it has HANDLED: connection.state is updated when the
         event arrives, possibly long before it is processed *)
      let st0 := set_eof st from in
      let all_done := eof_of st0 to in
      if all_done then
        let st1 := set_ph st0 PDone in
        let '(st2, o1) := close_if_open st1 Server in
        let '(st3, o2) := close_if_open st2 Client in
        let '(st4, o3) := end_flow st3 in
        (st4, o1 ++ o2 ++ o3)
      else yield st0 (HalfClose to)
  | UDP =>
      let st1 := set_ph st PDone in
      let '(st2, o1) := yield st1 (CloseConnection to) in
      let '(st3, o2) := end_flow st2 in
      (st3, o1 ++ o2)
  end.
Definition end_hooked st : state :=                           (* self.flow.live = False *)
  let f := fl st in set_wait (set_fl st (mkFlow (messages f) (f_error f) false)) NoWait.

(* ---- _handle_event dispatch for an event that is actually handled (layer not paused).
   expect(...) violations raise AssertionError: [crashed]. *)
Definition handle (st : state) (e : event) : state * list cmd :=
  match ph st, e with
  | PStart, EStart => start st
  | PRelay, EInject fc d => relay_data st (side_of fc) d
  | PRelay, EData from d => relay_data st from d
  | PRelay, EClosed from => relay_closed st from
  | PDone, EData _ _ | PDone, EClosed _ | PDone, EInject _ _ => (st, [])
  | _, _ => (set_crashed st, [])
  end.

(* ---- the generator continues after the reply to the outstanding command *)
Definition on_fl st (g : flow -> flow) : state := set_fl st (g (fl st)).
Definition resume (st : state) (a : action) (err : bool) : state * list cmd :=
  match wait st with
  | NoWait => (st, [])
  | WStartHook => start_open (on_fl st (fun f => apply_kill f a))
  | WOpen => start_open_done (if err then st else set_server st (connected_state (cf st))) err
  | WErrorHook => start_fail_close (on_fl st (fun f => apply_kill f a))
  | WMsgHook to => relay_data_hooked (on_fl st (fun f => apply_kill (apply_edit f a) a)) to
  | WEndHook => (end_hooked (on_fl st (fun f => apply_kill f a)), [])
  end.

Definition waiting st : bool := match wait st with NoWait => false | _ => true end.

(* Layer.__continue: replay queued events until the queue is empty or the layer pauses again *)
Fixpoint drain (st : state) (q : list event) : state * list cmd :=
  match q with
  | [] => (set_queue st [], [])
  | e :: q' =>
      let '(st1, o1) := handle st e in
      if waiting st1 || crashed st1 then (set_queue st1 q', o1)
      else let '(st2, o2) := drain st1 q' in (st2, o1 ++ o2)
  end.

(* an addon policy may rewrite the action depending on the recorded messages *)
Definition policy := list (bool * bytes) -> action -> action.
Definition pol_id : policy := fun _ a => a.

(* Layer.handle_event *)
Definition arrive (pol : policy) (st : state) (e : event) : state * list cmd :=
  if crashed st then (st, []) else
  match e with
  | EReply a err =>
      if waiting st then
        let '(st1, o1) := resume st (pol (messages (fl st)) a) err in
        if waiting st1 then (st1, o1)
        else let '(st2, o2) := drain st1 (queue st1) in (st2, o1 ++ o2)
      else (st, [])            (* nothing outstanding: the harness delivers nothing *)
  | _ =>
      let st0 := env_arrive st e in
      if waiting st0 then (set_queue st0 (queue st0 ++ [e]), [])
      else handle st0 e
  end.

Fixpoint run (pol : policy) (st : state) (evs : list event) : state * list cmd :=
  match evs with
  | [] => (st, [])
  | e :: evs' =>
      let '(st1, o1) := arrive pol st e in
      let '(st2, o2) := run pol st1 evs' in (st2, o1 ++ o2)
  end.

(* ---- observation helpers (used by the theorems and by the correspondence check) *)
Fixpoint sends (to : side) (out : list cmd) : list bytes :=
  match out with
  | [] => []
  | SendData t d :: r => if side_eqb t to then d :: sends to r else sends to r
  | _ :: r => sends to r
  end.
(* contents of the recorded messages of one direction, oldest first *)
Definition recorded (from_client : bool) (f : flow) : list bytes :=
  map snd (filter (fun m => Bool.eqb (fst m) from_client) (rev (messages f))).
