(* Model/Save.v -- executable model of the stream-saving part of mitmproxy/addons/save.py
   (class Save: configure, maybe_rotate_to_new_file, save_flow, done and the flow hooks) and of
   io.FilteredFlowWriter.add.  The hook bodies, the body of done, the discard in save_flow and
   the open/close order of maybe_rotate_to_new_file come from Gen/SaveHooks.v (regenerated from
   the source on every run).  No proofs here.

   Flows are ordinals (N) into a per-case table of static attributes; files are small numbers
   (path 2 is a directory: opening it raises OSError).  The file system is not part of the addon
   state: every function returns the file operations it performs (open with mode, append one
   record) and Corr/C39.v folds them over a path -> records map.
   Not modelled: strftime directives in the path (the formatted path equals the option value, so
   the rotation inside save_flow never fires), OSError while writing (sys.exit). *)
From Coq Require Import List Bool NArith.
From MV Require Import Model.SavePrelude Gen.SaveHooks.
Import ListNotations.
Open Scope N_scope.

(* ---------- flows and filters (flowfilter atoms used by the generator) ---------- *)
Inductive kind := KHttp | KTcp | KUdp | KDns.
Record finfo := { f_kind : kind; f_ws : bool; f_marked : bool }.

Inductive flt :=
| FHttp | FTcp | FUdp | FDns | FWebsocket | FMarked | FErr | FResp | FReq
| FNot (a : flt) | FAnd (a b : flt) | FOr (a b : flt).
(* value of the option save_stream_filter: FSInvalid is a string flowfilter.parse rejects *)
Inductive fspec := FSInvalid | FSOk (f : flt).

Record snap := { s_kind : kind; s_ws : bool; s_marked : bool; s_resp : bool; s_err : bool }.

Definition is_http (k : kind) := match k with KHttp => true | _ => false end.
Definition is_tcp (k : kind) := match k with KTcp => true | _ => false end.
Definition is_udp (k : kind) := match k with KUdp => true | _ => false end.
Definition is_dns (k : kind) := match k with KDns => true | _ => false end.

(* flowfilter.match for a parsed filter *)
Fixpoint matches (f : flt) (x : snap) : bool :=
  match f with
  | FHttp => is_http (s_kind x)
  | FTcp => is_tcp (s_kind x)
  | FUdp => is_udp (s_kind x)
  | FDns => is_dns (s_kind x)
  | FWebsocket => is_http (s_kind x) && s_ws x
  | FMarked => s_marked x
  | FErr => s_err x
  | FResp => (is_http (s_kind x) || is_dns (s_kind x)) && s_resp x
  | FReq => (is_http (s_kind x) || is_dns (s_kind x)) && negb (s_resp x)
  | FNot a => negb (matches a x)
  | FAnd a b => matches a x && matches b x
  | FOr a b => matches a x || matches b x
  end.

(* ---------- state ---------- *)
(* io.FilteredFlowWriter: fo (the path it was opened on) and flt *)
Record writer := { wr_path : N; wr_flt : option flt }.

Record st := {
  stream : option writer;            (* self.stream *)
  filt : option flt;                 (* self.filt *)
  active : list N;                   (* self.active_flows (a set: no duplicates) *)
  current_path : option N;           (* self.current_path *)
  opt_file : option (bool * N);      (* ctx.options.save_stream_file: (has + prefix, path) *)
  opt_filter : option fspec;         (* ctx.options.save_stream_filter *)
  resp : list N;                     (* environment: flows whose .response is set *)
  err : list N                       (* environment: flows whose .error is set *)
}.

Definition init : st :=
  {| stream := None; filt := None; active := []; current_path := None;
     opt_file := None; opt_filter := None; resp := []; err := [] |}.

Definition set_stream (s : st) (v : option writer) : st :=
  {| stream := v; filt := filt s; active := active s; current_path := current_path s;
     opt_file := opt_file s; opt_filter := opt_filter s; resp := resp s; err := err s |}.
Definition set_filt (s : st) (v : option flt) : st :=
  {| stream := stream s; filt := v; active := active s; current_path := current_path s;
     opt_file := opt_file s; opt_filter := opt_filter s; resp := resp s; err := err s |}.
Definition set_active (s : st) (v : list N) : st :=
  {| stream := stream s; filt := filt s; active := v; current_path := current_path s;
     opt_file := opt_file s; opt_filter := opt_filter s; resp := resp s; err := err s |}.
Definition set_current_path (s : st) (v : option N) : st :=
  {| stream := stream s; filt := filt s; active := active s; current_path := v;
     opt_file := opt_file s; opt_filter := opt_filter s; resp := resp s; err := err s |}.
Definition set_opts (s : st) (f : option (bool * N)) (fl : option fspec) : st :=
  {| stream := stream s; filt := filt s; active := active s; current_path := current_path s;
     opt_file := f; opt_filter := fl; resp := resp s; err := err s |}.
Definition set_env (s : st) (r e : list N) : st :=
  {| stream := stream s; filt := filt s; active := active s; current_path := current_path s;
     opt_file := opt_file s; opt_filter := opt_filter s; resp := r; err := e |}.

(* ---------- small helpers ---------- *)
Fixpoint memN (i : N) (l : list N) : bool :=
  match l with [] => false | x :: r => (x =? i) || memN i r end.
Definition addN (i : N) (l : list N) : list N := if memN i l then l else i :: l.      (* set.add *)
Fixpoint removeN (i : N) (l : list N) : list N :=                                      (* set.discard *)
  match l with [] => [] | x :: r => if x =? i then removeN i r else x :: removeN i r end.
Fixpoint insertN (i : N) (l : list N) : list N :=
  match l with [] => [i] | x :: r => if i <=? x then i :: l else x :: insertN i r end.
Fixpoint sortN (l : list N) : list N :=
  match l with [] => [] | x :: r => insertN x (sortN r) end.
Definition is_some {A} (o : option A) : bool := match o with Some _ => true | None => false end.
Definition optN_eqb (a b : option N) : bool :=
  match a, b with Some x, Some y => x =? y | None, None => true | _, _ => false end.

Definition default_info : finfo := {| f_kind := KHttp; f_ws := false; f_marked := false |}.
Definition info (infos : list finfo) (i : N) : finfo := nth (N.to_nat i) infos default_info.

(* what a filter sees of flow i right now *)
Definition snap_of (infos : list finfo) (s : st) (i : N) : snap :=
  let fi := info infos i in
  {| s_kind := f_kind fi; s_ws := f_ws fi; s_marked := f_marked fi;
     s_resp := memN i (resp s); s_err := memN i (err s) |}.

(* ---------- file operations ---------- *)
Inductive fop :=
| WOpen (p : N) (append : bool)     (* open(path, ab / wb) *)
| WWrite (p : N) (i : N).           (* one record of flow i appended to path p *)

Definition bad_path : N := 2.       (* a directory: open raises IsADirectoryError *)

(* FilteredFlowWriter.add *)
Definition writer_add (infos : list finfo) (s : st) (w : writer) (i : N) : list fop :=
  match wr_flt w with
  | Some f => if matches f (snap_of infos s i) then [WWrite (wr_path w) i] else []
  | None => [WWrite (wr_path w) i]
  end.

(* Save.maybe_rotate_to_new_file; the bool is false when open raised OSError *)
Definition maybe_rotate (s : st) : st * list fop * bool :=
  match opt_file s with
  | None => (s, [], true)            (* not reachable: callers test the option first *)
  | Some (app, p) =>
      if optN_eqb (current_path s) (Some p) then (s, [], true)
      else if rotate_open_first then
        if p =? bad_path then (s, [], false)
        else (set_current_path (set_stream s (Some {| wr_path := p; wr_flt := filt s |})) (Some p),
              [WOpen p app], true)
      else
        let s1 := match stream s with Some _ => set_stream s None | None => s end in
        if p =? bad_path then (s1, [], false)
        else (set_current_path (set_stream s1 (Some {| wr_path := p; wr_flt := filt s1 |})) (Some p),
              [WOpen p app], true)
  end.

(* Save.done: the block under `if self.stream:` interpreted statement by statement.
   The set is iterated in ascending flow order here (Python: unspecified order; the harness
   sorts the records appended by one stop accordingly). *)
Definition do_dstmt (infos : list finfo) (s : st) (d : dstmt) : st * list fop :=
  match d with
  | DWriteActive =>
      match stream s with
      | Some w => (s, flat_map (writer_add infos s w) (sortN (active s)))
      | None => (s, [])
      end
  | DClearActive => (set_active s [], [])
  | DResetPath => (set_current_path s None, [])
  | DCloseFile => (s, [])
  | DDropStream => (set_stream s None, [])
  end.
Fixpoint run_dstmts (infos : list finfo) (body : list dstmt) (s : st) : st * list fop :=
  match body with
  | [] => (s, [])
  | d :: r => let '(s1, o1) := do_dstmt infos s d in
              let '(s2, o2) := run_dstmts infos r s1 in (s2, o1 ++ o2)
  end.
Definition done (infos : list finfo) (s : st) : st * list fop :=
  match stream s with
  | Some _ => run_dstmts infos done_body s
  | None => (s, [])
  end.

(* Save.save_flow *)
Definition save_flow (infos : list finfo) (s : st) (i : N) : st * list fop :=
  match stream s with
  | None => (s, [])
  | Some _ =>
      let '(s1, ops, ok) := maybe_rotate s in
      if ok then
        match stream s1 with
        | Some w =>
            ((if save_flow_discards then set_active s1 (removeN i (active s1)) else s1),
             ops ++ writer_add infos s1 w i)
        | None => (s1, ops)
        end
      else (s1, ops)                  (* sys.exit(1) *)
  end.

(* ---------- hooks ---------- *)
Definition cond_holds (infos : list finfo) (s : st) (i : N) (c : cond) : bool :=
  match c with
  | CStream => is_some (stream s)
  | CNoWebsocket => negb (f_ws (info infos i))
  end.
Definition do_prim (infos : list finfo) (s : st) (i : N) (p : prim) : st * list fop :=
  match p with
  | PAdd => (set_active s (addN i (active s)), [])
  | PSave => save_flow infos s i
  end.
Fixpoint run_hook (infos : list finfo) (body : hook_body) (s : st) (i : N) : st * list fop :=
  match body with
  | [] => (s, [])
  | (g, p) :: r =>
      let '(s1, o1) := if forallb (cond_holds infos s i) g then do_prim infos s i p else (s, []) in
      let '(s2, o2) := run_hook infos r s1 i in (s2, o1 ++ o2)
  end.

(* environment: what the proxy core did to the flow before firing the hook *)
Definition sets_resp (h : hook) : bool :=
  match h with HResponse | HDnsResponse => true | _ => false end.
Definition sets_err (h : hook) : bool :=
  match h with HError | HTcpError | HUdpError | HDnsError => true | _ => false end.
Definition env_pre (h : hook) (i : N) (s : st) : st :=
  set_env s (if sets_resp h then addN i (resp s) else resp s)
            (if sets_err h then addN i (err s) else err s).

(* ---------- configure ---------- *)
(* outcome of one call of Save.configure *)
Inductive cres :=
| COk
| CAssert      (* `assert self.stream` failed: AssertionError, caught and logged by the addon manager *)
| COptErr.     (* exceptions.OptionsError raised *)
Definition is_opterr (r : cres) := match r with COptErr => true | _ => false end.
Definition is_assert (r : cres) := match r with CAssert => true | _ => false end.

(* Save.configure with the options already updated; updf / updfl: the option name is in `updated`. *)
Definition configure_raw (infos : list finfo) (s : st) (updf updfl : bool) : st * list fop * cres :=
  let r1 :=
    if updfl then
      match opt_filter s with
      | Some FSInvalid => None
      | Some (FSOk f) => Some (set_filt s (Some f))
      | None => Some (set_filt s None)
      end
    else Some s in
  match r1 with
  | None => (s, [], COptErr)
  | Some s1 =>
      if updf || updfl then
        match opt_file s1 with
        | Some _ =>
            let '(s2, ops, ok) := maybe_rotate s1 in
            if ok then
              match stream s2 with
              | Some w => (set_stream s2 (Some {| wr_path := wr_path w; wr_flt := filt s2 |}), ops, COk)
              | None => (s2, ops, CAssert)
              end
            else (s2, ops, COptErr)
        | None => let '(s2, ops) := done infos s1 in (s2, ops, COk)
        end
      else (s1, [], COk)
  end.

(* options.update(...) as seen by the addon: set the options, call configure; on OptionsError the
   options are restored and configure is called again with the same `updated` set (optmanager.rollback).
   Result flags: (the update was rejected with OptionsError, an AssertionError was logged). *)
Definition do_configure (infos : list finfo) (s : st)
           (uf : option (option (bool * N))) (ufl : option (option fspec)) : st * list fop * (bool * bool) :=
  let old_file := opt_file s in
  let old_filter := opt_filter s in
  let s0 := set_opts s (match uf with Some v => v | None => old_file end)
                       (match ufl with Some v => v | None => old_filter end) in
  let '(s1, ops, r) := configure_raw infos s0 (is_some uf) (is_some ufl) in
  if is_opterr r then
    let s2 := set_opts s1 old_file old_filter in
    let '(s3, ops2, r2) := configure_raw infos s2 (is_some uf) (is_some ufl) in
    (s3, ops ++ ops2, (true, is_assert r2))
  else (s1, ops, (false, is_assert r)).

(* ---------- events ---------- *)
Inductive event :=
| Hook (h : hook) (i : N)
| Configure (uf : option (option (bool * N))) (ufl : option (option fspec))
| Done.

Definition step (infos : list finfo) (s : st) (e : event) : st * list fop * (bool * bool) :=
  match e with
  | Hook h i => let '(s1, ops) := run_hook infos (hook_table h) (env_pre h i s) i in (s1, ops, (false, false))
  | Configure uf ufl => do_configure infos s uf ufl
  | Done => let '(s1, ops) := done infos s in (s1, ops, (false, false))
  end.

Fixpoint run (infos : list finfo) (s : st) (evs : list event) : st :=
  match evs with [] => s | e :: r => run infos (fst (fst (step infos s e))) r end.
Fixpoint run_log (infos : list finfo) (s : st) (evs : list event) : list fop :=
  match evs with
  | [] => []
  | e :: r => snd (fst (step infos s e)) ++ run_log infos (fst (fst (step infos s e))) r
  end.

(* ---------- the file system the operations act on ---------- *)
Definition fs := list (N * list N).      (* path -> records; absent = no such file *)
Fixpoint fs_get (f : fs) (p : N) : option (list N) :=
  match f with [] => None | (q, c) :: r => if q =? p then Some c else fs_get r p end.
Fixpoint fs_set (f : fs) (p : N) (c : list N) : fs :=
  match f with
  | [] => [(p, c)]
  | (q, c0) :: r => if q =? p then (q, c) :: r else (q, c0) :: fs_set r p c
  end.
Definition fs_apply1 (f : fs) (o : fop) : fs :=
  match o with
  | WOpen p app => match fs_get f p with
                   | Some c => if app then f else fs_set f p []
                   | None => fs_set f p []
                   end
  | WWrite p i => match fs_get f p with
                  | Some c => fs_set f p (c ++ [i])
                  | None => fs_set f p [i]     (* not reachable: writes follow an open *)
                  end
  end.
Definition fs_apply (f : fs) (ops : list fop) : fs := fold_left fs_apply1 ops f.
