(* Model/MvCookie.v -- mitmproxy/net/http/cookies.py tokenizer and formatter, and the
   Request.cookies / Response.cookies getters and setters, on UTF-8/surrogateescape bytes
   (header values are stored as bytes; all delimiters are ASCII). Offsets into the header string
   are represented by the remaining suffix: the code never reads at an offset beyond the end. *)
From Coq Require Import String.
From Coq Require Import List Bool NArith.
From MV Require Import Base.Bytes Model.MvCommon.
Import ListNotations.

Definition SEMI : byte := x3b.
Definition EQS : byte := x3d.
Definition COMMA : byte := x2c.
Definition SP : byte := x20.

(* str.lstrip() with no argument strips Unicode whitespace; these are the UTF-8 forms of
   U+0009-000D, 001C-001F, 0020, 0085, 00A0, 1680, 2000-200A, 2028, 2029, 202F, 205F, 3000 *)
Definition ascii_space (b : byte) : bool :=
  ((9 <=? bN b)%N && (bN b <=? 13)%N) || ((28 <=? bN b)%N && (bN b <=? 32)%N).

Fixpoint lstrip_fuel (fuel : nat) (s : bytes) : bytes :=
  match fuel with
  | O => s
  | S f =>
      match s with
      | a :: s1 =>
          if ascii_space a then lstrip_fuel f s1
          else match s1 with
               | b :: s2 =>
                   if byte_eqb a xc2 && (byte_eqb b x85 || byte_eqb b xa0) then lstrip_fuel f s2
                   else match s2 with
                        | c :: s3 =>
                            if (byte_eqb a xe1 && byte_eqb b x9a && byte_eqb c x80)
                               || (byte_eqb a xe2 && byte_eqb b x80
                                   && (((128 <=? bN c)%N && (bN c <=? 138)%N)
                                       || byte_eqb c xa8 || byte_eqb c xa9 || byte_eqb c xaf))
                               || (byte_eqb a xe2 && byte_eqb b x81 && byte_eqb c x9f)
                               || (byte_eqb a xe3 && byte_eqb b x80 && byte_eqb c x80)
                            then lstrip_fuel f s3 else s
                        | [] => s
                        end
               | [] => s
               end
      | [] => s
      end
  end.
Definition lstrip (s : bytes) : bytes := lstrip_fuel (length s) s.

(* Width in bytes of the first character of the str whose surrogateescape encoding is s: a
   well-formed UTF-8 sequence is one character, any other byte is one (escaped) character. *)
Definition cont (b : byte) : bool := (128 <=? bN b)%N && (bN b <=? 191)%N.
Definition rng (lo hi : N) (b : byte) : bool := (lo <=? bN b)%N && (bN b <=? hi)%N.
Definition char_width (s : bytes) : nat :=
  match s with
  | [] => 0
  | a :: s1 =>
      if (bN a <? 194)%N then 1 else
      match s1 with
      | b :: s2 =>
          if rng 194 223 a && cont b then 2
          else match s2 with
               | c :: s3 =>
                   if ((byte_eqb a xe0 && rng 160 191 b) || ((rng 225 236 a || rng 238 239 a) && cont b)
                       || (byte_eqb a xed && rng 128 159 b)) && cont c
                   then 3
                   else match s3 with
                        | d :: _ =>
                            if ((byte_eqb a xf0 && rng 144 191 b) || (rng 241 243 a && cont b)
                                || (byte_eqb a xf4 && rng 128 143 b)) && cont c && cont d
                            then 4 else 1
                        | [] => 1
                        end
               | [] => 1
               end
      | [] => 1
      end
  end.
(* s[1:] of the str: the offset arithmetic off + 1 *)
Definition tl_char (s : bytes) : bytes := skipn (char_width s) s.

(* len() of the str *)
Fixpoint ulen_fuel (fuel : nat) (s : bytes) : N :=
  match fuel with
  | O => 0
  | S f => match s with [] => 0 | _ => (1 + ulen_fuel f (tl_char s))%N end
  end.
Definition ulen (s : bytes) : N := ulen_fuel (length s) s.

(* _read_until(s, start, term): (token, suffix starting at the terminator) *)
Definition read_until (r term : bytes) : bytes * bytes := span (fun b => negb (memb b term)) r.

(* _read_quoted_string; r is the text after the opening quote *)
Fixpoint read_quoted (esc : bool) (r : bytes) : bytes * bytes :=
  match r with
  | [] => ([], [])
  | c :: r' =>
      if esc then let (a, b) := read_quoted false r' in (c :: a, b)
      else if byte_eqb c DQ then ([], r')
      else if byte_eqb c BSL then read_quoted true r'
      else let (a, b) := read_quoted false r' in (c :: a, b)
  end.

Definition read_value (r delims : bytes) : bytes * bytes :=
  match r with
  | [] => ([], [])
  | c :: r' => if byte_eqb c DQ then read_quoted false r' else read_until r delims
  end.

Inductive res (A : Type) := Ok (a : A) | OutOfFuel.
Arguments Ok {A} a. Arguments OutOfFuel {A}.

(* _read_cookie_pairs *)
Fixpoint read_cookie_pairs (fuel : nat) (r : bytes) : res pairs :=
  match fuel with
  | O => OutOfFuel
  | S f =>
      let (lhs0, r1) := read_until r [SEMI; EQS] in
      let lhs := lstrip lhs0 in
      let (rhs, r2) := match r1 with
                       | c :: r1' => if byte_eqb c EQS then read_value r1' [SEMI] else ([], r1)
                       | [] => ([], r1)
                       end in
      let here := if nonempty rhs || nonempty lhs then [(lhs, rhs)] else [] in
      match tl_char r2 with
      | [] => Ok here
      | r3 => match read_cookie_pairs f r3 with
              | Ok l => Ok (here ++ l)
              | OutOfFuel => OutOfFuel
              end
      end
  end.

Definition parse_cookie_header (line : bytes) : res pairs := read_cookie_pairs (S (length line)) line.

Definition opairs := list (bytes * option bytes).

Definition EXPIRES : bytes := Eval compute in B "expires".
Definition PATH : bytes := Eval compute in B "path".

Definition nonempty_l {A} (l : list A) : bool := match l with [] => false | _ => true end.

(* _read_set_cookie_pairs: cur = pairs of the cookie being read (in order) *)
Fixpoint read_set_cookie_pairs (fuel : nat) (r : bytes) (cur : opairs) (any_cookie : bool)
  : res (list opairs) :=
  match fuel with
  | O => OutOfFuel
  | S f =>
      let (lhs0, r1) := read_until r [SEMI; EQS; COMMA] in
      let lhs := lstrip lhs0 in
      let no_eq := (if nonempty lhs then cur ++ [(lhs, None)] else cur, r1) in
      let '(cur1, r2) :=
        match r1 with
        | c :: r1' =>
            if byte_eqb c EQS then
              let (rhs, ra) := read_value r1' [SEMI; COMMA] in
              if bytes_eqb (lower lhs) EXPIRES && (ulen rhs <=? 3)%N then
                let (trail, rb) := read_value (tl_char ra) [SEMI; COMMA] in
                (cur ++ [(lhs, Some (rhs ++ [COMMA] ++ trail))], rb)
              else (cur ++ [(lhs, Some rhs)], ra)
            else no_eq
        | [] => no_eq
        end in
      let comma := match r2 with c :: _ => byte_eqb c COMMA | [] => false end in
      let done := if comma then [cur1] else [] in
      let cur2 := if comma then [] else cur1 in
      let any2 := any_cookie || comma in
      match tl_char r2 with
      | [] => Ok (done ++ (if nonempty_l cur2 || negb any2 then [cur2] else []))
      | r3 => match read_set_cookie_pairs f r3 cur2 any2 with
              | Ok l => Ok (done ++ l)
              | OutOfFuel => OutOfFuel
              end
      end
  end.

(* a Set-Cookie entry: name, value (None = bare name), attributes *)
Definition setcookie := (bytes * option bytes * opairs)%type.

(* parse_set_cookie_header *)
Definition parse_set_cookie_header (line : bytes) : res (list setcookie) :=
  match read_set_cookie_pairs (S (length line)) line [] false with
  | Ok groups =>
      Ok (flat_map (fun g => match g with
                             | (n, v) :: attrs => [(n, v, attrs)]
                             | [] => []
                             end) groups)
  | OutOfFuel => OutOfFuel
  end.

(* _has_special *)
Definition is_special (b : byte) : bool :=
  memb b [DQ; COMMA; SEMI; BSL] || (bN b <? 33)%N || (126 <? bN b)%N.
Definition has_special (s : bytes) : bool := existsb is_special s.

(* ESCAPE.sub(r"\\\1", v) : backslash before every double quote and backslash *)
Definition escape (s : bytes) : bytes :=
  flat_map (fun b => if byte_eqb b DQ || byte_eqb b BSL then [BSL; b] else [b]) s.

(* _format_pairs *)
Definition format_pair (specials : list bytes) (kv : bytes * option bytes) : bytes :=
  match snd kv with
  | None => fst kv
  | Some v =>
      if negb (existsb (bytes_eqb (lower (fst kv))) specials) && has_special v
      then fst kv ++ [EQS] ++ [DQ] ++ escape v ++ [DQ]
      else fst kv ++ [EQS] ++ v
  end.
Definition format_pairs (specials : list bytes) (l : opairs) : bytes :=
  join [SEMI; SP] (map (format_pair specials) l).

Definition format_cookie_header (l : pairs) : bytes :=
  format_pairs [] (map (fun kv => (fst kv, Some (snd kv))) l).

(* format_set_cookie_header([(name, value, attrs)]) *)
Definition format_set_cookie (c : setcookie) : bytes :=
  let '(n, v, attrs) := c in format_pairs [EXPIRES; PATH] ((n, v) :: attrs).

Definition COOKIE : bytes := Eval compute in B "cookie".
Definition SETCOOKIE : bytes := Eval compute in B "set-cookie".

Fixpoint concat_res {A} (l : list (res (list A))) : res (list A) :=
  match l with
  | [] => Ok []
  | Ok x :: l' => match concat_res l' with Ok y => Ok (x ++ y) | OutOfFuel => OutOfFuel end
  | OutOfFuel :: _ => OutOfFuel
  end.

(* Request._get_cookies / _set_cookies on the header list *)
Definition get_cookies (h : fields) : res pairs := concat_res (map parse_cookie_header (get_all COOKIE h)).
Definition set_cookies (h : fields) (l : pairs) : fields := set_all COOKIE [format_cookie_header l] h.

(* Response._get_cookies / _set_cookies *)
Definition get_set_cookies (h : fields) : res (list setcookie) :=
  concat_res (map parse_set_cookie_header (get_all SETCOOKIE h)).
Definition set_set_cookies (h : fields) (l : list setcookie) : fields :=
  set_all SETCOOKIE (map format_set_cookie l) h.
