(* Model/FilterHeader.v -- executable model of the header-based filters of mitmproxy/flowfilter.py:
   _check_content_type, FAsset (a), FContentType / Request / Response (t tq ts), FHead / Request / Response
   (h hq hs); one function per Python function, same branch order.  The regex engine is a parameter.
   A header block is the list of (name, value) fields in order; a header that is absent simply has no field,
   a repeated header has several.  Definitions only; proofs in Proofs/FilterHeader.v. *)
From Coq Require Import List Bool.
From MV Require Import Base.Bytes.
Import ListNotations.

Definition field := (bytes * bytes)%type.
Inductive flowh :=
| HttpH (req : list field) (resp : option (list field))
| OtherH.                                     (* not an HTTPFlow: the only(...) decorator *)

Definition ct_name : bytes := [x63;x6f;x6e;x74;x65;x6e;x74;x2d;x74;x79;x70;x65].
Definition is_ct (f : field) : bool := bytes_eqb (lower (fst f)) ct_name.
(* any(name.lower() == b"content-type" and rex.search(value) for name, value in message.headers.fields) *)
Definition check_content_type (search : bytes -> bool) (fields : list field) : bool :=
  existsb (fun f => is_ct f && search (snd f)) fields.

(* for i in ASSET_TYPES: if _check_content_type(i, f.response): return True *)
Definition fasset (asset_types : list (bytes -> bool)) (f : flowh) : bool :=
  match f with
  | HttpH _ (Some rs) => existsb (fun i => check_content_type i rs) asset_types
  | _ => false
  end.
Definition fcontent_type (search : bytes -> bool) (f : flowh) : bool :=
  match f with
  | HttpH rq rs =>
      if check_content_type search rq then true
      else match rs with Some r => check_content_type search r | None => false end
  | OtherH => false
  end.
Definition fcontent_type_request (search : bytes -> bool) (f : flowh) : bool :=
  match f with HttpH rq _ => check_content_type search rq | OtherH => false end.
Definition fcontent_type_response (search : bytes -> bool) (f : flowh) : bool :=
  match f with HttpH _ (Some r) => check_content_type search r | _ => false end.

(* bytes(headers): name: value CRLF for every field; empty for no fields *)
Definition crlf : bytes := [x0d; x0a].
Definition headers_bytes (fields : list field) : bytes :=
  flat_map (fun f => fst f ++ [x3a; x20] ++ snd f ++ crlf) fields.
Definition fhead (search : bytes -> bool) (f : flowh) : bool :=
  match f with
  | HttpH rq rs =>
      if search (headers_bytes rq) then true
      else match rs with Some r => search (headers_bytes r) | None => false end
  | OtherH => false
  end.
Definition fhead_request (search : bytes -> bool) (f : flowh) : bool :=
  match f with HttpH rq _ => search (headers_bytes rq) | OtherH => false end.
Definition fhead_response (search : bytes -> bool) (f : flowh) : bool :=
  match f with HttpH _ (Some r) => search (headers_bytes r) | _ => false end.

(* documented meaning: the values of the Content-Type fields, each searched on its own *)
Definition ct_values (fields : list field) : list bytes := map snd (filter is_ct fields).
Definition resp_fields (f : flowh) : list field := match f with HttpH _ (Some r) => r | _ => [] end.
Definition req_fields (f : flowh) : list field := match f with HttpH rq _ => rq | OtherH => [] end.
