(* Model/Rfc9112.v -- an independent HTTP/1.1 reference parser, written from RFC 9112 sections 2-7 (and the field
   rules of RFC 9110 5.5/5.6 it refers to), NOT from mitmproxy.  It is the specification against which forwarded
   bytes are judged.  It imports nothing from the mitmproxy models.

   Recipient choices the RFC leaves open are parameters ([ref_opts]); the theorems quantify over them:
     bare_lf_ok  2.2  a recipient MAY recognize a single LF as a line terminator
     cr_as_sp    2.2  a bare CR (and, RFC 9110 5.5, NUL) is invalid, or is replaced by SP
     unfold      5.2  obs-fold is rejected, or replaced by one SP
   Everything else is the strict grammar: method = token, request-target = 1*(VCHAR / obs-text) (URI syntax is
   not checked), HTTP-version = HTTP/d.d, status-code = 3DIGIT, field-name = token, no whitespace before the colon,
   OWS around field values removed, field values without CR / LF / NUL (other CTLs retained, RFC 9110 5.5),
   message body length by the rules of section 6.3, chunked coding with extensions and trailers (7.1).
   Executable definitions only. *)
From Coq Require Import List Bool NArith.
From MV Require Import Base.Bytes.
Import ListNotations.

Record ref_opts := mkOpts { bare_lf_ok : bool; cr_as_sp : bool; unfold : bool }.

Definition rSP : byte := x20.
Definition rHT : byte := x09.
Definition rCR : byte := x0d.
Definition rLF : byte := x0a.

(* RFC 9110 5.6.2: tchar *)
Definition is_tchar (b : byte) : bool :=
  is_digit b || is_alpha b ||
  match b with
  | x21 | x23 | x24 | x25 | x26 | x27 | x2a | x2b | x2d | x2e | x5e | x5f | x60 | x7c | x7e => true
  | _ => false
  end.
Definition is_token (s : bytes) : bool := match s with [] => false | _ => forallb is_tchar s end.
(* VCHAR / obs-text *)
Definition is_vchar_obs (b : byte) : bool := ((33 <=? bN b) && (bN b <=? 126))%N || (128 <=? bN b)%N.
Definition is_ows (b : byte) : bool := byte_eqb b rSP || byte_eqb b rHT.
Definition is_hexdig (b : byte) : bool :=
  is_digit b || ((65 <=? bN b) && (bN b <=? 70))%N || ((97 <=? bN b) && (bN b <=? 102))%N.

Fixpoint span (p : byte -> bool) (s : bytes) : bytes * bytes :=
  match s with
  | [] => ([], [])
  | c :: r => if p c then let (a, b) := span p r in (c :: a, b) else ([], s)
  end.

Fixpoint ltrim_ows (s : bytes) : bytes :=
  match s with c :: r => if is_ows c then ltrim_ows r else s | [] => [] end.
Fixpoint rtrim_ows (s : bytes) : bytes :=
  match s with
  | [] => []
  | c :: r => match rtrim_ows r with
              | [] => if is_ows c then [] else [c]
              | t => c :: t
              end
  end.
Definition trim_ows (s : bytes) : bytes := rtrim_ows (ltrim_ows s).

(* ---------- 2.1 / 2.2: lines *)
(* the raw lines (terminating LF removed, a preceding CR still present) up to and excluding the first blank line;
   returns (lines, the blank raw line, what follows).  None: the head is incomplete. *)
Definition is_blank_raw (l : bytes) : bool := match l with [] => true | [c] => byte_eqb c rCR | _ => false end.

Fixpoint head_lines (s : bytes) (cur : bytes) : option (list bytes * bytes * bytes) :=
  match s with
  | [] => None
  | c :: r =>
      if byte_eqb c rLF then
        let line := rev cur in
        if is_blank_raw line then Some ([], line, r)
        else match head_lines r [] with
             | Some (ls, b, rest) => Some (line :: ls, b, rest)
             | None => None
             end
      else head_lines r (c :: cur)
  end.

(* remove the CR of the CRLF terminator; None when the line was terminated by a bare LF *)
Fixpoint strip_cr (l : bytes) : option bytes :=
  match l with
  | [] => None
  | [c] => if byte_eqb c rCR then Some [] else None
  | c :: r => match strip_cr r with Some t => Some (c :: t) | None => None end
  end.

Definition is_cr_or_nul (b : byte) : bool := byte_eqb b rCR || byte_eqb b x00.

(* a raw line as the protocol element it carries: terminator checked, bare CR / NUL rejected or replaced *)
Definition clean_line (o : ref_opts) (raw : bytes) : option bytes :=
  match (match strip_cr raw with
         | Some l => Some l
         | None => if bare_lf_ok o then Some raw else None
         end) with
  | None => None
  | Some l =>
      if existsb is_cr_or_nul l
      then (if cr_as_sp o then Some (map (fun c => if is_cr_or_nul c then rSP else c) l) else None)
      else Some l
  end.

Fixpoint clean_lines (o : ref_opts) (raws : list bytes) : option (list bytes) :=
  match raws with
  | [] => Some []
  | r :: rs => match clean_line o r, clean_lines o rs with
               | Some l, Some ls => Some (l :: ls)
               | _, _ => None
               end
  end.

(* ---------- 2.3 / 3 / 4: start lines *)
Definition is_http_version (v : bytes) : bool :=
  match v with
  | [h; t1; t2; p; sl; a; dot; b] =>
      bytes_eqb [h; t1; t2; p; sl] [x48; x54; x54; x50; x2f] && is_digit a && byte_eqb dot x2e && is_digit b
  | _ => false
  end.

(* request-line = method SP request-target SP HTTP-version *)
Definition parse_request_line (l : bytes) : option (bytes * bytes * bytes) :=
  let (m, r1) := span is_tchar l in
  match m, r1 with
  | _ :: _, sp :: r2 =>
      if byte_eqb sp rSP then
        let (t, r3) := span is_vchar_obs r2 in
        match t, r3 with
        | _ :: _, sp2 :: v => if byte_eqb sp2 rSP && is_http_version v then Some (m, t, v) else None
        | _, _ => None
        end
      else None
  | _, _ => None
  end.

Definition is_reason_char (b : byte) : bool := is_ows b || is_vchar_obs b.

(* status-line = HTTP-version SP status-code SP [ reason-phrase ] *)
Definition parse_status_line (l : bytes) : option (bytes * N * bytes) :=
  match l with
  | h :: t1 :: t2 :: p :: sl :: a :: dot :: b :: sp :: d1 :: d2 :: d3 :: sp2 :: reason =>
      if is_http_version [h; t1; t2; p; sl; a; dot; b] && byte_eqb sp rSP && byte_eqb sp2 rSP
         && is_digit d1 && is_digit d2 && is_digit d3 && forallb is_reason_char reason
      then Some ([h; t1; t2; p; sl; a; dot; b],
                 ((bN d1 - 48) * 100 + (bN d2 - 48) * 10 + (bN d3 - 48))%N, reason)
      else None
  | _ => None
  end.

(* ---------- 5: field lines *)
Definition field := (bytes * bytes)%type.

(* field-line = field-name ":" OWS field-value OWS *)
Definition parse_field_line (l : bytes) : option field :=
  let (n, r) := span is_tchar l in
  match n, r with
  | _ :: _, c :: v => if byte_eqb c x3a then Some (n, trim_ows v) else None
  | _, _ => None
  end.

(* the field section; [acc] holds the fields read so far, most recent first.  A line starting with SP / HTAB is
   an obs-fold continuation of the previous field (5.2), or whitespace before the first field (2.2): invalid *)
Fixpoint parse_fields (o : ref_opts) (ls : list bytes) (acc : list field) : option (list field) :=
  match ls with
  | [] => Some (rev acc)
  | l :: ls' =>
      match l with
      | [] => None
      | c :: _ =>
          if is_ows c then
            match acc with
            | (n, v) :: acc' =>
                if unfold o then parse_fields o ls' ((n, rtrim_ows (v ++ rSP :: trim_ows l)) :: acc') else None
            | [] => None
            end
          else match parse_field_line l with
               | Some f => parse_fields o ls' (f :: acc)
               | None => None
               end
      end
  end.

(* ---------- RFC 9110 5.6.1 lists, 6.1 Transfer-Encoding, 6.2 Content-Length *)
Definition name_is (lname : bytes) (f : field) : bool := bytes_eqb (lower (fst f)) lname.
Definition field_values (lname : bytes) (fs : list field) : list bytes := map snd (filter (name_is lname) fs).

Fixpoint split_comma (s : bytes) (cur : bytes) : list bytes :=
  match s with
  | [] => [rev cur]
  | c :: r => if byte_eqb c x2c then rev cur :: split_comma r [] else split_comma r (c :: cur)
  end.

(* the non-empty, OWS-trimmed elements of all values of a list-based field *)
Definition list_elements (vals : list bytes) : list bytes :=
  filter (fun e => match e with [] => false | _ => true end)
         (map trim_ows (concat (map (fun v => split_comma v []) vals))).

(* transfer-coding = token *( OWS ";" OWS transfer-parameter ): the lower-cased coding name *)
Definition coding_name (e : bytes) : option bytes :=
  let (n, r) := span is_tchar e in
  match n with
  | [] => None
  | _ => match ltrim_ows r with
         | [] => Some (lower n)
         | c :: _ => if byte_eqb c x3b then Some (lower n) else None
         end
  end.

Fixpoint coding_names (es : list bytes) : option (list bytes) :=
  match es with
  | [] => Some []
  | e :: es' => match coding_name e, coding_names es' with
                | Some n, Some ns => Some (n :: ns)
                | _, _ => None
                end
  end.

Definition r_chunked : bytes := [x63;x68;x75;x6e;x6b;x65;x64].
Definition r_te : bytes := [x74;x72;x61;x6e;x73;x66;x65;x72;x2d;x65;x6e;x63;x6f;x64;x69;x6e;x67].
Definition r_cl : bytes := [x63;x6f;x6e;x74;x65;x6e;x74;x2d;x6c;x65;x6e;x67;x74;x68].

(* 1*DIGIT *)
Fixpoint dec_value (s : bytes) (acc : N) : option N :=
  match s with
  | [] => Some acc
  | c :: r => if is_digit c then dec_value r (acc * 10 + (bN c - 48))%N else None
  end.
Definition parse_dec (s : bytes) : option N := match s with [] => None | _ => dec_value s 0%N end.

(* 6.3 rule 4/5: every list element is a valid decimal and all are the same number *)
Fixpoint all_same_dec (es : list bytes) (first : option N) : option N :=
  match es with
  | [] => first
  | e :: es' => match parse_dec e, first with
                | Some n, None => all_same_dec es' (Some n)
                | Some n, Some m => if N.eqb n m then all_same_dec es' first else None
                | None, _ => None
                end
  end.

(* ---------- 6.3 message body length *)
Inductive body_len := BLZero | BLLen (n : N) | BLChunked | BLUntilClose | BLTunnel.

Definition body_len_eqb (a b : body_len) : bool :=
  match a, b with
  | BLZero, BLZero | BLChunked, BLChunked | BLUntilClose, BLUntilClose | BLTunnel, BLTunnel => true
  | BLLen n, BLLen m => N.eqb n m
  | _, _ => false
  end.

Definition HTTP10 : bytes := [x48;x54;x54;x50;x2f;x31;x2e;x30].
Definition version_lt_11 (v : bytes) : bool :=
  match v with
  | [_; _; _; _; _; a; _; b] => (bN a <? 49)%N || (byte_eqb a x31 && (bN b <? 49)%N)
  | _ => true
  end.

(* rules 3-7 on the fields (rules 1, 2 are applied by the response function); None: the framing is invalid *)
Definition fields_body_length (is_request : bool) (version : bytes) (fs : list field) : option body_len :=
  match field_values r_te fs with
  | (_ :: _) as tes =>
      (* rule 3; 6.1: Transfer-Encoding in a message of a version before 1.1 is faulty framing *)
      if version_lt_11 version then None
      else match coding_names (list_elements tes) with
           | None => None
           | Some [] => None
           | Some ns =>
               if bytes_eqb (last ns []) r_chunked then Some BLChunked
               else if is_request then None else Some BLUntilClose
           end
  | [] =>
      match field_values r_cl fs with
      | (_ :: _) as cls =>
          (* rules 4, 5 *)
          match list_elements cls with
          | [] => None
          | es => match all_same_dec es None with Some n => Some (BLLen n) | None => None end
          end
      | [] => if is_request then Some BLZero (* rule 6 *) else Some BLUntilClose (* rules 7, 8 *)
      end
  end.

Definition request_body_length (version : bytes) (fs : list field) : option body_len :=
  fields_body_length true version fs.

Definition r_HEAD : bytes := [x48;x45;x41;x44].
Definition r_CONNECT : bytes := [x43;x4f;x4e;x4e;x45;x43;x54].

(* the method is case-sensitive (RFC 9110 9.1) *)
Definition response_body_length (req_method : bytes) (status : N) (version : bytes) (fs : list field) : option body_len :=
  if bytes_eqb req_method r_HEAD then Some BLZero                       (* rule 1 *)
  else if ((100 <=? status) && (status <=? 199))%N then Some BLZero
  else if (N.eqb status 204 || N.eqb status 304)%N then Some BLZero
  else if bytes_eqb req_method r_CONNECT && ((200 <=? status) && (status <=? 299))%N then Some BLTunnel   (* rule 2 *)
  else fields_body_length false version fs.

(* ---------- 7.1 chunked transfer coding *)
Definition hexval (b : byte) : N :=
  if is_digit b then (bN b - 48)%N else if (bN b <? 97)%N then (bN b - 55)%N else (bN b - 87)%N.
Fixpoint hex_value (s : bytes) (acc : N) : N :=
  match s with [] => acc | c :: r => hex_value r (acc * 16 + hexval c)%N end.

(* one line terminated by CRLF (or a bare LF when allowed), without the terminator *)
Fixpoint read_raw_line (s : bytes) : option (bytes * bytes) :=
  match s with
  | [] => None
  | c :: r => if byte_eqb c rLF then Some ([], r)
              else match read_raw_line r with Some (l, r') => Some (c :: l, r') | None => None end
  end.
Definition read_line (o : ref_opts) (s : bytes) : option (option bytes * bytes) :=
  match read_raw_line s with
  | None => None
  | Some (raw, rest) => Some (clean_line o raw, rest)
  end.

(* chunk-size [ chunk-ext ]: 1*HEXDIG, then nothing or BWS ";" anything *)
Definition parse_chunk_header (l : bytes) : option N :=
  let (h, r) := span is_hexdig l in
  match h with
  | [] => None
  | _ => match ltrim_ows r with
         | [] => Some (hex_value h 0%N)
         | c :: _ => if byte_eqb c x3b then Some (hex_value h 0%N) else None
         end
  end.

Inductive perr := Incomplete | Invalid.
Inductive pres (A : Type) := POk (a : A) | PErr (e : perr).
Arguments POk {A} a. Arguments PErr {A} e.

(* chunked-body: returns (content, trailer fields, what follows).  [fuel] bounds the number of chunks. *)
Fixpoint dechunk (o : ref_opts) (fuel : nat) (s : bytes) : pres (bytes * list field * bytes) :=
  match fuel with
  | O => PErr Incomplete
  | S fuel' =>
      match read_line o s with
      | None => PErr Incomplete
      | Some (None, _) => PErr Invalid
      | Some (Some l, rest) =>
          match parse_chunk_header l with
          | None => PErr Invalid
          | Some 0%N =>
              (* last-chunk: trailer-section CRLF *)
              match head_lines rest [] with
              | None => PErr Incomplete
              | Some (raws, blank, rest') =>
                  match clean_line o blank, clean_lines o raws with
                  | Some _, Some ls =>
                      match parse_fields o ls [] with
                      | Some tr => POk ([], tr, rest')
                      | None => PErr Invalid
                      end
                  | _, _ => PErr Invalid
                  end
              end
          | Some n =>
              (* compared in N: the size is attacker-chosen and must not be converted to nat before the check *)
              if (N.of_nat (length rest) <? n + 2)%N then PErr Incomplete
              else
                let k := N.to_nat n in
                let data := firstn k rest in
                match skipn k rest with
                | c1 :: c2 :: rest' =>
                    if byte_eqb c1 rCR && byte_eqb c2 rLF then
                      match dechunk o fuel' rest' with
                      | POk (body, tr, rest'') => POk (data ++ body, tr, rest'')
                      | PErr e => PErr e
                      end
                    else PErr Invalid
                | _ => PErr Incomplete
                end
          end
      end
  end.

(* ---------- messages *)
Record ref_request := mkRefReq {
  q_method : bytes; q_target : bytes; q_version : bytes; q_fields : list field;
  q_body : bytes; q_trailers : list field }.

Record ref_response := mkRefResp {
  p_version : bytes; p_status : N; p_reason : bytes; p_fields : list field;
  p_body : bytes; p_trailers : list field; p_until_close : bool }.

(* 2.2: a server SHOULD ignore at least one empty line received prior to the request-line *)
Fixpoint skip_empty_lines (s : bytes) : bytes :=
  match s with
  | c1 :: ((c2 :: r) as s') =>
      if byte_eqb c1 rCR && byte_eqb c2 rLF then skip_empty_lines r else s
  | _ => s
  end.

(* the head of a request: (method, target, version, fields, what follows) *)
Definition parse_request_head (o : ref_opts) (s : bytes) : pres (bytes * bytes * bytes * list field * bytes) :=
  match head_lines s [] with
  | None => PErr Incomplete
  | Some (raws, blank, rest) =>
      match clean_line o blank, clean_lines o raws with
      | Some _, Some (l0 :: ls) =>
          match parse_request_line l0, parse_fields o ls [] with
          | Some (m, t, v), Some fs => POk (m, t, v, fs, rest)
          | _, _ => PErr Invalid
          end
      | _, _ => PErr Invalid
      end
  end.

Definition parse_response_head (o : ref_opts) (s : bytes) : pres (bytes * N * bytes * list field * bytes) :=
  match head_lines s [] with
  | None => PErr Incomplete
  | Some (raws, blank, rest) =>
      match clean_line o blank, clean_lines o raws with
      | Some _, Some (l0 :: ls) =>
          match parse_status_line l0, parse_fields o ls [] with
          | Some (v, st, reason), Some fs => POk (v, st, reason, fs, rest)
          | _, _ => PErr Invalid
          end
      | _, _ => PErr Invalid
      end
  end.

(* read a body of the given length from [s]; [closed]: the peer has closed after [s] *)
Definition read_body (o : ref_opts) (bl : body_len) (s : bytes) : pres (bytes * list field * bytes) :=
  match bl with
  | BLZero | BLTunnel => POk ([], [], s)
  | BLLen n => if (N.of_nat (length s) <? n)%N then PErr Incomplete
               else let k := N.to_nat n in POk (firstn k s, [], skipn k s)
  | BLChunked => dechunk o (S (length s)) s
  | BLUntilClose => POk (s, [], [])
  end.

Definition parse_request (o : ref_opts) (s : bytes) : pres (ref_request * bytes) :=
  match parse_request_head o (skip_empty_lines s) with
  | PErr e => PErr e
  | POk (m, t, v, fs, rest) =>
      match request_body_length v fs with
      | None => PErr Invalid
      | Some bl =>
          match read_body o bl rest with
          | PErr e => PErr e
          | POk (body, tr, rest') => POk (mkRefReq m t v fs body tr, rest')
          end
      end
  end.

(* all requests of a complete byte stream; [fuel] bounds their number *)
Fixpoint parse_requests (o : ref_opts) (fuel : nat) (s : bytes) : pres (list ref_request) :=
  match fuel with
  | O => PErr Incomplete
  | S fuel' =>
      match s with
      | [] => POk []
      | _ => match parse_request o s with
             | PErr e => PErr e
             | POk (q, rest) => match parse_requests o fuel' rest with
                                | POk qs => POk (q :: qs)
                                | PErr e => PErr e
                                end
             end
      end
  end.

Definition parse_response (o : ref_opts) (req_method : bytes) (s : bytes) : pres (ref_response * bytes) :=
  match parse_response_head o s with
  | PErr e => PErr e
  | POk (v, st, reason, fs, rest) =>
      match response_body_length req_method st v fs with
      | None => PErr Invalid
      | Some bl =>
          match read_body o bl rest with
          | PErr e => PErr e
          | POk (body, tr, rest') =>
              POk (mkRefResp v st reason fs body tr (match bl with BLUntilClose => true | _ => false end), rest')
          end
      end
  end.

(* the responses to the requests with the given methods, read from the complete stream of a closed connection *)
Fixpoint parse_responses (o : ref_opts) (methods : list bytes) (s : bytes) : pres (list ref_response) :=
  match methods with
  | [] => match s with [] => POk [] | _ => PErr Invalid end
  | m :: ms =>
      match s with
      | [] => POk []
      | _ => match parse_response o m s with
             | PErr e => PErr e
             | POk (p, rest) => match parse_responses o ms rest with
                                | POk ps => POk (p :: ps)
                                | PErr e => PErr e
                                end
             end
      end
  end.
