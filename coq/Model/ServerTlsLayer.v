(* Model/ServerTlsLayer.v -- executable model of mitmproxy/proxy/tunnel.py TunnelLayer and
   mitmproxy/proxy/layers/tls.py TLSLayer / ServerTLSLayer (child is not a ClientTLSLayer, so
   wait_for_clienthello stays False) over an abstract OpenSSL connection object.
   One function per Python method, same branch order.  Python exceptions escaping the layer
   (AttributeError on self.tls = None, the assert in start_tls, SSL.Error out of sendall) are the
   explicit CCrash result.  Handshake bytes (tls_interact during the handshake) are not traced;
   CSendApp p is the SendData that carries application plaintext p.  Executable definitions only. *)
From Coq Require Import List Bool.
From MV Require Import Base.Bytes.
Import ListNotations.

Inductive tstate := INACTIVE | ESTABLISHING | OPEN | CLOSED.
Inductive hook := HStart | HEstablished | HFailed.
Inductive hs_result := WantRead | HsError | HsDone.
Inductive send_result := Sent (plain : bytes) | SendIgnored | SendRaises.

(* events given to the child layer / commands it yields *)
Inductive cev := CevStart | CevClient (d : bytes) | CevOpenReply (err : bool)
               | CevServerData (p : bytes) | CevServerClosed.
Inductive ccmd := CmdOpen | CmdSend (d : bytes) | CmdClose | CmdOther (d : bytes).

(* commands leaving the layer, plus a ghost record of every event handed to the child together
   with the value of server.tls_established it can observe at that moment *)
Inductive cmd := COpen | CHook (h : hook) | CLogError | CLogWarn | CSendApp (p : bytes) | CClose
               | COther (d : bytes) | CChild (e : cev) (established : bool) | CCrash.

Definition tstate_eqb (a b : tstate) : bool :=
  match a, b with
  | INACTIVE, INACTIVE | ESTABLISHING, ESTABLISHING | OPEN, OPEN | CLOSED, CLOSED => true
  | _, _ => false
  end.

Section Layer.
  Variable eng : Type.                       (* the SSL.Connection object *)
  Variable seg : Type.                       (* bytes arriving from the server *)
  Variable hs_step : eng -> option seg -> eng * hs_result.     (* bio_write(data) if data; do_handshake() *)
  Variable send_app : eng -> bytes -> eng * send_result.       (* sendall(data) *)
  Variable recv_app : eng -> option seg -> eng * (bytes * bool). (* recv loop: plaintext, close_notify seen *)
  Variable got_shutdown : eng -> bool.                          (* get_shutdown() & RECEIVED_SHUTDOWN *)
  Variable start_conn : option eng.          (* tls_start.ssl_conn after the tls_start_server hook *)
  Variable cst : Type.                       (* the child layer *)
  Variable child_step : cst -> bool -> cev -> cst * list ccmd.

  Inductive ev := EStart | EData (d : seg) | EClosed | EClient (d : bytes) | EOpenReply (err : bool).

  Record st := mkSt {
    tunnel_state : tstate;
    tls : option eng;
    reply_to : bool;               (* command_to_reply_to is set *)
    queue : list cev;              (* _event_queue *)
    conn_closed : bool;            (* tunnel_connection.state is CLOSED *)
    established : bool;            (* conn.tls_established *)
    awaiting_open : bool;          (* paused at err = yield OpenConnection(tunnel_connection) *)
    paused : list ev;              (* events buffered by Layer.handle_event while paused *)
    child : cst;
    crashed : bool
  }.

  Definition out := (st * list cmd)%type.

  Definition set_ts (s : st) (t : tstate) : st :=
    mkSt t (tls s) (reply_to s) (queue s) (conn_closed s) (established s) (awaiting_open s) (paused s) (child s) (crashed s).
  Definition set_tls (s : st) (e : option eng) : st :=
    mkSt (tunnel_state s) e (reply_to s) (queue s) (conn_closed s) (established s) (awaiting_open s) (paused s) (child s) (crashed s).
  Definition set_reply (s : st) (b : bool) : st :=
    mkSt (tunnel_state s) (tls s) b (queue s) (conn_closed s) (established s) (awaiting_open s) (paused s) (child s) (crashed s).
  Definition set_queue (s : st) (q : list cev) : st :=
    mkSt (tunnel_state s) (tls s) (reply_to s) q (conn_closed s) (established s) (awaiting_open s) (paused s) (child s) (crashed s).
  Definition set_closed (s : st) (b : bool) : st :=
    mkSt (tunnel_state s) (tls s) (reply_to s) (queue s) b (established s) (awaiting_open s) (paused s) (child s) (crashed s).
  Definition set_est (s : st) (b : bool) : st :=
    mkSt (tunnel_state s) (tls s) (reply_to s) (queue s) (conn_closed s) b (awaiting_open s) (paused s) (child s) (crashed s).
  Definition set_await (s : st) (b : bool) : st :=
    mkSt (tunnel_state s) (tls s) (reply_to s) (queue s) (conn_closed s) (established s) b (paused s) (child s) (crashed s).
  Definition set_paused (s : st) (p : list ev) : st :=
    mkSt (tunnel_state s) (tls s) (reply_to s) (queue s) (conn_closed s) (established s) (awaiting_open s) p (child s) (crashed s).
  Definition set_child (s : st) (c : cst) : st :=
    mkSt (tunnel_state s) (tls s) (reply_to s) (queue s) (conn_closed s) (established s) (awaiting_open s) (paused s) c (crashed s).
  Definition crash (s : st) : out :=
    (mkSt (tunnel_state s) (tls s) (reply_to s) (queue s) (conn_closed s) (established s) (awaiting_open s) (paused s) (child s) true,
     [CCrash]).

  (* sequencing of generator bodies; nothing runs after an exception *)
  Definition bind (r : out) (f : st -> out) : out :=
    let (s, c) := r in
    if crashed s then (s, c) else let (s', c') := f s in (s', c ++ c').

  Definition init (c : cst) (conn_is_closed : bool) : st :=
    mkSt INACTIVE None false [] conn_is_closed false false [] c false.

  (* TLSLayer.send_data *)
  Definition send_data (s : st) (d : bytes) : out :=
    match tls s with
    | None => crash s
    | Some e =>
        let (e', r) := send_app e d in
        match r with
        | Sent p => (set_tls s (Some e'), [CSendApp p])
        | SendIgnored => (set_tls s (Some e'), [])
        | SendRaises => crash (set_tls s (Some e'))
        end
    end.

  (* TunnelLayer._handle_command for commands on self.conn; the nested generator stops at
     err = yield OpenConnection(tunnel_connection) until EOpenReply arrives *)
  Definition handle_command (s : st) (c : ccmd) : out :=
    match c with
    | CmdSend d => send_data s d
    | CmdClose => (set_closed s true, [CClose])
    | CmdOpen => (set_await (set_ts (set_reply s true) ESTABLISHING) true, [COpen])
    | CmdOther d => (s, [COther d])
    end.

  Fixpoint handle_commands (s : st) (cs : list ccmd) : out :=
    match cs with
    | [] => (s, [])
    | c :: r => bind (handle_command s c) (fun s' => handle_commands s' r)
    end.

  (* TunnelLayer.event_to_child *)
  Definition event_to_child (s : st) (e : cev) : out :=
    if tstate_eqb (tunnel_state s) ESTABLISHING && negb (reply_to s)
    then (set_queue s (queue s ++ [e]), [])
    else let (c', cmds) := child_step (child s) (established s) e in
         bind (set_child s c', [CChild e (established s)]) (fun s' => handle_commands s' cmds).

  Fixpoint events_to_child (s : st) (es : list cev) : out :=
    match es with
    | [] => (s, [])
    | e :: r => bind (event_to_child s e) (fun s' => events_to_child s' r)
    end.

  (* TLSLayer.start_tls *)
  Definition start_tls (s : st) : out :=
    match tls s with
    | Some _ => crash s                                        (* assert not self.tls *)
    | None =>
        match start_conn with
        | None => (set_closed s true, [CHook HStart; CLogError; CClose])
        | Some e => (set_tls s (Some e), [CHook HStart])
        end
    end.

  (* TLSLayer.receive_data *)
  Definition receive_data (s : st) (d : option seg) : out :=
    match tls s with
    | None => crash s
    | Some e =>
        let '(e', (p, closed)) := recv_app e d in
        bind (set_tls s (Some e'), [])
          (fun s1 => bind (match p with [] => (s1, []) | _ => event_to_child s1 (CevServerData p) end)
             (fun s2 => if closed then event_to_child s2 CevServerClosed else (s2, [])))
    end.

  (* TLSLayer.receive_handshake_data: (done, err) *)
  Definition receive_handshake_data (s : st) (d : option seg) : out * (bool * bool) :=
    match tls s with
    | None => (crash s, (false, false))
    | Some e =>
        let (e', r) := hs_step e d in
        let s1 := set_tls s (Some e') in
        match r with
        | WantRead => ((s1, []), (false, false))
        | HsError => ((s1, []), (false, true))
        | HsDone =>
            (bind (set_est s1 true, [CHook HEstablished]) (fun s2 => receive_data s2 None), (true, false))
        end
    end.

  (* ServerTLSLayer.on_handshake_error + TLSLayer + TunnelLayer *)
  Definition on_handshake_error (s : st) : out :=
    (set_closed s true, [CLogWarn; CHook HFailed; CClose]).

  (* TunnelLayer._handshake_finished *)
  Definition handshake_finished (s : st) (err : bool) : out :=
    let s1 := set_ts s (if err then CLOSED else OPEN) in
    if reply_to s1
    then bind (event_to_child s1 (CevOpenReply err)) (fun s2 => (set_reply s2 false, []))
    else bind (events_to_child s1 (queue s1)) (fun s2 => (set_queue s2 [], [])).

  (* ServerTLSLayer.start_handshake with wait_for_clienthello = False; the (done, err) result of
     receive_handshake_data is dropped exactly as in the code *)
  Definition start_handshake (s : st) : out :=
    bind (start_tls s)
      (fun s1 => match tls s1 with
                 | Some _ => fst (receive_handshake_data s1 None)
                 | None => (s1, [])
                 end).

  (* TunnelLayer._handle_event, DataReceived on the tunnel connection *)
  Definition on_data (s : st) (d : seg) : out :=
    if tstate_eqb (tunnel_state s) ESTABLISHING then
      let '(r, (done, err)) := receive_handshake_data s (Some d) in
      bind r (fun s1 =>
        bind (if err then on_handshake_error s1 else (s1, []))
          (fun s2 => if done || err then handshake_finished s2 err else (s2, [])))
    else receive_data s (Some d).

  (* TunnelLayer._handle_event, ConnectionClosed on the tunnel connection *)
  Definition on_closed (s : st) : out :=
    bind
      (match tunnel_state s with
       | OPEN => match tls s with
                 | Some e => if got_shutdown e then (s, []) else event_to_child s CevServerClosed
                 | None => crash s
                 end
       | ESTABLISHING => bind (on_handshake_error s) (fun s1 => handshake_finished s1 true)
       | _ => (s, [])
       end)
      (fun s1 => (set_ts s1 CLOSED, [])).

  Definition on_start (s : st) : out :=
    bind (if conn_closed s then (s, []) else start_handshake (set_ts s ESTABLISHING))
      (fun s1 => event_to_child s1 CevStart).

  (* the rest of _handle_command for OpenConnection once the reply is there *)
  Definition on_open_reply (s : st) (err : bool) : out :=
    if err
    then bind (event_to_child s (CevOpenReply true)) (fun s1 => (set_ts s1 CLOSED, []))
    else start_handshake (set_closed s false).

  Definition handle (s : st) (e : ev) : out :=
    match e with
    | EStart => on_start s
    | EData d => on_data s d
    | EClosed => on_closed s
    | EClient d => event_to_child s (CevClient d)
    | EOpenReply _ => (s, [])       (* no OpenConnection outstanding *)
    end.

  (* Layer.handle_event: while the layer is paused at a blocking command, events are buffered *)
  Definition step (s : st) (e : ev) : out :=
    if crashed s then (s, []) else
    if awaiting_open s then
      match e with
      | EOpenReply err =>
          let buffered := paused s in
          bind (on_open_reply (set_paused (set_await s false) []) err)
            (fun s1 => fold_left
               (fun (acc : out) (b : ev) =>
                  bind acc (fun s2 => if awaiting_open s2 then (set_paused s2 (paused s2 ++ [b]), [])
                                      else handle s2 b))
               buffered (s1, []))
      | _ => (set_paused s (paused s ++ [e]), [])
      end
    else handle s e.

  Fixpoint run (s : st) (es : list ev) : out :=
    match es with
    | [] => (s, [])
    | e :: r => let (s1, c1) := step s e in let (s2, c2) := run s1 r in (s2, c1 ++ c2)
    end.
End Layer.
