(* Model/CompatPrelude.v -- data types shared by the translated converter table
   (Gen/CompatChain.v) and the hand model of compat.migrate_flow (Model/Compat.v). No proofs.

   What migrate_flow can observe of a Python value stored under the version key:
   - verval: the raw value. VInt for int and bool (isinstance(x, int)); VSeq for every iterable
     (list, tuple, str, bytes, dict keys) as the sequence tuple(x) yields; VNotIterable for None
     (also the result of a missing key) and float, where tuple(x) raises TypeError.
   - velt: one element of such a sequence as dict lookup sees it: EInt z for anything that is
     ==/hash-equal to the int z (int, bool, integral float, a byte of a bytes object), EOther for
     any other hashable value, EUnhashable for list/dict elements.
   - fver: the local flow_version after the normalisation step, int or tuple(...)[:2]. *)
From Coq Require Import ZArith List Bool.
Import ListNotations.

Inductive velt := EInt (z : Z) | EOther | EUnhashable.
Inductive verval := VInt (z : Z) | VSeq (l : list velt) | VNotIterable.
Inductive fver := FInt (z : Z) | FTup (l : list velt).

(* Which version entry a converter writes, read off its body by the translator:
   WB: data[bytes version] = t;  WS: data[str version] = t;
   US: data = convert_unicode(data) first (all keys become str, so no bytes key survives),
       then data[str version] = t. *)
Inductive effect := WB | WS | US.

Definition chain_t := list (fver * (effect * verval)).
