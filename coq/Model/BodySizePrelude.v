(* Model/BodySizePrelude.v -- run-time vocabulary of the generated model Gen/BodySize.v
   (harness/translators/body_size.py: validate.py and http1/read.expected_http_body_size).
   - a regular-expression AST with a Brzozowski-derivative matcher ([re_lang]); the translator maps the
     sre parse tree of every pattern in validate.py to a term of [re];
   - Python re semantics used by the code: pattern.match with ^...$ anchors ([re_match_anchored], including the
     rule that dollar also matches before one final LF) and re.sub for the shape  C1* lit C2*  ([re_sub_trim]);
   - Python str/bytes/int/list primitives the translated functions call.
   Executable definitions only. *)
From Coq Require Import List Bool NArith ZArith.
From MV Require Import Base.Bytes Model.Http1Msg.
Import ListNotations.

(* ---------- regular expressions *)
Definition cls := list (N * N).           (* union of inclusive byte ranges *)
Definition in_cls (c : cls) (b : byte) : bool :=
  existsb (fun r => (fst r <=? bN b)%N && (bN b <=? snd r)%N) c.

Inductive re :=
| REmp | REps
| RCls (c : cls)
| RSeq (a b : re) | RAlt (a b : re) | RStar (a : re).

Fixpoint nullable (r : re) : bool :=
  match r with
  | REmp => false | REps => true | RCls _ => false
  | RSeq a b => nullable a && nullable b
  | RAlt a b => nullable a || nullable b
  | RStar _ => true
  end.

Fixpoint deriv (x : byte) (r : re) : re :=
  match r with
  | REmp => REmp | REps => REmp
  | RCls c => if in_cls c x then REps else REmp
  | RSeq a b => if nullable a then RAlt (RSeq (deriv x a) b) (deriv x b) else RSeq (deriv x a) b
  | RAlt a b => RAlt (deriv x a) (deriv x b)
  | RStar a => RSeq (deriv x a) (RStar a)
  end.

(* membership of the whole string in the language of r *)
Fixpoint re_lang (r : re) (s : bytes) : bool :=
  match s with
  | [] => nullable r
  | x :: s' => re_lang (deriv x r) s'
  end.

Definition RPlus (a : re) : re := RSeq a (RStar a).
Definition RLit (b : byte) : re := RCls [(bN b, bN b)].

(* bool(re.compile("^" R "$").match(s)) for R without anchors, groups with back-references or look-around:
   a match exists iff s, or s without one final LF, is in the language of R *)
Definition drop_final_lf (s : bytes) : option bytes :=
  match rev s with
  | x :: r => if byte_eqb x LF then Some (rev r) else None
  | [] => None
  end.
Definition re_match_anchored (r : re) (s : bytes) : bool :=
  re_lang r s || match drop_final_lf s with Some s' => re_lang r s' | None => false end.

(* re.sub(C1* lit C2*, repl, s) where lit is not in C1 (checked by the translator): the leftmost match at a
   position exists iff the maximal C1 run from there is followed by lit; it then extends over the maximal
   C2 run.  [pend] is the C1 run read so far (not yet emitted), [skipping] is set while inside a C2 run
   that follows a replaced lit. *)
Fixpoint re_sub_trim_go (c1 : cls) (lit : byte) (c2 : cls) (repl : bytes) (s : bytes)
                        (pend : bytes) (skipping : bool) : bytes :=
  match s with
  | [] => pend
  | x :: s' =>
      if skipping && in_cls c2 x then re_sub_trim_go c1 lit c2 repl s' [] true
      else if byte_eqb x lit then repl ++ re_sub_trim_go c1 lit c2 repl s' [] true
      else if in_cls c1 x then re_sub_trim_go c1 lit c2 repl s' (pend ++ [x]) false
      else pend ++ x :: re_sub_trim_go c1 lit c2 repl s' [] false
  end.
Definition re_sub_trim (c1 : cls) (lit : byte) (c2 : cls) (repl : bytes) (s : bytes) : bytes :=
  re_sub_trim_go c1 lit c2 repl s [] false.

(* ---------- Python primitives *)
Definition isascii (s : bytes) : bool := forallb (fun b => (bN b <? 128)%N) s.
Definition in_set (x : bytes) (l : list bytes) : bool := existsb (bytes_eqb x) l.

(* int(value) for str/bytes: surrounding whitespace is ignored *)
Definition py_int_res (s : bytes) : res Z :=
  match py_int (strip s) with Some z => Ok z | None => ValueError end.

Definition nonempty {A} (l : list A) : bool := match l with [] => false | _ => true end.
Definition len_gt1 {A} (l : list A) : bool := match l with _ :: _ :: _ => true | _ => false end.
Definition first_or_empty (l : list bytes) : bytes := match l with x :: _ => x | [] => [] end.

(* truthiness of an optional str *)
Definition opt_truthy (o : option bytes) : bool := match o with Some (_ :: _) => true | _ => false end.
Definition opt_val (o : option bytes) : bytes := match o with Some v => v | None => [] end.

(* ---------- Message attributes *)
Definition HTTP11 : bytes := [x48;x54;x54;x50;x2f;x31;x2e;x31].
Definition is_http11 (m : message) : bool := bytes_eqb (msg_version m) HTTP11.
Definition is_response (m : message) : bool := match m with MResp _ => true | MReq _ => false end.
Definition is_request (m : message) : bool := match m with MReq _ => true | MResp _ => false end.
Definition status_code (m : message) : Z := match m with MResp r => rs_status r | MReq _ => 0%Z end.

Definition bind {A B} (x : res A) (f : A -> res B) : res B :=
  match x with Ok a => f a | ValueError => ValueError | OtherError => OtherError end.
