(* Model/DnsLayer.v -- mitmproxy/proxy/layers/dns.py: DNSLayer (unpack_message, flows keyed by
   message id, handle_request / handle_response / handle_error, state_query / state_done) and
   mitmproxy/dns.py: DNSMessage.fail.  Executable definitions only.

   DNS message content is abstract: a message is the record of the fields the property talks
   about (id, query flag, opcode, RD, number of questions, packed question section) plus the
   bytes DNSMessage.packed returns for it.  DNSMessage.unpack is a parameter [unpack] of the
   model (Section variable): theorems hold for every unpack function; the correspondence check
   instantiates it with the table of results the real DNSMessage.unpack returned.

   Blocking commands (the three hooks, OpenConnection) are answered synchronously from two
   scripts carried in the state: addon actions (one per hook, in hook order) and connect
   outcomes (one per OpenConnection).  That each event is handled atomically with respect to
   other events while a hook is pending is the layer core (C04).

   Two booleans describe proposed repairs (see design/C27.md); both false = the code as it is:
   fix_fresh : a client query whose id belongs to a flow that already has a response or error
               starts a new flow instead of replaying the old response;
   fix_drop  : an upstream message whose id matches no flow is ignored. *)
From Coq Require Import List Bool Arith NArith.
From MV Require Import Base.Bytes.
Import ListNotations.

Record message := mkMsg {
  m_id : N; m_query : bool; m_op : N; m_rd : bool;
  m_qn : N;            (* len(questions) *)
  m_qs : bytes;        (* the packed question section *)
  m_packed : bytes }.  (* DNSMessage.packed *)

(* DNSMessage.unpack: a message, struct.error, or any other exception *)
Inductive ures := UOk (m : message) | UStruct | UOther.

(* DNSMessage.fail(SERVFAIL): id, op_code, recursion_desired and questions are copied, query is
   False, every other flag cleared, response_code 2, no records.  Its packed form is the header
   followed by the question section. *)
Definition servfail_flags (m : message) : N :=
  (32768 + m_op m * 2048 + (if m_rd m then 256 else 0) + 2)%N.
Definition fail (m : message) : message :=
  mkMsg (m_id m) false (m_op m) (m_rd m) (m_qn m) (m_qs m)
        (put_u16be (m_id m) ++ put_u16be (servfail_flags m) ++ put_u16be (m_qn m)
         ++ [x00; x00; x00; x00; x00; x00] ++ m_qs m).

(* DnsResolver.resolve(request) (mitmproxy/addons/dns_resolver.py): the reply is built FROM THE
   REQUEST by DNSMessage.succeed (rcode 0, recursion_available set, the answer records) or
   DNSMessage.fail (rcode, no records); id, op_code, recursion_desired and the questions are those
   of the request.  rc / n / an: response code, number of answer records, their packed bytes. *)
Definition resolved_flags (m : message) (rc : N) : N :=
  (32768 + m_op m * 2048 + (if m_rd m then 256 else 0) + (if (rc =? 0)%N then 128 else 0) + rc)%N.
Definition resolved (m : message) (rc n : N) (an : bytes) : message :=
  mkMsg (m_id m) false (m_op m) (m_rd m) (m_qn m) (m_qs m)
        (put_u16be (m_id m) ++ put_u16be (resolved_flags m rc) ++ put_u16be (m_qn m)
         ++ put_u16be n ++ [x00; x00; x00; x00] ++ m_qs m ++ an).

(* pack_message *)
Definition pack_message (m : message) (tcp : bool) : bytes :=
  if tcp then put_u16be (N.of_nat (length (m_packed m))) ++ m_packed m else m_packed m.

Record cfg := mkCfg { ctcp : bool; stcp : bool; has_addr : bool; fix_fresh : bool; fix_drop : bool }.

Record flow := mkFlow {
  f_ord : nat; f_req : option message; f_resp : option message; f_err : bool; f_live : bool }.

(* what an addon does to the flow while a hook is pending *)
(* AResolve: the DnsResolver addon answers the flow's own request *)
Inductive act := ANone | ASetResp (m : message) | AClearResp | ASetErr | AResolve (rc n : N) (an : bytes).

Definition apply_act (a : act) (f : flow) : flow :=
  match a with
  | ANone => f
  | ASetResp m => mkFlow (f_ord f) (f_req f) (Some m) (f_err f) (f_live f)
  | AClearResp => mkFlow (f_ord f) (f_req f) None (f_err f) (f_live f)
  | ASetErr => mkFlow (f_ord f) (f_req f) (f_resp f) true (f_live f)
  | AResolve rc n an =>
      match f_req f with
      | Some q => mkFlow (f_ord f) (f_req f) (Some (resolved q rc n an)) (f_err f) (f_live f)
      | None => f
      end
  end.

Inductive hookk := HReq | HResp | HErr.

(* commands as the driver records them; hooks carry the flow as the addon sees it *)
Inductive out :=
| OHook (k : hookk) (ord : nat) (req resp : option message) (err : bool)
| OOpen
| OSend (to_client : bool) (data : bytes)
| OClose (client : bool)
| OCrash.

Inductive phase := PQuery | PDone.

Record st := mkSt {
  s_phase : phase;
  s_crashed : bool;
  s_flows : list (N * flow);      (* DNSLayer.flows, newest first *)
  s_retired : list flow;          (* flows no longer in the map (fix_fresh only) *)
  s_next : nat;                   (* number of flows created so far *)
  s_req_buf : bytes; s_resp_buf : bytes;
  s_srv : bool;                   (* context.server.connected *)
  s_script : list act;            (* addon actions still to come *)
  s_conn : list bool;             (* outcomes of OpenConnection still to come; true = connected *)
  s_cq : list message;            (* ghost: client messages handled so far, newest first *)
  s_sm : list message }.          (* ghost: upstream messages handled so far, newest first *)

Definition init (script : list act) (conn : list bool) : st :=
  mkSt PQuery false [] [] 0 [] [] false script conn [] [].

Fixpoint find_flow (i : N) (l : list (N * flow)) : option flow :=
  match l with
  | [] => None
  | (j, f) :: r => if (i =? j)%N then Some f else find_flow i r
  end.

Fixpoint set_flow (i : N) (f : flow) (l : list (N * flow)) : list (N * flow) :=
  match l with
  | [] => [(i, f)]
  | (j, g) :: r => if (i =? j)%N then (i, f) :: r else (j, g) :: set_flow i f r
  end.

Definition with_flows (s : st) (fl : list (N * flow)) : st :=
  mkSt (s_phase s) (s_crashed s) fl (s_retired s) (s_next s) (s_req_buf s) (s_resp_buf s)
       (s_srv s) (s_script s) (s_conn s) (s_cq s) (s_sm s).
Definition put_flow (s : st) (i : N) (f : flow) : st := with_flows s (set_flow i f (s_flows s)).
Definition with_script (s : st) (sc : list act) : st :=
  mkSt (s_phase s) (s_crashed s) (s_flows s) (s_retired s) (s_next s) (s_req_buf s) (s_resp_buf s)
       (s_srv s) sc (s_conn s) (s_cq s) (s_sm s).
Definition with_srv (s : st) (b : bool) (cn : list bool) : st :=
  mkSt (s_phase s) (s_crashed s) (s_flows s) (s_retired s) (s_next s) (s_req_buf s) (s_resp_buf s)
       b (s_script s) cn (s_cq s) (s_sm s).
Definition with_crash (s : st) : st :=
  mkSt (s_phase s) true (s_flows s) (s_retired s) (s_next s) (s_req_buf s) (s_resp_buf s)
       (s_srv s) (s_script s) (s_conn s) (s_cq s) (s_sm s).
Definition with_buf (s : st) (from_client : bool) (b : bytes) : st :=
  mkSt (s_phase s) (s_crashed s) (s_flows s) (s_retired s) (s_next s)
       (if from_client then b else s_req_buf s) (if from_client then s_resp_buf s else b)
       (s_srv s) (s_script s) (s_conn s) (s_cq s) (s_sm s).
Definition with_done (s : st) (fl : list (N * flow)) (srv : bool) : st :=
  mkSt PDone (s_crashed s) fl (s_retired s) (s_next s) (s_req_buf s) (s_resp_buf s)
       srv (s_script s) (s_conn s) (s_cq s) (s_sm s).
Definition note_msg (s : st) (from_client : bool) (m : message) : st :=
  mkSt (s_phase s) (s_crashed s) (s_flows s) (s_retired s) (s_next s) (s_req_buf s) (s_resp_buf s)
       (s_srv s) (s_script s) (s_conn s)
       (if from_client then m :: s_cq s else s_cq s) (if from_client then s_sm s else m :: s_sm s).

(* the reply of the addons to the next hook *)
Definition pop_act (s : st) : act * st :=
  match s_script s with
  | [] => (ANone, s)
  | a :: r => (a, with_script s r)
  end.

Definition hook_of (k : hookk) (f : flow) : out := OHook k (f_ord f) (f_req f) (f_resp f) (f_err f).

(* handle_response(flow, msg) for the flow stored under key i *)
Definition handle_response (c : cfg) (s : st) (i : N) (f : flow) (m : message) : st * list out :=
  let f1 := mkFlow (f_ord f) (f_req f) (Some m) (f_err f) (f_live f) in
  let (a, s1) := pop_act s in
  let f2 := apply_act a f1 in
  (put_flow s1 i f2,
   hook_of HResp f1 ::
   match f_resp f2 with
   | Some r => [OSend true (pack_message r (ctcp c))]
   | None => []
   end).

(* handle_error(flow, err); flow.request.fail raises AttributeError when there is no request *)
Definition handle_error (c : cfg) (s : st) (i : N) (f : flow) : st * list out :=
  let f1 := mkFlow (f_ord f) (f_req f) (f_resp f) true (f_live f) in
  let (a, s1) := pop_act s in
  let f2 := apply_act a f1 in
  match f_req f2 with
  | Some q => (put_flow s1 i f2, [hook_of HErr f1; OSend true (pack_message (fail q) (ctcp c))])
  | None => (with_crash (put_flow s1 i f2), [hook_of HErr f1; OCrash])
  end.

(* handle_request(flow, msg) *)
Definition handle_request (c : cfg) (s : st) (i : N) (f : flow) (m : message) : st * list out :=
  let f1 := mkFlow (f_ord f) (Some m) (f_resp f) (f_err f) (f_live f) in
  let (a, s1) := pop_act s in
  let f2 := apply_act a f1 in
  let h := hook_of HReq f1 in
  match f_resp f2 with
  | Some r => let (s2, o) := handle_response c s1 i f2 r in (s2, h :: o)
  | None =>
      if f_err f2 then let (s2, o) := handle_error c s1 i f2 in (s2, h :: o)
      else if negb (has_addr c) then let (s2, o) := handle_error c s1 i f2 in (s2, h :: o)
      else if s_srv s1 then (put_flow s1 i f2, [h; OSend false (pack_message m (stcp c))])
      else
        match s_conn s1 with
        | true :: cn => (put_flow (with_srv s1 true cn) i f2, [h; OOpen; OSend false (pack_message m (stcp c))])
        | false :: cn => let (s2, o) := handle_error c (with_srv s1 false cn) i f2 in (s2, h :: OOpen :: o)
        | [] => let (s2, o) := handle_error c s1 i f2 in (s2, h :: OOpen :: o)
        end
  end.

Definition new_flow (s : st) : flow * st :=
  (mkFlow (s_next s) None None false true,
   mkSt (s_phase s) (s_crashed s) (s_flows s) (s_retired s) (S (s_next s)) (s_req_buf s) (s_resp_buf s)
        (s_srv s) (s_script s) (s_conn s) (s_cq s) (s_sm s)).

Definition retire (s : st) (f : flow) : st :=
  mkSt (s_phase s) (s_crashed s) (s_flows s)
       (mkFlow (f_ord f) (f_req f) (f_resp f) (f_err f) false :: s_retired s)
       (s_next s) (s_req_buf s) (s_resp_buf s) (s_srv s) (s_script s) (s_conn s) (s_cq s) (s_sm s).

Definition answered (f : flow) : bool :=
  match f_resp f with Some _ => true | None => f_err f end.

(* the body of [for msg in msgs] in state_query *)
Definition handle_msg (c : cfg) (from_client : bool) (s : st) (m : message) : st * list out :=
  if s_crashed s then (s, [])
  else
    let i := m_id m in
    match find_flow i (s_flows s) with
    | Some f =>
        let s0 := note_msg s from_client m in
        if from_client then
          if fix_fresh c && answered f then
            let (g, s1) := new_flow (retire s0 f) in handle_request c s1 i g m
          else handle_request c s0 i f m
        else handle_response c s0 i f m
    | None =>
        if from_client then
          let (g, s1) := new_flow (note_msg s from_client m) in handle_request c s1 i g m
        else if fix_drop c then (s, [])
        else let (g, s1) := new_flow (note_msg s from_client m) in handle_response c s1 i g m
    end.

Fixpoint handle_msgs (c : cfg) (from_client : bool) (s : st) (ms : list message) : st * list out :=
  match ms with
  | [] => (s, [])
  | m :: r =>
      let (s1, o1) := handle_msg c from_client s m in
      let (s2, o2) := handle_msgs c from_client s1 r in
      (s2, o1 ++ o2)
  end.

Section Unpack.
Variable unpack : bytes -> ures.

(* unpack_message over TCP: the while loop over the buffer.  RFuel is the out-of-fuel result
   (never produced with fuel = S (length buf), see Proofs/DnsLayerFrame.v). *)
Inductive fres := ROk (ms : list message) (rest : bytes) | RErr | RCrash | RFuel.

Fixpoint unpack_loop (fuel : nat) (buf : bytes) : fres :=
  match fuel with
  | O => RFuel
  | S k =>
      match buf with
      | h :: l :: rest =>
          let n := N.to_nat (u16be h l) in
          if Nat.eqb n 0 then RErr
          else if Nat.ltb (length rest) n then ROk [] buf
          else
            match unpack (firstn n rest) with
            | UOk m =>
                match unpack_loop k (skipn n rest) with
                | ROk ms b => ROk (m :: ms) b
                | e => e
                end
            | UStruct => RErr
            | UOther => RCrash
            end
      | _ => ROk [] buf
      end
  end.

Definition unpack_tcp (buf : bytes) : fres := unpack_loop (S (length buf)) buf.

(* unpack_message(data, from_client): new buffer contents and the messages *)
Definition unpack_message (c : cfg) (s : st) (from_client : bool) (data : bytes) : fres :=
  if ctcp c then unpack_tcp ((if from_client then s_req_buf s else s_resp_buf s) ++ data)
  else
    match unpack data with
    | UOk m => ROk [m] (if from_client then s_req_buf s else s_resp_buf s)
    | UStruct => RErr
    | UOther => RCrash
    end.

Inductive event := EData (from_client : bool) (data : bytes) | EClose (from_client : bool).

Definition all_dead (l : list (N * flow)) : list (N * flow) :=
  map (fun p => (fst p, mkFlow (f_ord (snd p)) (f_req (snd p)) (f_resp (snd p)) (f_err (snd p)) false)) l.

(* state_query / state_done; a crashed layer handles nothing any more *)
Definition step (c : cfg) (s : st) (e : event) : st * list out :=
  if s_crashed s then (s, [])
  else
    match s_phase s with
    | PDone => (s, [])
    | PQuery =>
        match e with
        | EData fc data =>
            match unpack_message c s fc data with
            | ROk ms b => handle_msgs c fc (with_buf s fc b) ms
            | RErr => (with_done s (s_flows s) (if fc then s_srv s else false), [OClose fc])
            | RCrash => (with_crash s, [OCrash])
            | RFuel => (with_crash s, [OCrash])
            end
        | EClose fc =>
            (* other_conn.connected: the client is open as long as the layer is in state_query *)
            (with_done s (all_dead (s_flows s)) false,
             if fc then (if s_srv s then [OClose false] else []) else [OClose true])
        end
    end.

Fixpoint run (c : cfg) (s : st) (es : list event) : st * list out :=
  match es with
  | [] => (s, [])
  | e :: r =>
      let (s1, o1) := step c s e in
      let (s2, o2) := run c s1 r in
      (s2, o1 ++ o2)
  end.

(* several client connections, one layer each (regular dns mode); an event is tagged with the
   connection it belongs to, and so is every command *)
Fixpoint set_nth {A} (i : nat) (x : A) (l : list A) : list A :=
  match l, i with
  | [], _ => []
  | _ :: r, O => x :: r
  | y :: r, S k => y :: set_nth k x r
  end.

Fixpoint sys_run (c : cfg) (ss : list st) (es : list (nat * event)) : list st * list (nat * out) :=
  match es with
  | [] => (ss, [])
  | (i, e) :: r =>
      match nth_error ss i with
      | None => sys_run c ss r
      | Some s =>
          let (s1, o1) := step c s e in
          let (ss2, o2) := sys_run c (set_nth i s1 ss) r in
          (ss2, map (fun o => (i, o)) o1 ++ o2)
      end
  end.

Definition proj_events (i : nat) (es : list (nat * event)) : list event :=
  map snd (filter (fun p => Nat.eqb (fst p) i) es).
Definition proj_outs (i : nat) (os : list (nat * out)) : list out :=
  map snd (filter (fun p => Nat.eqb (fst p) i) os).

End Unpack.
