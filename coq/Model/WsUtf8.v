(* Model/WsUtf8.v -- CPython bytes.decode(utf-8, errors=replace) and str.encode(utf-8)
   over lists of bytes / lists of code points.  Executable definitions only.

   decode_replace follows Objects/stringlib/codecs.h (utf8_decode) and the error loop of
   unicode_decode_utf8: an invalid start byte is replaced alone; a lead byte followed by a byte
   that cannot continue it is replaced together with the valid part already read (1 to 3 bytes,
   the maximal subpart) and decoding resumes AT the offending byte; a truncated sequence at the end
   of the input is replaced by a single U+FFFD.  A str is a list of code points (N). *)
From Coq Require Import List Bool NArith.
From MV Require Import Base.Bytes.
Import ListNotations.
Local Open Scope N_scope.

Definition str := list N.
Definition REPL : N := 65533.

Definition is_cont (b : byte) : bool := (128 <=? bN b) && (bN b <=? 191).

(* admissible second byte after lead b0 of a 3- or 4-byte form
   (E0: A0..BF no overlong, ED: 80..9F no surrogates, F0: 90..BF, F4: 80..8F) *)
Definition second_ok (b0 b1 : byte) : bool :=
  is_cont b1 &&
  (if bN b0 =? 224 then 160 <=? bN b1
   else if bN b0 =? 237 then bN b1 <? 160
   else if bN b0 =? 240 then 144 <=? bN b1
   else if bN b0 =? 244 then bN b1 <? 144
   else true).

Definition cp2 (b0 b1 : byte) : N := (bN b0 - 192) * 64 + (bN b1 - 128).
Definition cp3 (b0 b1 b2 : byte) : N := (bN b0 - 224) * 4096 + (bN b1 - 128) * 64 + (bN b2 - 128).
Definition cp4 (b0 b1 b2 b3 : byte) : N :=
  (bN b0 - 240) * 262144 + (bN b1 - 128) * 4096 + (bN b2 - 128) * 64 + (bN b3 - 128).

Fixpoint decode_replace (s : bytes) : str :=
  match s with
  | [] => []
  | b0 :: r0 =>
    if bN b0 <? 128 then bN b0 :: decode_replace r0
    else if bN b0 <? 194 then REPL :: decode_replace r0
    else if bN b0 <? 224 then
      match r0 with
      | [] => [REPL]
      | b1 :: r1 => if is_cont b1 then cp2 b0 b1 :: decode_replace r1 else REPL :: decode_replace r0
      end
    else if bN b0 <? 240 then
      match r0 with
      | [] => [REPL]
      | b1 :: r1 =>
        if second_ok b0 b1 then
          match r1 with
          | [] => [REPL]
          | b2 :: r2 => if is_cont b2 then cp3 b0 b1 b2 :: decode_replace r2 else REPL :: decode_replace r1
          end
        else REPL :: decode_replace r0
      end
    else if bN b0 <? 245 then
      match r0 with
      | [] => [REPL]
      | b1 :: r1 =>
        if second_ok b0 b1 then
          match r1 with
          | [] => [REPL]
          | b2 :: r2 =>
            if is_cont b2 then
              match r2 with
              | [] => [REPL]
              | b3 :: r3 => if is_cont b3 then cp4 b0 b1 b2 b3 :: decode_replace r3 else REPL :: decode_replace r2
              end
            else REPL :: decode_replace r1
          end
        else REPL :: decode_replace r0
      end
    else REPL :: decode_replace r0
  end.

(* strict validity: the same scanner, false at the first error *)
Fixpoint utf8_valid (s : bytes) : bool :=
  match s with
  | [] => true
  | b0 :: r0 =>
    if bN b0 <? 128 then utf8_valid r0
    else if bN b0 <? 194 then false
    else if bN b0 <? 224 then
      match r0 with
      | b1 :: r1 => is_cont b1 && utf8_valid r1
      | _ => false
      end
    else if bN b0 <? 240 then
      match r0 with
      | b1 :: b2 :: r2 => second_ok b0 b1 && is_cont b2 && utf8_valid r2
      | _ => false
      end
    else if bN b0 <? 245 then
      match r0 with
      | b1 :: b2 :: b3 :: r3 => second_ok b0 b1 && is_cont b2 && is_cont b3 && utf8_valid r3
      | _ => false
      end
    else false
  end.

(* str.encode(utf-8) for code points below 0x110000 (surrogates do not occur: every str here comes from a decoder) *)
Definition encode_cp (c : N) : bytes :=
  if c <? 128 then [Nb c]
  else if c <? 2048 then [Nb (192 + c / 64); Nb (128 + c mod 64)]
  else if c <? 65536 then [Nb (224 + c / 4096); Nb (128 + (c / 64) mod 64); Nb (128 + c mod 64)]
  else [Nb (240 + c / 262144); Nb (128 + (c / 4096) mod 64); Nb (128 + (c / 64) mod 64); Nb (128 + c mod 64)].

Definition encode (s : str) : bytes := flat_map encode_cp s.
