(* Model/CertStore.v -- executable model of mitmproxy/certs.py CertStore
   (certs dict, expire_queue, STORE_CAP, expire, add_cert, asterisk_forms, get_cert).
   Definitions only. Strings are ASCII byte lists. Entries are abstract:
   ECustom i     = the i-th custom CertStoreEntry object handed to add_cert,
   EGen i cn sans = the i-th entry created by get_cert, i.e. the result of
                    dummy_cert(commonname=cn, sans=sans) (fresh random serial). *)
From Coq Require Import List Bool Arith.
From MV Require Import Base.Bytes.
Import ListNotations.

Definition name := bytes.

(* x509.GeneralName: DNSName(value) or any other kind, represented by str(value) *)
Inductive san := DNS (v : name) | Other (v : name).

(* TCertId = Union[str, tuple[Optional[str], GeneralNames]] *)
Inductive key := KCustom (n : name) | KGen (cn : option name) (sans : list san).

Inductive entry := ECustom (i : nat) | EGen (i : nat) (cn : option name) (sans : list san).

Definition san_eqb (a b : san) : bool :=
  match a, b with
  | DNS x, DNS y => bytes_eqb x y
  | Other x, Other y => bytes_eqb x y
  | _, _ => false
  end.

Definition key_eqb (a b : key) : bool :=
  match a, b with
  | KCustom x, KCustom y => bytes_eqb x y
  | KGen c1 s1, KGen c2 s2 => option_eqb bytes_eqb c1 c2 && list_eqb san_eqb s1 s2
  | _, _ => false
  end.

(* dataclass equality of CertStoreEntry (certificate fingerprints) *)
Definition entry_eqb (a b : entry) : bool :=
  match a, b with
  | ECustom i, ECustom j => Nat.eqb i j
  | EGen i c1 s1, EGen j c2 s2 => Nat.eqb i j && option_eqb bytes_eqb c1 c2 && list_eqb san_eqb s1 s2
  | _, _ => false
  end.

(* ---- insertion-ordered dict ---- *)
Definition certs_t := list (key * entry).

Fixpoint dict_get (k : key) (c : certs_t) : option entry :=
  match c with
  | [] => None
  | (k', v) :: r => if key_eqb k' k then Some v else dict_get k r
  end.

(* d[k] = v : overwrite in place, else append *)
Fixpoint dict_set (k : key) (v : entry) (c : certs_t) : certs_t :=
  match c with
  | [] => [(k, v)]
  | (k', v') :: r => if key_eqb k' k then (k', v) :: r else (k', v') :: dict_set k v r
  end.

(* {k: v for k, v in certs.items() if v != d} *)
Definition dict_filter_ne (d : entry) (c : certs_t) : certs_t :=
  filter (fun kv => negb (entry_eqb (snd kv) d)) c.

Record store := mkStore { certs : certs_t; expire_queue : list entry; next_gen : nat }.

Definition empty_store : store := mkStore [] [] 0.

(* CertStore.expire *)
Definition expire (cap : nat) (st : store) (e : entry) : store :=
  let q := expire_queue st ++ [e] in
  if cap <? length q then
    match q with
    | d :: q' => mkStore (dict_filter_ne d (certs st)) q' (next_gen st)
    | [] => mkStore (certs st) q (next_gen st)
    end
  else mkStore (certs st) q (next_gen st).

(* Python truthiness of a str *)
Definition truthy_name (n : name) : bool := match n with [] => false | _ => true end.

Definition san_str (s : san) : name := match s with DNS v => v | Other v => v end.

(* CertStore.add_cert(entry, *names); cn and altnames are those of entry.cert *)
Definition add_cert (st : store) (e : entry) (cn : option name) (altnames : list san) (names : list name) : store :=
  let c1 := match cn with
            | Some n => if truthy_name n then dict_set (KCustom n) e (certs st) else certs st
            | None => certs st
            end in
  let c2 := fold_left (fun c s => dict_set (KCustom (san_str s)) e c) altnames c1 in
  let c3 := fold_left (fun c n => dict_set (KCustom n) e c) names c2 in
  mkStore c3 (expire_queue st) (next_gen st).

(* str.split(".") *)
Fixpoint split_dot_aux (cur : bytes) (s : bytes) : list bytes :=
  match s with
  | [] => [rev cur]
  | c :: r => if byte_eqb c x2e then rev cur :: split_dot_aux [] r else split_dot_aux (c :: cur) r
  end.
Definition split_dot (s : bytes) : list bytes := split_dot_aux [] s.

(* ".".join(parts) *)
Fixpoint join_dot (l : list bytes) : bytes :=
  match l with
  | [] => []
  | x :: r => match r with [] => x | _ => x ++ x2e :: join_dot r end
  end.

(* [parts[i:] for i in range(1, len(parts))] *)
Fixpoint tails1 (l : list bytes) : list (list bytes) :=
  match l with
  | [] => []
  | _ :: r => match r with [] => [] | _ => r :: tails1 r end
  end.

(* CertStore.asterisk_forms on a str *)
Definition asterisk_forms_str (dn : name) : list name :=
  dn :: map (fun t => x2a :: x2e :: join_dot t) (tails1 (split_dot dn)).

(* CertStore.asterisk_forms on a GeneralName *)
Definition asterisk_forms (s : san) : list name :=
  match s with
  | DNS v => asterisk_forms_str v
  | Other v => [v]
  end.

(* the str part of potential_keys *)
Definition potential_names (cn : option name) (sans : list san) : list name :=
  (match cn with
   | Some n => if truthy_name n then asterisk_forms_str n else []
   | None => []
   end) ++ flat_map asterisk_forms sans ++ [[x2a]].

Definition potential_keys (cn : option name) (sans : list san) : list key :=
  map KCustom (potential_names cn sans) ++ [KGen cn sans].

(* next(filter(lambda key: key in certs, keys), None) together with certs[name] *)
Fixpoint lookup_first (keys : list key) (c : certs_t) : option (key * entry) :=
  match keys with
  | [] => None
  | k :: r => match dict_get k c with
              | Some e => Some (k, e)
              | None => lookup_first r c
              end
  end.

(* truthiness of the found key: a str is falsy iff empty, a 2-tuple is truthy *)
Definition truthy_key (k : key) : bool :=
  match k with KCustom n => truthy_name n | KGen _ _ => true end.

(* dummy_cert raises ValueError for an empty common name (x509.NameAttribute) *)
Definition dummy_cert_ok (cn : option name) : bool :=
  match cn with Some [] => false | _ => true end.

(* the else branch of get_cert: create, register under (cn, sans), expire *)
Definition generate (cap : nat) (st : store) (cn : option name) (sans : list san) : option (store * entry) :=
  if dummy_cert_ok cn then
    let e := EGen (next_gen st) cn sans in
    Some (expire cap (mkStore (dict_set (KGen cn sans) e (certs st)) (expire_queue st) (S (next_gen st))) e, e)
  else None.

(* CertStore.get_cert.  truthy = true models the test [if name:], truthy = false the test
   [if name is not None:].  None = ValueError escaped (store unchanged). *)
Definition get_cert (truthy : bool) (cap : nat) (st : store) (cn : option name) (sans : list san)
  : option (store * entry) :=
  match lookup_first (potential_keys cn sans) (certs st) with
  | Some (k, e) => if negb truthy || truthy_key k then Some (st, e) else generate cap st cn sans
  | None => generate cap st cn sans
  end.

(* ---- histories ---- *)
Inductive op :=
| AddCert (i : nat) (cn : option name) (altnames : list san) (names : list name)
| GetCert (cn : option name) (sans : list san).

Definition step (truthy : bool) (cap : nat) (st : store) (o : op) : store * option entry :=
  match o with
  | AddCert i cn alt names => (add_cert st (ECustom i) cn alt names, None)
  | GetCert cn sans => match get_cert truthy cap st cn sans with
                       | Some (st', e) => (st', Some e)
                       | None => (st, None)
                       end
  end.

Fixpoint run (truthy : bool) (cap : nat) (ops : list op) (st : store) : store :=
  match ops with
  | [] => st
  | o :: r => run truthy cap r (fst (step truthy cap st o))
  end.

(* number of generated keys in certs *)
Definition is_gen_key (k : key) : bool := match k with KGen _ _ => true | KCustom _ => false end.
Definition gen_count (c : certs_t) : nat := length (filter (fun kv => is_gen_key (fst kv)) c).
