(* Model/HttpBody.v -- executable model of the body handling of mitmproxy's HttpStream
   (mitmproxy/proxy/layers/http/__init__.py: check_body_size, state_consume_*, state_stream_*, start_*_stream,
   send_response, flow_done, make_server_connection + handle_protocol_error for a failed connect),
   of utils/human.parse_size, and of the HTTP/1 glue that turns HttpStream commands into bytes on the two
   connections (Http1Client.send / Http1Server.send / mark_done, segment-aligned body readers).
   Executable definitions only.  One function per Python function, same names, same branch order.
   Python exceptions escaping the layer (AssertionError of @expect, ValueError of parse_size) are [None].

   Abstractions (tied by the correspondence check, see design/C07.md):
   - heads are reduced to their framing ([framing]); expected_http_body_size is [expected_size];
   - addons are a policy: what requestheaders / responseheaders assign to flow.request.stream / flow.response.stream;
     stream callables are Section variables (state-passing functions), so theorems hold for every callable;
   - hooks and GetHttpConnection complete before the next event (no event queued while the stream is paused).
   The model describes the code WITH fixes/C07-empty-chunk.diff applied (Http1Client.send / Http1Server.send skip
   a zero-length data event on a chunked message); [send_data_unrepaired] is the unrepaired encoding. *)
From Coq Require Import Strings.String.
From Coq Require Import List Bool NArith ZArith.
From MV Require Import Base.Bytes Model.Http1Msg.
Import ListNotations.
Open Scope Z_scope.

Definition blen (b : bytes) : Z := Z.of_nat (length b).
Definition nonempty (b : bytes) : bool := match b with [] => false | _ => true end.

(* ================= utils/human.py ================= *)

(* whitespace skipped by int() on an ASCII str (Py_ISSPACE): TAB LF VT FF CR SPACE; FS..US are not *)
Definition hb_space (b : byte) : bool :=
  let n := bN b in (((9 <=? n) && (n <=? 13)) || (n =? 32))%N.
Fixpoint hb_lstrip (s : bytes) : bytes :=
  match s with
  | c :: r => if hb_space c then hb_lstrip r else s
  | [] => []
  end.
Definition hb_strip (s : bytes) : bytes := rev (hb_lstrip (rev (hb_lstrip s))).

(* decimal digits with single underscores between digits (PyLong_FromString, base 10) *)
Fixpoint py_digits (s : bytes) (acc : Z) (prev_digit : bool) : option Z :=
  match s with
  | [] => if prev_digit then Some acc else None
  | c :: r =>
      if is_digit c then py_digits r (acc * 10 + (Z.of_N (bN c) - 48)) true
      else if byte_eqb c x5f then
        (if prev_digit then
           match r with
           | d :: _ => if is_digit d then py_digits r acc false else None
           | [] => None
           end
         else None)
      else None
  end.

(* int(s) for an ASCII str: None = ValueError *)
Definition py_int (s : bytes) : option Z :=
  match hb_strip s with
  | c :: r =>
      if byte_eqb c x2d then option_map Z.opp (py_digits r 0 false)
      else if byte_eqb c x2b then py_digits r 0 false
      else py_digits (c :: r) 0 false
  | [] => None
  end.

(* SIZE_UNITS, in dict order *)
Definition SIZE_UNITS : list (byte * Z) :=
  [(x62, 1); (x6b, 1024); (x6d, 1048576); (x67, 1073741824); (x74, 1099511627776)].

Inductive psz := PNone | PErr | PVal (z : Z).      (* None | ValueError | int *)

Definition ends_with_byte (s : bytes) (c : byte) : bool :=
  match rev s with
  | l :: _ => byte_eqb l c
  | [] => false
  end.

Fixpoint parse_size_units (s : bytes) (units : list (byte * Z)) : psz :=
  match units with
  | [] => PErr
  | (c, u) :: rest =>
      if ends_with_byte s c then
        match py_int (removelast s) with
        | Some z => PVal (z * u)
        | None => PErr                       (* break -> raise ValueError *)
        end
      else parse_size_units s rest
  end.

Definition parse_size (s : option bytes) : psz :=
  match s with
  | None => PNone
  | Some t =>
      match py_int t with
      | Some z => PVal z
      | None => parse_size_units t SIZE_UNITS
      end
  end.

(* truthiness of an Optional[str] option value *)
Definition opt_truthy (s : option bytes) : bool :=
  match s with Some (_ :: _) => true | _ => false end.

(* ================= HttpStream ================= *)

Inductive framing := FNone | FLen (n : Z) | FChunked | FClose.
(* expected_http_body_size: no CL/TE on a request -> 0; Content-Length: n -> n; chunked -> None;
   response without CL/TE -> -1 *)
Definition expected_size (f : framing) : option Z :=
  match f with
  | FNone => Some 0
  | FLen n => Some n
  | FChunked => None
  | FClose => Some (-1)
  end.
Definition end_stream_of (f : framing) : bool :=
  match expected_size f with Some 0 => true | _ => false end.

(* message.stream: False | True | a callable *)
Inductive sattr := SFalse | STrue | SCall.
Definition stream_truthy (a : sattr) : bool := match a with SFalse => false | _ => true end.

(* result of a stream callable: bytes or an iterable of bytes *)
Inductive sres := RB (b : bytes) | RL (l : list bytes).
(* if isinstance(chunks, bytes): chunks = [chunks] *)
Definition data_chunks (r : sres) : list bytes := match r with RB b => [b] | RL l => l end.
(* if chunks == b"": chunks = [] elif isinstance(chunks, bytes): chunks = [chunks] *)
Definition flush_chunks (r : sres) : list bytes :=
  match r with RB [] => [] | RB b => [b] | RL l => l end.

Inductive hstate := Uninit | WaitHeaders | Consume | Streaming | Done | Errored.
Definition hstate_eqb (a b : hstate) : bool :=
  match a, b with
  | Uninit, Uninit | WaitHeaders, WaitHeaders | Consume, Consume | Streaming, Streaming
  | Done, Done | Errored, Errored => true
  | _, _ => false
  end.

Inductive hook := HRequestHeaders | HRequest | HResponseHeaders | HResponse | HError.
Inductive errcode := ReqTooLarge | RespTooLarge | ConnectFailed.
(* HttpEvents sent with SendHttp: towards the server they are Request*, towards the client Response* *)
Inductive hmsg := MHeaders (end_stream : bool) | MData (d : bytes) | MEom | MErr (c : errcode) | MContinue.
Inductive peer := Client | Server.
Inductive cmd := CHook (h : hook) | CGetConn | CSend (p : peer) (m : hmsg) | CDrop.

(* HttpEvents received by the stream *)
Inductive event :=
| ReqHeaders (fr : framing) (expect100 : bool)
| ReqData (d : bytes)
| ReqEom
| RespHeaders (fr : framing)
| RespData (d : bytes)
| RespEom.

Record config := mkConfig {
  o_limit : option bytes;          (* options.body_size_limit *)
  o_stream : option bytes;         (* options.stream_large_bodies *)
  o_store : bool;                  (* options.store_streamed_bodies *)
  p_req : option sattr;            (* what the requestheaders hook assigns to flow.request.stream (None: nothing) *)
  p_resp : option sattr;           (* what the responseheaders hook assigns to flow.response.stream *)
  c_ok : bool                      (* the server connection can be established *)
}.

Section Stream.
Variable S : Type.                            (* private state of the stream callables *)
Variable fq fs : S -> bytes -> S * sres.      (* flow.request.stream / flow.response.stream when callable *)
Variable cfg : config.

Record st := mkSt {
  client_state : hstate;
  server_state : hstate;
  request_body_buf : bytes;
  response_body_buf : bytes;
  req_framing : framing;
  resp_framing : option framing;     (* None: flow.response is None *)
  req_stream : sattr;
  resp_stream : sattr;
  fq_st : S;
  fs_st : S;
  req_content : option bytes;        (* flow.request.raw_content *)
  resp_content : option bytes;
  flow_error : bool;
  flow_live : bool
}.

Definition set_client (s : st) (v : hstate) : st :=
  mkSt v (server_state s) (request_body_buf s) (response_body_buf s) (req_framing s) (resp_framing s)
       (req_stream s) (resp_stream s) (fq_st s) (fs_st s) (req_content s) (resp_content s) (flow_error s) (flow_live s).
Definition set_server (s : st) (v : hstate) : st :=
  mkSt (client_state s) v (request_body_buf s) (response_body_buf s) (req_framing s) (resp_framing s)
       (req_stream s) (resp_stream s) (fq_st s) (fs_st s) (req_content s) (resp_content s) (flow_error s) (flow_live s).
Definition set_reqbuf (s : st) (v : bytes) : st :=
  mkSt (client_state s) (server_state s) v (response_body_buf s) (req_framing s) (resp_framing s)
       (req_stream s) (resp_stream s) (fq_st s) (fs_st s) (req_content s) (resp_content s) (flow_error s) (flow_live s).
Definition set_respbuf (s : st) (v : bytes) : st :=
  mkSt (client_state s) (server_state s) (request_body_buf s) v (req_framing s) (resp_framing s)
       (req_stream s) (resp_stream s) (fq_st s) (fs_st s) (req_content s) (resp_content s) (flow_error s) (flow_live s).
Definition set_req_framing (s : st) (v : framing) : st :=
  mkSt (client_state s) (server_state s) (request_body_buf s) (response_body_buf s) v (resp_framing s)
       (req_stream s) (resp_stream s) (fq_st s) (fs_st s) (req_content s) (resp_content s) (flow_error s) (flow_live s).
Definition set_resp_framing (s : st) (v : option framing) : st :=
  mkSt (client_state s) (server_state s) (request_body_buf s) (response_body_buf s) (req_framing s) v
       (req_stream s) (resp_stream s) (fq_st s) (fs_st s) (req_content s) (resp_content s) (flow_error s) (flow_live s).
Definition set_req_stream (s : st) (v : sattr) : st :=
  mkSt (client_state s) (server_state s) (request_body_buf s) (response_body_buf s) (req_framing s) (resp_framing s)
       v (resp_stream s) (fq_st s) (fs_st s) (req_content s) (resp_content s) (flow_error s) (flow_live s).
Definition set_resp_stream (s : st) (v : sattr) : st :=
  mkSt (client_state s) (server_state s) (request_body_buf s) (response_body_buf s) (req_framing s) (resp_framing s)
       (req_stream s) v (fq_st s) (fs_st s) (req_content s) (resp_content s) (flow_error s) (flow_live s).
Definition set_fq_st (s : st) (v : S) : st :=
  mkSt (client_state s) (server_state s) (request_body_buf s) (response_body_buf s) (req_framing s) (resp_framing s)
       (req_stream s) (resp_stream s) v (fs_st s) (req_content s) (resp_content s) (flow_error s) (flow_live s).
Definition set_fs_st (s : st) (v : S) : st :=
  mkSt (client_state s) (server_state s) (request_body_buf s) (response_body_buf s) (req_framing s) (resp_framing s)
       (req_stream s) (resp_stream s) (fq_st s) v (req_content s) (resp_content s) (flow_error s) (flow_live s).
Definition set_req_content (s : st) (v : option bytes) : st :=
  mkSt (client_state s) (server_state s) (request_body_buf s) (response_body_buf s) (req_framing s) (resp_framing s)
       (req_stream s) (resp_stream s) (fq_st s) (fs_st s) v (resp_content s) (flow_error s) (flow_live s).
Definition set_resp_content (s : st) (v : option bytes) : st :=
  mkSt (client_state s) (server_state s) (request_body_buf s) (response_body_buf s) (req_framing s) (resp_framing s)
       (req_stream s) (resp_stream s) (fq_st s) (fs_st s) (req_content s) v (flow_error s) (flow_live s).
Definition set_error (s : st) (v : bool) : st :=
  mkSt (client_state s) (server_state s) (request_body_buf s) (response_body_buf s) (req_framing s) (resp_framing s)
       (req_stream s) (resp_stream s) (fq_st s) (fs_st s) (req_content s) (resp_content s) v (flow_live s).
Definition set_live (s : st) (v : bool) : st :=
  mkSt (client_state s) (server_state s) (request_body_buf s) (response_body_buf s) (req_framing s) (resp_framing s)
       (req_stream s) (resp_stream s) (fq_st s) (fs_st s) (req_content s) (resp_content s) (flow_error s) v.

(* the requestheaders / responseheaders addon hooks *)
Definition hook_requestheaders (s : st) : st :=
  match p_req cfg with Some a => set_req_stream s a | None => s end.
Definition hook_responseheaders (s : st) : st :=
  match p_resp cfg with Some a => set_resp_stream s a | None => s end.

(* for chunk in chunks: if store_streamed_bodies: buf += chunk; yield SendHttp(Data(chunk), peer) *)
Fixpoint relay_chunks (request : bool) (chunks : list bytes) (s : st) : st * list cmd :=
  match chunks with
  | [] => (s, [])
  | c :: r =>
      let s1 := if o_store cfg
                then (if request then set_reqbuf s (request_body_buf s ++ c)
                      else set_respbuf s (response_body_buf s ++ c))
                else s in
      let '(s2, cs) := relay_chunks request r s1 in
      (s2, CSend (if request then Server else Client) (MData c) :: cs)
  end.

(* handle_protocol_error(ResponseProtocolError(CONNECT_FAILED)); check_killed finds nothing *)
Definition handle_protocol_error_connect (s : st) : st * list cmd :=
  let need_error_hook :=
    negb (hstate_eqb (client_state s) Errored
          || hstate_eqb (server_state s) Done || hstate_eqb (server_state s) Errored) in
  let '(s1, c1) := if need_error_hook then (set_error s true, [CHook HError]) else (s, []) in
  let c2 := if hstate_eqb (client_state s1) Errored then [] else [CSend Client (MErr ConnectFailed)] in
  (set_live (set_server s1 Errored) false, c1 ++ c2 ++ [CDrop]).

Definition make_server_connection (s : st) : bool * st * list cmd :=
  if c_ok cfg then (true, s, [CGetConn])
  else let '(s1, c1) := handle_protocol_error_connect s in (false, s1, CGetConn :: c1).

Definition start_request_stream (s : st) : st * list cmd :=
  let '(ok, s1, c1) := make_server_connection s in
  if negb ok then (set_client s1 Errored, c1)
  else (set_client s1 Streaming, c1 ++ [CSend Server (MHeaders false)]).

Definition start_response_stream (s : st) : st * list cmd :=
  (set_server s Streaming, [CSend Client (MHeaders false)]).

Definition flow_done (s : st) : st * list cmd :=
  (set_live s false, [CDrop; CSend Client MEom]).

Definition send_response (already_streamed : bool) (s : st) : st * list cmd :=
  let s1 := set_server s Done in
  let c1 :=
    if already_streamed then []
    else
      let content := match resp_content s1 with Some b => b | None => [] end in
      CSend Client (MHeaders (negb (nonempty content)))
      :: (if nonempty content then [CSend Client (MData content)] else []) in
  let '(s2, c2) := if hstate_eqb (client_state s1) Done then flow_done s1 else (s1, []) in
  (s2, CHook HResponse :: c1 ++ c2).

(* state_stream_request_body *)
Definition state_stream_request_body (s : st) (e : event) : option (st * list cmd) :=
  match e with
  | ReqData d =>
      let '(s1, chunks) :=
        match req_stream s with
        | SCall => let '(q, r) := fq (fq_st s) d in (set_fq_st s q, data_chunks r)
        | _ => (s, [d])
        end in
      Some (relay_chunks true chunks s1)
  | ReqEom =>
      let '(s1, chunks) :=
        match req_stream s with
        | SCall => let '(q, r) := fq (fq_st s) [] in (set_fq_st s q, flush_chunks r)
        | _ => (s, [])
        end in
      let '(s2, c1) := relay_chunks true chunks s1 in
      let s3 := if o_store cfg
                then set_reqbuf (set_req_content s2 (Some (request_body_buf s2))) []
                else s2 in
      let s4 := set_client s3 Done in
      let '(s5, c2) := if hstate_eqb (server_state s4) Done then flow_done s4 else (s4, []) in
      Some (s5, c1 ++ [CHook HRequest; CSend Server MEom] ++ c2)
  | _ => None
  end.

Definition state_stream_response_body (s : st) (e : event) : option (st * list cmd) :=
  match e with
  | RespData d =>
      let '(s1, chunks) :=
        match resp_stream s with
        | SCall => let '(q, r) := fs (fs_st s) d in (set_fs_st s q, data_chunks r)
        | _ => (s, [d])
        end in
      Some (relay_chunks false chunks s1)
  | RespEom =>
      let '(s1, chunks) :=
        match resp_stream s with
        | SCall => let '(q, r) := fs (fs_st s) [] in (set_fs_st s q, flush_chunks r)
        | _ => (s, [])
        end in
      let '(s2, c1) := relay_chunks false chunks s1 in
      let s3 := if o_store cfg
                then set_respbuf (set_resp_content s2 (Some (response_body_buf s2))) []
                else s2 in
      let '(s4, c2) := send_response true s3 in
      Some (s4, c1 ++ c2)
  | _ => None
  end.

(* the abort branch of check_body_size *)
Definition abort_body (request : bool) (s : st) : st * list cmd :=
  let '(s1, c1) :=
    if request then
      (if nonempty (request_body_buf s) then (s, []) else (hook_requestheaders s, [CHook HRequestHeaders]))
    else
      (if nonempty (response_body_buf s) then (s, []) else (hook_responseheaders s, [CHook HResponseHeaders])) in
  let s2 := set_client (set_error s1 true) Errored in
  let c2 := [CHook HError; CSend Client (MErr (if request then ReqTooLarge else RespTooLarge))] in
  let '(s3, c3) :=
    if request then (s2, [])
    else (set_server s2 Errored, [CSend Server (MErr RespTooLarge)]) in
  (set_live s3 false, c1 ++ c2 ++ c3).

(* the streaming branch of check_body_size; the faked Data event is dispatched through _handle_event, i.e. to
   state_stream_*_body, or to state_errored when the connection could not be made *)
Definition switch_to_stream (request : bool) (s : st) : option (st * list cmd) :=
  if request then
    let s1 := set_req_stream s STrue in
    if nonempty (request_body_buf s1) then
      let body_buf := request_body_buf s1 in
      let '(s2, c1) := start_request_stream (set_reqbuf s1 []) in
      match client_state s2 with
      | Streaming =>
          match state_stream_request_body s2 (ReqData body_buf) with
          | Some (s3, c2) => Some (s3, c1 ++ c2)
          | None => None
          end
      | _ => Some (s2, c1)
      end
    else Some (s1, [])
  else
    let s1 := set_resp_stream s STrue in
    if nonempty (response_body_buf s1) then
      let body_buf := response_body_buf s1 in
      let '(s2, c1) := start_response_stream (set_respbuf s1 []) in
      match state_stream_response_body s2 (RespData body_buf) with
      | Some (s3, c2) => Some (s3, c1 ++ c2)
      | None => None
      end
    else Some (s1, []).

(* check_body_size(request) -> (return value, state, commands); None = ValueError from parse_size *)
Definition check_body_size (request : bool) (s : st) : option (bool * st * list cmd) :=
  if negb (opt_truthy (o_stream cfg) || opt_truthy (o_limit cfg)) then Some (false, s, [])
  else
    let expected :=
      if request && nonempty (request_body_buf s) then Some (blen (request_body_buf s))
      else if negb request && nonempty (response_body_buf s) then Some (blen (response_body_buf s))
      else if request then expected_size (req_framing s)
      else match resp_framing s with Some f => expected_size f | None => None end in
    match expected with
    | None => Some (false, s, [])
    | Some e =>
        if e <=? 0 then Some (false, s, [])
        else
          match parse_size (o_limit cfg) with
          | PErr => None
          | lim =>
              if match lim with PVal l => l <? e | _ => false end then
                let '(s1, c1) := abort_body request s in Some (true, s1, c1)
              else
                match parse_size (o_stream cfg) with
                | PErr => None
                | thr =>
                    if match thr with PVal t => t <? e | _ => false end then
                      match switch_to_stream request s with
                      | Some (s1, c1) => Some (false, s1, c1)
                      | None => None
                      end
                    else Some (false, s, [])
                end
          end
    end.

Definition state_wait_for_request_headers (s : st) (e : event) : option (st * list cmd) :=
  match e with
  | ReqHeaders fr expect100 =>
      let s0 := set_live (set_req_framing s fr) true in
      let end_stream := end_stream_of fr in
      match (if end_stream then Some (false, s0, []) else check_body_size true s0) with
      | None => None
      | Some (true, s1, c1) => Some (s1, c1)
      | Some (false, s1, c1) =>
          let s2 := hook_requestheaders s1 in
          let c2 := CHook HRequestHeaders :: (if expect100 then [CSend Client MContinue] else []) in
          let '(s3, c3) :=
            if stream_truthy (req_stream s2) && negb end_stream then start_request_stream s2
            else (set_client s2 Consume, []) in
          Some (set_server s3 WaitHeaders, c1 ++ c2 ++ c3)
      end
  | _ => None
  end.

Definition state_consume_request_body (s : st) (e : event) : option (st * list cmd) :=
  match e with
  | ReqData d =>
      match check_body_size true (set_reqbuf s (request_body_buf s ++ d)) with
      | Some (_, s1, c1) => Some (s1, c1)
      | None => None
      end
  | ReqEom =>
      let s1 := set_client (set_reqbuf (set_req_content s (Some (request_body_buf s))) []) Done in
      let '(ok, s2, c2) := make_server_connection s1 in
      if negb ok then Some (s2, CHook HRequest :: c2)
      else
        let content := match req_content s2 with Some b => b | None => [] end in
        Some (s2, CHook HRequest :: c2
                  ++ CSend Server (MHeaders (negb (nonempty content)))
                  :: (if nonempty content then [CSend Server (MData content)] else [])
                  ++ [CSend Server MEom])
  | _ => None
  end.

Definition state_wait_for_response_headers (s : st) (e : event) : option (st * list cmd) :=
  match e with
  | RespHeaders fr =>
      let s0 := set_resp_framing s (Some fr) in
      let end_stream := end_stream_of fr in
      match (if end_stream then Some (false, s0, []) else check_body_size false s0) with
      | None => None
      | Some (true, s1, c1) => Some (s1, c1)
      | Some (false, s1, c1) =>
          let s2 := hook_responseheaders s1 in
          let '(s3, c3) :=
            if stream_truthy (resp_stream s2) && negb end_stream then start_response_stream s2
            else (set_server s2 Consume, []) in
          Some (s3, c1 ++ CHook HResponseHeaders :: c3)
      end
  | _ => None
  end.

Definition state_consume_response_body (s : st) (e : event) : option (st * list cmd) :=
  match e with
  | RespData d =>
      match check_body_size false (set_respbuf s (response_body_buf s ++ d)) with
      | Some (_, s1, c1) => Some (s1, c1)
      | None => None
      end
  | RespEom =>
      Some (send_response false (set_respbuf (set_resp_content s (Some (response_body_buf s))) []))
  | _ => None
  end.

Definition is_request_event (e : event) : bool :=
  match e with ReqHeaders _ _ | ReqData _ | ReqEom => true | _ => false end.

(* HttpStream._handle_event for HttpEvents; state_uninitialized and state_done are @expect(): any event raises *)
Definition handle_event (s : st) (e : event) : option (st * list cmd) :=
  if is_request_event e then
    match client_state s with
    | Uninit | Done => None
    | WaitHeaders => state_wait_for_request_headers s e
    | Consume => state_consume_request_body s e
    | Streaming => state_stream_request_body s e
    | Errored => Some (s, [])
    end
  else
    match server_state s with
    | Uninit | Done => None
    | WaitHeaders => state_wait_for_response_headers s e
    | Consume => state_consume_response_body s e
    | Streaming => state_stream_response_body s e
    | Errored => Some (s, [])
    end.

(* the stream after events.Start() *)
Definition init (q0 s0 : S) : st :=
  mkSt WaitHeaders Uninit [] [] FNone None SFalse SFalse q0 s0 None None false false.

(* feed a history; stops at the first exception. Returns the last state, all commands, and whether it crashed *)
Fixpoint run (s : st) (evs : list event) : st * list cmd * bool :=
  match evs with
  | [] => (s, [], false)
  | e :: r =>
      match handle_event s e with
      | None => (s, [], true)
      | Some (s1, c1) => let '(s2, c2, cr) := run s1 r in (s2, c1 ++ c2, cr)
      end
  end.

End Stream.

Arguments mkSt {S}.
Arguments client_state {S}. Arguments server_state {S}.
Arguments request_body_buf {S}. Arguments response_body_buf {S}.
Arguments req_framing {S}. Arguments resp_framing {S}.
Arguments req_stream {S}. Arguments resp_stream {S}.
Arguments fq_st {S}. Arguments fs_st {S}.
Arguments req_content {S}. Arguments resp_content {S}.
Arguments flow_error {S}. Arguments flow_live {S}.

(* ================= HTTP/1 glue: bytes on the two connections ================= *)

Definition ascii (s : string) : bytes := list_byte_of_string s.

Definition framing_header (f : framing) : bytes :=
  match f with
  | FLen n => ascii "Content-Length: " ++ dec_of_N (Z.to_N n) ++ CRLF
  | FChunked => ascii "Transfer-Encoding: chunked" ++ CRLF
  | _ => []
  end.
(* assemble_request_head of the forwarded request: origin-form, Expect removed *)
Definition request_head_out (f : framing) : bytes :=
  ascii "POST /p HTTP/1.1" ++ CRLF ++ ascii "Host: example.com" ++ CRLF ++ framing_header f ++ CRLF.
Definition response_head_out (f : framing) : bytes :=
  ascii "HTTP/1.1 200 OK" ++ CRLF ++ framing_header f ++ CRLF.
Definition continue_head : bytes := ascii "HTTP/1.1 100 Continue" ++ CRLF ++ CRLF.

Definition is_chunked (f : framing) : bool := match f with FChunked => true | _ => false end.
Definition is_until_close (f : framing) : bool := match f with FClose => true | _ => false end.

(* Http1Client.send(RequestData) / Http1Server.send(ResponseData), repaired:
   if event.data and chunked: raw = b"%x\r\n%s\r\n" else raw = event.data; if raw: SendData *)
Definition send_data (chunked : bool) (d : bytes) : list bytes :=
  let raw := if nonempty d && chunked then emit_chunk d else d in
  if nonempty raw then [raw] else [].
(* the code before fixes/C07-empty-chunk.diff *)
Definition send_data_unrepaired (chunked : bool) (d : bytes) : list bytes :=
  let raw := if chunked then emit_chunk d else d in
  if nonempty raw then [raw] else [].
Definition send_eom (chunked : bool) : list bytes := if chunked then [LAST_CHUNK] else [].

Inductive titem :=
| THook (h : hook)
| TOpen
| TSend (p : peer) (raw : bytes)
| TErrPage (status : Z)              (* make_error_response(status, ...) sent to the client *)
| TClose (p : peer)
| THalfClose (p : peer).         (* CloseTcpConnection(half_close=True) *)
Definition status_of (c : errcode) : Z := match c with ReqTooLarge => 413 | _ => 502 end.

(* body reader of Http1Server / Http1Client for segment-aligned input *)
Inductive reader := RdNone | RdLen (remaining : Z) | RdChunked | RdClose | RdDone.
Definition make_body_reader (f : framing) : reader :=
  match expected_size f with
  | None => RdChunked
  | Some n => if n =? -1 then RdClose else RdLen n
  end.

(* what Http1Server.response holds *)
Inductive srvresp := SrNone | SrContinue | SrFinal.

Section Wire.
Variable S : Type.
Variable fq fs : S -> bytes -> S * sres.
Variable cfg : config.

Record wst := mkW {
  hs : st S;
  dropped : bool;                 (* DropStream: HttpLayer forgot the stream *)
  rd_req : reader;                (* Http1Server.body_reader *)
  rd_resp : reader;               (* Http1Client.body_reader *)
  srv_response : srvresp;         (* Http1Server.response *)
  srv_req_done : bool; srv_resp_done : bool;
  cli_req_done : bool; cli_resp_done : bool;
  client_open : bool;             (* client connection not closed by us *)
  server_conn : option bool;      (* None: not opened; Some true: open; Some false: closed *)
  cli_response : option framing   (* Http1Client.response *)
}.

Definition upd (w : wst) (h : st S) : wst :=
  mkW h (dropped w) (rd_req w) (rd_resp w) (srv_response w) (srv_req_done w) (srv_resp_done w)
      (cli_req_done w) (cli_resp_done w) (client_open w) (server_conn w) (cli_response w).

Definition resp_fr (w : wst) : framing := match resp_framing (hs w) with Some f => f | None => FNone end.

(* Http1Connection.mark_done for Http1Server (client side of the proxy) *)
Definition srv_mark_done (w : wst) (request response : bool) : wst * list titem :=
  let rq := srv_req_done w || request in
  let rs := srv_resp_done w || response in
  if rq && rs then
    if is_until_close (resp_fr w) then
      (mkW (hs w) (dropped w) (rd_req w) (rd_resp w) (srv_response w) rq rs (cli_req_done w) (cli_resp_done w)
           false (server_conn w) (cli_response w), [TClose Client])
    else
      (mkW (hs w) (dropped w) RdNone (rd_resp w) SrNone false false (cli_req_done w) (cli_resp_done w)
           (client_open w) (server_conn w) (cli_response w), [])
  else
    (mkW (hs w) (dropped w) (rd_req w) (rd_resp w) (srv_response w) rq rs (cli_req_done w) (cli_resp_done w)
         (client_open w) (server_conn w) (cli_response w), []).

(* ... and for Http1Client *)
Definition cli_mark_done (w : wst) (request response : bool) : wst * list titem :=
  let rq := cli_req_done w || request in
  let rs := cli_resp_done w || response in
  if rq && rs then
    if is_until_close (resp_fr w) then
      (mkW (hs w) (dropped w) (rd_req w) (rd_resp w) (srv_response w) (srv_req_done w) (srv_resp_done w) rq rs
           (client_open w) (Some false) (cli_response w), [TClose Server])
    else
      (mkW (hs w) (dropped w) (rd_req w) RdNone (srv_response w) (srv_req_done w) (srv_resp_done w) false false
           (client_open w) (server_conn w) None, [])
  else
    (mkW (hs w) (dropped w) (rd_req w) (rd_resp w) (srv_response w) (srv_req_done w) (srv_resp_done w) rq rs
         (client_open w) (server_conn w) (cli_response w), []).

(* execute one HttpStream command: HttpLayer.event_to_child routing + Http1Server.send / Http1Client.send *)
Definition exec_cmd (w : wst) (c : cmd) : wst * list titem :=
  match c with
  | CHook h => (w, [THook h])
  | CGetConn =>
      (mkW (hs w) (dropped w) (rd_req w) (rd_resp w) (srv_response w) (srv_req_done w) (srv_resp_done w)
           (cli_req_done w) (cli_resp_done w) (client_open w) (if c_ok cfg then Some true else None) (cli_response w), [TOpen])
  | CDrop =>
      (mkW (hs w) true (rd_req w) (rd_resp w) (srv_response w) (srv_req_done w) (srv_resp_done w)
           (cli_req_done w) (cli_resp_done w) (client_open w) (server_conn w) (cli_response w), [])
  | CSend Server m =>
      match m with
      | MHeaders _ => (w, [TSend Server (request_head_out (req_framing (hs w)))])
      | MData d => (w, map (TSend Server) (send_data (is_chunked (req_framing (hs w))) d))
      | MEom =>
          (* elif expected_http_body_size(self.request, self.response) == -1: half-close *)
          let half := if is_chunked (req_framing (hs w)) then []
                      else match cli_response w with Some FClose => [THalfClose Server] | _ => [] end in
          let '(w1, t) := cli_mark_done w true false in
          (w1, map (TSend Server) (send_eom (is_chunked (req_framing (hs w)))) ++ half ++ t)
      | MErr _ =>
          (mkW (hs w) (dropped w) (rd_req w) (rd_resp w) (srv_response w) (srv_req_done w) (srv_resp_done w)
               (cli_req_done w) (cli_resp_done w) (client_open w) (Some false) (cli_response w), [TClose Server])
      | MContinue => (w, [])
      end
  | CSend Client m =>
      match m with
      | MContinue =>
          (mkW (hs w) (dropped w) (rd_req w) (rd_resp w) SrContinue (srv_req_done w) (srv_resp_done w)
               (cli_req_done w) (cli_resp_done w) (client_open w) (server_conn w) (cli_response w), [TSend Client continue_head])
      | MHeaders _ =>
          (mkW (hs w) (dropped w) (rd_req w) (rd_resp w) SrFinal (srv_req_done w) (srv_resp_done w)
               (cli_req_done w) (cli_resp_done w) (client_open w) (server_conn w) (cli_response w),
           [TSend Client (response_head_out (resp_fr w))])
      | MData d => (w, map (TSend Client) (send_data (is_chunked (resp_fr w)) d))
      | MEom =>
          let '(w1, t) := srv_mark_done w false true in
          (w1, map (TSend Client) (send_eom (is_chunked (resp_fr w))) ++ t)
      | MErr code =>
          if negb (client_open w) then (w, [])
          else
            (mkW (hs w) (dropped w) (rd_req w) (rd_resp w) (srv_response w) (srv_req_done w) (srv_resp_done w)
                 (cli_req_done w) (cli_resp_done w) false (server_conn w) (cli_response w),
             (match srv_response w with SrNone => [TErrPage (status_of code)] | _ => [] end) ++ [TClose Client])
      end
  end.

Fixpoint exec_cmds (w : wst) (cs : list cmd) : wst * list titem :=
  match cs with
  | [] => (w, [])
  | c :: r => let '(w1, t1) := exec_cmd w c in let '(w2, t2) := exec_cmds w1 r in (w2, t1 ++ t2)
  end.

(* A hook or GetHttpConnection pauses the stream (Layer.__process): the commands after the first blocking command
   are produced only once the connection handler that delivered the event has run to its end, and events
   delivered meanwhile wait in _paused_event_queue. *)
Definition is_blocking (c : cmd) : bool := match c with CHook _ | CGetConn => true | _ => false end.
Fixpoint split_blocking (cs : list cmd) : list cmd * option (list cmd) :=
  match cs with
  | [] => ([], None)
  | c :: r =>
      if is_blocking c then ([c], Some r)
      else let '(a, b) := split_blocking r in (c :: a, b)
  end.

(* what a connection handler (Http1Server / Http1Client) does with one segment *)
Inductive action :=
| ARecv (e : event)                          (* yield ReceiveHttp(e) *)
| AMarkSrv (request response : bool)         (* Http1Server.mark_done *)
| AMarkCli (request response : bool).        (* Http1Client.mark_done *)

(* the completion arrives: the stream finishes its commands, then replays the queued events *)
Fixpoint replay (w : wst) (queue : list event) : option (wst * list titem) :=
  match queue with
  | [] => Some (w, [])
  | e :: r =>
      match handle_event S fq fs cfg (hs w) e with
      | None => None
      | Some (h1, cs) =>
          let '(w1, t1) := exec_cmds (upd w h1) cs in
          match replay w1 r with
          | Some (w2, t2) => Some (w2, t1 ++ t2)
          | None => None
          end
      end
  end.

Fixpoint run_actions (w : wst) (acts : list action) (pending : option (list cmd)) (queue : list event)
  : option (wst * list titem) :=
  match acts with
  | [] =>
      let '(w1, t1) := exec_cmds w (match pending with Some cs => cs | None => [] end) in
      match replay w1 queue with
      | Some (w2, t2) => Some (w2, t1 ++ t2)
      | None => None
      end
  | ARecv e :: r =>
      match pending with
      | Some _ => run_actions w r pending (queue ++ [e])
      | None =>
          if dropped w then run_actions w r None queue      (* HttpLayer: KeyError -> pass *)
          else
            match handle_event S fq fs cfg (hs w) e with
            | None => None
            | Some (h1, cs) =>
                let '(pre, post) := split_blocking cs in
                let '(w1, t1) := exec_cmds (upd w h1) pre in
                match run_actions w1 r post queue with
                | Some (w2, t2) => Some (w2, t1 ++ t2)
                | None => None
                end
            end
      end
  | AMarkSrv a b :: r =>
      let '(w1, t1) := srv_mark_done w a b in
      match run_actions w1 r pending queue with
      | Some (w2, t2) => Some (w2, t1 ++ t2)
      | None => None
      end
  | AMarkCli a b :: r =>
      let '(w1, t1) := cli_mark_done w a b in
      match run_actions w1 r pending queue with
      | Some (w2, t2) => Some (w2, t1 ++ t2)
      | None => None
      end
  end.

(* one segment read from a connection *)
Inductive step :=
| WReqHead (fr : framing) (expect100 : bool)
| WReqChunk (d : bytes)          (* a body segment: raw bytes (Content-Length) or exactly one encoded chunk *)
| WReqLast                       (* the last-chunk of a chunked request *)
| WRespHead (fr : framing)
| WRespChunk (d : bytes)
| WRespLast
| WRespClose.                    (* the server closes its connection *)

Definition set_rd_req (w : wst) (r : reader) : wst :=
  mkW (hs w) (dropped w) r (rd_resp w) (srv_response w) (srv_req_done w) (srv_resp_done w)
      (cli_req_done w) (cli_resp_done w) (client_open w) (server_conn w) (cli_response w).
Definition set_rd_resp (w : wst) (r : reader) : wst :=
  mkW (hs w) (dropped w) (rd_req w) r (srv_response w) (srv_req_done w) (srv_resp_done w)
      (cli_req_done w) (cli_resp_done w) (client_open w) (server_conn w) (cli_response w).
Definition set_cli_response (w : wst) (f : option framing) : wst :=
  mkW (hs w) (dropped w) (rd_req w) (rd_resp w) (srv_response w) (srv_req_done w) (srv_resp_done w)
      (cli_req_done w) (cli_resp_done w) (client_open w) (server_conn w) f.

(* ReceiveHttp(EndOfMessage) followed by mark_done *)
Definition req_eom_actions : list action := [ARecv ReqEom; AMarkSrv true false].
Definition resp_eom_actions : list action := [ARecv RespEom; AMarkCli false true].

(* ContentLengthReader / ChunkedReader / Http10Reader on one segment: new reader and the handler's actions *)
Definition read_data (request : bool) (rd : reader) (d : bytes) : reader * list action :=
  let data := fun x => if request then ARecv (ReqData x) else ARecv (RespData x) in
  let eom := if request then req_eom_actions else resp_eom_actions in
  match rd with
  | RdLen n =>
      let take := firstn (Z.to_nat n) d in
      let rest := n - blen take in
      ((if rest =? 0 then RdDone else RdLen rest),
       (if nonempty take then [data take] else []) ++ (if rest =? 0 then eom else []))
  | RdChunked => (rd, if nonempty d then [data d] else [])
  | RdClose => (rd, if nonempty d && negb request then [data d] else [])
  | _ => (rd, [])
  end.

Definition server_readable (w : wst) : bool :=
  match server_conn w with Some true => true | _ => false end.

(* a step is skipped (by the harness, too) when its connection is not open *)
Definition wstep (w : wst) (x : step) : option (wst * list titem) :=
  match x with
  | WReqHead fr e100 =>
      if negb (client_open w) then Some (w, [])
      else match rd_req w with
           | RdNone =>
               (* read_body on the empty buffer: ContentLengthReader(0) reports EndOfMessage at once *)
               let '(rd, acts) := read_data true (make_body_reader fr) [] in
               run_actions (set_rd_req w rd) (ARecv (ReqHeaders fr e100) :: acts) None []
           | _ => Some (w, [])
           end
  | WReqChunk d =>
      if negb (client_open w) then Some (w, [])
      else let '(rd, acts) := read_data true (rd_req w) d in run_actions (set_rd_req w rd) acts None []
  | WReqLast =>
      if negb (client_open w) then Some (w, [])
      else match rd_req w with
           | RdChunked => run_actions (set_rd_req w RdDone) req_eom_actions None []
           | _ => Some (w, [])
           end
  | WRespHead fr =>
      if negb (server_readable w) then Some (w, [])
      else match rd_resp w with
           | RdNone =>
               let '(rd, acts) := read_data false (make_body_reader fr) [] in
               run_actions (set_cli_response (set_rd_resp w rd) (Some fr)) (ARecv (RespHeaders fr) :: acts) None []
           | _ => Some (w, [])
           end
  | WRespChunk d =>
      if negb (server_readable w) then Some (w, [])
      else let '(rd, acts) := read_data false (rd_resp w) d in run_actions (set_rd_resp w rd) acts None []
  | WRespLast =>
      if negb (server_readable w) then Some (w, [])
      else match rd_resp w with
           | RdChunked => run_actions (set_rd_resp w RdDone) resp_eom_actions None []
           | _ => Some (w, [])
           end
  | WRespClose =>
      if negb (server_readable w) then Some (w, [])
      else match rd_resp w with
           | RdClose => run_actions (set_rd_resp w RdDone) resp_eom_actions None []
           | _ => Some (w, [])
           end
  end.

Definition winit (q0 s0 : S) : wst :=
  mkW (init S q0 s0) false RdNone RdNone SrNone false false false false true None None.

(* run the steps; after each one record the two buffer lengths. Result: trace, buffer lengths, final state, crashed *)
Fixpoint wrun (w : wst) (xs : list step) : list titem * list (Z * Z) * wst * bool :=
  match xs with
  | [] => ([], [], w, false)
  | x :: r =>
      match wstep w x with
      | None => ([], [], w, true)
      | Some (w1, t1) =>
          let '(t2, b2, w2, cr) := wrun w1 r in
          (t1 ++ t2,
           (blen (request_body_buf (hs w1)), blen (response_body_buf (hs w1))) :: b2, w2, cr)
      end
  end.

End Wire.
