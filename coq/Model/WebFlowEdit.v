(* Model/WebFlowEdit.v -- executable model of mitmweb flow editing (C47).
   One function per Python function, same names, same branch order:
     mitmproxy/tools/web/app.py   FlowHandler.put (the fold over the JSON document, backup, except/revert),
                                  RequestHandler.json (None body = wrong Content-Type or malformed JSON -> APIError)
     mitmproxy/flow.py            Flow.backup, Flow.revert (get_state/set_state as whole-state copy)
     mitmproxy/http.py            Request.{method,scheme,host,port,path}.setter, _update_host_and_authority,
                                  authority.setter (ASCII values only), Message.{http_version,text}.setter,
                                  set_text, set_content, Response.{reason,status_code}.setter, Headers.add/clear
     mitmproxy/net/http/url.py    hostport, default_port
     CPython                      str(v), int(v) on JSON values, str.encode(utf-8, surrogateescape), latin-1 strict
   Python exceptions are explicit results: [Raise e s] carries the exception class and the state at the
   moment of the raise (setters mutate in place, so a partial update is visible). [Unmodelled] marks inputs
   the model does not describe (str() of a container, int() of a non-ASCII string, a null inside a header pair,
   text assignment while a content-type/content-encoding header is present, IDNA for a non-ASCII authority).
   Two code variants are selected by booleans read from the live code by the harness:
     vx = the except clause catches every exception (false: only APIError, the code as found);
     vb = the handler restores a snapshot taken before backup() (false: calls flow.revert(), as found).
   No proofs in this file. *)
From Coq Require Import Strings.String.
From Coq Require Import List Bool NArith ZArith.
From MV Require Import Base.Bytes.
From MV Require Model.Headers.
Import ListNotations.

(* ---------------------------------------------------------------- values *)
Definition ustr := list N.                      (* a Python str: its code points *)
Definition lit (s : string) : ustr := map bN (list_byte_of_string s).
Definition blit (s : string) : bytes := list_byte_of_string s.
Definition ustr_eqb (a b : ustr) : bool := list_eqb N.eqb a b.

Inductive jv :=
| JNull
| JBool (b : bool)
| JInt (z : Z)
| JStr (s : ustr)
| JList (l : list jv)
| JDict (d : list (ustr * jv)).

Inductive exn := EApi | EValue | EType | EUnicode | EAttr.
Definition is_api (e : exn) : bool := match e with EApi => true | _ => false end.

Inductive res (A : Type) :=
| Ok (a : A)
| Raise (e : exn) (a : A)
| Unmodelled.
Arguments Ok {A} a.
Arguments Raise {A} e a.
Arguments Unmodelled {A}.

Definition res_map {A B} (f : A -> B) (r : res A) : res B :=
  match r with Ok a => Ok (f a) | Raise e a => Raise e (f a) | Unmodelled => Unmodelled end.

Inductive conv (A : Type) :=
| COk (a : A)
| CErr (e : exn)
| CUn.
Arguments COk {A} a.
Arguments CErr {A} e.
Arguments CUn {A}.

(* ---------------------------------------------------------------- CPython conversions *)
Definition utf8_cp (c : N) : bytes :=
  (if c <? 128 then [Nb c]
   else if c <? 2048 then [Nb (192 + c / 64); Nb (128 + c mod 64)]
   else if c <? 65536 then [Nb (224 + c / 4096); Nb (128 + (c / 64) mod 64); Nb (128 + c mod 64)]
   else [Nb (240 + c / 262144); Nb (128 + (c / 4096) mod 64); Nb (128 + (c / 64) mod 64); Nb (128 + c mod 64)])%N.

(* s.encode(utf-8, surrogateescape): None = UnicodeEncodeError *)
Fixpoint encode_utf8_se (s : ustr) : option bytes :=
  match s with
  | [] => Some []
  | c :: r =>
      match encode_utf8_se r with
      | None => None
      | Some rest =>
          if ((55296 <=? c) && (c <=? 57343))%N then
            if ((56448 <=? c) && (c <=? 56575))%N then Some (Nb (c - 56320)%N :: rest) else None
          else Some (utf8_cp c ++ rest)
      end
  end.

(* s.encode(latin-1): None = UnicodeEncodeError *)
Definition encode_latin1 (s : ustr) : option bytes :=
  if forallb (fun c => (c <? 256)%N) s then Some (map Nb s) else None.

Definition is_ascii (s : ustr) : bool := forallb (fun c => (c <? 128)%N) s.

(* strutils.always_bytes(str, utf-8, surrogateescape) *)
Definition always_bytes_se (s : ustr) : conv bytes :=
  match encode_utf8_se s with Some b => COk b | None => CErr EUnicode end.

Definition dec_of_Z (z : Z) : bytes :=
  match z with
  | Z0 => [x30]
  | Zpos p => dec_of_N (Npos p)
  | Zneg p => x2d :: dec_of_N (Npos p)
  end.

(* str(v) for a decoded JSON value; containers (repr) are not modelled *)
Definition py_str (v : jv) : option ustr :=
  match v with
  | JNull => Some (lit "None")
  | JBool true => Some (lit "True")
  | JBool false => Some (lit "False")
  | JInt z => Some (map bN (dec_of_Z z))
  | JStr s => Some s
  | JList _ | JDict _ => None
  end.

Definition is_space (c : N) : bool := (((9 <=? c) && (c <=? 13)) || (c =? 32))%N.
Definition is_dig (c : N) : bool := ((48 <=? c) && (c <=? 57))%N.

Fixpoint lstrip (s : ustr) : ustr :=
  match s with
  | c :: r => if is_space c then lstrip r else s
  | [] => []
  end.
Definition strip (s : ustr) : ustr := rev (lstrip (rev (lstrip s))).

(* digits with single underscores between digits *)
Fixpoint digits_val (s : ustr) (acc : Z) (prev_digit : bool) : option Z :=
  match s with
  | [] => if prev_digit then Some acc else None
  | c :: r =>
      if is_dig c then digits_val r (acc * 10 + Z.of_N (c - 48)%N)%Z true
      else if (c =? 95)%N && prev_digit then digits_val r acc false
      else None
  end.

(* int(str) in base 10, ASCII strings only *)
Definition int_of_ascii (s : ustr) : option Z :=
  match strip s with
  | c :: r =>
      if (c =? 43)%N then digits_val r 0%Z false
      else if (c =? 45)%N then option_map Z.opp (digits_val r 0%Z false)
      else digits_val (c :: r) 0%Z false
  | [] => None
  end.

(* int(v) *)
Definition py_int (v : jv) : conv Z :=
  match v with
  | JNull => CErr EType
  | JBool b => COk (if b then 1%Z else 0%Z)
  | JInt z => COk z
  | JStr s =>
      if is_ascii s then match int_of_ascii s with Some z => COk z | None => CErr EValue end
      else CUn
  | JList _ | JDict _ => CErr EType
  end.

(* ---------------------------------------------------------------- flow state *)
Definition hdrs := list Headers.field.

Record msgdata := mkMsg {
  m_version : bytes;
  m_headers : hdrs;
  m_trailers : option hdrs;
  m_content : option bytes }.

Record request := mkReq {
  q_msg : msgdata;
  q_method : bytes;
  q_scheme : bytes;
  q_host : ustr;
  q_port : Z;
  q_path : bytes;
  q_authority : bytes }.

Record response := mkResp {
  p_msg : msgdata;
  p_code : Z;
  p_reason : bytes }.

Record core := mkCore {
  c_request : request;
  c_response : option response;
  c_marked : jv;
  c_comment : jv }.

(* f_backup = Flow._backup (the state saved by backup(); its own nested backup is always None) *)
Record flow := mkFlow {
  f_cur : core;
  f_backup : option core }.

Definition with_headers (m : msgdata) (h : hdrs) : msgdata :=
  mkMsg (m_version m) h (m_trailers m) (m_content m).
Definition with_trailers (m : msgdata) (t : option hdrs) : msgdata :=
  mkMsg (m_version m) (m_headers m) t (m_content m).
Definition with_content (m : msgdata) (c : option bytes) : msgdata :=
  mkMsg (m_version m) (m_headers m) (m_trailers m) c.
Definition with_version (m : msgdata) (v : bytes) : msgdata :=
  mkMsg v (m_headers m) (m_trailers m) (m_content m).

Definition q_with_msg (r : request) (m : msgdata) : request :=
  mkReq m (q_method r) (q_scheme r) (q_host r) (q_port r) (q_path r) (q_authority r).
Definition p_with_msg (p : response) (m : msgdata) : response :=
  mkResp m (p_code p) (p_reason p).

(* ---------------------------------------------------------------- Headers from JSON *)
(* the items produced by iterating / star-unpacking a JSON value; None = TypeError (not iterable) *)
Definition py_iter (v : jv) : option (list jv) :=
  match v with
  | JList l => Some l
  | JStr s => Some (map (fun c => JStr [c]) s)
  | JDict d => Some (map (fun kv => JStr (fst kv)) d)
  | JNull | JBool _ | JInt _ => None
  end.

(* Headers.insert: _always_bytes(x) of one argument *)
Definition hdr_bytes (a : jv) : conv bytes :=
  match a with
  | JStr s => always_bytes_se s
  | JNull => CUn
  | JBool _ | JInt _ | JList _ | JDict _ => CErr EType
  end.

(* headers.add( *header ) *)
Definition add_header (header : jv) (fields : hdrs) : res hdrs :=
  match py_iter header with
  | Some [a; b] =>
      match hdr_bytes a with
      | COk key =>
          match hdr_bytes b with
          | COk value => Ok (Headers.add fields key value)
          | CErr e => Raise e fields
          | CUn => Unmodelled
          end
      | CErr e => Raise e fields
      | CUn => Unmodelled
      end
  | Some _ => Raise EType fields
  | None => Raise EType fields
  end.

(* for header in l: headers.add( *header ) *)
Fixpoint add_headers (l : list jv) (fields : hdrs) : res hdrs :=
  match l with
  | [] => Ok fields
  | header :: r =>
      match add_header header fields with
      | Ok fields' => add_headers r fields'
      | other => other
      end
  end.

(* headers.clear(); for header in v: ... *)
Definition fill_headers (v : jv) : res hdrs :=
  match py_iter v with
  | Some l => add_headers l []
  | None => Raise EType []
  end.

Definition msg_set_headers (v : jv) (m : msgdata) : res msgdata :=
  res_map (with_headers m) (fill_headers v).

(* trailers: clear() if present else a fresh Headers(); then the same loop *)
Definition msg_set_trailers (v : jv) (m : msgdata) : res msgdata :=
  res_map (fun t => with_trailers m (Some t)) (fill_headers v).

(* Message.set_content for bytes, no content-encoding header *)
Definition set_content (value : bytes) (m : msgdata) : msgdata :=
  let m1 := with_content m (Some value) in
  if Headers.contains (m_headers m1) (blit "transfer-encoding") then m1
  else with_headers m1 (Headers.setitem (m_headers m1) (blit "content-length")
                                        (dec_of_N (N.of_nat (List.length value)))).

(* Message.text = v  (set_text) *)
Definition msg_set_text (v : jv) (m : msgdata) : res msgdata :=
  match v with
  | JNull => Ok (with_content m None)
  | JStr text =>
      if Headers.contains (m_headers m) (blit "content-type")
         || Headers.contains (m_headers m) (blit "content-encoding") then Unmodelled
      else
        match encode_latin1 text with
        | Some b => Ok (set_content b m)
        | None =>
            let m1 := with_headers m (Headers.setitem (m_headers m) (blit "content-type")
                                                      (blit "text/plain; charset=utf-8")) in
            match encode_utf8_se text with
            | Some b => Ok (set_content b m1)
            | None => Raise EUnicode m1
            end
        end
  | JBool _ | JInt _ | JList _ | JDict _ => Raise EType m
  end.

(* ---------------------------------------------------------------- Request setters *)
Definition default_port (scheme : bytes) : option Z :=
  if bytes_eqb scheme (blit "http") then Some 80%Z
  else if bytes_eqb scheme (blit "https") then Some 443%Z
  else None.

Definition hostport (scheme : bytes) (host : ustr) (port : Z) : ustr :=
  let full := host ++ [58%N] ++ map bN (dec_of_Z port) in
  match default_port scheme with
  | Some p => if (p =? port)%Z then host else full
  | None => full
  end.

Definition _update_host_and_authority (r : request) : res request :=
  let val := hostport (q_scheme r) (q_host r) (q_port r) in
  let step1 :=
    if Headers.contains (m_headers (q_msg r)) (blit "Host") then
      match always_bytes_se val with
      | COk b => Ok (q_with_msg r (with_headers (q_msg r) (Headers.setitem (m_headers (q_msg r)) (blit "Host") b)))
      | CErr e => Raise e r
      | CUn => Unmodelled
      end
    else Ok r in
  match step1 with
  | Ok r1 =>
      match q_authority r1 with
      | [] => Ok r1
      | _ :: _ =>
          if is_ascii val then
            Ok (mkReq (q_msg r1) (q_method r1) (q_scheme r1) (q_host r1) (q_port r1) (q_path r1) (map Nb val))
          else Unmodelled
      end
  | other => other
  end.

Definition set_host (s : ustr) (r : request) : res request :=
  _update_host_and_authority
    (mkReq (q_msg r) (q_method r) (q_scheme r) s (q_port r) (q_path r) (q_authority r)).

Definition set_port (z : Z) (r : request) : res request :=
  _update_host_and_authority
    (mkReq (q_msg r) (q_method r) (q_scheme r) (q_host r) z (q_path r) (q_authority r)).

Definition k_method := lit "method".
Definition k_scheme := lit "scheme".
Definition k_host := lit "host".
Definition k_path := lit "path".
Definition k_http_version := lit "http_version".
Definition k_port := lit "port".
Definition k_headers := lit "headers".
Definition k_trailers := lit "trailers".
Definition k_content := lit "content".
Definition k_reason := lit "reason".
Definition k_code := lit "code".
Definition k_request := lit "request".
Definition k_response := lit "response".
Definition k_marked := lit "marked".
Definition k_comment := lit "comment".

(* setattr(request, k, s) for k in [method, scheme, host, path, http_version] *)
Definition setattr_request (k : ustr) (s : ustr) (r : request) : res request :=
  if ustr_eqb k k_host then set_host s r
  else
    match always_bytes_se s with
    | COk b =>
        if ustr_eqb k k_method then
          Ok (mkReq (q_msg r) b (q_scheme r) (q_host r) (q_port r) (q_path r) (q_authority r))
        else if ustr_eqb k k_scheme then
          Ok (mkReq (q_msg r) (q_method r) b (q_host r) (q_port r) (q_path r) (q_authority r))
        else if ustr_eqb k k_path then
          Ok (mkReq (q_msg r) (q_method r) (q_scheme r) (q_host r) (q_port r) b (q_authority r))
        else Ok (q_with_msg r (with_version (q_msg r) b))
    | CErr e => Raise e r
    | CUn => Unmodelled
    end.

Definition is_request_str_key (k : ustr) : bool :=
  ustr_eqb k k_method || ustr_eqb k k_scheme || ustr_eqb k k_host || ustr_eqb k k_path
  || ustr_eqb k k_http_version.

(* the body of  for k, v in b.items()  under  a == request *)
Definition put_request_field (k : ustr) (v : jv) (r : request) : res request :=
  if is_request_str_key k then
    match py_str v with
    | Some s => setattr_request k s r
    | None => Unmodelled
    end
  else if ustr_eqb k k_port then
    match py_int v with
    | COk z => set_port z r
    | CErr e => Raise e r
    | CUn => Unmodelled
    end
  else if ustr_eqb k k_headers then res_map (q_with_msg r) (msg_set_headers v (q_msg r))
  else if ustr_eqb k k_trailers then res_map (q_with_msg r) (msg_set_trailers v (q_msg r))
  else if ustr_eqb k k_content then res_map (q_with_msg r) (msg_set_text v (q_msg r))
  else Raise EApi r.

(* ---------------------------------------------------------------- Response setters *)
Definition put_response_field (k : ustr) (v : jv) (p : response) : res response :=
  if ustr_eqb k k_reason then
    match py_str v with
    | Some s =>
        match encode_latin1 s with
        | Some b => Ok (mkResp (p_msg p) (p_code p) b)
        | None => Raise EUnicode p
        end
    | None => Unmodelled
    end
  else if ustr_eqb k k_http_version then
    match py_str v with
    | Some s =>
        match always_bytes_se s with
        | COk b => Ok (p_with_msg p (with_version (p_msg p) b))
        | CErr e => Raise e p
        | CUn => Unmodelled
        end
    | None => Unmodelled
    end
  else if ustr_eqb k k_code then
    match py_int v with
    | COk z => Ok (mkResp (p_msg p) z (p_reason p))
    | CErr e => Raise e p
    | CUn => Unmodelled
    end
  else if ustr_eqb k k_headers then res_map (p_with_msg p) (msg_set_headers v (p_msg p))
  else if ustr_eqb k k_trailers then res_map (p_with_msg p) (msg_set_trailers v (p_msg p))
  else if ustr_eqb k k_content then res_map (p_with_msg p) (msg_set_text v (p_msg p))
  else Raise EApi p.

(* the same loop body while flow.response is None: hasattr(flow, response) is still true, every
   assignment target is an attribute of None *)
Definition put_response_none_field (k : ustr) (v : jv) (u : unit) : res unit :=
  if ustr_eqb k k_reason then Raise EAttr u
  else if ustr_eqb k k_http_version then Raise EAttr u
  else if ustr_eqb k k_code then
    match py_int v with
    | COk _ => Raise EAttr u
    | CErr e => Raise e u
    | CUn => Unmodelled
    end
  else if ustr_eqb k k_headers then Raise EAttr u
  else if ustr_eqb k k_trailers then Raise EAttr u
  else if ustr_eqb k k_content then Raise EAttr u
  else Raise EApi u.

(* ---------------------------------------------------------------- FlowHandler.put *)
(* for k, v in items: step; the first raise ends the loop *)
Fixpoint fold_fields {S : Type} (step : ustr -> jv -> S -> res S) (items : list (ustr * jv)) (s : S) : res S :=
  match items with
  | [] => Ok s
  | (k, v) :: rest =>
      match step k v s with
      | Ok s' => fold_fields step rest s'
      | other => other
      end
  end.

Definition c_with_request (c : core) (r : request) : core :=
  mkCore r (c_response c) (c_marked c) (c_comment c).
Definition c_with_response (c : core) (p : response) : core :=
  mkCore (c_request c) (Some p) (c_marked c) (c_comment c).

(* the body of  for a, b in self.json.items() *)
Definition put_top (a : ustr) (b : jv) (c : core) : res core :=
  if ustr_eqb a k_request then
    match b with
    | JDict items => res_map (c_with_request c) (fold_fields put_request_field items (c_request c))
    | _ => Raise EAttr c
    end
  else if ustr_eqb a k_response then
    match b with
    | JDict items =>
        match c_response c with
        | Some p => res_map (c_with_response c) (fold_fields put_response_field items p)
        | None => res_map (fun _ => c) (fold_fields put_response_none_field items tt)
        end
    | _ => Raise EAttr c
    end
  else if ustr_eqb a k_marked then Ok (mkCore (c_request c) (c_response c) b (c_comment c))
  else if ustr_eqb a k_comment then Ok (mkCore (c_request c) (c_response c) (c_marked c) b)
  else Raise EApi c.

(* body = None: RequestHandler.json raised APIError (Content-Type or malformed JSON) *)
Definition put_body (body : option jv) (c : core) : res core :=
  match body with
  | None => Raise EApi c
  | Some (JDict items) => fold_fields put_top items c
  | Some _ => Raise EAttr c
  end.

(* Flow.backup: if not self._backup: self._backup = self.get_state() *)
Definition backup (f : flow) : flow :=
  match f_backup f with
  | Some _ => f
  | None => mkFlow (f_cur f) (Some (f_cur f))
  end.

(* Flow.revert: if self._backup: self.set_state(self._backup); self._backup = None *)
Definition revert (f : flow) : flow :=
  match f_backup f with
  | Some b => mkFlow b None
  | None => f
  end.

Inductive outcome := Done | Failed (e : exn) | OutOfModel.

Definition put (vx vb : bool) (body : option jv) (f : flow) : flow * outcome :=
  let previous := f in
  let f1 := backup f in
  match put_body body (f_cur f1) with
  | Ok c' => (mkFlow c' (f_backup f1), Done)
  | Raise e c' =>
      let f2 := mkFlow c' (f_backup f1) in
      if vx || is_api e then ((if vb then previous else revert f2), Failed e)
      else (f2, Failed e)
  | Unmodelled => (f, OutOfModel)
  end.
