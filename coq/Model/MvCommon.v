(* Model/MvCommon.v -- byte-string helpers shared by the C34 view models (executable, no proofs).
   Python str values are represented by their UTF-8/surrogateescape encoding (the form in which
   mitmproxy stores paths, header values and bodies), so every model here works on bytes. *)
From Coq Require Import String.
From Coq Require Import List Bool NArith.
From MV Require Import Base.Bytes.
Import ListNotations.

Definition B (s : String.string) : bytes := String.list_byte_of_string s.
Arguments B _%string_scope.

Definition CR : byte := x0d.
Definition LF : byte := x0a.
Definition DQ : byte := x22.
Definition BSL : byte := x5c.
Definition CRLF : bytes := [x0d; x0a].

Definition memb (b : byte) (l : bytes) : bool := existsb (byte_eqb b) l.
Definition nonempty (s : bytes) : bool := match s with [] => false | _ => true end.

(* sep.join(l) *)
Fixpoint join (sep : bytes) (l : list bytes) : bytes :=
  match l with
  | [] => []
  | x :: l' => match l' with [] => x | _ => x ++ sep ++ join sep l' end
  end.

(* first occurrence of byte c: Some (before, after) *)
Fixpoint break_at (c : byte) (s : bytes) : option (bytes * bytes) :=
  match s with
  | [] => None
  | x :: s' => if byte_eqb x c then Some ([], s')
               else match break_at c s' with
                    | Some (a, b) => Some (x :: a, b)
                    | None => None
                    end
  end.

(* s.split(c) for a one-byte separator: never empty, the empty string gives one empty piece *)
Fixpoint split_char (c : byte) (s : bytes) : list bytes :=
  match s with
  | [] => [[]]
  | x :: s' => if byte_eqb x c then [] :: split_char c s'
               else match split_char c s' with
                    | h :: t => (x :: h) :: t
                    | [] => [[x]]
                    end
  end.

(* longest prefix of bytes satisfying p, and the rest *)
Fixpoint span (p : byte -> bool) (s : bytes) : bytes * bytes :=
  match s with
  | [] => ([], [])
  | x :: s' => if p x then let (a, b) := span p s' in (x :: a, b) else ([], s)
  end.

(* sub in s (substring test) *)
Fixpoint contains (sub s : bytes) : bool :=
  match s with
  | [] => match sub with [] => true | _ => false end
  | _ :: s' => starts_with sub s || contains sub s'
  end.

Definition cons_head (x : byte) (l : list bytes) : list bytes :=
  match l with h :: t => (x :: h) :: t | [] => [[x]] end.

(* s.split(sep) for a non-empty multi-byte separator (non-overlapping, left to right).
   skip = bytes of a matched separator still to be consumed. *)
Fixpoint split_go (sep s : bytes) (skip : nat) : list bytes :=
  match s with
  | [] => [[]]
  | c :: s' =>
      match skip with
      | S k => split_go sep s' k
      | O => if starts_with sep s then [] :: split_go sep s' (length sep - 1)
             else cons_head c (split_go sep s' 0)
      end
  end.
Definition split_sub (sep s : bytes) : list bytes := split_go sep s 0.

(* bytes.splitlines(): breaks at LF, CR, CRLF; no trailing empty line *)
Fixpoint splitlines (s : bytes) : list bytes :=
  match s with
  | [] => []
  | c :: s' =>
      if byte_eqb c LF then [] :: splitlines s'
      else if byte_eqb c CR then
        match s' with
        | c2 :: s'' => if byte_eqb c2 LF then [] :: splitlines s'' else [] :: splitlines s'
        | [] => [[]]
        end
      else match splitlines s' with
           | h :: t => (c :: h) :: t
           | [] => [[c]]
           end
  end.

Definition pairs := list (bytes * bytes).
Definition pair_bb_eqb : bytes * bytes -> bytes * bytes -> bool := pair_eqb bytes_eqb bytes_eqb.
Definition pairs_eqb : pairs -> pairs -> bool := list_eqb pair_bb_eqb.

(* ---- header list with the MultiDict operations used by the views (Headers._kconv = lower) ---- *)
Definition fields := list (bytes * bytes).

Definition get_all (name : bytes) (h : fields) : list bytes :=
  map snd (filter (fun f => bytes_eqb (lower (fst f)) (lower name)) h).

Fixpoint set_all_go (kc : bytes) (h : fields) (values : list bytes) : fields * list bytes :=
  match h with
  | [] => ([], values)
  | f :: h' =>
      if bytes_eqb (lower (fst f)) kc then
        match values with
        | v :: vs => let (r, rest) := set_all_go kc h' vs in ((fst f, v) :: r, rest)
        | [] => set_all_go kc h' []
        end
      else let (r, rest) := set_all_go kc h' values in (f :: r, rest)
  end.

Definition set_all (name : bytes) (values : list bytes) (h : fields) : fields :=
  let (r, rest) := set_all_go (lower name) h values in
  r ++ map (fun v => (name, v)) rest.
