(* Model/Encoding.v -- executable model of mitmproxy/net/encoding.py (encode / decode with the
   shared one-entry cache _cache) and of Message.set_content / get_content / decode / encode in
   mitmproxy/http.py.  No proofs here.

   Libraries are abstract: a record [codecs] holds the primitive library calls exactly as the
   anchored code makes them (zlib, gzip, brotli, zstd, and the codecs.encode / codecs.decode
   fall-through for names that are not in custom_encode / custom_decode).  mitmproxy's own
   wrappers (empty-input shortcut, deflate raw fallback, exception mapping), the name dispatch,
   the cache and the message logic are modelled literally.

   Inputs are byte strings (Message.set_content rejects anything else with TypeError before it
   reaches encoding.encode); names and error modes are ASCII byte strings. *)
From Coq Require Import List Bool NArith.
From Coq Require String.
From MV Require Import Base.Bytes.
Import ListNotations.

(* Result of a primitive / of a codecs.* call on a bytes input:
   bytes, a str (only the kind is observable), any Exception other than TypeError, TypeError. *)
Inductive pres := PBytes (b : bytes) | PStr | PExc | PTypeErr.

Record codecs := {
  gzip_compress : bytes -> bytes;              (* gzip.GzipFile(mtime=0, compresslevel=1) *)
  zlib_auto : bytes -> option bytes;           (* zlib.decompressobj(47): decompress + flush; None = zlib.error *)
  zlib_compress : bytes -> bytes;              (* zlib.compress(level=1) *)
  zlib_decompress : bytes -> option bytes;     (* zlib.decompress(content) *)
  zlib_decompress_raw : bytes -> option bytes; (* zlib.decompress(content, -15) *)
  brotli_compress : bytes -> bytes;            (* brotli.compress(quality=0) *)
  brotli_decompress : bytes -> option bytes;
  zstd_compress : bytes -> bytes;              (* zstd.compress(level=1) *)
  zstd_decompress : bytes -> option bytes;
  py_encode : bytes -> bytes -> bytes -> pres; (* codecs.encode(data, name, errors): name errors data *)
  py_decode : bytes -> bytes -> bytes -> pres  (* codecs.decode(data, name, errors) *)
}.

Section Names.
Import String.
Local Open Scope string_scope.
Definition s_none : bytes := Eval compute in String.list_byte_of_string "none".
Definition s_identity : bytes := Eval compute in String.list_byte_of_string "identity".
Definition s_gzip : bytes := Eval compute in String.list_byte_of_string "gzip".
Definition s_deflate : bytes := Eval compute in String.list_byte_of_string "deflate".
Definition s_deflateraw : bytes := Eval compute in String.list_byte_of_string "deflateraw".
Definition s_br : bytes := Eval compute in String.list_byte_of_string "br".
Definition s_zstd : bytes := Eval compute in String.list_byte_of_string "zstd".
Definition s_strict : bytes := Eval compute in String.list_byte_of_string "strict".
End Names.

Definition of_opt (o : option bytes) : pres :=
  match o with Some d => PBytes d | None => PExc end.

Section WithCodecs.
Variable C : codecs.

(* ---- the wrappers of encoding.py ---- *)
Definition identity (content : bytes) : pres := PBytes content.

Definition decode_gzip (content : bytes) : pres :=
  match content with
  | [] => PBytes []
  | _ => of_opt (zlib_auto C content)          (* zlib.error -> ValueError *)
  end.
Definition encode_gzip (content : bytes) : pres := PBytes (gzip_compress C content).

Definition decode_brotli (content : bytes) : pres :=
  match content with
  | [] => PBytes []
  | _ => of_opt (brotli_decompress C content)
  end.
Definition encode_brotli (content : bytes) : pres := PBytes (brotli_compress C content).

Definition decode_zstd (content : bytes) : pres :=
  match content with
  | [] => PBytes []
  | _ => of_opt (zstd_decompress C content)
  end.
Definition encode_zstd (content : bytes) : pres := PBytes (zstd_compress C content).

Definition decode_deflate (content : bytes) : pres :=
  match content with
  | [] => PBytes []
  | _ => match zlib_decompress C content with
         | Some d => PBytes d
         | None => of_opt (zlib_decompress_raw C content)
         end
  end.
Definition encode_deflate (content : bytes) : pres := PBytes (zlib_compress C content).

(* dict lookup; None = KeyError *)
Definition custom_decode (name : bytes) : option (bytes -> pres) :=
  if bytes_eqb name s_none then Some identity
  else if bytes_eqb name s_identity then Some identity
  else if bytes_eqb name s_gzip then Some decode_gzip
  else if bytes_eqb name s_deflate then Some decode_deflate
  else if bytes_eqb name s_deflateraw then Some decode_deflate
  else if bytes_eqb name s_br then Some decode_brotli
  else if bytes_eqb name s_zstd then Some decode_zstd
  else None.

Definition custom_encode (name : bytes) : option (bytes -> pres) :=
  if bytes_eqb name s_none then Some identity
  else if bytes_eqb name s_identity then Some identity
  else if bytes_eqb name s_gzip then Some encode_gzip
  else if bytes_eqb name s_deflate then Some encode_deflate
  else if bytes_eqb name s_deflateraw then Some encode_deflate
  else if bytes_eqb name s_br then Some encode_brotli
  else if bytes_eqb name s_zstd then Some encode_zstd
  else None.

(* encoding in (gzip, deflate, deflateraw, br, zstd) *)
Definition is_cached_name (name : bytes) : bool :=
  bytes_eqb name s_gzip || bytes_eqb name s_deflate || bytes_eqb name s_deflateraw
  || bytes_eqb name s_br || bytes_eqb name s_zstd.

(* ---- the cache: CachedDecode(encoded, encoding, errors, decoded); None = the initial
   all-None tuple (which compares unequal to every bytes value). ---- *)
Record centry := { c_encoded : bytes; c_encoding : bytes; c_errors : bytes; c_decoded : bytes }.
Definition cstate := option centry.

(* result of encoding.encode / encoding.decode *)
Inductive res := RNone | RBytes (b : bytes) | RStr | RValueError | RTypeError.

Definition decode_miss (st : cstate) (e enc errors : bytes) : res * cstate :=
  let p := match custom_decode enc with
           | Some f => f e
           | None => py_decode C enc errors e
           end in
  match p with
  | PBytes d => (RBytes d, if is_cached_name enc then Some (Build_centry e enc errors d) else st)
  | PStr => (RStr, st)          (* cached names always have a custom decoder, which never returns str *)
  | PExc => (RValueError, st)
  | PTypeErr => (RTypeError, st)
  end.

Definition decode (st : cstate) (encoded : option bytes) (encoding errors : bytes) : res * cstate :=
  match encoded with
  | None => (RNone, st)
  | Some e =>
      let enc := lower encoding in
      match st with
      | Some c =>
          if bytes_eqb (c_encoded c) e && bytes_eqb (c_encoding c) enc && bytes_eqb (c_errors c) errors
          then (RBytes (c_decoded c), st)
          else decode_miss st e enc errors
      | None => decode_miss st e enc errors
      end
  end.

Definition encode_miss (st : cstate) (d enc errors : bytes) : res * cstate :=
  let p := match custom_encode enc with
           | Some f => f d
           | None => py_encode C enc errors d
           end in
  match p with
  | PBytes e => (RBytes e, if is_cached_name enc then Some (Build_centry e enc errors d) else st)
  | PStr => (RStr, st)
  | PExc => (RValueError, st)
  | PTypeErr => (RTypeError, st)
  end.

Definition encode (st : cstate) (decoded : option bytes) (encoding errors : bytes) : res * cstate :=
  match decoded with
  | None => (RNone, st)
  | Some d =>
      let enc := lower encoding in
      match st with
      | Some c =>
          if bytes_eqb (c_decoded c) d && bytes_eqb (c_encoding c) enc && bytes_eqb (c_errors c) errors
          then (RBytes (c_encoded c), st)
          else encode_miss st d enc errors
      | None => encode_miss st d enc errors
      end
  end.

(* ---- http.Message, reduced to what these four methods read and write:
   headers.get(content-encoding), (transfer-encoding in headers), headers.get(content-length),
   raw_content.  (Header-multimap behaviour itself is property C35.) ---- *)
Record msg := { m_ce : option bytes; m_te : bool; m_cl : option bytes; m_raw : option bytes }.

Inductive outcome := Done | RaisedValueError | RaisedTypeError | OutOfModel.
Inductive gres := GNone | GBytes (b : bytes) | GValueError | GTypeError.

(* [lenient] = the revision of http.py: false = the code as it stands (TypeError from a str codec
   such as utf8 escapes set_content / get_content); true = with fixes/C31-str-codec-typeerror.diff
   (TypeError handled like ValueError). *)
Variable lenient : bool.

Definition with_length (m : msg) : msg :=
  if m_te m then m
  else match m_raw m with
       | Some r => Build_msg (m_ce m) (m_te m) (Some (dec_of_N (N.of_nat (length r)))) (m_raw m)
       | None => m
       end.

Definition set_content (st : cstate) (m : msg) (value : option bytes) : outcome * msg * cstate :=
  match value with
  | None => (Done, Build_msg (m_ce m) (m_te m) (m_cl m) None, st)
  | Some v =>
      let name := match m_ce m with Some (b :: n) => b :: n | _ => s_identity end in   (* ce or identity *)
      let '(r, st1) := encode st (Some v) name s_strict in
      let invalid := (Done, with_length (Build_msg None (m_te m) (m_cl m) (Some v)), st1) in
      match r with
      | RBytes e => (Done, with_length (Build_msg (m_ce m) (m_te m) (m_cl m) (Some e)), st1)
      | RValueError => match m_ce m with Some _ => invalid | None => (OutOfModel, m, st1) end
      | RTypeError => if lenient then match m_ce m with Some _ => invalid | None => (OutOfModel, m, st1) end
                      else (RaisedTypeError, m, st1)
      | RStr | RNone => (OutOfModel, m, st1)
      end
  end.

Definition get_content (st : cstate) (m : msg) (strict : bool) : gres * cstate :=
  match m_raw m with
  | None => (GNone, st)
  | Some raw =>
      match m_ce m with
      | Some (b :: n) =>
          let '(r, st1) := decode st (Some raw) (b :: n) s_strict in
          let invalid := if strict then (GValueError, st1) else (GBytes raw, st1) in
          match r with
          | RBytes d => (GBytes d, st1)
          | RStr | RValueError => invalid
          | RTypeError => if lenient then invalid else (GTypeError, st1)
          | RNone => (GNone, st1)
          end
      | _ => (GBytes raw, st)
      end
  end.

(* Message.decode(strict) *)
Definition msg_decode (st : cstate) (m : msg) (strict : bool) : outcome * msg * cstate :=
  match m_raw m with
  | None | Some [] => (Done, m, st)
  | Some _ =>
      let '(g, st1) := get_content st m strict in
      match g with
      | GBytes d => set_content st1 (Build_msg None (m_te m) (m_cl m) (m_raw m)) (Some d)
      | GValueError => (RaisedValueError, m, st1)
      | GTypeError => (RaisedTypeError, m, st1)
      | GNone => (OutOfModel, m, st1)
      end
  end.

(* Message.encode(encoding) *)
Definition msg_encode (st : cstate) (m : msg) (name : bytes) : outcome * msg * cstate :=
  let m1 := Build_msg (Some name) (m_te m) (m_cl m) (m_raw m) in
  let '(o, m2, st1) := set_content st m1 (m_raw m) in
  match o with
  | Done => match m_ce m2 with
            | None => (RaisedValueError, m2, st1)
            | Some _ => (Done, m2, st1)
            end
  | _ => (o, m2, st1)
  end.

(* ---- histories: any sequence of calls that touch the cache ---- *)
Inductive call :=
| CDecode (encoded : option bytes) (encoding errors : bytes)
| CEncode (decoded : option bytes) (encoding errors : bytes)
| CSet (m : msg) (value : option bytes)
| CGet (m : msg) (strict : bool)
| CMDecode (m : msg) (strict : bool)
| CMEncode (m : msg) (name : bytes).

Definition step (st : cstate) (c : call) : cstate :=
  match c with
  | CDecode e n err => snd (decode st e n err)
  | CEncode d n err => snd (encode st d n err)
  | CSet m v => snd (set_content st m v)
  | CGet m s => snd (get_content st m s)
  | CMDecode m s => snd (msg_decode st m s)
  | CMEncode m n => snd (msg_encode st m n)
  end.

Definition run_from (st : cstate) (h : list call) : cstate := fold_left step h st.
Definition run (h : list call) : cstate := run_from None h.

End WithCodecs.
