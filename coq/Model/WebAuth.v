(* Model/WebAuth.v -- executable model of mitmweb request admission
   (mitmproxy/tools/web/app.py: AuthRequestHandler._require_auth / get_current_user,
   RequestHandler.prepare, IndexHandler.auth_fail; mitmproxy/tools/web/webaddons.py:
   WebAuth.is_valid_password) inside tornado.web.RequestHandler._execute.
   The route x method x wrapper table is NOT written here: it is generated from the real
   Application into Gen/WebRoutes.v (value [mitmweb : app]).
   Abstract (inputs of the model): the value tornado get_signed_cookie returns for the auth
   cookie, whether tornado check_xsrf_cookie passes, which rule the path matches, the
   handler bodies ([inner]) and argon2 verification. No proofs in this file. *)
From Coq Require Import List Bool NArith.
From MV Require Import Base.Bytes.
Import ListNotations.

(* ---------- tables (filled by the translator) ---------- *)

(* OTHER: any method string outside tornado SUPPORTED_METHODS (also lower-case spellings) *)
Inductive meth := GET | HEAD | POST | DELETE | PATCH | PUT | OPTIONS | OTHER.

Definition meth_eqb (a b : meth) : bool :=
  match a, b with
  | GET, GET | HEAD, HEAD | POST, POST | DELETE, DELETE | PATCH, PATCH | PUT, PUT
  | OPTIONS, OPTIONS | OTHER, OTHER => true
  | _, _ => false
  end.

Inductive kind := Mitm | Static.
Inductive prep := PrepSfs | PrepWs | PrepNone.

Record route := Build_route {
  rt_kind : kind;                 (* class defined by mitmproxy / tornado StaticFileHandler *)
  rt_prep : prep;                 (* which prepare() the class resolves to *)
  rt_xsrf : bool;                 (* tornado check_xsrf_cookie not overridden *)
  rt_login : bool;                (* auth_fail renders the login form (IndexHandler) *)
  rt_methods : list (meth * option nat)
    (* SUPPORTED_METHODS; None = tornado _unimplemented_method;
       Some n = handler function under n nested _require_auth wrappers *)
}.

Record app := Build_app {
  a_routes : list route;          (* in tornado matching order *)
  a_xsrf_cookies : bool;          (* Application setting xsrf_cookies *)
  a_safe : list meth;             (* RequestHandler.prepare: methods exempt from the Sec-Fetch-Site rule *)
  a_sfs_allowed : list bytes;     (* RequestHandler.prepare: accepted Sec-Fetch-Site values *)
  a_sfs_status : N                (* status tornado answers for the exception prepare raises *)
}.

(* ---------- requests ---------- *)

Record request := Build_request {
  q_route : option nat;           (* index of the first rule matching the path *)
  q_meth : meth;
  q_cookie : option bytes;        (* get_signed_cookie(auth_cookie_name(), min_version=2) *)
  q_authz : option bytes;         (* Authorization header value as tornado presents it *)
  q_token : list (option bytes);  (* values of the token argument, query then body; None = not UTF-8 *)
  q_xsrf_ok : bool;               (* tornado check_xsrf_cookie would pass *)
  q_sfs : option bytes            (* Sec-Fetch-Site header value *)
}.

(* ---------- string helpers (Python semantics on ASCII) ---------- *)

Definition nonempty (b : bytes) : bool := match b with [] => false | _ => true end.

(* str.partition(" ") -> (head, tail); no separator: (s, "") *)
Fixpoint partition_sp (s : bytes) : bytes * bytes :=
  match s with
  | [] => ([], [])
  | c :: r => if byte_eqb c x20 then ([], r)
              else let '(h, t) := partition_sp r in (c :: h, t)
  end.

(* tornado _remove_control_chars_regex = [\x00-\x08\x0e-\x1f] -> space *)
Definition ctrl_to_space (c : byte) : byte :=
  if (bN c <=? 8)%N || ((14 <=? bN c)%N && (bN c <=? 31)%N) then x20 else c.

(* str.isspace on ASCII: \t \n \v \f \r, \x1c-\x1f, space *)
Definition is_space (c : byte) : bool :=
  ((9 <=? bN c)%N && (bN c <=? 13)%N) || ((28 <=? bN c)%N && (bN c <=? 32)%N).

Fixpoint lstrip (s : bytes) : bytes :=
  match s with
  | [] => []
  | c :: r => if is_space c then lstrip r else s
  end.

Definition py_strip (s : bytes) : bytes := rev (lstrip (rev (lstrip s))).

(* RequestHandler.get_argument(name, default="") on the decoded values:
   every value is decoded (any failure raises HTTPError 400), control characters are
   replaced, the value is stripped, the last one wins.  None = HTTPError(400). *)
Fixpoint decode_all (vs : list (option bytes)) : option (list bytes) :=
  match vs with
  | [] => Some []
  | None :: _ => None
  | Some v :: r => match decode_all r with
                   | Some l => Some (py_strip (map ctrl_to_space v) :: l)
                   | None => None
                   end
  end.

Definition get_argument_token (q : request) : option bytes :=
  match decode_all (q_token q) with
  | None => None
  | Some l => Some (last l [])
  end.

Definition s_Bearer : bytes := [x42;x65;x61;x72;x65;x72].
Definition s_y : bytes := [x79].
Definition x_dollar : byte := x24.

(* ---------- webaddons.WebAuth.is_valid_password ---------- *)

Definition is_valid_password (argon2_verify : bytes -> bytes -> bool) (stored pw : bytes) : bool :=
  match stored with
  | c :: _ => if byte_eqb c x_dollar then argon2_verify stored pw else bytes_eqb stored pw
  | [] => bytes_eqb stored pw
  end.

(* ---------- AuthRequestHandler ---------- *)

(* get_current_user *)
Definition current_user (q : request) : bool :=
  option_eqb bytes_eqb (q_cookie q) (Some s_y).

(* the password the wrapper ends up checking; None = get_argument raised HTTPError(400) *)
Definition effective_password (q : request) : option bytes :=
  let pw :=
    match q_authz q with
    | Some h =>
        if nonempty h then
          let '(scheme, params) := partition_sp h in
          if bytes_eqb scheme s_Bearer then params else []
        else []
    | None => []
    end in
  if nonempty pw then Some pw else get_argument_token q.

Inductive body (D : Type) :=
| BInner (d : D)                      (* whatever the handler body wrote *)
| BLogin (invalid_password : bool)    (* login.html *)
| BEmpty
| BError.                             (* tornado default error page *)
Arguments BInner {D} d.
Arguments BLogin {D} invalid_password.
Arguments BEmpty {D}.
Arguments BError {D}.

Record response (D : Type) := Build_response {
  rs_status : N;
  rs_body : body D;
  rs_cookie : bool                    (* Set-Cookie for the auth cookie present *)
}.
Arguments Build_response {D}.
Arguments rs_status {D}.
Arguments rs_body {D}.
Arguments rs_cookie {D}.

Inductive decision (D : Type) :=
| Pass (cookie : bool)
| Stop (status : N) (b : body D) (cookie : bool).
Arguments Pass {D} cookie.
Arguments Stop {D} status b cookie.

Section Handle.
  Variable St D : Type.
  (* handler bodies: rule index, method, state, request -> new state, status, data written *)
  Variable inner : nat -> meth -> St -> request -> St * (N * D).
  Variable argon2_verify : bytes -> bytes -> bool.
  Variable stored : bytes.            (* WebAuth._password *)

  (* one layer of _require_auth.wrapper up to (not including) the call of fn *)
  Definition require_auth (r : route) (q : request) : decision D :=
    if current_user q then Pass false
    else match effective_password q with
         | None => Stop 400%N BError false
         | Some pw =>
             if is_valid_password argon2_verify stored pw then Pass true
             else Stop 403%N (if rt_login r then BLogin (nonempty pw) else BEmpty) false
         end.

  Fixpoint wrapped_call (n : nat) (r : route) (q : request) : decision D :=
    match n with
    | O => Pass false
    | S k =>
        match require_auth r q with
        | Pass c =>
            match wrapped_call k r q with
            | Pass c' => Pass (c || c')
            | Stop st b c' => Stop st b (c || c')
            end
        | stop => stop
        end
    end.

  (* tornado _execute: methods exempt from check_xsrf_cookie *)
  Definition tornado_safe (m : meth) : bool :=
    match m with GET | HEAD | OPTIONS => true | _ => false end.

  Definition mem_meth (m : meth) (l : list meth) : bool := existsb (meth_eqb m) l.
  Definition mem_bytes (b : bytes) (l : list bytes) : bool := existsb (bytes_eqb b) l.

  Fixpoint assoc_meth (m : meth) (l : list (meth * option nat)) : option (option nat) :=
    match l with
    | [] => None
    | (m', v) :: r => if meth_eqb m m' then Some v else assoc_meth m r
    end.

  (* RequestHandler.prepare / WebSocketEventBroadcaster.prepare / tornado no-op *)
  Definition prepare_refuses (a : app) (r : route) (q : request) : bool :=
    match rt_prep r with
    | PrepSfs =>
        negb (mem_meth (q_meth q) (a_safe a)) &&
        match q_sfs q with
        | Some v => negb (mem_bytes v (a_sfs_allowed a))
        | None => false
        end
    | PrepWs => false
    | PrepNone => false
    end.

  Definition lookup_route (a : app) (q : request) : option (nat * route) :=
    match q_route q with
    | None => None
    | Some i => match nth_error (a_routes a) i with
                | Some r => Some (i, r)
                | None => None
                end
    end.

  Definition refuse (s : St) (st : N) : St * response D := (s, Build_response st BError false).

  (* tornado.web.RequestHandler._execute with the mitmproxy overrides *)
  Definition handle (a : app) (s : St) (q : request) : St * response D :=
    match lookup_route a q with
    | None =>
        (* tornado ErrorHandler: 405 for unsupported methods, no xsrf check, prepare raises 404 *)
        refuse s (if meth_eqb (q_meth q) OTHER then 405 else 404)%N
    | Some (i, r) =>
        match assoc_meth (q_meth q) (rt_methods r) with
        | None => refuse s 405%N
        | Some impl =>
            if negb (tornado_safe (q_meth q)) && a_xsrf_cookies a && rt_xsrf r && negb (q_xsrf_ok q)
            then refuse s 403%N
            else if prepare_refuses a r q then refuse s (a_sfs_status a)
            else match impl with
                 | None => refuse s 405%N
                 | Some n =>
                     match wrapped_call n r q with
                     | Stop st b c => (s, Build_response st b c)
                     | Pass c =>
                         let '(s', (st, d)) := inner i (q_meth q) s q in
                         (s', Build_response st (BInner d) c)
                     end
                 end
        end
    end.
End Handle.

(* ---------- histories: option changes interleaved with requests ---------- *)

(* SetPassword opt fresh: the web_password option is set to opt; fresh is the value
   secrets.token_hex(16) would produce (used only when opt is empty).  Request q: one request. *)
Inductive step := SetPassword (opt fresh : bytes) | Request (q : request).

Section History.
  Variable St D : Type.
  Variable inner : nat -> meth -> St -> request -> St * (N * D).
  Variable argon2_verify : bytes -> bytes -> bool.
  Variable hash_ok : bytes -> bool.     (* argon2.extract_parameters accepts the hash *)
  Variable a : app.

  (* WebAuth.configure for web_password.  State: token_mode (the option is empty) and _password.
     _password = web_password or secrets.token_hex(16).  An invalid hash raises OptionsError
     before _password is assigned; the option is rolled back and configure runs again with
     the old value, which draws a new random token when the old value was empty. *)
  Definition configure (st : bool * bytes) (opt fresh : bytes) : bool * bytes :=
    let '(token_mode, stored) := st in
    match opt with
    | c :: _ =>
        if byte_eqb c x_dollar && negb (hash_ok opt)
        then (token_mode, if token_mode then fresh else stored)
        else (false, opt)
    | [] => (true, fresh)
    end.

  (* the only WebAuth state is _password; is_valid_password does not write anything *)
  Fixpoint run_history (st : bool * bytes) (s : St) (h : list step) : list (response D) :=
    match h with
    | [] => []
    | SetPassword opt fresh :: r => run_history (configure st opt fresh) s r
    | Request q :: r =>
        let out := handle St D inner argon2_verify (snd st) a s q in
        snd out :: run_history st (fst out) r
    end.
End History.
