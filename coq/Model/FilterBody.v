(* Model/FilterBody.v -- executable model of the body filters of mitmproxy/flowfilter.py
   (FBod / FBodRequest / FBodResponse, codes b / bq / bs), one function per __call__, same branch order.
   The regex engine is the parameter search (re.search of the compiled pattern on a byte string).
   A message body is an option: None is an absent body (get_content returns None), Some nil a body that is
   present and empty; the filters test  is not None, so an empty body IS searched.
   Definitions only; proofs in Proofs/FilterBody.v. *)
From Coq Require Import List Bool.
From MV Require Import Base.Bytes.
Import ListNotations.

(* a websocket / TCP / UDP message: from_client, content *)
Definition msg := (bool * bytes)%type.
Inductive flowb :=
| HttpB (req : option bytes) (resp : option (option bytes)) (ws : option (list msg))
      (* request body; response absent / its body; websocket messages if f.websocket *)
| StreamB (msgs : list msg)                       (* TCPFlow / UDPFlow *)
| DnsB (req : bytes) (resp : option bytes)        (* str(f.request), str(f.response) if any *)
| OtherB.                                         (* any other flow type: the only(...) decorator *)

Definition search_opt (search : bytes -> bool) (c : option bytes) : bool :=
  match c with Some b => search b | None => false end.

Definition fbod (search : bytes -> bool) (f : flowb) : bool :=
  match f with
  | HttpB rq rs ws =>
      if search_opt search rq then true
      else if (match rs with Some c => search_opt search c | None => false end) then true
      else match ws with Some ms => existsb (fun m => search (snd m)) ms | None => false end
  | StreamB ms => existsb (fun m => search (snd m)) ms
  | DnsB rq rs => if search rq then true else search_opt search rs
  | OtherB => false
  end.
Definition fbod_request (search : bytes -> bool) (f : flowb) : bool :=
  match f with
  | HttpB rq _ ws =>
      if search_opt search rq then true
      else match ws with Some ms => existsb (fun m => fst m && search (snd m)) ms | None => false end
  | StreamB ms => existsb (fun m => fst m && search (snd m)) ms
  | DnsB rq _ => search rq
  | OtherB => false
  end.
Definition fbod_response (search : bytes -> bool) (f : flowb) : bool :=
  match f with
  | HttpB _ rs ws =>
      if (match rs with Some c => search_opt search c | None => false end) then true
      else match ws with Some ms => existsb (fun m => negb (fst m) && search (snd m)) ms | None => false end
  | StreamB ms => existsb (fun m => negb (fst m) && search (snd m)) ms
  | DnsB _ rs => search_opt search rs
  | OtherB => false
  end.

(* documented meaning: the byte strings each operator is applied to -- every body that is present *)
Definition opt_list {A} (o : option A) : list A := match o with Some a => [a] | None => [] end.
Definition parts_request (f : flowb) : list bytes :=
  match f with
  | HttpB rq _ ws => opt_list rq ++ map snd (filter fst (match ws with Some ms => ms | None => [] end))
  | StreamB ms => map snd (filter fst ms)
  | DnsB rq _ => [rq]
  | OtherB => []
  end.
Definition parts_response (f : flowb) : list bytes :=
  match f with
  | HttpB _ rs ws => match rs with Some c => opt_list c | None => [] end
                     ++ map snd (filter (fun m => negb (fst m)) (match ws with Some ms => ms | None => [] end))
  | StreamB ms => map snd (filter (fun m => negb (fst m)) ms)
  | DnsB _ rs => opt_list rs
  | OtherB => []
  end.
Definition parts_any (f : flowb) : list bytes :=
  match f with
  | HttpB rq rs ws => opt_list rq ++ match rs with Some c => opt_list c | None => [] end
                      ++ map snd (match ws with Some ms => ms | None => [] end)
  | StreamB ms => map snd ms
  | DnsB rq rs => rq :: opt_list rs
  | OtherB => []
  end.
