(* Model/QuicIdsPrelude.v -- the handful of Python built-ins used by the translated QUIC
   stream-id arithmetic (Gen/QuicIds.v).  Stream ids and counters are non-negative Python
   ints (QUIC varints), modelled as N.  No proofs here. *)
From Coq Require Import NArith List Bool.
Import ListNotations.
Open Scope N_scope.

(* bool(n) / truthiness of an int *)
Definition py_truthy (n : N) : bool := negb (n =? 0).
(* int(b) *)
Definition py_int (b : bool) : N := if b then 1 else 0.
(* l[i] on a list of ints; IndexError is None *)
Definition py_getitem (l : list N) (i : N) : option N := nth_error l (N.to_nat i).
(* l[i] = v ; IndexError is None *)
Fixpoint set_nth (l : list N) (i : nat) (v : N) : option (list N) :=
  match l, i with
  | [], _ => None
  | _ :: t, O => Some (v :: t)
  | h :: t, S j => match set_nth t j v with Some t' => Some (h :: t') | None => None end
  end.
Definition py_setitem (l : list N) (i : N) (v : N) : option (list N) := set_nth l (N.to_nat i) v.
