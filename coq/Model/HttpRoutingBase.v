(* Model/HttpRoutingBase.v -- run-time vocabulary of the C08 model (HttpLayer connection routing) and of the
   generated predicate Gen/ConnSpec.v: connection objects (mitmproxy.connection.Server / Client attributes that
   the routing code reads), GetHttpConnection commands, decidable equalities.  Executable definitions only.
   Host names and schemes are UTF-8 byte strings (Python str equality = byte-wise equality of the encodings),
   ports are N. *)
From Coq Require Import NArith List Bool.
From MV Require Import Base.Bytes.
Import ListNotations.

Inductive transport := TCP | UDP.
Definition transport_eqb (a b : transport) : bool :=
  match a, b with TCP, TCP | UDP, UDP => true | _, _ => false end.

Definition addr := (bytes * N)%type.
Definition addr_eqb (a b : addr) : bool := bytes_eqb (fst a) (fst b) && N.eqb (snd a) (snd b).

(* server_spec.ServerSpec = (scheme, (host, port)) *)
Definition via_t := option (bytes * addr).
Definition via_eqb (a b : via_t) : bool :=
  option_eqb (fun x y => bytes_eqb (fst x) (fst y) && addr_eqb (snd x) (snd y)) a b.

(* ConnectionState flags: CLOSED = 0, CAN_READ = 1, CAN_WRITE = 2, OPEN = 3 *)
Inductive cstate := Closed | CanRead | CanWrite | Open.
Definition cstate_eqb (a b : cstate) : bool :=
  match a, b with Closed, Closed | CanRead, CanRead | CanWrite, CanWrite | Open, Open => true | _, _ => false end.

(* The attributes of a connection object that HttpLayer.get_connection / register_connection read.
   c_server = isinstance(connection, Server); c_error = bool(connection.error); c_h2 = (connection.alpn is the bytes h2). *)
Record conn := mkConn {
  c_server : bool;
  c_address : option addr;
  c_tls : bool;
  c_via : via_t;
  c_tp : transport;
  c_state : cstate;
  c_error : bool;
  c_h2 : bool }.

Definition conn_eqb (a b : conn) : bool :=
  Bool.eqb (c_server a) (c_server b) && option_eqb addr_eqb (c_address a) (c_address b)
  && Bool.eqb (c_tls a) (c_tls b) && via_eqb (c_via a) (c_via b) && transport_eqb (c_tp a) (c_tp b)
  && cstate_eqb (c_state a) (c_state b) && Bool.eqb (c_error a) (c_error b) && Bool.eqb (c_h2 a) (c_h2 b).

(* Connection.connected: state is ConnectionState.OPEN *)
Definition connected (k : conn) : bool := cstate_eqb (c_state k) Open.

(* GetHttpConnection(address, tls, via, transport_protocol) *)
Record get_cmd := mkGet {
  g_address : addr;
  g_tls : bool;
  g_via : via_t;
  g_tp : transport }.

Definition get_eqb (a b : get_cmd) : bool :=
  addr_eqb (g_address a) (g_address b) && Bool.eqb (g_tls a) (g_tls b) && via_eqb (g_via a) (g_via b)
  && transport_eqb (g_tp a) (g_tp b).

(* typed comparisons used by the generated predicate: self.<field> == connection.<field> *)
Definition eq_address (g : get_cmd) (k : conn) : bool := option_eqb addr_eqb (Some (g_address g)) (c_address k).
Definition eq_tls (g : get_cmd) (k : conn) : bool := Bool.eqb (g_tls g) (c_tls k).
Definition eq_via (g : get_cmd) (k : conn) : bool := via_eqb (g_via g) (c_via k).
Definition eq_transport_protocol (g : get_cmd) (k : conn) : bool := transport_eqb (g_tp g) (c_tp k).

Definition https_scheme : bytes := [x68;x74;x74;x70;x73].
