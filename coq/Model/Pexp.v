(* Model/Pexp.v -- boolean combinations of closed-interval membership tests over N, their
   breakpoints, the reflective validity check and the (unverified, result-checked) computation of
   the maximal intervals on which such a predicate holds.  Definitions only; the soundness theorem
   is in Proofs/Pexp.v. *)
From Coq Require Import NArith List Bool.
From MV Require Import Model.Ipaddr.
Import ListNotations.
Open Scope N_scope.

Inductive pexp :=
| PT | PF
| PIn (nt : net)
| PNot (p : pexp)
| PAnd (p q : pexp)
| POr (p q : pexp).

Fixpoint eval (p : pexp) (a : N) : bool :=
  match p with
  | PT => true
  | PF => false
  | PIn nt => in_net a nt
  | PNot p => negb (eval p a)
  | PAnd p q => eval p a && eval q a
  | POr p q => eval p a || eval q a
  end.

Definition PImp (p q : pexp) := POr (PNot p) q.
Definition PXor (p q : pexp) := POr (PAnd p (PNot q)) (PAnd (PNot p) q).
Definition PIff (p q : pexp) := PNot (PXor p q).

Fixpoint bps (p : pexp) : list N :=
  match p with
  | PT | PF => []
  | PIn nt => [fst nt; N.succ (snd nt)]
  | PNot p => bps p
  | PAnd p q | POr p q => bps p ++ bps q
  end.

Definition valid (p : pexp) : bool := forallb (eval p) (0 :: bps p).

(* ---- tables as predicates *)
Fixpoint por_tbl (t : list net) : pexp :=
  match t with [] => PF | n :: r => POr (PIn n) (por_tbl r) end.

(* ---- computing the maximal intervals of [0, maxv] on which a predicate holds.
   Unverified helper: its RESULT is checked with [valid] where it is used. *)
Fixpoint insert (x : N) (l : list N) : list N :=
  match l with
  | [] => [x]
  | y :: t => if x <? y then x :: l else if x =? y then l else y :: insert x t
  end.
Definition sort_dedup (l : list N) : list N := fold_right insert [] l.

Fixpoint cells (l : list N) (maxv : N) : list net :=
  match l with
  | [] => []
  | x :: t =>
      if maxv <? x then [] else
      match t with
      | [] => [(x, maxv)]
      | y :: _ => (x, N.min (N.pred y) maxv) :: cells t maxv
      end
  end.

Fixpoint merge (l : list net) : list net :=
  match l with
  | [] => []
  | a :: t =>
      match merge t with
      | b :: r => if N.succ (snd a) =? fst b then (fst a, snd b) :: r else a :: b :: r
      | [] => [a]
      end
  end.

Definition true_intervals (p : pexp) (maxv : N) : list net :=
  merge (filter (fun c => eval p (fst c)) (cells (sort_dedup (0 :: bps p)) maxv)).
