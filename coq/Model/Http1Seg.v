(* Model/Http1Seg.v -- the receive side of mitmproxy/proxy/layers/http/_http1.py (Http1Connection, Http1Server,
   Http1Client) together with the h11 0.16 objects it uses: ReceiveBuffer (maybe_extract_at_most,
   maybe_extract_next_line and maybe_extract_lines with their two search-offset caches), ContentLengthReader,
   ChunkedReader (chunk header, bytes_to_discard, trailer mode) and Http10Reader.

   Message-level functions are parameters of the model (Section Params): what read_request_head /
   read_response_head + expected_http_body_size decide for a list of head lines, whether a request is a CONNECT,
   what mark_done decides for a finished request/response pair, and what h11 _decode_header_lines does with
   non-empty trailer lines.  Those functions are the subject of C01; every theorem of C02 holds for all of them.

   The Python call tree  state(event) -> read_headers -> read_body (while True: body_reader(buf)) -> mark_done ->
   state(DataReceived(b""))  consists of tail calls only; it is modelled as the iteration (run, with fuel) of one
   function step that performs one activation up to the next tail call / loop iteration (at most one ReceiveBuffer
   operation).  ChunkedReader.__call__ falls through its four sections in the order trailer, bytes_to_discard,
   chunk header, chunk data; which section runs is a function of the reader attributes, so one call is the iteration
   of step as well.  The model describes the tree with fixes/C02-skip-blank-lines-before-head.diff applied (read_headers
   loops while maybe_extract_lines returns the empty list); blank_loop = false gives the unrepaired behaviour.
   Executable definitions only. *)
From Coq Require Import List Bool NArith ZArith Arith.
From MV Require Import Base.Bytes.
Import ListNotations.

Definition CR : byte := x0d.
Definition LF : byte := x0a.
Definition CRLF : bytes := [x0d; x0a].

(* ---------------------------------------------------------------- h11._receivebuffer.ReceiveBuffer *)
Record rbuf := mkBuf { b_data : bytes; b_nls : nat (* _next_line_search *); b_mls : nat (* _multiple_lines_search *) }.

Definition empty_buf : rbuf := mkBuf [] 0 0.
(* __iadd__ *)
Definition buf_add (b : rbuf) (d : bytes) : rbuf := mkBuf (b_data b ++ d) (b_nls b) (b_mls b).
(* __bool__ *)
Definition buf_bool (b : rbuf) : bool := match b_data b with [] => false | _ => true end.

Definition _extract (b : rbuf) (count : nat) : bytes * rbuf :=
  (firstn count (b_data b), mkBuf (skipn count (b_data b)) 0 0).

(* data[:n] and data[n:] for an unbounded count *)
Fixpoint splitN (d : bytes) (n : N) : bytes * bytes :=
  match d with
  | [] => ([], [])
  | x :: t => if N.eqb n 0 then ([], d) else let (a, r) := splitN t (N.pred n) in (x :: a, r)
  end.

Definition maybe_extract_at_most (b : rbuf) (count : N) : option bytes * rbuf :=
  match splitN (b_data b) count with
  | ([], _) => (None, b)
  | (out, rest) => (Some out, mkBuf rest 0 0)
  end.

(* bytearray.find(b"\r\n") *)
Fixpoint find_crlf (d : bytes) : option nat :=
  match d with
  | [] => None
  | a :: t => match t with
              | b :: _ => if byte_eqb a CR && byte_eqb b LF then Some 0 else option_map S (find_crlf t)
              | [] => None
              end
  end.
Definition find_crlf_from (start : nat) (d : bytes) : option nat :=
  option_map (fun i => start + i) (find_crlf (skipn start d)).

Definition maybe_extract_next_line (b : rbuf) : option bytes * rbuf :=
  let search_start_index := Nat.max 0 (b_nls b - 1) in
  match find_crlf_from search_start_index (b_data b) with
  | None => (None, mkBuf (b_data b) (length (b_data b)) (b_mls b))
  | Some partial_idx => let (out, b') := _extract b (partial_idx + 2) in (Some out, b')
  end.

(* blank_line_regex = \n\r?\n : length of a match at the start of d *)
Definition blank_at (d : bytes) : option nat :=
  match d with
  | a :: b :: t =>
      if byte_eqb a LF then
        if byte_eqb b LF then Some 2
        else if byte_eqb b CR then match t with c :: _ => if byte_eqb c LF then Some 3 else None | [] => None end
        else None
      else None
  | _ => None
  end.
(* end index of the leftmost match *)
Fixpoint blank_search (d : bytes) : option nat :=
  match blank_at d with
  | Some k => Some k
  | None => match d with [] => None | _ :: t => option_map S (blank_search t) end
  end.
Definition blank_search_from (start : nat) (d : bytes) : option nat :=
  option_map (fun i => start + i) (blank_search (skipn start d)).

(* out.split(b"\n") *)
Fixpoint split_lf (d : bytes) : list bytes :=
  match d with
  | [] => [[]]
  | a :: t => if byte_eqb a LF then [] :: split_lf t
              else match split_lf t with l :: r => (a :: l) :: r | [] => [[a]] end
  end.
(* if line.endswith(b"\r"): del line[-1] *)
Definition strip_cr (l : bytes) : bytes :=
  match rev l with c :: r => if byte_eqb c CR then rev r else l | [] => l end.
(* del lines[-2:] *)
Definition lines_of (out : bytes) : list bytes :=
  let ls := map strip_cr (split_lf out) in firstn (length ls - 2) ls.

Definition maybe_extract_lines (b : rbuf) : option (list bytes) * rbuf :=
  let d := b_data b in
  if starts_with [LF] d then (Some [], snd (_extract b 1))
  else if starts_with CRLF d then (Some [], snd (_extract b 2))
  else match blank_search_from (b_mls b) d with
       | None => (None, mkBuf d (b_nls b) (length d - 2))
       | Some idx => let (out, b') := _extract b idx in (Some (lines_of out), b')
       end.

(* ---------------------------------------------------------------- h11._readers *)
Inductive reader :=
| ContentLengthReader (remaining : N)
| ChunkedReader (bytes_in_chunk : N) (bytes_to_discard : bytes) (reading_trailer : bool)
| Http10Reader.

Definition HTTP10_MAX : N := 999999999%N.

(* make_body_reader(expected_size): None = chunked, -1 = read until EOF *)
Definition make_body_reader (expected_size : option Z) : reader :=
  match expected_size with
  | None => ChunkedReader 0 [] false
  | Some z => if Z.eqb z (-1) then Http10Reader else ContentLengthReader (Z.to_N z)
  end.

Definition hexval (b : byte) : option N :=
  let n := bN b in
  if (48 <=? n)%N && (n <=? 57)%N then Some (n - 48)%N
  else if (65 <=? n)%N && (n <=? 70)%N then Some (n - 55)%N
  else if (97 <=? n)%N && (n <=? 102)%N then Some (n - 87)%N
  else None.
Definition is_hex (b : byte) : bool := match hexval b with Some _ => true | None => false end.
Fixpoint span_hex (d : bytes) : bytes * bytes :=
  match d with
  | a :: t => if is_hex a then let (h, r) := span_hex t in (a :: h, r) else ([], d)
  | [] => ([], [])
  end.
Definition int16 (h : bytes) : N :=
  fold_left (fun acc c => (acc * 16 + match hexval c with Some v => v | None => 0 end)%N) h 0%N.
Definition is_sp_tab (b : byte) : bool := byte_eqb b x20 || byte_eqb b x09.

(* validate(chunk_header_re, line), a fullmatch: 1 to 20 hex digits, optionally a semicolon followed by bytes other
   than LF, optional spaces and tabs, CRLF; the extracted line always ends in CRLF *)
Definition parse_chunk_header (line : bytes) : option N :=
  let body := firstn (length line - 2) line in
  let (h, rest) := span_hex body in
  if (1 <=? length h) && (length h <=? 20)
     && match rest with
        | c :: r => if byte_eqb c x3b then forallb (fun x => negb (byte_eqb x LF)) r else forallb is_sp_tab rest
        | [] => true
        end
  then Some (int16 h) else None.

Fixpoint is_prefix (p d : bytes) : bool :=
  match p, d with
  | [], _ => true
  | a :: p', b :: d' => byte_eqb a b && is_prefix p' d'
  | _ :: _, [] => false
  end.

(* already_received.lstrip(b"\r\n") *)
Fixpoint lstrip_crlf (d : bytes) : bytes :=
  match d with
  | a :: t => if byte_eqb a CR || byte_eqb a LF then lstrip_crlf t else d
  | [] => []
  end.

(* ---------------------------------------------------------------- results of the parameter functions *)
Inductive head_result (H : Type) :=
| BadHead                              (* read_*_head raised ValueError *)
| BadSize (h : H)                      (* expected_http_body_size raised ValueError *)
| Accepted (h : H) (size : option Z)
| HeadCrashed.                         (* any other exception *)
Arguments BadHead {H}. Arguments BadSize {H} h. Arguments Accepted {H} h size. Arguments HeadCrashed {H}.

Inductive trailer_result := TrailerInvalid (* LocalProtocolError *) | TrailerPresent (* EndOfMessage with headers *).
Inductive after_done := MakePipe | ConnectionDone | NextMessage.

Inductive role := Server | Client.
Inductive cstate := ReadHeaders | ReadBody | Wait | Done | Passthrough.

Inductive err_kind := ErrProtocol (* h11.ProtocolError in read_body *) | ErrHead (* ValueError for the head *)
                    | ErrDisconnect (* wait: peer closed *) | ErrServerClosed | ErrUnexpectedResponse.
Inductive crash_kind := CrashTrailers (* NotImplementedError *) | CrashAssert | CrashOther.

Section Params.
Variables Req Resp : Type.
Variable server_head : list bytes -> head_result Req.
Variable client_head : Req -> list bytes -> head_result Resp.
Variable is_connect : Req -> bool.                         (* request.data.method.upper() == b"CONNECT" *)
Variable after : role -> Req -> Resp -> after_done.        (* mark_done: should_make_pipe, then connection_done *)
Variable trailer : list bytes -> trailer_result.           (* _decode_header_lines on a non-empty list *)
Variable blank_loop : bool.                                (* the repair: skip blank lines before a head *)

(* commands and ReceiveHttp events, in emission order *)
Inductive out :=
| OReqHeaders (sid : N) (r : Req) (end_stream : bool)
| ORespHeaders (sid : N) (r : Resp) (end_stream : bool)
| OData (sid : N) (d : bytes)
| OEndOfMessage (sid : N)
| OProtocolError (sid : N) (k : err_kind)
| OSendError                  (* SendData(make_error_response(400, ...)) *)
| OSendHead | OSendData | OSendLastChunk | OHalfClose      (* written by send(); payloads are the subject of C01 *)
| OClose                      (* CloseConnection(self.conn) *)
| OLog
| OCrash (k : crash_kind).

Record conn := mkConn {
  c_role : role;
  c_state : cstate;
  c_reader : reader;
  c_sid : option N;
  c_request : option Req;
  c_response : option Resp;
  c_request_done : bool;
  c_response_done : bool;
  c_closed : bool;             (* CloseConnection executed for self.conn, or the layer crashed: no more DataReceived *)
  c_peer_closed : bool         (* ConnectionClosed received *)
}.

Definition set_state (c : conn) (s : cstate) : conn :=
  mkConn (c_role c) s (c_reader c) (c_sid c) (c_request c) (c_response c) (c_request_done c) (c_response_done c)
         (c_closed c) (c_peer_closed c).
Definition set_reader (c : conn) (r : reader) : conn :=
  mkConn (c_role c) (c_state c) r (c_sid c) (c_request c) (c_response c) (c_request_done c) (c_response_done c)
         (c_closed c) (c_peer_closed c).
Definition set_closed (c : conn) : conn :=
  mkConn (c_role c) (c_state c) (c_reader c) (c_sid c) (c_request c) (c_response c) (c_request_done c)
         (c_response_done c) true (c_peer_closed c).
Definition set_peer_closed (c : conn) : conn :=
  mkConn (c_role c) (c_state c) (c_reader c) (c_sid c) (c_request c) (c_response c) (c_request_done c)
         (c_response_done c) (c_closed c) true.
Definition set_request (c : conn) (r : option Req) : conn :=
  mkConn (c_role c) (c_state c) (c_reader c) (c_sid c) r (c_response c) (c_request_done c) (c_response_done c)
         (c_closed c) (c_peer_closed c).
Definition set_response (c : conn) (r : option Resp) : conn :=
  mkConn (c_role c) (c_state c) (c_reader c) (c_sid c) (c_request c) r (c_request_done c) (c_response_done c)
         (c_closed c) (c_peer_closed c).
Definition set_sid (c : conn) (s : option N) : conn :=
  mkConn (c_role c) (c_state c) (c_reader c) s (c_request c) (c_response c) (c_request_done c) (c_response_done c)
         (c_closed c) (c_peer_closed c).
Definition set_done_flags (c : conn) (rq rs : bool) : conn :=
  mkConn (c_role c) (c_state c) (c_reader c) (c_sid c) (c_request c) (c_response c) rq rs (c_closed c) (c_peer_closed c).

(* Http1Server(context) after Start: stream_id = 1;  Http1Client(context) after Start: stream_id = None *)
Definition init_conn (r : role) : conn :=
  mkConn r ReadHeaders Http10Reader (match r with Server => Some 1%N | Client => None end) None None false false false false.

Definition sid_of (c : conn) : N := match c_sid c with Some n => n | None => 0%N end.

(* result of one activation: Go = a tail call self.state(event) / the next iteration of while True follows;
   Stop = the generator returns *)
Inductive sres := Go (c : conn) (b : rbuf) (o : list out) | Stop (c : conn) (b : rbuf) (o : list out).

Definition crash (c : conn) (b : rbuf) (k : crash_kind) : sres := Stop (set_closed c) b [OCrash k].

(* make_pipe *)
Definition make_pipe (c : conn) (b : rbuf) : sres :=
  let c := set_state c Passthrough in
  if buf_bool b then
    let (r, b') := maybe_extract_at_most b (N.of_nat (length (b_data b))) in
    let already_received := lstrip_crlf (match r with Some d => d | None => [] end) in
    match already_received with
    | [] => Stop c b' []
    | _ => Stop c b' [OData (sid_of c) already_received]
    end
  else Stop c b [].

(* mark_done(request=rq, response=rs), including the Http1Server and Http1Client overrides *)
Definition mark_done (c : conn) (b : rbuf) (rq rs : bool) : sres :=
  let c := set_done_flags c (c_request_done c || rq) (c_response_done c || rs) in
  if c_request_done c && c_response_done c then
    match c_request c, c_response c with
    | Some request, Some response =>
        match after (c_role c) request response with
        | MakePipe => make_pipe c b
        | ConnectionDone => Stop (set_state (set_closed c) Done) b [OClose]
        | NextMessage =>
            let c := set_response (set_request (set_done_flags c false false) None) None in
            let c := set_sid c (match c_role c with Server => Some (sid_of c + 2)%N | Client => None end) in
            let c := set_state c ReadHeaders in
            if buf_bool b then Go c b [] else Stop c b []
        end
    | _, _ => crash c b CrashAssert
    end
  else
    match c_role c with
    | Server => if c_request_done c && negb (c_response_done c) then Stop (set_state c Wait) b [] else Stop c b []
    | Client =>
        (* Http1Client.mark_done override: the response is complete but the request is still being sent *)
        if c_response_done c && negb (c_request_done c) then Stop (set_state c Wait) b [] else Stop c b []
    end.

(* read_body: the h11.ProtocolError branch *)
Definition protocol_error (c : conn) (b : rbuf) : sres :=
  Stop (set_closed c) b [OClose; OProtocolError (sid_of c) ErrProtocol].

(* read_body: the h11.EndOfMessage branch (headers empty) *)
Definition end_of_message (c : conn) (b : rbuf) : sres :=
  match c_request c with
  | None => crash c b CrashAssert
  | Some request =>
      let o := if is_connect request then [] else [OEndOfMessage (sid_of c)] in
      let is_request := match c_role c with Server => true | Client => false end in
      match mark_done c b is_request (negb is_request) with
      | Go c' b' o' => Go c' b' (o ++ o')
      | Stop c' b' o' => Stop c' b' (o ++ o')
      end
  end.

Definition data_out (c : conn) (d : bytes) : list out := [OData (sid_of c) d].

(* read_body(DataReceived): one call section of self.body_reader(self.buf) and the dispatch on its result *)
Definition read_body (c : conn) (b : rbuf) : sres :=
  match c_reader c with
  | ContentLengthReader remaining =>
      if N.eqb remaining 0 then end_of_message c b
      else match maybe_extract_at_most b remaining with
           | (None, b') => Stop c b' []
           | (Some d, b') =>
               Go (set_reader c (ContentLengthReader (remaining - N.of_nat (length d)))) b' (data_out c d)
           end
  | Http10Reader =>
      match maybe_extract_at_most b HTTP10_MAX with
      | (None, b') => Stop c b' []
      | (Some d, b') => Go c b' (data_out c d)
      end
  | ChunkedReader in_chunk to_discard reading_trailer =>
      if reading_trailer then
        match maybe_extract_lines b with
        | (None, b') => Stop c b' []
        | (Some [], b') => end_of_message c b'
        | (Some ls, b') => match trailer ls with
                           | TrailerInvalid => protocol_error c b'
                           | TrailerPresent => crash c b' CrashTrailers
                           end
        end
      else match to_discard with
      | _ :: _ =>
          match maybe_extract_at_most b (N.of_nat (length to_discard)) with
          | (None, b') => Stop c b' []
          | (Some d, b') =>
              if negb (is_prefix d to_discard) then protocol_error c b'
              else let rest := skipn (length d) to_discard in
                   let c' := set_reader c (ChunkedReader in_chunk rest false) in
                   match rest with
                   | _ :: _ => Stop c' b' []          (* return None *)
                   | [] => Go c' b' []                (* fall through and read some more *)
                   end
          end
      | [] =>
          if N.eqb in_chunk 0 then
            match maybe_extract_next_line b with
            | (None, b') => Stop c b' []
            | (Some line, b') =>
                match parse_chunk_header line with
                | None => protocol_error c b'
                | Some n => Go (set_reader c (ChunkedReader n [] (N.eqb n 0))) b' []   (* n = 0: return self(buf) *)
                end
            end
          else
            match maybe_extract_at_most b in_chunk with
            | (None, b') => Stop c b' []
            | (Some d, b') =>
                let n := (in_chunk - N.of_nat (length d))%N in
                Go (set_reader c (ChunkedReader n (if N.eqb n 0 then CRLF else []) false)) b' (data_out c d)
            end
      end
  end.

(* Http1Server.read_headers / Http1Client.read_headers for a DataReceived event *)
Definition read_headers (c : conn) (b : rbuf) : sres :=
  match c_role c with
  | Server =>
      match maybe_extract_lines b with
      | (None, b') => Stop c b' []
      | (Some [], b') => if blank_loop then Go c b' [] else Stop c b' []
      | (Some ls, b') =>
          match server_head ls with
          | BadHead => Stop (set_state (set_closed c) Done) b' [OSendError; OClose; OLog]
          | BadSize r =>
              Stop (set_state (set_closed (set_request c (Some r))) Done) b'
                   [OSendError; OClose; OReqHeaders (sid_of c) r false; OProtocolError (sid_of c) ErrHead]
          | HeadCrashed => crash c b' CrashOther
          | Accepted r size =>
              let end_stream := match size with Some z => Z.eqb z 0 | None => false end in
              Go (set_state (set_reader (set_request c (Some r)) (make_body_reader size)) ReadBody) b'
                 [OReqHeaders (sid_of c) r end_stream]
          end
      end
  | Client =>
      match c_request c with
      | None => Stop (set_closed c) b [OLog; OClose]        (* Unexpected data from server *)
      | Some request =>
          match maybe_extract_lines b with
          | (None, b') => Stop c b' []
          | (Some [], b') => if blank_loop then Go c b' [] else Stop c b' []
          | (Some ls, b') =>
              match client_head request ls with
              | BadHead => Stop (set_closed c) b' [OClose; OProtocolError (sid_of c) ErrHead]
              | BadSize r => Stop (set_closed (set_response c (Some r))) b' [OClose; OProtocolError (sid_of c) ErrHead]
              | HeadCrashed => crash c b' CrashOther
              | Accepted r size =>
                  let end_stream := match size with Some z => Z.eqb z 0 | None => false end in
                  Go (set_state (set_reader (set_response c (Some r)) (make_body_reader size)) ReadBody) b'
                     [ORespHeaders (sid_of c) r end_stream]
              end
          end
      end
  end.

(* self.state(DataReceived) for the states that read the buffer *)
Definition step (c : conn) (b : rbuf) : sres :=
  match c_state c with
  | ReadHeaders => read_headers c b
  | ReadBody => read_body c b
  | Wait => Stop c b []
  | Done => Stop c b []
  | Passthrough => Stop c b []      (* not used: passthrough does not read the buffer, see handle_data *)
  end.

Inductive rres := Finished (c : conn) (b : rbuf) (o : list out) | OutOfFuel.

Fixpoint run (fuel : nat) (c : conn) (b : rbuf) : rres :=
  match fuel with
  | O => OutOfFuel
  | S f => match step c b with
           | Stop c' b' o => Finished c' b' o
           | Go c' b' o => match run f c' b' with
                           | Finished c'' b'' o' => Finished c'' b'' (o ++ o')
                           | OutOfFuel => OutOfFuel
                           end
           end
  end.

(* every Go consumes a byte of the buffer or leaves read_body for read_headers *)
Definition fuel_for (b : rbuf) : nat := 2 * length (b_data b) + 3.

(* continue a started activation *)
Definition continue (r : sres) : rres :=
  match r with
  | Stop c b o => Finished c b o
  | Go c b o => match run (fuel_for b) c b with
                | Finished c' b' o' => Finished c' b' (o ++ o')
                | OutOfFuel => OutOfFuel
                end
  end.

(* _handle_event(DataReceived(conn, data)); the proxy server delivers nothing on a connection it has closed *)
Definition handle_data (c : conn) (b : rbuf) (data : bytes) : rres :=
  if c_closed c then Finished c b []
  else match c_state c with
       | Passthrough => Finished c b [OData (sid_of c) data]
       | _ => let b := buf_add b data in run (fuel_for b) c b
       end.

(* _handle_event(ConnectionClosed(conn)) *)
Definition handle_close (c : conn) (b : rbuf) : rres :=
  if c_closed c || c_peer_closed c then Finished c b []
  else
  let c := set_peer_closed c in
  match c_state c with
  | ReadHeaders =>
      match c_role c with
      | Server => Finished (set_closed c) b ((if forallb (fun x => is_sp_tab x || byte_eqb x CR || byte_eqb x LF
                                                          || byte_eqb x x0b || byte_eqb x x0c) (b_data b)
                                              then [] else [OLog]) ++ [OClose])
      | Client =>
          match c_sid c with
          | Some sid => Finished (set_closed c) b
                          [OClose; OProtocolError sid (if buf_bool b then ErrUnexpectedResponse else ErrServerClosed)]
          | None => Finished (set_closed c) b [OClose]
          end
      end
  | ReadBody =>
      match c_reader c with
      | Http10Reader => continue (end_of_message c b)
      | _ => Finished (set_closed c) b [OClose; OProtocolError (sid_of c) ErrProtocol]
      end
  | Wait => Finished (set_closed c) b [OClose; OProtocolError (sid_of c) ErrDisconnect]
  | Done => Finished c b []
  | Passthrough => Finished c b [OEndOfMessage (sid_of c)]
  end.

(* HttpEvents passed to send() *)
Inductive send_event :=
| SHeaders (sid : N) (rq : option Req) (rs : option Resp)   (* RequestHeaders (client role) / ResponseHeaders (server role) *)
| SData (sid : N) (nonempty_raw : bool)
| SEndOfMessage (sid : N) (last_chunk : bool) (half_close : bool)
| SProtocolError (sid : N) (has_status : bool).

Definition handle_send (c : conn) (b : rbuf) (e : send_event) : rres :=
  match c_role c with
  | Server =>
      match e with
      | SHeaders sid _ (Some r) =>
          if negb (N.eqb sid (sid_of c)) then continue (crash c b CrashAssert)
          else Finished (set_response c (Some r)) b [OSendHead]
      | SHeaders _ _ None => continue (crash c b CrashAssert)
      | SData sid raw =>
          if negb (N.eqb sid (sid_of c)) then continue (crash c b CrashAssert)
          else match c_response c with
               | None => continue (crash c b CrashAssert)
               | Some _ => Finished c b (if raw then [OSendData] else [])
               end
      | SEndOfMessage sid last _ =>
          if negb (N.eqb sid (sid_of c)) then continue (crash c b CrashAssert)
          else match c_request c, c_response c with
               | Some _, Some _ =>
                   let o := if last then [OSendLastChunk] else [] in
                   match continue (mark_done c b false true) with
                   | Finished c' b' o' => Finished c' b' (o ++ o')
                   | OutOfFuel => OutOfFuel
                   end
               | _, _ => continue (crash c b CrashAssert)
               end
      | SProtocolError sid has_status =>
          if negb (N.eqb sid (sid_of c)) then continue (crash c b CrashAssert)
          else if c_closed c then Finished c b []
          else Finished (set_closed c) b
                 ((match c_response c with None => if has_status then [OSendError] else [] | Some _ => [] end) ++ [OClose])
      end
  | Client =>
      match e with
      | SProtocolError _ _ => Finished (set_closed c) b [OClose]
      | _ =>
          let esid := match e with SHeaders s _ _ | SData s _ | SEndOfMessage s _ _ | SProtocolError s _ => s end in
          let c1 := match c_sid c, e with
                    | None, SHeaders sid (Some r) _ => Some (set_request (set_sid c (Some sid)) (Some r))
                    | None, _ => None
                    | Some _, _ => Some c
                    end in
          match c1 with
          | None => continue (crash c b CrashAssert)
          | Some c =>
              if negb (N.eqb esid (sid_of c)) then continue (crash c b CrashAssert)
              else match e with
                   | SHeaders _ (Some _) _ => Finished c b [OSendHead]
                   | SHeaders _ None _ => continue (crash c b CrashAssert)
                   | SData _ raw => Finished c b (if raw then [OSendData] else [])
                   | SEndOfMessage _ last half =>
                       let o := if last then [OSendLastChunk] else if half then [OHalfClose] else [] in
                       match continue (mark_done c b true false) with
                       | Finished c' b' o' => Finished c' b' (o ++ o')
                       | OutOfFuel => OutOfFuel
                       end
                   | SProtocolError _ _ => Finished c b []
                   end
          end
      end
  end.

Inductive event := EData (d : bytes) | EClose | ESend (e : send_event).

Definition handle (c : conn) (b : rbuf) (e : event) : rres :=
  match e with
  | EData d => handle_data c b d
  | EClose => handle_close c b
  | ESend s => handle_send c b s
  end.

(* a whole history: outputs per event *)
Fixpoint handle_all (c : conn) (b : rbuf) (es : list event) : list (option (list out)) * conn * rbuf :=
  match es with
  | [] => ([], c, b)
  | e :: es' => match handle c b e with
                | Finished c' b' o => let '(os, c'', b'') := handle_all c' b' es' in (Some o :: os, c'', b'')
                | OutOfFuel => ([None], c, b)
                end
  end.

End Params.

Arguments Go {Req Resp}. Arguments Stop {Req Resp}. Arguments Finished {Req Resp}. Arguments OutOfFuel {Req Resp}.
Arguments OReqHeaders {Req Resp}. Arguments ORespHeaders {Req Resp}. Arguments OData {Req Resp}.
Arguments OEndOfMessage {Req Resp}. Arguments OProtocolError {Req Resp}. Arguments OSendError {Req Resp}.
Arguments OSendHead {Req Resp}. Arguments OSendData {Req Resp}. Arguments OSendLastChunk {Req Resp}.
Arguments OHalfClose {Req Resp}. Arguments OClose {Req Resp}. Arguments OLog {Req Resp}. Arguments OCrash {Req Resp}.
Arguments SHeaders {Req Resp}. Arguments SData {Req Resp}. Arguments SEndOfMessage {Req Resp}. Arguments SProtocolError {Req Resp}.
Arguments EData {Req Resp}. Arguments EClose {Req Resp}. Arguments ESend {Req Resp}.
Arguments c_role {Req Resp} c. Arguments c_state {Req Resp} c. Arguments c_reader {Req Resp} c. Arguments c_sid {Req Resp} c.
Arguments c_request {Req Resp} c. Arguments c_response {Req Resp} c. Arguments c_request_done {Req Resp} c.
Arguments c_response_done {Req Resp} c. Arguments c_closed {Req Resp} c. Arguments c_peer_closed {Req Resp} c.
