(* Model/ServerPlayback.v -- executable model of mitmproxy/addons/serverplayback.py
   (ServerPlayback._hash, add_flows, load_flows, clear, count, next_flow, recompute_hashes,
   configure (hash-option part), request).  No proofs here.

   Python str values are represented by their UTF-8 (surrogateescape) bytes; a request is the
   record of the values _hash reads through library accessors (urlparse, parse_qsl, pretty_host,
   multipart_form, urlencoded_form, str(raw_content)); those accessors are not modelled.
   The SHA-256 digest of repr(key) is modelled by the key list itself (collision freedom of
   SHA-256 and injectivity of repr on these key shapes are the contract). *)
From Coq Require Import List Bool NArith.
From MV Require Import Base.Bytes.
Import ListNotations.

(* ---------- requests, recordings, options ---------- *)

Record request := {
  rq_scheme : bytes;                          (* str(r.scheme) *)
  rq_method : bytes;                          (* str(r.method) *)
  rq_path : bytes;                            (* str(path) of urlparse(r.url) *)
  rq_query : list (bytes * bytes);            (* parse_qsl(query, keep_blank_values=True) *)
  rq_host : bytes;                            (* r.pretty_host *)
  rq_port : N;                                (* r.port *)
  rq_content : bytes;                         (* str(r.raw_content): repr of the body, or None *)
  rq_multipart : list (bytes * bytes * bytes);(* (k.decode(errors=replace), k, v) of multipart_form *)
  rq_urlencoded : list (bytes * bytes);       (* urlencoded_form.items(multi=True) *)
  rq_headers : list (bytes * bytes)           (* r.headers.fields *)
}.

(* a recorded http flow: identity (recording sequence number), request, truthiness of .response *)
Record recording := { rec_id : N; rec_req : request; rec_has_resp : bool }.

(* elements of Sequence[flow.Flow]: only http flows are indexed *)
Inductive flow := FHttp (r : recording) | FOther.

Inductive extra := EForward | EKill | ECode (code : N).   (* server_replay_extra *)

Record options := {
  o_ignore_content : bool;
  o_ignore_host : bool;
  o_ignore_port : bool;
  o_ignore_params : list bytes;
  o_ignore_payload_params : list bytes;
  o_use_headers : list bytes;
  o_reuse : bool;
  o_nopop : bool;
  o_kill_extra : bool;
  o_extra : extra
}.

(* one keyword argument of options.update *)
Inductive optset :=
| SetIgnoreContent (b : bool) | SetIgnoreHost (b : bool) | SetIgnorePort (b : bool)
| SetIgnoreParams (l : list bytes) | SetIgnorePayloadParams (l : list bytes)
| SetUseHeaders (l : list bytes)
| SetReuse (b : bool) | SetNopop (b : bool) | SetKillExtra (b : bool) | SetExtra (e : extra).

(* ---------- key components: the elements of the Python list [key] ---------- *)

Inductive kc :=
| KStr (s : bytes)                                (* a str *)
| KBPair (k v : bytes)                            (* a tuple of two bytes objects *)
| KSPair (k v : bytes)                            (* a tuple of two str *)
| KInt (n : N)                                    (* an int *)
| KHeaders (l : list (bytes * option bytes)).     (* list of (str, str or None) *)

Definition key := list kc.

Definition kc_eqb (a b : kc) : bool :=
  match a, b with
  | KStr x, KStr y => bytes_eqb x y
  | KBPair k v, KBPair k2 v2 => bytes_eqb k k2 && bytes_eqb v v2
  | KSPair k v, KSPair k2 v2 => bytes_eqb k k2 && bytes_eqb v v2
  | KInt n, KInt m => N.eqb n m
  | KHeaders l, KHeaders m =>
      list_eqb (pair_eqb bytes_eqb (option_eqb bytes_eqb)) l m
  | _, _ => false
  end.

Definition key_eqb (a b : key) : bool := list_eqb kc_eqb a b.

(* x in l for a list of str *)
Definition mem (x : bytes) (l : list bytes) : bool := existsb (bytes_eqb x) l.

(* list truthiness *)
Definition nonempty {A} (l : list A) : bool := match l with [] => false | _ => true end.

(* Headers.get(name): case-insensitive (ASCII) on the name, values folded with comma-space,
   None when no field matches *)
Fixpoint join_values (vs : list bytes) : bytes :=
  match vs with
  | [] => []
  | [v] => v
  | v :: rest => v ++ [x2c; x20] ++ join_values rest
  end.

Definition headers_get_all (name : bytes) (h : list (bytes * bytes)) : list bytes :=
  map snd (filter (fun f => bytes_eqb (lower (fst f)) (lower name)) h).

Definition headers_get (name : bytes) (h : list (bytes * bytes)) : option bytes :=
  match headers_get_all name h with
  | [] => None
  | vs => Some (join_values vs)
  end.

(* ---------- _hash ---------- *)

Definition multipart_part (o : options) (r : request) : key :=
  map (fun f => KBPair (snd (fst f)) (snd f))
      (filter (fun f => negb (mem (fst (fst f)) (o_ignore_payload_params o))) (rq_multipart r)).

Definition urlencoded_part (o : options) (r : request) : key :=
  map (fun f => KSPair (fst f) (snd f))
      (filter (fun f => negb (mem (fst f) (o_ignore_payload_params o))) (rq_urlencoded r)).

Definition content_part (o : options) (r : request) : key :=
  if o_ignore_content o then []
  else if nonempty (o_ignore_payload_params o) && nonempty (rq_multipart r) then multipart_part o r
  else if nonempty (o_ignore_payload_params o) && nonempty (rq_urlencoded r) then urlencoded_part o r
  else [KStr (rq_content r)].

Definition host_part (o : options) (r : request) : key :=
  if o_ignore_host o then [] else [KStr (rq_host r)].

Definition port_part (o : options) (r : request) : key :=
  if o_ignore_port o then [] else [KInt (rq_port r)].

Definition filtered_query (o : options) (r : request) : list (bytes * bytes) :=
  filter (fun p => negb (mem (fst p) (o_ignore_params o))) (rq_query r).

Fixpoint flat_query (q : list (bytes * bytes)) : key :=
  match q with
  | [] => []
  | (k, v) :: rest => KStr k :: KStr v :: flat_query rest
  end.

Definition headers_part (o : options) (r : request) : key :=
  if nonempty (o_use_headers o)
  then [KHeaders (map (fun i => (i, headers_get i (rq_headers r))) (o_use_headers o))]
  else [].

Definition _hash (o : options) (r : request) : key :=
  [KStr (rq_scheme r); KStr (rq_method r); KStr (rq_path r)]
  ++ content_part o r ++ host_part o r ++ port_part o r
  ++ flat_query (filtered_query o r) ++ headers_part o r.

(* ---------- flowmap: insertion-ordered dict key -> list of recordings ---------- *)

Definition flowmap := list (key * list recording).

(* lst = flowmap.setdefault(k, []); lst.append(r) *)
Fixpoint fm_add (k : key) (r : recording) (m : flowmap) : flowmap :=
  match m with
  | [] => [(k, [r])]
  | (k2, l) :: rest => if key_eqb k k2 then (k2, l ++ [r]) :: rest else (k2, l) :: fm_add k r rest
  end.

Fixpoint fm_find (k : key) (m : flowmap) : option (list recording) :=
  match m with
  | [] => None
  | (k2, l) :: rest => if key_eqb k k2 then Some l else fm_find k rest
  end.

(* del flowmap[k] *)
Fixpoint fm_del (k : key) (m : flowmap) : flowmap :=
  match m with
  | [] => []
  | (k2, l) :: rest => if key_eqb k k2 then rest else (k2, l) :: fm_del k rest
  end.

(* in-place mutation of the list stored under k *)
Fixpoint fm_set (k : key) (l : list recording) (m : flowmap) : flowmap :=
  match m with
  | [] => []
  | (k2, l2) :: rest => if key_eqb k k2 then (k2, l) :: rest else (k2, l2) :: fm_set k l rest
  end.

Definition add_flow (o : options) (m : flowmap) (f : flow) : flowmap :=
  match f with
  | FHttp r => fm_add (_hash o (rec_req r)) r m
  | FOther => m
  end.

Definition add_flows (o : options) (fs : list flow) (m : flowmap) : flowmap :=
  fold_left (add_flow o) fs m.

Definition load_flows (o : options) (fs : list flow) : flowmap := add_flows o fs [].

Definition clear : flowmap := [].

(* [flow for lst in flowmap.values() for flow in lst] *)
Definition pending (m : flowmap) : list recording := concat (map snd m).

Definition count (m : flowmap) : N := N.of_nat (length (pending m)).

Definition recompute_hashes (o : options) (m : flowmap) : flowmap :=
  load_flows o (map FHttp (pending m)).

(* ---------- next_flow ---------- *)

(* the pop(0) loop on a non-empty list: first recording with a response and what is left *)
Fixpoint pop_loop (l : list recording) : option recording * list recording :=
  match l with
  | [] => (None, [])
  | r :: t => if rec_has_resp r then (Some r, t) else pop_loop t
  end.

Inductive nf_result :=
| NfFlow (r : recording)
| NfNone
| NfIndexError.           (* pop(0) on an empty bucket *)

Definition next_flow (o : options) (rq : request) (m : flowmap) : nf_result * flowmap :=
  let h := _hash o rq in
  match fm_find h m with
  | Some l =>
      if o_reuse o || o_nopop o then
        match find rec_has_resp l with
        | Some r => (NfFlow r, m)
        | None => (NfNone, m)
        end
      else
        match l with
        | [] => (NfIndexError, m)
        | _ =>
            match pop_loop l with
            | (Some r, rest) =>
                (NfFlow r, if nonempty rest then fm_set h rest m else fm_del h m)
            | (None, _) => (NfNone, fm_del h m)
            end
        end
  | None => (NfNone, m)
  end.

(* ---------- request hook ---------- *)

Inductive outcome :=
| Served (r : recording)    (* f.response = copy of r.response, is_replay = response *)
| Killed                    (* f.kill() *)
| Status (code : N)         (* f.response = Response.make(code), is_replay = response *)
| Forward                   (* flow untouched *)
| Raised.                   (* IndexError escaped *)

Definition request_hook (o : options) (rq : request) (m : flowmap) : outcome * flowmap :=
  if nonempty m then
    match next_flow o rq m with
    | (NfFlow r, m2) => (Served r, m2)
    | (NfIndexError, m2) => (Raised, m2)
    | (NfNone, m2) =>
        if o_kill_extra o || (match o_extra o with EKill => true | _ => false end)
        then (Killed, m2)
        else match o_extra o with
             | ECode c => (Status c, m2)
             | _ => (Forward, m2)
             end
    end
  else (Forward, m).

Definition is_replay (x : outcome) : bool :=
  match x with Served _ | Status _ => true | _ => false end.

(* ---------- configure ---------- *)

Definition apply_set (o : options) (u : optset) : options :=
  match u with
  | SetIgnoreContent b => Build_options b (o_ignore_host o) (o_ignore_port o) (o_ignore_params o)
      (o_ignore_payload_params o) (o_use_headers o) (o_reuse o) (o_nopop o) (o_kill_extra o) (o_extra o)
  | SetIgnoreHost b => Build_options (o_ignore_content o) b (o_ignore_port o) (o_ignore_params o)
      (o_ignore_payload_params o) (o_use_headers o) (o_reuse o) (o_nopop o) (o_kill_extra o) (o_extra o)
  | SetIgnorePort b => Build_options (o_ignore_content o) (o_ignore_host o) b (o_ignore_params o)
      (o_ignore_payload_params o) (o_use_headers o) (o_reuse o) (o_nopop o) (o_kill_extra o) (o_extra o)
  | SetIgnoreParams l => Build_options (o_ignore_content o) (o_ignore_host o) (o_ignore_port o) l
      (o_ignore_payload_params o) (o_use_headers o) (o_reuse o) (o_nopop o) (o_kill_extra o) (o_extra o)
  | SetIgnorePayloadParams l => Build_options (o_ignore_content o) (o_ignore_host o) (o_ignore_port o)
      (o_ignore_params o) l (o_use_headers o) (o_reuse o) (o_nopop o) (o_kill_extra o) (o_extra o)
  | SetUseHeaders l => Build_options (o_ignore_content o) (o_ignore_host o) (o_ignore_port o)
      (o_ignore_params o) (o_ignore_payload_params o) l (o_reuse o) (o_nopop o) (o_kill_extra o) (o_extra o)
  | SetReuse b => Build_options (o_ignore_content o) (o_ignore_host o) (o_ignore_port o)
      (o_ignore_params o) (o_ignore_payload_params o) (o_use_headers o) b (o_nopop o) (o_kill_extra o) (o_extra o)
  | SetNopop b => Build_options (o_ignore_content o) (o_ignore_host o) (o_ignore_port o)
      (o_ignore_params o) (o_ignore_payload_params o) (o_use_headers o) (o_reuse o) b (o_kill_extra o) (o_extra o)
  | SetKillExtra b => Build_options (o_ignore_content o) (o_ignore_host o) (o_ignore_port o)
      (o_ignore_params o) (o_ignore_payload_params o) (o_use_headers o) (o_reuse o) (o_nopop o) b (o_extra o)
  | SetExtra e => Build_options (o_ignore_content o) (o_ignore_host o) (o_ignore_port o)
      (o_ignore_params o) (o_ignore_payload_params o) (o_use_headers o) (o_reuse o) (o_nopop o) (o_kill_extra o) e
  end.

(* option in HASH_OPTIONS *)
Definition in_hash_options (u : optset) : bool :=
  match u with
  | SetIgnoreContent _ | SetIgnoreHost _ | SetIgnorePort _ | SetIgnoreParams _
  | SetIgnorePayloadParams _ | SetUseHeaders _ => true
  | _ => false
  end.

(* options.update with keyword arguments, followed by the configure hook with updated = kwargs.keys() *)
Definition configure (o : options) (upd : list optset) (m : flowmap) : options * flowmap :=
  let o2 := fold_left apply_set upd o in
  if existsb in_hash_options upd then (o2, recompute_hashes o2 m) else (o2, m).

(* ---------- histories ---------- *)

Inductive op :=
| OLoad (fs : list flow)        (* replay.server *)
| OAdd (fs : list flow)         (* replay.server.add *)
| OClear                        (* replay.server.stop *)
| ORequest (rq : request)       (* the request hook *)
| OConfigure (upd : list optset).

Record state := { st_opts : options; st_map : flowmap }.

Definition step (s : state) (x : op) : state * option outcome :=
  match x with
  | OLoad fs => (Build_state (st_opts s) (load_flows (st_opts s) fs), None)
  | OAdd fs => (Build_state (st_opts s) (add_flows (st_opts s) fs (st_map s)), None)
  | OClear => (Build_state (st_opts s) clear, None)
  | ORequest rq =>
      let '(out, m2) := request_hook (st_opts s) rq (st_map s) in
      (Build_state (st_opts s) m2, Some out)
  | OConfigure upd =>
      let '(o2, m2) := configure (st_opts s) upd (st_map s) in
      (Build_state o2 m2, None)
  end.

(* run a history, collecting the state and the result after every operation *)
Fixpoint run (s : state) (h : list op) : list (state * option outcome) :=
  match h with
  | [] => []
  | x :: rest => let '(s2, out) := step s x in (s2, out) :: run s2 rest
  end.

Definition init (o : options) : state := Build_state o [].
