(* Model/MvForm.v -- Request._set_urlencoded_form / _get_urlencoded_form on a whole message
   (header list + body), including the setter's content-type write and Message.set_content's
   content-length update. Message.get_text is abstract: the functions receive the text it returns
   (old_text = get_text of the old body under the NEW content-type header, because the setter
   assigns the header first; text = get_text of the body under the current header). No
   Content-Encoding header (C31). *)
From Coq Require Import String.
From Coq Require Import List Bool NArith.
From MV Require Import Base.Bytes Model.MvCommon Model.MvUrl.
Import ListNotations.

Definition CT_NAME : bytes := Eval compute in B "content-type".
Definition CL_NAME : bytes := Eval compute in B "content-length".
Definition TE_NAME : bytes := Eval compute in B "transfer-encoding".
Definition FORM_CT : bytes := Eval compute in B "application/x-www-form-urlencoded".
Definition COMMA_SP : bytes := [x2c; x20].

(* Headers.get(name, empty string): the values folded with comma-space *)
Definition header_get (name : bytes) (h : fields) : bytes := join COMMA_SP (get_all name h).
(* name in headers *)
Definition has_header (name : bytes) (h : fields) : bool :=
  match get_all name h with [] => false | _ => true end.

(* Message.set_content (identity coding): body stored, content-length refreshed unless chunked *)
Definition set_content (h : fields) (body : bytes) : fields * bytes :=
  (if has_header TE_NAME h then h
   else set_all CL_NAME [dec_of_N (N.of_nat (length body))] h, body).

(* Request._set_urlencoded_form *)
Definition set_form_msg (h : fields) (old_text : option bytes) (l : pairs) : fields * bytes :=
  let h1 := set_all CT_NAME [FORM_CT] h in
  set_content h1 (url_encode l old_text).

(* the content-type the getter (and get_text) sees *)
Definition ct_of (h : fields) : bytes := header_get CT_NAME h.

(* Request._get_urlencoded_form; text = get_text(strict=False) of the body under ct_of h *)
Definition get_form_msg (h : fields) (text : bytes) : pairs :=
  if contains FORM_CT (lower (ct_of h)) then url_decode text else [].

Definition is_ascii (b : byte) : bool := (bN b <? 128)%N.
