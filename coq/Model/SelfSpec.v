(* Model/SelfSpec.v -- the SPECIFICATION side of C23: which destinations denote one of
   mitmproxy's own listening sockets.  Destinations are what the proxy is asked to connect to:
   a host string, a port, a transport.  Listen addresses are what getsockname() reports
   (numeric host, port).  Spellings are given by PRINTERS from addresses (dotted), so the spec
   needs no text parser:
     - loopback names: localhost in any letter case, with or without one trailing dot;
     - every address of 127.0.0.0/8 in dotted-decimal notation;
     - ::1 (compressed, short and exploded notation);
     - IPv4-mapped loopback  ::ffff:127.x.y.z ;
     - the wildcard addresses 0.0.0.0 and :: (connecting to them reaches the local host).
   These local destinations reach a listener bound to a loopback or wildcard address; any
   destination spelled exactly like the listen address reaches that listener.  The transport must
   be the one the server listens on (servers of transport both listen on TCP and UDP).
   Not covered (documented in design/C23.md): inet_aton short forms (127.1, 2130706433, 0x7f.1),
   other names resolving to loopback, the machine's own interface addresses when listening on all
   interfaces.  Definitions only. *)
From Coq Require Import NArith List Bool.
From MV Require Import Base.Bytes Model.SelfConnectBase.
Import ListNotations.
Open Scope N_scope.

Definition dot : byte := x2e.

Definition dotted (n : N) : bytes :=
  dec_of_N (n / 16777216 mod 256) ++ dot :: dec_of_N (n / 65536 mod 256) ++ dot
    :: dec_of_N (n / 256 mod 256) ++ dot :: dec_of_N (n mod 256).

Definition in_loop4 (n : N) : bool := (2130706432 <=? n) && (n <=? 2147483647).   (* 127.0.0.0/8 *)

Definition s_localhost : bytes := [x6c;x6f;x63;x61;x6c;x68;x6f;x73;x74].          (* localhost *)
Definition s_127_0_0_1 : bytes := [x31;x32;x37;x2e;x30;x2e;x30;x2e;x31].          (* 127.0.0.1 *)
Definition s_v6_loop : bytes := [x3a;x3a;x31].                                    (* ::1 *)
Definition s_v6_loop_short : bytes :=                                            (* 0:0:0:0:0:0:0:1 *)
  [x30;x3a;x30;x3a;x30;x3a;x30;x3a;x30;x3a;x30;x3a;x30;x3a;x31].
Definition s_v6_loop_exploded : bytes :=                (* 0000:0000:0000:0000:0000:0000:0000:0001 *)
  [x30;x30;x30;x30;x3a;x30;x30;x30;x30;x3a;x30;x30;x30;x30;x3a;x30;x30;x30;x30;x3a;
   x30;x30;x30;x30;x3a;x30;x30;x30;x30;x3a;x30;x30;x30;x30;x3a;x30;x30;x30;x31].
Definition s_mapped_prefix : bytes := [x3a;x3a;x66;x66;x66;x66;x3a].              (* ::ffff: *)
Definition s_wild4 : bytes := [x30;x2e;x30;x2e;x30;x2e;x30].                      (* 0.0.0.0 *)
Definition s_wild6 : bytes := [x3a;x3a].                                          (* :: *)

Definition strip_dot (s : bytes) : bytes :=
  match rev s with b :: r => if byte_eqb b dot then rev r else s | [] => s end.

Definition is_localhost_name (s : bytes) : bool := bytes_eqb (lower (strip_dot s)) s_localhost.

Inductive local_dest : bytes -> Prop :=
| LD_name : forall s, is_localhost_name s = true -> local_dest s
| LD_v4 : forall n, in_loop4 n = true -> local_dest (dotted n)
| LD_v6 : forall s, In s [s_v6_loop; s_v6_loop_short; s_v6_loop_exploded] -> local_dest s
| LD_mapped : forall n, in_loop4 n = true -> local_dest (s_mapped_prefix ++ dotted n)
| LD_wild : forall s, In s [s_wild4; s_wild6] -> local_dest s.

(* the listener is bound to a loopback or wildcard address (numeric, as getsockname prints it) *)
Definition local_listen (lh : bytes) : Prop :=
  (exists n, in_loop4 n = true /\ lh = dotted n) \/ lh = s_v6_loop \/ lh = s_wild4 \/ lh = s_wild6.

Definition transport_compatible (mode_t conn_t : transport) : Prop := mode_t = conn_t \/ mode_t = BOTH.

Definition denotes_listener (srv : server) (la : bytes * N) (ch : bytes) (cp : N) (ct : transport) : Prop :=
  cp = snd la
  /\ transport_compatible (mode_transport srv) ct
  /\ (ch = fst la \/ (local_listen (fst la) /\ local_dest ch)).
