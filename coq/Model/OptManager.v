(* Model/OptManager.v -- executable model of mitmproxy/optmanager.py (OptManager, _Option) and of
   utils/typecheck.check_option_type restricted to the option type universe.  No proofs here.

   Values: Python objects that can be handed to an option: None, bool, int, str (UTF-8 bytes), list/tuple whose
   items are either str or something else (only the str-ness of an item matters to check_option_type), and
   VOther for everything else (float, bytes, dict, ...).
   Listeners (subscribers of OptManager.subscribe and direct receivers of the .changed signal) are ARBITRARY:
   the Section variable [behave l s updated] says how listener l reacts when called in state s (which includes the
   whole log of earlier notifications, so listeners may be stateful) with the set [updated]: it returns (Accept),
   raises OptionsError (Reject), or re-enters the manager with a nested self.update(kw) whose exception, if any,
   propagates out of the listener (Nested kw; what addons do from configure).  The nested call is the Section
   variable [nested]; [nested_update] ties the knot with a recursion-depth fuel.
   Variant flags (read from the live code by the harness, theorems quantify over them):
     vt = update_known type-checks every known value before assigning any  (fixes/C44-validate-before-assign.diff)
     vu = update refuses unknown names before assigning anything           (same diff)
   With both false the model is the unchanged code. *)
From Coq Require Import List Bool NArith ZArith.
From MV Require Import Base.Bytes.
Import ListNotations.

Definition name := N.

Inductive base := BBool | BInt | BStr.
(* bool/int/str, Optional[...], Sequence[str] *)
Inductive ty := TBase (b : base) | TOptional (b : base) | TSeqStr.

Inductive item := IStr (s : bytes) | INonStr (tag : N).
Inductive val :=
| VNone | VBool (b : bool) | VInt (z : Z) | VStr (s : bytes)
| VSeq (is_tuple : bool) (items : list item)
| VOther (tag : N).

(* ---- utils/typecheck.py ---- *)
Definition isinstance (v : val) (b : base) : bool :=
  match b, v with
  | BBool, VBool _ => true
  | BInt, VInt _ => true
  | BInt, VBool _ => true            (* bool is a subclass of int *)
  | BStr, VStr _ => true
  | _, _ => false
  end.
Definition is_none (v : val) : bool := match v with VNone => true | _ => false end.
Definition item_is_str (i : item) : bool := match i with IStr _ => true | INonStr _ => false end.

Definition check_option_type (v : val) (t : ty) : bool :=
  match t with
  | TOptional b => isinstance v b || is_none v      (* Union: first member that accepts *)
  | TSeqStr => match v with VSeq _ items => forallb item_is_str items | _ => false end
  | TBase b => isinstance v b
  end.

(* ---- Python == on values ---- *)
Definition item_eqb (a b : item) : bool :=
  match a, b with
  | IStr x, IStr y => bytes_eqb x y
  | INonStr x, INonStr y => N.eqb x y
  | _, _ => false
  end.
Definition py_eq (a b : val) : bool :=
  match a, b with
  | VNone, VNone => true
  | VBool x, VBool y => Bool.eqb x y
  | VInt x, VInt y => Z.eqb x y
  | VBool x, VInt y => Z.eqb (Z.b2z x) y
  | VInt x, VBool y => Z.eqb x (Z.b2z y)
  | VStr x, VStr y => bytes_eqb x y
  | VSeq t1 l1, VSeq t2 l2 => Bool.eqb t1 t2 && list_eqb item_eqb l1 l2
  | VOther x, VOther y => N.eqb x y
  | _, _ => false
  end.
Definition truthy (v : val) : bool :=
  match v with
  | VNone => false | VBool b => b | VInt z => negb (Z.eqb z 0)
  | VStr s => match s with [] => false | _ => true end
  | VSeq _ l => match l with [] => false | _ => true end
  | VOther _ => true
  end.

(* ---- _Option ---- *)
Record opt := mkOpt { otype : ty; odefault : val; ovalue : option val (* None = unset *) }.
Definition current (o : opt) : val := match ovalue o with Some v => v | None => odefault o end.
Definition has_changed (o : opt) : bool := negb (py_eq (current o) (odefault o)).
Definition set_value (o : opt) (v : val) : opt := mkOpt (otype o) (odefault o) (Some v).
Definition reset_opt (o : opt) : opt := mkOpt (otype o) (odefault o) None.
(* _Option.__deepcopy__: the copy keeps a value only if it differs (==) from the default *)
Definition deepcopy_opt (o : opt) : opt :=
  mkOpt (otype o) (odefault o) (if has_changed o then Some (current o) else None).

(* ---- dicts (insertion ordered) and sets of names ---- *)
Fixpoint dget {A} (k : name) (d : list (name * A)) : option A :=
  match d with
  | [] => None
  | (k', v) :: t => if N.eqb k k' then Some v else dget k t
  end.
Definition dmem {A} (k : name) (d : list (name * A)) : bool :=
  match dget k d with Some _ => true | None => false end.
Fixpoint dset {A} (k : name) (v : A) (d : list (name * A)) : list (name * A) :=
  match d with
  | [] => [(k, v)]
  | (k', v') :: t => if N.eqb k k' then (k, v) :: t else (k', v') :: dset k v t
  end.
Fixpoint ddel {A} (k : name) (d : list (name * A)) : list (name * A) :=
  match d with
  | [] => []
  | (k', v') :: t => if N.eqb k k' then t else (k', v') :: ddel k t
  end.
Definition dmap {A B} (f : A -> B) (d : list (name * A)) : list (name * B) :=
  map (fun p => (fst p, f (snd p))) d.

Fixpoint sins (x : name) (l : list name) : list name :=
  match l with
  | [] => [x]
  | y :: t => if N.ltb x y then x :: l else if N.eqb x y then l else y :: sins x t
  end.
Definition set_of (l : list name) : list name := fold_right sins [] l.
Definition nmem (x : name) (l : list name) : bool := existsb (N.eqb x) l.
Definition intersects (a b : list name) : bool := existsb (fun x => nmem x b) a.

(* ---- state ---- *)
Definition snap := list (name * val).
Inductive kind := KAccept | KReject | KNested.
Inductive event :=
| Notified (l : N) (seen : snap) (updated : list name) (k : kind)   (* logged when the listener is entered *)
| Errored.                                  (* .errored signal sent *)
Inductive reaction := Accept | Reject | Nested (kw : list (name * val)).
Inductive dval := DVal (v : val) | DStrings (l : list bytes).   (* _UnconvertedStrings *)

Record state := mkState {
  options : list (name * opt);
  deferred : list (name * dval);
  (* both lists hold WEAK references: None = the callable has been garbage collected (dead entry) *)
  subscriptions : list (option N * list name);   (* OptManager.subscribe, in order *)
  receivers : list (option N);                   (* changed.connect, after _notify_subscribers *)
  log : list event                          (* newest first *)
}.
Definition init : state := mkState [] [] [] [] [].
Definition set_options (o : list (name * opt)) (s : state) : state :=
  mkState o (deferred s) (subscriptions s) (receivers s) (log s).
Definition set_deferred (d : list (name * dval)) (s : state) : state :=
  mkState (options s) d (subscriptions s) (receivers s) (log s).
Definition add_log (e : event) (s : state) : state :=
  mkState (options s) (deferred s) (subscriptions s) (receivers s) (e :: log s).
Definition snapshot (o : list (name * opt)) : snap := dmap current o.
(* the callables that are still alive, in list order (for ref in refs: r = ref(); if r is not None: ...) *)
Fixpoint somes {A} (l : list (option A)) : list A :=
  match l with [] => [] | Some x :: t => x :: somes t | None :: t => somes t end.
Definition kill (l : N) (e : option N) : option N :=
  match e with Some x => if N.eqb x l then None else e | None => None end.

Inductive err := ETypeError | EOptionsError | EKeyError | ENotImplemented
               | EFuel                       (* nesting deeper than the fuel: distinct out-of-fuel result *)
               | EOther.                     (* never produced by the model *)
Inductive nres := NOk | NRaised (e : err).  (* outcome of one signal send *)
Inductive result := ROk | RUnknown (u : list (name * val)) | RErr (e : err).
Inductive ures := UOk (unknown : list (name * val)) | UErr (e : err).

(* ---- _parse_setval ---- *)
Definition is_pyspace (b : byte) : bool :=
  match bN b with 9 | 10 | 11 | 12 | 13 | 32 => true | _ => false end%N.
Fixpoint lstrip (s : bytes) : bytes :=
  match s with c :: t => if is_pyspace c then lstrip t else s | [] => [] end.
Definition strip (s : bytes) : bytes := rev (lstrip (rev (lstrip s))).
Fixpoint digits (s : bytes) (acc : Z) (prev_digit : bool) : option Z :=
  match s with
  | [] => if prev_digit then Some acc else None
  | c :: t =>
      if is_digit c then digits t (acc * 10 + Z.of_N (bN c - 48)) true
      else if byte_eqb c x5f then (if prev_digit then digits t acc false else None)
      else None
  end.
(* int(str) for ASCII strings, base 10 *)
Definition py_int (s : bytes) : option Z :=
  match strip s with
  | c :: t =>
      if byte_eqb c x2b then digits t 0 false
      else if byte_eqb c x2d then option_map Z.opp (digits t 0 false)
      else digits (c :: t) 0 false
  | [] => None
  end.

Definition s_toggle : bytes := [x74; x6f; x67; x67; x6c; x65].
Definition s_true : bytes := [x74; x72; x75; x65].
Definition s_false : bytes := [x66; x61; x6c; x73; x65].

Inductive pres := PVal (v : val) | PErr (e : err).
Definition parse_setval (o : opt) (values : list bytes) : pres :=
  match otype o with
  | TSeqStr => PVal (VSeq false (map IStr values))
  | t =>
    match values with
    | _ :: _ :: _ => PErr EOptionsError
    | _ =>
      let optstr := hd_error values in
      match t with
      | TBase BStr => match optstr with None => PErr EOptionsError | Some s => PVal (VStr s) end
      | TOptional BStr => match optstr with None => PVal VNone | Some s => PVal (VStr s) end
      | TBase BInt | TOptional BInt =>
          match optstr with
          | Some (c :: r) => match py_int (c :: r) with Some z => PVal (VInt z) | None => PErr EOptionsError end
          | _ => match t with TBase _ => PErr EOptionsError | _ => PVal VNone end
          end
      | TBase BBool =>
          match optstr with
          | None => PVal (VBool true)
          | Some s =>
              if bytes_eqb s s_toggle then PVal (VBool (negb (truthy (current o))))
              else if match s with [] => true | _ => false end || bytes_eqb s s_true then PVal (VBool true)
              else if bytes_eqb s s_false then PVal (VBool false)
              else PErr EOptionsError
          end
      | _ => PErr ENotImplemented
      end
    end
  end.

Section Manager.
  Variable behave : N -> state -> list name -> reaction.
  Variable vt vu : bool.
  Variable nested : list (name * val) -> state -> state * result.   (* self.update called from inside a listener *)

  (* ---- signals ---- *)
  Definition targets (s : state) (updated : list name) : list N :=
    somes (map fst (filter (fun p => intersects (snd p) updated) (subscriptions s))) ++ somes (receivers s).

  (* SyncSignal.send: call the listeners in order; the first exception propagates *)
  Fixpoint notify (ls : list N) (updated : list name) (s : state) : state * nres :=
    match ls with
    | [] => (s, NOk)
    | l :: t =>
        match behave l s updated with
        | Accept => notify t updated (add_log (Notified l (snapshot (options s)) updated KAccept) s)
        | Reject => (add_log (Notified l (snapshot (options s)) updated KReject) s, NRaised EOptionsError)
        | Nested kw =>
            match nested kw (add_log (Notified l (snapshot (options s)) updated KNested) s) with
            | (s2, RErr e) => (s2, NRaised e)
            | (s2, _) => notify t updated s2
            end
        end
    end.
  Definition changed_send (updated : list name) (s : state) : state * nres :=
    notify (targets s updated) updated s.

  (* ---- add_option ---- *)
  Definition add_option (n : name) (t : ty) (d : val) (s : state) : state * result :=
    if negb (check_option_type d t) then (s, RErr ETypeError)
    else
      let s1 := set_options (dset n (mkOpt t d None) (options s)) s in
      let (s2, r) := changed_send [n] s1 in
      (s2, match r with NOk => ROk | NRaised e => RErr e end).

  (* ---- update_known with rollback ---- *)
  Definition is_known (o : list (name * opt)) (p : name * val) : bool := dmem (fst p) o.
  Definition value_ok (o : list (name * opt)) (p : name * val) : bool :=
    match dget (fst p) o with Some x => check_option_type (snd p) (otype x) | None => true end.

  (* for k, v in known.items(): self._options[k].set(v) -- stops at the first TypeError *)
  Fixpoint assign (known : list (name * val)) (o : list (name * opt)) : list (name * opt) * bool :=
    match known with
    | [] => (o, true)
    | (k, v) :: t =>
        match dget k o with
        | None => assign t o
        | Some x =>
            if check_option_type v (otype x) then assign t (dset k (set_value x v) o)
            else (o, false)
        end
    end.

  Definition update_known (kwargs : list (name * val)) (s : state) : state * ures :=
    let known := filter (is_known (options s)) kwargs in
    let unknown := filter (fun p => negb (is_known (options s) p)) kwargs in
    let updated := set_of (map fst known) in
    match known with
    | [] => (s, UOk unknown)
    | _ =>
        if vt && negb (forallb (value_ok (options s)) known) then (s, UErr ETypeError)
        else
          let old := dmap deepcopy_opt (options s) in           (* rollback: copy.deepcopy(self._options) *)
          match assign known (options s) with
          | (o1, false) => (set_options o1 s, UErr ETypeError)   (* TypeError is not caught by rollback *)
          | (o1, true) =>
              match changed_send updated (set_options o1 s) with
              | (s2, NOk) => (s2, UOk unknown)
              | (s2, NRaised EOptionsError) =>
                  let s3 := set_options old (add_log Errored s2) in
                  match changed_send updated s3 with
                  | (s4, NOk) => (s4, UErr EOptionsError)       (* reraise *)
                  | (s4, NRaised e) => (s4, UErr e)             (* a new exception escapes from the except block *)
                  end
              | (s2, NRaised e) => (s2, UErr e)                 (* not an OptionsError: no rollback *)
              end
          end
    end.

  Definition update (kwargs : list (name * val)) (s : state) : state * result :=
    if vu && negb (forallb (is_known (options s)) kwargs) then (s, RErr EKeyError)
    else
      match update_known kwargs s with
      | (s1, UErr e) => (s1, RErr e)
      | (s1, UOk []) => (s1, ROk)
      | (s1, UOk _) => (s1, RErr EKeyError)
      end.

  Definition dict_update {A} (new : list (name * A)) (d : list (name * A)) : list (name * A) :=
    fold_left (fun acc p => dset (fst p) (snd p) acc) new d.

  Definition update_defer (kwargs : list (name * val)) (s : state) : state * result :=
    match update_known kwargs s with
    | (s1, UErr e) => (s1, RErr e)
    | (s1, UOk u) => (set_deferred (dict_update (dmap DVal u) (deferred s1)) s1, ROk)
    end.

  Definition setattr (n : name) (v : val) (s : state) : state * result :=
    match options s with
    | [] => (s, ROk)                 (* plain instance attribute, no option involved *)
    | _ => update [(n, v)] s
    end.

  Definition reset (s : state) : state * result :=
    let s1 := set_options (dmap reset_opt (options s)) s in
    let (s2, r) := changed_send (set_of (map fst (options s))) s1 in
    (s2, match r with NOk => ROk | NRaised e => RErr e end).

  Definition subscribe (l : N) (opts : list name) (s : state) : state * result :=
    if forallb (fun n => dmem n (options s)) opts
    then (mkState (options s) (deferred s) (subscriptions s ++ [(Some l, opts)]) (receivers s) (log s), ROk)
    else (s, RErr EOptionsError).
  Definition connect (l : N) (s : state) : state * result :=
    (mkState (options s) (deferred s) (subscriptions s) (receivers s ++ [Some l]) (log s), ROk).
  (* every callable of listener l is dropped and garbage collected: its weak references go dead.  The dead entries
     stay in the lists (the code prunes them after a later send; when exactly is not observable by listeners). *)
  Definition drop (l : N) (s : state) : state * result :=
    (mkState (options s) (deferred s) (map (fun p => (kill l (fst p), snd p)) (subscriptions s))
             (map (kill l) (receivers s)) (log s), ROk).

  (* ---- process_deferred ---- *)
  Fixpoint collect_deferred (d : list (name * dval)) (o : list (name * opt))
    : list (name * val) + err :=
    match d with
    | [] => inl []
    | (n, dv) :: t =>
        match dget n o with
        | None => collect_deferred t o
        | Some x =>
            match (match dv with DVal v => PVal v | DStrings l => parse_setval x l end) with
            | PErr e => inr e
            | PVal v => match collect_deferred t o with inl r => inl ((n, v) :: r) | inr e => inr e end
            end
        end
    end.
  Definition process_deferred (s : state) : state * result :=
    match collect_deferred (deferred s) (options s) with
    | inr e => (s, RErr e)
    | inl upd =>
        match update upd s with
        | (s1, ROk) => (set_deferred (fold_left (fun d p => ddel (fst p) d) upd (deferred s1)) s1, ROk)
        | (s1, r) => (s1, r)
        end
    end.

  (* ---- OptManager.set with star-specs and defer ; a spec is pre-split at the first equals sign ---- *)
  Definition group_specs (specs : list (name * option bytes)) : list (name * list bytes) :=
    fold_left (fun acc p =>
      let cur := match dget (fst p) acc with Some l => l | None => [] end in
      dset (fst p) (match snd p with Some v => cur ++ [v] | None => cur end) acc) specs [].
  Fixpoint parse_known (u : list (name * list bytes)) (o : list (name * opt)) : list (name * val) + err :=
    match u with
    | [] => inl []
    | (n, vals) :: t =>
        match dget n o with
        | None => parse_known t o
        | Some x =>
            match parse_setval x vals with
            | PErr e => inr e
            | PVal v => match parse_known t o with inl r => inl ((n, v) :: r) | inr e => inr e end
            end
        end
    end.
  Definition set_specs (specs : list (name * option bytes)) (defer : bool) (s : state) : state * result :=
    let unprocessed := group_specs specs in
    match parse_known unprocessed (options s) with
    | inr e => (s, RErr e)
    | inl processed =>
        let rest := filter (fun p => negb (dmem (fst p) (options s))) unprocessed in
        if defer then update processed (set_deferred (dict_update (dmap DStrings rest) (deferred s)) s)
        else match rest with
             | [] => update processed s
             | _ => (s, RErr EOptionsError)
             end
    end.

  (* ---- histories ---- *)
  Inductive op :=
  | AddOption (n : name) (t : ty) (d : val)
  | UpdateKnown (kw : list (name * val))
  | Update (kw : list (name * val))
  | UpdateDefer (kw : list (name * val))
  | Setattr (n : name) (v : val)
  | Reset
  | Subscribe (l : N) (opts : list name)
  | Connect (l : N)
  | SetSpecs (specs : list (name * option bytes)) (defer : bool)
  | ProcessDeferred
  | Drop (l : N).

  Definition step (o : op) (s : state) : state * result :=
    match o with
    | AddOption n t d => add_option n t d s
    | UpdateKnown kw => match update_known kw s with (s1, UOk u) => (s1, RUnknown u) | (s1, UErr e) => (s1, RErr e) end
    | Update kw => update kw s
    | UpdateDefer kw => update_defer kw s
    | Setattr n v => setattr n v s
    | Reset => reset s
    | Subscribe l opts => subscribe l opts s
    | Connect l => connect l s
    | SetSpecs specs d => set_specs specs d s
    | ProcessDeferred => process_deferred s
    | Drop l => drop l s
    end.

  (* exceptions are caught by the caller; the history goes on *)
  Fixpoint run (ops : list op) (s : state) : state :=
    match ops with
    | [] => s
    | o :: t => run t (fst (step o s))
    end.
End Manager.

(* the nested self.update of a listener: the same update, one level deeper *)
Fixpoint nested_update (behave : N -> state -> list name -> reaction) (vt vu : bool) (fuel : nat)
  (kw : list (name * val)) (s : state) : state * result :=
  match fuel with
  | O => (s, RErr EFuel)
  | S f => update behave vt vu (nested_update behave vt vu f) kw s
  end.
Definition tstep behave vt vu (fuel : nat) := step behave vt vu (nested_update behave vt vu fuel).
Definition trun behave vt vu (fuel : nat) := run behave vt vu (nested_update behave vt vu fuel).
