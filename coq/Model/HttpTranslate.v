(* Model/HttpTranslate.v -- translation of HTTP messages between versions (C06).
   mitmproxy/proxy/layers/http/_http2.py: split_pseudo_headers, parse_h2_request_headers, parse_h2_response_headers,
   normalize_h1_headers, normalize_h2_headers, format_h2_request_headers, format_h2_response_headers (shared by _http3.py);
   _http1.py: the HTTP/2-or-3 to HTTP/1 conversion in Http1Client.send (Host insertion, authority cleared, Cookie joining) and Http1Server.send (version, reason phrase);
   layers/http/__init__.py: validate_request / check_invalid, the Expect: 100-continue rewrite;
   and, as an explicit boolean contract, what hyper-h2 4.4.1 rejects on inbound header blocks
   (h2.utilities.validate_headers as configured by Http2Connection.h2_conf + the content-length bookkeeping of
   h2.stream.H2Stream).  Executable definitions only.  HTTP/1 heads and assembly come from Model/Http1Msg.v (C01). *)
From Coq Require Import List Bool NArith ZArith.
From MV Require Import Base.Bytes Model.Http1Msg Gen.StatusReasons.
Import ListNotations.

(* ---------- constants *)
Definition P_METHOD : bytes := [x3a;x6d;x65;x74;x68;x6f;x64].
Definition P_SCHEME : bytes := [x3a;x73;x63;x68;x65;x6d;x65].
Definition P_AUTHORITY : bytes := [x3a;x61;x75;x74;x68;x6f;x72;x69;x74;x79].
Definition P_PATH : bytes := [x3a;x70;x61;x74;x68].
Definition P_STATUS : bytes := [x3a;x73;x74;x61;x74;x75;x73].
Definition P_PROTOCOL : bytes := [x3a;x70;x72;x6f;x74;x6f;x63;x6f;x6c].
Definition N_TE : bytes := [x74;x65].
Definition V_TRAILERS : bytes := [x74;x72;x61;x69;x6c;x65;x72;x73].
Definition N_HOST : bytes := [x68;x6f;x73;x74].
Definition N_HOST_CAP : bytes := [x48;x6f;x73;x74].
Definition N_COOKIE : bytes := [x63;x6f;x6f;x6b;x69;x65].
Definition N_EXPECT : bytes := [x65;x78;x70;x65;x63;x74].
Definition V_100_CONTINUE : bytes := [x31;x30;x30;x2d;x63;x6f;x6e;x74;x69;x6e;x75;x65].
Definition N_CONNECTION : bytes := [x63;x6f;x6e;x6e;x65;x63;x74;x69;x6f;x6e].
Definition N_PROXY_CONNECTION : bytes := [x70;x72;x6f;x78;x79;x2d;x63;x6f;x6e;x6e;x65;x63;x74;x69;x6f;x6e].
Definition N_KEEP_ALIVE : bytes := [x6b;x65;x65;x70;x2d;x61;x6c;x69;x76;x65].
Definition N_UPGRADE : bytes := [x75;x70;x67;x72;x61;x64;x65].
Definition N_TE_CAP : bytes := [x54;x72;x61;x6e;x73;x66;x65;x72;x2d;x45;x6e;x63;x6f;x64;x69;x6e;x67].
Definition V_HTTP : bytes := [x68;x74;x74;x70].
Definition V_HTTPS : bytes := [x68;x74;x74;x70;x73].
Definition V_HTTP11 : bytes := [x48;x54;x54;x50;x2f;x31;x2e;x31].
Definition SEMI_SP : bytes := [x3b;x20].

Definition mem (x : bytes) (l : list bytes) : bool := existsb (bytes_eqb x) l.

(* ---------- mitmproxy.http.Headers (coretypes.multidict) operations used by the conversion *)
Definition name_ci (lk : bytes) (f : header) : bool := bytes_eqb (lower (fst f)) lk.

(* headers[key] = value (set_all(key, [value])): the first field of that name keeps its spelling and position and
   gets the value, the other fields of that name are removed; appended when absent *)
Fixpoint hset_go (lk value : bytes) (h : headers) : option headers :=
  match h with
  | [] => None
  | f :: h' =>
      if name_ci lk f then Some ((fst f, value) :: filter (fun g => negb (name_ci lk g)) h')
      else match hset_go lk value h' with Some r => Some (f :: r) | None => None end
  end.
Definition hset (key value : bytes) (h : headers) : headers :=
  match hset_go (lower key) value h with Some r => r | None => h ++ [(key, value)] end.

(* headers.pop(key, None) / del headers[key]: every field of that name removed *)
Definition hdel (key : bytes) (h : headers) : headers := filter (fun g => negb (name_ci (lower key) g)) h.

(* "; ".join(values) *)
Fixpoint join_semi (vs : list bytes) : bytes :=
  match vs with
  | [] => []
  | [v] => v
  | v :: vs' => v ++ SEMI_SP ++ join_semi vs'
  end.

(* first value of the field whose name is exactly [n] *)
Fixpoint assoc_exact (n : bytes) (h : headers) : option bytes :=
  match h with
  | [] => None
  | (k, v) :: h' => if bytes_eqb k n then Some v else assoc_exact n h'
  end.
(* last value (a variable assigned in a loop) *)
Definition assoc_last (n : bytes) (h : headers) : option bytes := assoc_exact n (rev h).
Definition values_exact (n : bytes) (h : headers) : list bytes :=
  map snd (filter (fun f => bytes_eqb (fst f) n) h).

(* ---------- the hyper-h2 contract: h2.utilities.validate_headers(headers, flags), inbound *)
(* _reject_illegal_characters *)
Definition h2_name_char_ok (c : byte) : bool :=
  negb ((65 <=? bN c) && (bN c <=? 90))%N && (32 <? bN c)%N && (bN c <? 127)%N.
Definition h2_name_ok (n : bytes) : bool :=
  forallb h2_name_char_ok n && negb (existsb (byte_eqb COLON) (tl n)).
Definition is_bad_value_char (c : byte) : bool := byte_eqb c x00 || byte_eqb c x0a || byte_eqb c x0d.
Definition is_sp_ht (c : byte) : bool := byte_eqb c x20 || byte_eqb c x09.
Definition h2_value_ok (v : bytes) : bool :=
  match v with
  | [] => true
  | c0 :: _ => negb (existsb is_bad_value_char v) && negb (is_sp_ht c0) && negb (is_sp_ht (last v c0))
  end.
Definition h2_chars_ok (h : headers) : bool := forallb (fun f => h2_name_ok (fst f) && h2_value_ok (snd f)) h.

(* _reject_empty_header_names, _reject_te, _reject_connection_header *)
Definition CONNECTION_HEADERS : list bytes :=
  [N_CONNECTION; N_PROXY_CONNECTION; N_KEEP_ALIVE; TRANSFER_ENCODING; N_UPGRADE].
Definition h2_field_ok (f : header) : bool :=
  match fst f with [] => false | _ => true end
  && negb (bytes_eqb (fst f) N_TE && negb (bytes_eqb (lower (snd f)) V_TRAILERS))
  && negb (mem (fst f) CONNECTION_HEADERS).

(* _reject_pseudo_header_fields: the set of pseudo-header names seen, None = ProtocolError *)
Definition is_pseudo (n : bytes) : bool := match n with c :: _ => byte_eqb c COLON | [] => false end.
Definition ALLOWED_PSEUDO : list bytes := [P_METHOD; P_SCHEME; P_AUTHORITY; P_PATH; P_STATUS; P_PROTOCOL].
Fixpoint pseudo_scan (h : headers) (seen : list bytes) (seen_regular : bool) : option (list bytes) :=
  match h with
  | [] => Some seen
  | (n, _) :: h' =>
      if is_pseudo n then
        if mem n seen then None
        else if seen_regular then None
        else if negb (mem n ALLOWED_PSEUDO) then None
        else pseudo_scan h' (n :: seen) seen_regular
      else pseudo_scan h' seen true
  end.

(* _check_pseudo_header_field_acceptability *)
Definition pseudo_acceptable (is_response is_trailer : bool) (seen : list bytes) (method : option bytes) : bool :=
  if is_trailer && match seen with [] => false | _ => true end then false
  else if is_response then
    mem P_STATUS seen
    && negb (mem P_SCHEME seen || mem P_PATH seen || mem P_AUTHORITY seen || mem P_METHOD seen || mem P_PROTOCOL seen)
  else if is_trailer then true
  else
    mem P_METHOD seen
    && (let is_connect := match method with Some m => bytes_eqb m CONNECT | None => false end in
        let is_extended := is_connect && mem P_PROTOCOL seen in
        (if is_connect && negb is_extended then negb (mem P_SCHEME seen || mem P_PATH seen)
         else mem P_SCHEME seen && mem P_PATH seen)
        && negb (mem P_STATUS seen)
        && (is_connect || negb (mem P_PROTOCOL seen))).

(* _check_host_authority_header (requests that are not trailers) *)
Definition host_authority_ok (h : headers) : bool :=
  let auth := assoc_last P_AUTHORITY h in
  let hosts := values_exact N_HOST h in
  match hosts with
  | _ :: _ :: _ => false
  | [hv] => match auth with Some a => bytes_eqb a hv | None => true end
  | [] => match auth with Some _ => true | None => false end
  end.

(* _check_path_header *)
Definition path_nonempty_ok (h : headers) : bool :=
  forallb (fun f => negb (bytes_eqb (fst f) P_PATH && match snd f with [] => true | _ => false end)) h.

Definition h2_validate (is_response is_trailer : bool) (h : headers) : bool :=
  h2_chars_ok h && forallb h2_field_ok h
  && match pseudo_scan h [] false with
     | None => false
     | Some seen => pseudo_acceptable is_response is_trailer seen (assoc_last P_METHOD h)
     end
  && (if is_response || is_trailer then true else host_authority_ok h && path_nonempty_ok h).

(* int(v, 10) / int(v) on bytes: ASCII whitespace stripped first *)
Definition py_int_ws (s : bytes) : option Z := py_int (strip s).

(* H2Stream._initialize_content_length: None = ProtocolError, Some None = no expectation.  Every content-length field
   must be 1*DIGIT (bytes.isdigit) and all must denote the same number.
   [sent_method] is the method of the request this endpoint sent on the stream (client side), None on the server side *)
Definition all_digits (v : bytes) : bool := match v with [] => false | _ => forallb is_digit v end.
Definition digits_value (v : bytes) : N := fold_left (fun acc c => (acc * 10 + (bN c - 48))%N) v 0%N.
Fixpoint cl_scan (vals : list bytes) (acc : option N) : option (option N) :=
  match vals with
  | [] => Some acc
  | v :: r =>
      if all_digits v then
        match acc with
        | None => cl_scan r (Some (digits_value v))
        | Some m => if N.eqb (digits_value v) m then cl_scan r acc else None
        end
      else None
  end.
Definition h2_expected_length (sent_method : option bytes) (h : headers) : option (option N) :=
  if match sent_method with Some m => bytes_eqb m HEAD | None => false end then Some (Some 0%N)
  else cl_scan (values_exact CONTENT_LENGTH h) None.

(* _track_content_length over the DATA frames.  [body] = None: END_STREAM came with the HEADERS frame (no check);
   Some b: one DATA frame; it carries END_STREAM (total must equal the expectation) unless trailers follow (it must
   not exceed it) *)
Definition h2_length_ok (expected : option N) (body : option bytes) (has_trailers : bool) : bool :=
  match expected, body with
  | Some z, Some b => if has_trailers then (N.of_nat (length b) <=? z)%N else N.eqb z (N.of_nat (length b))
  | _, _ => true
  end.

(* is_informational_response *)
Fixpoint is_informational (h : headers) : bool :=
  match h with
  | [] => false
  | (n, v) :: h' =>
      if negb (is_pseudo n) then false
      else if bytes_eqb n P_STATUS then match v with c :: _ => byte_eqb c x31 | [] => false end
      else is_informational h'
  end.

(* ---------- _http2.py: split_pseudo_headers; None = ValueError (duplicate pseudo-header) *)
Fixpoint split_pseudo_headers (h : headers) (pseudo : headers) : option (headers * headers) :=
  match h with
  | (n, v) :: h' =>
      if is_pseudo n then
        if mem n (map fst pseudo) then None else split_pseudo_headers h' (pseudo ++ [(n, v)])
      else Some (pseudo, h)
  | [] => Some (pseudo, [])
  end.

Definition dict_pop (k : bytes) (d : headers) : option bytes * headers :=
  (assoc_exact k d, filter (fun f => negb (bytes_eqb (fst f) k)) d).

(* methods are tokens; the path has no whitespace / control characters and is not empty
   (fixes/C06-reject-invalid-h2-method-path.diff) *)
Definition method_char (c : byte) : bool :=
  is_alpha c || is_digit c
  || mem [c] [[x21];[x23];[x24];[x25];[x26];[x27];[x2a];[x2b];[x2d];[x2e];[x5e];[x5f];[x60];[x7c];[x7e]].
Definition valid_method (m : bytes) : bool := match m with [] => false | _ => forallb method_char m end.
Definition bad_path_char (c : byte) : bool := (bN c <=? 32)%N || (bN c =? 127)%N.
Definition valid_path (p : bytes) : bool := match p with [] => false | _ => negb (existsb bad_path_char p) end.

Record h2_request := mkH2Req {
  hq_method : bytes; hq_scheme : bytes; hq_authority : bytes; hq_path : bytes; hq_fields : headers }.

(* parse_h2_request_headers; [pa] = url.parse_authority(authority, check=True) does not raise.
   None = ValueError.  (host and port are not part of the translation: the proxy mode decides them.) *)
Definition parse_h2_request_headers (pa : bytes -> bool) (h : headers) : option h2_request :=
  match split_pseudo_headers h [] with
  | None => None
  | Some (pseudo, fields) =>
      match dict_pop P_METHOD pseudo with
      | (None, _) => None
      | (Some method, p1) =>
      match dict_pop P_SCHEME p1 with
      | (None, _) => None
      | (Some scheme, p2) =>
      match dict_pop P_PATH p2 with
      | (None, _) => None
      | (Some path, p3) =>
      let (oa, p4) := dict_pop P_AUTHORITY p3 in
      let authority := match oa with Some a => a | None => [] end in
      match p4 with
      | _ :: _ => None
      | [] =>
          if negb (valid_method method) then None
          else if negb (valid_path path) then None
          else if match authority with [] => false | _ => negb (pa authority) end then None
          else Some (mkH2Req method scheme authority path fields)
      end end end end
  end.

(* parse_h2_response_headers *)
Definition parse_h2_response_headers (h : headers) : option (Z * headers) :=
  match split_pseudo_headers h [] with
  | None => None
  | Some (pseudo, fields) =>
      match dict_pop P_STATUS pseudo with
      | (None, _) => None
      | (Some st, p1) =>
          match py_int_ws st with
          | None => None
          | Some z => match p1 with _ :: _ => None | [] => Some (z, fields) end
          end
      end
  end.

(* ---------- net/http/validate.py validate_headers, for messages without a Transfer-Encoding field.
   VTe: a transfer-encoding field is present -- that branch is modelled by C01 (Gen/BodySize.v), not here; header
   blocks accepted by h2_validate never reach it (lemma h2_validate_no_te). *)
Inductive vres := VOk | VReject | VTe.
(* _valid_header_name = ^[token chars]+$ with re.match: the dollar also matches before one final LF *)
Definition valid_header_name (n : bytes) : bool :=
  match rev n with
  | [] => false
  | c :: r => if byte_eqb c x0a then match r with [] => false | _ => forallb method_char r end
              else forallb method_char n
  end.
(* _valid_content_length with re.match: zero, or a digit 1-9 followed by digits; the dollar also matches before one final LF *)
Definition strict_decimal (v : bytes) : bool :=
  match v with
  | [] => false
  | [c] => is_digit c
  | c :: r => is_digit c && negb (byte_eqb c x30) && forallb is_digit r
  end.
Definition valid_content_length (v : bytes) : bool :=
  match rev v with
  | c :: r => if byte_eqb c x0a then strict_decimal (rev r) else strict_decimal v
  | [] => false
  end.
Definition validate_headers (h : headers) : vres :=
  if negb (forallb (fun f => valid_header_name (fst f) && negb (existsb is_bad_value_char (snd f))) h) then VReject
  else match get_all TRANSFER_ENCODING h, get_all CONTENT_LENGTH h with
       | _ :: _, _ => VTe
       | [], [] => VOk
       | [], [cl] => if valid_content_length cl then VOk else VReject
       | [], _ => VReject
       end.

(* validate_request(mode, request, True) is None, transparent mode *)
Definition validate_request_transparent (r : h2_request) : vres :=
  if negb (mem (hq_scheme r) [V_HTTP; V_HTTPS; []]) then VReject
  else if bytes_eqb (upper (hq_method r)) CONNECT then VReject   (* Request.method upper-cases *)
  else validate_headers (hq_fields r).

(* ---------- HttpStream.state_wait_for_request_headers: Expect: 100-continue is answered by the proxy and removed *)
Definition strip_expect (h : headers) : headers :=
  if bytes_eqb (lower (hget_default N_EXPECT h)) V_100_CONTINUE then hdel N_EXPECT h else h.

(* ---------- _http1.py Http1Client.send(RequestHeaders) for an HTTP/2 or HTTP/3 request: the HTTP/1 head that is
   assembled (Host from the raw :authority bytes: fixes/C06-host-raw-authority.diff) *)
Definition h1_of_h2_request (r : h2_request) : request_head :=
  let h0 := hq_fields r in
  let h1 := if negb (hcontains N_HOST_CAP h0) && match hq_authority r with [] => false | _ => true end
            then (N_HOST_CAP, hq_authority r) :: h0 else h0 in
  let cookies := get_all N_COOKIE h1 in
  let h3 := match cookies with _ :: _ :: _ => hset N_COOKIE (join_semi cookies) h1 | _ => h1 end in
  mkReq [] 0%N (hq_method r) (hq_scheme r) [] (hq_path r) V_HTTP11 h3.

(* RequestHeaders, RequestData (if content), RequestEndOfMessage as sent by HttpStream for a buffered request: the body
   is chunk-framed only when the request itself carries Transfer-Encoding: chunked; without it the bytes follow the head
   as they are, whether or not a Content-Length announces them *)
Definition h1_request_bytes (r : h2_request) (content : bytes) : bytes :=
  let ch := send_chunked (hq_fields r) in
  assemble_request_head (h1_of_h2_request r)
  ++ match content with [] => [] | _ => if ch then emit_chunk content else content end
  ++ (if ch then LAST_CHUNK else []).

(* ---------- the whole downgrade of one request: HTTP/2 client, validate_inbound_headers = True, transparent mode,
   request not streamed.  [body]: None = END_STREAM on the HEADERS frame; [trailers]: a trailing HEADERS frame *)
Inductive outcome :=
| OConnError                 (* h2 ProtocolError or parse_h2_*_headers ValueError: connection torn down, nothing forwarded *)
| OInvalid                   (* validate_request / check_invalid refused: error response, nothing forwarded *)
| OInformational             (* 1xx swallowed *)
| OUndecided                 (* VTe: not modelled here *)
| OCrashTrailers             (* Http1Client.send / Http1Server.send raise AssertionError on trailers *)
| OForward (sent : bytes) (close_after : bool).

Definition down_request (pa : bytes -> bool) (h : headers) (body : option bytes) (trailers : option headers) : outcome :=
  if negb (h2_validate false false h) then OConnError
  else match h2_expected_length None h with
  | None => OConnError
  | Some expected =>
  if negb (h2_length_ok expected body (match trailers with Some _ => true | None => false end)) then OConnError
  else if negb (match trailers with Some t => h2_validate false true t | None => true end) then OConnError
  else match parse_h2_request_headers pa h with
  | None => OConnError
  | Some r =>
      match validate_request_transparent r with
      | VReject => OInvalid
      | VTe => OUndecided
      | VOk =>
          match trailers with
          | Some _ => OCrashTrailers
          | None =>
              let r' := mkH2Req (hq_method r) (hq_scheme r) (hq_authority r) (hq_path r) (strip_expect (hq_fields r)) in
              OForward (h1_request_bytes r' (match body with Some b => b | None => [] end)) false
          end
      end
  end end.

(* ---------- Http1Server.send for an HTTP/2 or HTTP/3 response *)
Fixpoint reason_of (st : Z) (t : list (Z * bytes)) : bytes :=
  match t with
  | [] => []
  | (c, r) :: t' => if Z.eqb c st then r else reason_of st t'
  end.
Definition h1_of_h2_response (st : Z) (fields : headers) : response_head :=
  mkResp V_HTTP11 st (reason_of st RESPONSES) fields.

(* ResponseHeaders, ResponseData (if content), ResponseEndOfMessage as sent by HttpStream for a buffered response
   without Transfer-Encoding *)
Definition h1_response_bytes (st : Z) (fields : headers) (content : bytes) : bytes :=
  assemble_response_head (h1_of_h2_response st fields) ++ content.

(* expected_http_body_size(request, response) == -1 for a validated response without Transfer-Encoding *)
Definition no_body_status (st : Z) : bool := (Z.leb 100 st && Z.leb st 199) || Z.eqb st 204 || Z.eqb st 304.
Definition until_close (req_method : bytes) (st : Z) (fields : headers) : bool :=
  negb (bytes_eqb (upper req_method) HEAD) && negb (no_body_status st)
  && negb ((Z.leb 200 st && Z.leb st 299) && bytes_eqb (upper req_method) CONNECT)
  && negb (hcontains CONTENT_LENGTH fields).

(* the whole downgrade of one response: HTTP/2 server, HTTP/1 client whose request had method [req_method] *)
Definition down_response (req_method : bytes) (h : headers) (body : option bytes) (trailers : option headers) : outcome :=
  if negb (h2_validate true false h) then OConnError
  else match h2_expected_length (Some req_method) h with
  | None => OConnError
  | Some expected =>
  if is_informational h then OInformational else
  if negb (h2_length_ok expected body (match trailers with Some _ => true | None => false end)) then OConnError
  else if negb (match trailers with Some t => h2_validate false true t | None => true end) then OConnError
  else match parse_h2_response_headers h with
  | None => OConnError
  | Some (st, fields) =>
      match validate_headers fields with
      | VReject => OInvalid
      | VTe => OUndecided
      | VOk =>
          match trailers with
          | Some _ => OCrashTrailers
          | None =>
              OForward (h1_response_bytes st fields (match body with Some b => b | None => [] end))
                       (until_close req_method st fields)
          end
      end
  end end.

(* ---------- the upgrade direction: format_h2_request_headers / format_h2_response_headers *)
(* h2.utilities.normalize_outbound_headers as called by normalize_h1_headers: lower-cased names, bytes.strip() of
   names and values, connection-specific fields dropped *)
Definition normalize_h1_headers (h : headers) : headers :=
  filter (fun f => negb (mem (fst f) CONNECTION_HEADERS))
         (map (fun f => (strip (lower (fst f)), strip (snd f))) h).
(* normalize_h2_headers (option normalize_outbound_headers): names lower-cased *)
Definition normalize_h2_headers (h : headers) : headers := map (fun f => (lower (fst f), snd f)) h.

(* [is_h2]: request.is_http2 or request.is_http3 *)
Definition format_h2_request_headers (normalize_outbound is_h2 : bool)
    (method scheme authority path : bytes) (fields : headers) : headers :=
  let pseudo := [(P_METHOD, method); (P_SCHEME, scheme); (P_PATH, path)]
                ++ match authority with [] => [] | _ => [(P_AUTHORITY, authority)] end in
  if is_h2 then pseudo ++ (if normalize_outbound then normalize_h2_headers fields else fields)
  else
    match authority, hget N_HOST fields with
    | [], Some hv => pseudo ++ [(P_AUTHORITY, hv)] ++ normalize_h1_headers (hdel N_HOST fields)
    | _, _ => pseudo ++ normalize_h1_headers fields
    end.

Definition format_h2_response_headers (normalize_outbound is_h2 : bool) (st : Z) (fields : headers) : headers :=
  let h := (P_STATUS, dec_of_Z st) :: fields in
  if is_h2 then (if normalize_outbound then normalize_h2_headers h else h)
  else normalize_h1_headers h.

(* ---------- emitting a request is a pure function of the request: format_h2_request_headers works on
   headers.copy() before headers.pop(b"host"), Http1Client.send on request.copy().  [emit_request] returns what is
   emitted together with the header fields the live request (flow.request) has afterwards; a later emission of the same
   flow (client replay, replay of a saved flow) starts from that state. *)
Definition emit_request (normalize_outbound is_h2 : bool) (method scheme authority path : bytes) (fields : headers)
    : headers * headers :=
  (format_h2_request_headers normalize_outbound is_h2 method scheme authority path fields, fields).
Definition emit_h1_request (r : h2_request) : request_head * headers := (h1_of_h2_request r, hq_fields r).
