(* Model/FlowControl.v — mitmproxy/flow.py intercept / resume / kill / wait_for_resume and the
   hook handler of mode_servers.ProxyConnectionHandler.handle_hook (addons run, then
   `await flow.wait_for_resume()`, then the hook completes), plus the generic message-relay
   skeleton every protocol layer follows: yield the message hook (blocking), and only after its
   completion either forward the message or, if the flow was killed, end the flow with an error.
   Executable definitions only. *)
From Coq Require Import List Bool Arith.
From MV Require Import Model.LayerCore.
Import ListNotations.

(* _resume_event: not yet created | created (is_set) *)
Inductive revent := NoEvent | Ev (is_set : bool).

(* the coroutine that runs the hook for this flow *)
Inductive hpc :=
| HNotStarted     (* hook not yet at wait_for_resume *)
| HWaiting        (* suspended in _resume_event.wait() *)
| HReleased       (* wait future resolved by set(); returns at its next step *)
| HDone.         (* wait_for_resume returned: the hook is complete *)

Record fl := mkFl {
  intercepted : bool; live : bool; killed : bool; rev : revent; hp : hpc;
  releases : nat  (* ghost: number of Resume/Kill operations that released a waiting hook *)
}.

Inductive fop :=
| Intercept      (* flow.intercept() *)
| Resume         (* flow.resume() *)
| Kill           (* flow.kill() when killable; otherwise it raises and changes nothing *)
| HookWait       (* the hook handler reaches `await flow.wait_for_resume()` *)
| LoopStep.      (* the event loop runs the hook handler if it is runnable *)

Definition fl0 : fl := mkFl false true false NoEvent HNotStarted 0.

Definition set_event (f : fl) : revent * hpc * nat :=
  match rev f with
  | NoEvent => (NoEvent, hp f, releases f)
  | Ev _ => (Ev true, match hp f with HWaiting => HReleased | p => p end,
             match hp f with HWaiting => S (releases f) | _ => releases f end)
  end.

Definition fstep (f : fl) (o : fop) : fl :=
  match o with
  | Intercept =>
    if intercepted f then f
    else mkFl true (live f) (killed f) (match rev f with NoEvent => NoEvent | Ev _ => Ev false end) (hp f) (releases f)
  | Resume =>
    if negb (intercepted f) then f
    else let '(r, p, n) := set_event f in mkFl false (live f) (killed f) r p n
  | Kill =>
    if negb (live f && negb (killed f)) then f    (* not killable: ControlException *)
    else let '(r, p, n) := set_event f in mkFl false false true r p n
  | HookWait =>
    match hp f with
    | HNotStarted =>
      if negb (intercepted f) then mkFl (intercepted f) (live f) (killed f) (rev f) HDone (releases f)
      else match rev f with
           | NoEvent => mkFl (intercepted f) (live f) (killed f) (Ev false) HWaiting (releases f)
           | Ev true => mkFl (intercepted f) (live f) (killed f) (rev f) HDone (releases f)
           | Ev false => mkFl (intercepted f) (live f) (killed f) (rev f) HWaiting (releases f)
           end
    | _ => f
    end
  | LoopStep =>
    match hp f with
    | HReleased => mkFl (intercepted f) (live f) (killed f) (rev f) HDone (releases f)
    | _ => f
    end
  end.

Fixpoint frun (f : fl) (ops : list fop) : fl :=
  match ops with [] => f | o :: ops' => frun (fstep f o) ops' end.
Fixpoint ftrace (f : fl) (ops : list fop) : list fl :=
  match ops with [] => [] | o :: ops' => let f' := fstep f o in f' :: ftrace f' ops' end.

Definition hook_done (f : fl) : bool := match hp f with HDone => true | _ => false end.
Definition hook_waiting (f : fl) : bool := match hp f with HWaiting => true | _ => false end.

(* ---- the relay skeleton of a protocol layer, as a LayerCore handler ----
   state: was the flow killed when its message hook completed?  The reply of the hook
   completion carries that bit (odd = killed), which is what check_killed / `flow.error` reads. *)
Definition TAG_MSG_HOOK := 1.   (* tcp_message / udp_message / websocket_message / request / response / dns_* *)
Definition TAG_SEND := 2.       (* SendData to the destination *)
Definition TAG_ERR_HOOK := 3.   (* error hook *)
Definition TAG_CLOSE := 4.

Definition relay_handler (ctr : nat) (ev : event) : prog nat :=
  match ev with
  | Ext _ _ =>
    Yield (mkCmd ctr TAG_MSG_HOOK Blocking) (fun r =>
      match r with
      | Some v =>
        if Nat.odd v
        then Yield (mkCmd (ctr + 1) TAG_ERR_HOOK Blocking) (fun _ =>
             Yield (mkCmd (ctr + 2) TAG_CLOSE NotBlocking) (fun _ => Ret (ctr + 3)))
        else Yield (mkCmd (ctr + 1) TAG_SEND NotBlocking) (fun _ => Ret (ctr + 2))
      | None => Ret (ctr + 1)
      end)
  | Completed _ _ => Ret ctr
  end.
