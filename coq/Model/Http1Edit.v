(* Model/Http1Edit.v -- the body setter of mitmproxy/http.py through which addons edit messages:
   Message.set_content (used by .content = ..., .text = ..., Response.make), with Headers.__setitem__ /
   __delitem__ of coretypes/multidict.py.  The re-framing step of an edit: after set_content the head carries
   Content-Length = len(raw body) unless a Transfer-Encoding header is present.
   encoding.encode(value, ce or identity) is an input [enc] (None: it raised ValueError / TypeError).
   Executable definitions only. *)
From Coq Require Import List Bool NArith ZArith.
From MV Require Import Base.Bytes Model.Http1Msg.
Import ListNotations.

Definition CONTENT_ENCODING : bytes := [x63;x6f;x6e;x74;x65;x6e;x74;x2d;x65;x6e;x63;x6f;x64;x69;x6e;x67].

(* del headers[key] (key present; for an absent key Python raises KeyError: not reachable from set_content,
   which deletes content-encoding only after having read it) *)
Definition hdel (key : bytes) (hs : headers) : headers :=
  filter (fun f => negb (bytes_eqb (lower (fst f)) (lower key))) hs.

(* headers[key] = value, i.e. set_all(key, [value]): the first field of that name keeps its spelling and takes
   the value, further ones are dropped, an absent name is appended *)
Fixpoint hset_go (key value : bytes) (hs : headers) (used : bool) : headers :=
  match hs with
  | [] => if used then [] else [(key, value)]
  | (n, v) :: hs' =>
      if bytes_eqb (lower n) (lower key)
      then (if used then hset_go key value hs' true else (n, value) :: hset_go key value hs' true)
      else (n, v) :: hset_go key value hs' used
  end.
Definition hset (key value : bytes) (hs : headers) : headers := hset_go key value hs false.

(* the name is written as the str "content-length" *)
Definition set_content (enc : option bytes) (hs : headers) (value : bytes) : headers * bytes :=
  let '(raw, hs1) := match enc with
                     | Some r => (r, hs)
                     | None => (value, hdel CONTENT_ENCODING hs)
                     end in
  (if hcontains TRANSFER_ENCODING hs1 then hs1
   else hset CONTENT_LENGTH (dec_of_N (N.of_nat (length raw))) hs1, raw).

Definition with_headers (r : request_head) (hs : headers) : request_head :=
  mkReq (rq_host r) (rq_port r) (rq_method r) (rq_scheme r) (rq_authority r) (rq_path r) (rq_version r) hs.
