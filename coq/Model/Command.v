(* Model/Command.v -- executable model of mitmproxy/command_lexer.py (expr, quote, unquote)
   and of the argument path of mitmproxy/command.py (CommandManager.parse_partial / execute /
   call_strings, Command.prepare_args / call, parsearg) plus the two type parsers a test
   command needs (types._ArgType.parse = identity, types._StrType.parse = escape rewriting).
   Python str = list of code points (N).  No proofs here. *)
From Coq Require Import List Bool NArith.
From MV Require Import Base.Bytes.
Import ListNotations.
Open Scope N_scope.

Notation char := N (only parsing).
Notation str := (list N) (only parsing).
Definition str_eqb : str -> str -> bool := list_eqb N.eqb.

Definition c_tab : char := 9.
Definition c_lf : char := 10.
Definition c_cr : char := 13.
Definition c_sp : char := 32.
Definition c_dq : char := 34.
Definition c_sq : char := 39.
Definition c_bs : char := 92.

(* Python: c in chars *)
Definition in_chars (c : char) (chars : str) : bool := existsb (N.eqb c) chars.

(* the literal character sets of command_lexer.py *)
Definition WS : str := [32; 13; 10; 9].                 (* Word(space CR LF TAB) *)
Definition SPECIAL : str := [39; 34; 32; 13; 10; 9].    (* CharsNotIn / quote: both quotes + WS *)
Definition QUOTES : str := [39; 34].                    (* unquote: x[0] in both quotes *)

(* longest prefix whose characters satisfy p, and the rest (greedy character class) *)
Fixpoint span (p : char -> bool) (s : str) : str * str :=
  match s with
  | [] => ([], [])
  | c :: r => if p c then let (a, b) := span p r in (c :: a, b) else ([], s)
  end.

(* ---------- pyparsing side ---------- *)

(* str.expandtabs(8), applied by ParserElement.parse_string unless keepTabs is set *)
Fixpoint expandtabs_go (col : N) (s : str) : str :=
  match s with
  | [] => []
  | c :: r =>
      if c =? c_tab then
        let incr := 8 - col mod 8 in
        repeat c_sp (N.to_nat incr) ++ expandtabs_go (col + incr) r
      else if (c =? c_lf) || (c =? c_cr) then c :: expandtabs_go 0 r
      else c :: expandtabs_go (col + 1) r
  end.
Definition expandtabs (s : str) : str := expandtabs_go 0 s.

(* one alternative of the PartialQuotedString regex at the current position:
   q [^q]* (?: q | $ ).  The class is greedy; if it stops before a q the closing quote is
   taken, otherwise it ran to the end of the string where $ matches. *)
Definition match_quoted_with (q : char) (s : str) : option (str * str) :=
  match s with
  | c :: r =>
      if c =? q then
        let (body, r') := span (fun x => negb (x =? q)) r in
        match r' with
        | _ :: r'' => Some (q :: body ++ [q], r'')
        | [] => Some (q :: body, [])
        end
      else None
  | [] => None
  end.

Definition PartialQuotedString (s : str) : option (str * str) :=
  match match_quoted_with c_dq s with
  | Some r => Some r
  | None => match_quoted_with c_sq s
  end.

(* pyparsing.Word(chars): one or more characters of the set *)
Definition Word (chars : str) (s : str) : option (str * str) :=
  let (t, r) := span (fun c => in_chars c chars) s in
  match t with [] => None | _ => Some (t, r) end.

(* pyparsing.CharsNotIn(chars): one or more characters not in the set *)
Definition CharsNotIn (chars : str) (s : str) : option (str * str) :=
  let (t, r) := span (fun c => negb (in_chars c chars)) s in
  match t with [] => None | _ => Some (t, r) end.

(* MatchFirst: PartialQuotedString | Word(WS) | CharsNotIn(SPECIAL), leftmost alternative wins *)
Definition match_first (s : str) : option (str * str) :=
  match PartialQuotedString s with
  | Some r => Some r
  | None =>
      match Word WS s with
      | Some r => Some r
      | None => CharsNotIn SPECIAL s
      end
  end.

Inductive lex_result :=
| LexOk (tokens : list str)
| LexFail           (* pyparsing.ParseException: ZeroOrMore stopped before the end (parse_all) *)
| LexOutOfFuel.

(* ZeroOrMore(...).leave_whitespace() followed by StringEnd (parse_all=True) *)
Fixpoint lex_fuel (fuel : nat) (s : str) : lex_result :=
  match s with
  | [] => LexOk []
  | _ :: _ =>
      match fuel with
      | O => LexOutOfFuel
      | S f =>
          match match_first s with
          | None => LexFail
          | Some (tok, rest) =>
              match lex_fuel f rest with
              | LexOk ts => LexOk (tok :: ts)
              | e => e
              end
          end
      end
  end.
Definition lex (s : str) : lex_result := lex_fuel (length s) s.

(* command_lexer.expr.parse_string(s, parse_all=True); keep_tabs = expr.keepTabs *)
Definition parse_string (keep_tabs : bool) (s : str) : lex_result :=
  lex (if keep_tabs then s else expandtabs s).

(* ---------- command_lexer.quote / unquote ---------- *)

Definition replace_dq (val : str) : str :=
  flat_map (fun c => if c =? c_dq then [92; 120; 50; 50] else [c]) val.

Definition quote (val : str) : str :=
  if negb (match val with [] => true | _ => false end)
     && forallb (fun ch => negb (in_chars ch val)) SPECIAL
  then val
  else if negb (in_chars c_dq val) then c_dq :: val ++ [c_dq]
  else if negb (in_chars c_sq val) then c_sq :: val ++ [c_sq]
  else c_dq :: replace_dq val ++ [c_dq].

Definition unquote (x : str) : str :=
  match x with
  | c :: ((_ :: _) as r) =>
      if in_chars c QUOTES && (c =? last r 0) then removelast r else x
  | _ => x
  end.

(* ---------- str.isspace ---------- *)

(* Py_UNICODE_ISSPACE: bidirectional type WS, B or S, or category Zs *)
Definition is_uspace (c : char) : bool :=
  ((9 <=? c) && (c <=? 13)) || ((28 <=? c) && (c <=? 32)) || (c =? 133) || (c =? 160)
  || (c =? 5760) || ((8192 <=? c) && (c <=? 8202)) || (c =? 8232) || (c =? 8233)
  || (c =? 8239) || (c =? 8287) || (c =? 12288).

Definition isspace (s : str) : bool :=
  match s with [] => false | _ => forallb is_uspace s end.

(* ---------- CommandManager.parse_partial / execute ---------- *)

(* A ParseResult reduced to what execute looks at: the value and whether its type is
   types.Space (set exactly when part.isspace()). *)
Inductive pp_result :=
| PPOk (parts : list (str * bool))
| PPLexFail
| PPOutOfFuel.

Definition parse_partial (keep_tabs : bool) (cmdstr : str) : pp_result :=
  match parse_string keep_tabs cmdstr with
  | LexOk parts => PPOk (map (fun part => (part, isspace part)) parts)
  | LexFail => PPLexFail
  | LexOutOfFuel => PPOutOfFuel
  end.

(* values of the parts whose type is not Space, before unquoting *)
Definition nonspace_values (parts : list (str * bool)) : list str :=
  map fst (filter (fun p => negb (snd p)) parts).

Inductive call_result :=
| CallStrings (command_name : str) (args : list str)  (* execute reaches call_strings *)
| CallInvalid       (* CommandError Invalid command: no parts at all *)
| CallUnpackError   (* ValueError from the tuple unpacking: only Space parts *)
| CallLexFail
| CallOutOfFuel.

Definition execute_call (keep_tabs : bool) (cmdstr : str) : call_result :=
  match parse_partial keep_tabs cmdstr with
  | PPOk [] => CallInvalid
  | PPOk parts =>
      match map unquote (nonspace_values parts) with
      | [] => CallUnpackError
      | command_name :: args => CallStrings command_name args
      end
  | PPLexFail => CallLexFail
  | PPOutOfFuel => CallOutOfFuel
  end.

(* ---------- types._StrType.parse (escape_sequences.sub(_unescape, s)) ---------- *)

Definition hexval (c : char) : option N :=
  if (48 <=? c) && (c <=? 57) then Some (c - 48)
  else if (97 <=? c) && (c <=? 102) then Some (c - 87)
  else if (65 <=? c) && (c <=? 70) then Some (c - 55)
  else None.

Fixpoint hex_go (acc : N) (ds : str) : option N :=
  match ds with
  | [] => Some acc
  | d :: r => match hexval d with Some v => hex_go (acc * 16 + v) r | None => None end
  end.

Definition is_oct (c : char) : bool := (48 <=? c) && (c <=? 55).

Inductive esc :=
| EscChar (c : char) (consumed : nat)   (* the escape decodes to c; consumed counts characters after the backslash *)
| EscError                              (* regex matched, codecs.decode raised UnicodeDecodeError *)
| EscNamed                              (* backslash N{...}: needs the Unicode name database; not modelled *)
| EscNone.                              (* regex does not match at this backslash *)

Definition simple_escape (c : char) : option char :=
  if c =? 92 then Some 92 else if c =? 39 then Some 39 else if c =? 34 then Some 34
  else if c =? 97 then Some 7 else if c =? 98 then Some 8 else if c =? 102 then Some 12
  else if c =? 110 then Some 10 else if c =? 114 then Some 13 else if c =? 116 then Some 9
  else if c =? 118 then Some 11 else None.

(* the characters after x / u / U: regex dot = anything but LF; then all must be hex digits *)
Definition hex_escape (n : nat) (r : str) (limit : N) : esc :=
  let ds := firstn n r in
  if (Nat.eqb (length ds) n) && forallb (fun c => negb (c =? c_lf)) ds then
    match hex_go 0 ds with
    | Some v => if v <? limit then EscChar v (S n) else EscError
    | None => EscError
    end
  else EscNone.

(* r = the characters following a backslash *)
Definition esc_at (r : str) : esc :=
  match r with
  | [] => EscNone
  | c :: r1 =>
      match simple_escape c with
      | Some v => EscChar v 1
      | None =>
          if is_oct c then
            match r1 with
            | d2 :: r2 =>
                if is_oct d2 then
                  match r2 with
                  | d3 :: _ =>
                      if is_oct d3 then EscChar ((c - 48) * 64 + (d2 - 48) * 8 + (d3 - 48)) 3
                      else EscChar ((c - 48) * 8 + (d2 - 48)) 2
                  | [] => EscChar ((c - 48) * 8 + (d2 - 48)) 2
                  end
                else EscChar (c - 48) 1
            | [] => EscChar (c - 48) 1
            end
          else if c =? 120 then hex_escape 2 r1 256
          else if c =? 117 then hex_escape 4 r1 65536
          else if c =? 85 then hex_escape 8 r1 1114112
          else if c =? 78 then
            match r1 with
            | 123 :: r2 =>
                let (name, r3) := span (fun x => negb (x =? 125)) r2 in
                match name, r3 with
                | _ :: _, _ :: _ => EscNamed
                | _, _ => EscNone
                end
            | _ => EscNone
            end
          else EscNone
      end
  end.

Inductive parse_res :=
| ParseOk (v : str)
| ParseValueError      (* ValueError (UnicodeDecodeError) -> CommandError in parsearg *)
| ParseUnsupported.    (* input uses backslash N{...}; outside the model *)

(* re.sub scan: skip = characters still belonging to the previous match *)
Fixpoint str_parse_go (skip : nat) (s : str) : parse_res :=
  match s with
  | [] => ParseOk []
  | c :: r =>
      match skip with
      | S k => str_parse_go k r
      | O =>
          let keep := match str_parse_go 0 r with ParseOk v => ParseOk (c :: v) | e => e end in
          if c =? c_bs then
            match esc_at r with
            | EscChar v n => match str_parse_go n r with ParseOk t => ParseOk (v :: t) | e => e end
            | EscError => ParseValueError
            | EscNamed => ParseUnsupported
            | EscNone => keep
            end
          else keep
      end
  end.
Definition str_parse (s : str) : parse_res := str_parse_go 0 s.

(* ---------- Command.prepare_args / call, CommandManager.call_strings ---------- *)

Inductive argtype := TArg (* types.CmdArgs: parse is the identity *) | TStr (* str *).

Inductive signature :=
| SigVar (t : argtype)          (* def f with a var-positional parameter of type t *)
| SigFixed (ts : list argtype). (* def f with positional parameters of these types, no defaults *)

Definition parsearg (t : argtype) (spec : str) : parse_res :=
  match t with TArg => ParseOk spec | TStr => str_parse spec end.

Inductive outcome :=
| Received (command_name : str) (args : list str)  (* the command function ran with these arguments *)
| ErrInvalid          (* CommandError: Invalid command *)
| ErrUnpack           (* ValueError: not enough values to unpack *)
| ErrUnknown          (* CommandError: Unknown command *)
| ErrMismatch         (* CommandError: Command argument mismatch (signature.bind TypeError) *)
| ErrParse            (* CommandError from a ValueError of the type parser *)
| ErrLex
| OutOfFuel
| Unsupported.

Inductive bind_res :=
| BindMismatch                 (* signature.bind raised TypeError *)
| BindParseError (e : parse_res)
| BindOk (vs : list str).

(* parsearg over the bound arguments in order; the first failure wins *)
Fixpoint parse_each (ts : list argtype) (args : list str) : bind_res :=
  match ts, args with
  | t :: ts', a :: args' =>
      match parsearg t a with
      | ParseOk v =>
          match parse_each ts' args' with
          | BindOk vs => BindOk (v :: vs)
          | r => r
          end
      | e => BindParseError e
      end
  | _, _ => BindOk []
  end.

Definition prepare_args (sg : signature) (args : list str) : bind_res :=
  match sg with
  | SigVar t => parse_each (repeat t (length args)) args
  | SigFixed ts =>
      if Nat.eqb (length ts) (length args) then parse_each ts args else BindMismatch
  end.

Definition execute (keep_tabs : bool) (commands : str -> option signature) (cmdstr : str) : outcome :=
  match execute_call keep_tabs cmdstr with
  | CallInvalid => ErrInvalid
  | CallUnpackError => ErrUnpack
  | CallLexFail => ErrLex
  | CallOutOfFuel => OutOfFuel
  | CallStrings name args =>
      match commands name with
      | None => ErrUnknown
      | Some sg =>
          match prepare_args sg args with
          | BindMismatch => ErrMismatch
          | BindOk vs => Received name vs
          | BindParseError ParseUnsupported => Unsupported
          | BindParseError _ => ErrParse
          end
      end
  end.

(* ---------- independent specification: split at unquoted whitespace ---------- *)

(* A character-level reading of the statement that knows nothing about tokens: scan left to
   right remembering the open quote (if any); a WS character outside quotes ends the current
   word; everything else is appended to it.  Words are returned raw (quotes included). *)
Definition flush (cur : option str) (acc : list str) : list str :=
  match cur with Some w => rev w :: acc | None => acc end.
Definition push (c : char) (cur : option str) : option str :=
  match cur with Some w => Some (c :: w) | None => Some [c] end.

Fixpoint spec_go (open : option char) (cur : option str) (s : str) : list str :=
  match s with
  | [] => flush cur []
  | c :: r =>
      match open with
      | Some q => spec_go (if c =? q then None else open) (push c cur) r
      | None =>
          if in_chars c WS then flush cur (spec_go None None r)
          else spec_go (if in_chars c QUOTES then Some c else None) (push c cur) r
      end
  end.
Definition spec_words (s : str) : list str := spec_go None None s.

(* ---------- sessions on one CommandManager ---------- *)
(* parse_partial is wrapped in functools.lru_cache; the model has no cache because the cached
   value must behave as a pure function of the line (callers such as the console commander
   must not mutate it).  A session is any interleaving of parses (render / tab completion)
   and executes on one manager; every step is answered as if it were the first. *)
Inductive step := SParse (line : str) | SExec (line : str).
Inductive step_result := RParse (r : pp_result) | RExec (o : outcome).
Definition run_step (keep_tabs : bool) (commands : str -> option signature) (st : step) : step_result :=
  match st with
  | SParse l => RParse (parse_partial keep_tabs l)
  | SExec l => RExec (execute keep_tabs commands l)
  end.
Definition run_session (keep_tabs : bool) (commands : str -> option signature) (steps : list step)
  : list step_result := map (run_step keep_tabs commands) steps.
