(* Model/Socks5Sched.v -- Socks5Proxy under mitmproxy/proxy/layer.py Layer.handle_event /
   Layer.__continue: blocking commands (Socks5AuthHook in state_auth, OpenConnection in
   DestinationKnown.finish_start) suspend the command generator; while the layer is paused
   every further event is appended to _paused_event_queue; when the CommandCompleted event
   arrives the generator is resumed with the reply and then the queue is replayed one
   event at a time through the handler that is current at that moment, stopping if a
   replayed event pauses the layer again.
   The functions *_r are the generator functions of Model/Socks5.v cut at their blocking
   yields (same tests, same order); Proofs/Socks5Sched.v shows that answering every
   command at once gives back exactly Model/Socks5.v.  Executable definitions only.
   Not modelled: pausing inside the child layer (NextLayerHook), ConnectionClosed. *)
From Coq Require Import List Bool Arith NArith.
From MV Require Import Base.Bytes Model.Socks5.
Import ListNotations.

(* a generator suspended at a blocking command *)
Inductive susp :=
| SAuth (buf user password : bytes) (o1 : obs)  (* state_auth at yield Socks5AuthHook(data); self.buf = buf *)
| SOpen (o1 : obs) (rest : bytes).              (* finish_start at yield OpenConnection; self.buf = rest *)

Inductive res := Fin (s : st) | Ask (k : susp).

(* state_connect after finish_start returned err *)
Definition connect_tail (err : bool) (o2 : obs) (rest : bytes) : st :=
  if err then (Done, close (send o2 REPLY_UNREACHABLE))
  else
    let o3 := send o2 REPLY_SUCCESS in
    match rest with
    | [] => (Relay, o3)
    | _ :: _ => (Relay, child_data o3 rest)
    end.

Definition connect_finish_r (c : cfg) (o : obs) (h : host) (port : N) (rest : bytes) : res :=
  let o1 := set_dest o (h, port) in
  if eager c then Ask (SOpen (set_opened o1) rest)
  else Fin (connect_tail false o1 rest).

(* OpenConnectionCompleted(reply) *)
Definition resume_open (c : cfg) (o1 : obs) (rest : bytes) : st :=
  connect_tail (open_fails c) o1 rest.

Definition state_connect_r (c : cfg) (buf : bytes) (o : obs) : res :=
  if length buf <? 5 then Fin (Connect buf, o)
  else if negb (bytes_eqb (firstn 3 buf) [x05; x01; x00]) then
    Fin (socks_err o (Some SOCKS5_REP_COMMAND_NOT_SUPPORTED))
  else
    let atyp := at_ 3 buf in
    match message_len atyp buf with
    | None => Fin (socks_err o (Some SOCKS5_REP_ADDRESS_TYPE_NOT_SUPPORTED))
    | Some ml =>
      if length buf <? ml then Fin (Connect buf, o)
      else
        let msg := firstn ml buf in
        let rest := skipn ml buf in
        match parse_host atyp msg with
        | None => Fin (Crashed, o)
        | Some h =>
          match unpack_H (skipn (length msg - 2) msg) with
          | None => Fin (Crashed, o)
          | Some port => connect_finish_r c o h port rest
          end
        end
    end.

(* HookCompleted(Socks5AuthHook): data.valid = authok user password *)
Definition resume_auth (c : cfg) (buf user password : bytes) (o1 : obs) : res :=
  if negb (authok c user password) then Fin (socks_err (send o1 [x01; x01]) None)
  else
    let user_len := blen (at_ 1 buf) in
    let pass_len := blen (at_ (2 + user_len) buf) in
    state_connect_r c (skipn (3 + user_len + pass_len) buf) (send o1 [x01; x00]).

Definition state_auth_r (c : cfg) (buf : bytes) (o : obs) : res :=
  if length buf <? 3 then Fin (Auth buf, o)
  else
    let user_len := blen (at_ 1 buf) in
    if length buf <? 3 + user_len then Fin (Auth buf, o)
    else
      let pass_len := blen (at_ (2 + user_len) buf) in
      if length buf <? 3 + user_len + pass_len then Fin (Auth buf, o)
      else
        let user := slice 2 (2 + user_len) buf in
        let password := slice (3 + user_len) (3 + user_len + pass_len) buf in
        Ask (SAuth buf user password (set_creds o user password)).

Definition state_greet_r (c : cfg) (buf : bytes) (o : obs) : res :=
  if length buf <? 2 then Fin (Greet buf, o)
  else if negb (byte_eqb (at_ 0 buf) SOCKS5_VERSION) then Fin (socks_err o None)
  else
    let n_methods := blen (at_ 1 buf) in
    if length buf <? 2 + n_methods then Fin (Greet buf, o)
    else
      let method := if proxyauth c then SOCKS5_METHOD_USER_PASSWORD_AUTHENTICATION
                    else SOCKS5_METHOD_NO_AUTHENTICATION_REQUIRED in
      if negb (existsb (byte_eqb method) (slice 2 (2 + n_methods) buf)) then
        Fin (socks_err o (Some SOCKS5_METHOD_NO_ACCEPTABLE_METHODS))
      else
        let o1 := send o [SOCKS5_VERSION; method] in
        let rest := skipn (2 + n_methods) buf in
        if proxyauth c then state_auth_r c rest o1 else state_connect_r c rest o1.

(* self._handle_event(DataReceived(client, data)) of a layer that is not paused *)
Definition handle_data_r (c : cfg) (s : st) (data : bytes) : res :=
  match fst s with
  | Greet buf => state_greet_r c (buf ++ data) (snd s)
  | Auth buf => state_auth_r c (buf ++ data) (snd s)
  | Connect buf => state_connect_r c (buf ++ data) (snd s)
  | Relay => Fin (Relay, child_data (snd s) data)
  | Done => Fin s
  | Crashed => Fin s
  end.

(* Layer state: running, or paused on a command with the queued client segments.
   LBad: a completion was delivered although no such command is pending (never produced
   by the event loop; makes misuse of the model visible). *)
Inductive lstate := LRun (s : st) | LPaused (k : susp) (queue : list bytes) | LBad.

Inductive ev := EData (d : bytes) | EAuthDone | EOpenDone.

(* Layer.__continue after the generator was resumed with result r:
   while not self._paused and self._paused_event_queue: handle the next queued event *)
Fixpoint replay (c : cfg) (queue : list bytes) (r : res) : lstate :=
  match queue with
  | [] => match r with Fin s => LRun s | Ask k => LPaused k [] end
  | d :: q =>
    match r with
    | Ask k => LPaused k (d :: q)
    | Fin s => replay c q (handle_data_r c s d)
    end
  end.

(* Layer.handle_event *)
Definition step (c : cfg) (l : lstate) (e : ev) : lstate :=
  match l, e with
  | LRun s, EData d => replay c [] (handle_data_r c s d)
  | LPaused k q, EData d => LPaused k (q ++ [d])
  | LPaused (SAuth buf u p o1) q, EAuthDone => replay c q (resume_auth c buf u p o1)
  | LPaused (SOpen o1 rest) q, EOpenDone => replay c q (Fin (resume_open c o1 rest))
  | _, _ => LBad
  end.

Definition exec (c : cfg) (l : lstate) (evs : list ev) : lstate := fold_left (step c) evs l.

Definition run_sched (c : cfg) (evs : list ev) : lstate := exec c (LRun st0) evs.

Fixpoint data_of (evs : list ev) : list bytes :=
  match evs with
  | [] => []
  | EData d :: r => d :: data_of r
  | _ :: r => data_of r
  end.
