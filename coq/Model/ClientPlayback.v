(* Model/ClientPlayback.v -- executable model of mitmproxy/addons/clientplayback.py:
   ClientPlayback.queue / inflight, the playback loop at client_replay_concurrency = 1, check,
   start_replay, stop_replay, count, and the completion signalling of ReplayHandler
   (replay = server_event(Start) then wait for done; done is set by handle_hook on the response
   hook or the error hook).  No proofs here.

   Flows are the flows of Model/FlowBackup.v (C40: id, content, live, _backup with backup / revert /
   get_state) instantiated with the content record obj below (identity lens).  A state of the addon
   is (flows, queue, the replay in flight, ghost counters, log).  Queue entries carry a ghost
   sequence number (position in the global order of acceptance); the implementation is compared on
   the projection that forgets it.

   Granularity: Submit / Stop / Edit are the synchronous command bodies; Net r hands a network
   result to the replay in flight (the connect future is resolved / response bytes are fed) WITHOUT
   running the event loop; Loop runs the event loop until it is quiescent.  The proxy core between
   Start and the response / error hook (HttpLayer, MockServer, ConnectionHandler.open_connection)
   is abstracted to: connect attempt, then either failure (error hook) or connected and request
   written, then either a complete response (response hook) or a broken one (error hook).

   After a Stop that corrupts the replay in flight (phase Corrupt) the model says the replay never
   ends; the implementation is not compared beyond that operation (modelled, not verified: the
   oracle shows the wedge on probe schedules).

   Not modelled: client_replay_concurrency = -1, configure / load_file, done(), flows intercepted
   or killed while queued or in flight (C11), HTTPS / upstream modes, log text. *)
From Coq Require Import List Bool Arith NArith.
From MV Require Import Base.Bytes Model.FlowBackup.
Import ListNotations.

(* ---- flow content (everything get_state saves that matters here) ---- *)
Record obj := mkObj {
  o_req : bool;             (* f.request is not None *)
  o_content : option nat;   (* f.request.raw_content: None or a token for the bytes *)
  o_ws : bool;              (* f.websocket is not None *)
  o_resp : option nat;      (* f.response: None or a token for the status code *)
  o_err : bool;             (* f.error is not None *)
  o_int : bool;             (* f.intercepted *)
  o_replay : bool           (* f.is_replay == request *)
}.

Definition fl := flow obj obj.
Definition gc (o : obj) : obj := o.
Definition scx (c : obj) (_ : obj) : obj := c.
Definition f_backup : fl -> fl := backup obj obj gc.
Definition f_revert : fl -> fl := revert obj obj scx.
Definition f_state : fl -> state obj := get_state obj obj gc.

(* a flow object: c_http = isinstance(f, http.HTTPFlow) *)
Record cflow := mkCf { cf : fl; c_http : bool }.

Definition on_fl (g : fl -> fl) (f : cflow) : cflow := mkCf (g (cf f)) (c_http f).
Definition on_obj (e : obj -> obj) (f : fl) : fl := Flow (fid f) (e (fo f)) (flive f) (fbackup f).
Definition set_live (b : bool) (f : fl) : fl := Flow (fid f) (fo f) b (fbackup f).

Fixpoint updf (i : nat) (g : cflow -> cflow) (s : list cflow) : list cflow :=
  match s, i with
  | [], _ => []
  | f :: r, O => g f :: r
  | f :: r, S k => f :: updf k g r
  end.

(* ---- ClientPlayback.check ---- *)
Inductive reason := RLive | RIntercepted | RNoRequest | RNoContent | RWebsocket | RNotHttp.

Definition check (is_inflight : bool) (f : cflow) : option reason :=
  let o := fo (cf f) in
  if flive (cf f) || is_inflight then Some RLive
  else if o_int o then Some RIntercepted
  else if c_http f then
    if negb (o_req o) then Some RNoRequest
    else match o_content o with
         | None => Some RNoContent
         | Some _ => if o_ws o then Some RWebsocket else None
         end
  else Some RNotHttp.

(* ---- the replay in flight ---- *)
(* Corrupt: stop_replay reverted the flow in flight (a second entry for it was still queued) while
   its server connection was open.  Flow.set_state then overwrites the live Server object (id,
   state, ...), the connection handler loses track of it, and done is never set (finding). *)
Inductive phase := Connecting | Sent | Corrupt.
Inductive netres :=
| NConnected            (* open_connection succeeds *)
| NFailed               (* open_connection raises OSError *)
| NResponse (st : nat)  (* a complete response with status token st arrives *)
| NBroken.              (* the server answers with something that is not a response, or closes *)

Record active := mkAct { a_seq : nat; a_flow : nat; a_phase : phase; a_pend : option netres }.

Inductive ev :=
| LSubmit (first : nat) (accepted : list nat)   (* UpdateHook of start_replay; entries get seq first, first+1, ... *)
| LStopped (entries : list (nat * nat))         (* UpdateHook of stop_replay *)
| LStart (n i : nat)                            (* ReplayHandler.replay() called for entry n = flow i *)
| LReq (n i : nat)                              (* the request reaches the server *)
| LFin (n i : nat) (r : option nat) (e : bool)  (* replay() returned; flow has response r / error e *)
| LCrash (n i : nat)                            (* Client replay has crashed (the except branch) *)
| LStale (n i : nat).                           (* ghost: entry n is answered from the response flow i already carries *)

Record st := mkSt {
  flows : list cflow;
  queue : list (nat * nat);     (* (ghost seq, flow index) *)
  act : option active;
  next_seq : nat;               (* ghost: number of entries accepted so far *)
  log : list ev
}.

Definition inflight (s : st) : option nat := option_map a_flow (act s).
Definition is_inflight (s : st) (i : nat) : bool :=
  match inflight s with Some j => Nat.eqb i j | None => false end.

(* ClientPlayback.count *)
Definition count (s : st) : nat := length (queue s) + (match inflight s with Some _ => 1 | None => 0 end).

(* ---- start_replay ---- *)
Definition prepare_edit (o : obj) : obj :=
  mkObj (o_req o) (o_content o) (o_ws o) None false (o_int o) true.
Definition prepare (f : fl) : fl := on_obj prepare_edit (f_backup f).

Fixpoint start_loop (infl : option nat) (ids : list nat)
         (fs : list cflow) (q : list (nat * nat)) (next : nat) (upd : list nat)
  : list cflow * list (nat * nat) * nat * list nat :=
  match ids with
  | [] => (fs, q, next, upd)
  | i :: r =>
    match nth_error fs i with
    | None => start_loop infl r fs q next upd
    | Some f =>
      match check (match infl with Some j => Nat.eqb i j | None => false end) f with
      | Some _ => start_loop infl r fs q next upd                (* logger.warning(err); continue *)
      | None => start_loop infl r (updf i (on_fl prepare) fs) (q ++ [(next, i)]) (S next) (upd ++ [i])
      end
    end
  end.

Definition start_replay (s : st) (ids : list nat) : st :=
  let '(fs, q, nx, upd) := start_loop (inflight s) ids (flows s) (queue s) (next_seq s) [] in
  mkSt fs q (act s) nx (log s ++ [LSubmit (next_seq s) upd]).

(* ---- stop_replay ---- *)
Fixpoint revert_all (q : list (nat * nat)) (fs : list cflow) : list cflow :=
  match q with
  | [] => fs
  | (_, i) :: r => revert_all r (updf i (on_fl f_revert) fs)
  end.

Definition hits_connected (s : st) : bool :=
  match act s with
  | Some a =>
    match a_phase a with
    | Sent => existsb (fun e => Nat.eqb (snd e) (a_flow a)) (queue s)
    | _ => false
    end
  | None => false
  end.

Definition stop_replay (s : st) : st :=
  mkSt (revert_all (queue s) (flows s)) []
       (if hits_connected s
        then option_map (fun a => mkAct (a_seq a) (a_flow a) Corrupt (a_pend a)) (act s)
        else act s)
       (next_seq s) (log s ++ [LStopped (queue s)]).

(* ---- the playback loop ---- *)
(* replay() returns.  A complete response sets f.response (an error left over from an earlier
   replay stays); a failure sets f.error (a response restored by a revert in mid-flight stays);
   either way the http layer ends with live = False. *)
Definition finish_edit (t : option nat) (o : obj) : obj :=
  match t with
  | Some _ => mkObj (o_req o) (o_content o) (o_ws o) t (o_err o) (o_int o) (o_replay o)
  | None => mkObj (o_req o) (o_content o) (o_ws o) (o_resp o) true (o_int o) (o_replay o)
  end.

Definition fin_resp (t : option nat) (o : obj) : option nat := o_resp (finish_edit t o).
Definition fin_err (t : option nat) (o : obj) : bool := o_err (finish_edit t o).

Definition obj_at (fs : list cflow) (i : nat) : option obj := option_map (fun f => fo (cf f)) (nth_error fs i).

Definition default_obj : obj := mkObj false None false None false false false.
Definition obj_or_default (fs : list cflow) (i : nat) : obj :=
  match obj_at fs i with Some o => o | None => default_obj end.

Definition finish (s : st) (a : active) (t : option nat) : st :=
  let o := obj_or_default (flows s) (a_flow a) in
  mkSt (updf (a_flow a) (on_fl (fun f => set_live false (on_obj (finish_edit t) f))) (flows s))
       (queue s) None (next_seq s)
       (log s ++ [LFin (a_seq a) (a_flow a) (fin_resp t o) (fin_err t o)]).

(* the event loop delivers a pending network result to the replay in flight *)
Definition loop_net (s : st) : st :=
  match act s with
  | None => s
  | Some a =>
    match a_phase a, a_pend a with
    | Corrupt, _ => s
    | _, None => s
    | _, Some NConnected =>
      mkSt (flows s) (queue s) (Some (mkAct (a_seq a) (a_flow a) Sent None)) (next_seq s)
           (log s ++ [LReq (a_seq a) (a_flow a)])
    | _, Some NFailed => finish s a None
    | _, Some (NResponse t) => finish s a (Some t)
    | _, Some NBroken => finish s a None
    end
  end.

(* self.inflight = await self.queue.get(); h = ReplayHandler(...); await h.replay()
   - ReplayHandler(...) raises when the flow has lost its request: the except branch logs the
     crash, task_done, inflight = None, and the loop takes the next entry;
   - a flow that already carries a response when its turn comes (queued twice, or reverted while
     queued) is answered by the http layer from that response: nothing is sent, replay() returns
     in the same loop run, and the loop takes the next entry;
   - otherwise the replay is in flight (live = True), waiting for the network. *)
(* the http layer reads the replayed request to its end: a missing body becomes the empty body *)
Definition EMPTY_BODY : nat := 13%nat.
Definition begin_edit (o : obj) : obj :=
  mkObj (o_req o) (match o_content o with None => Some EMPTY_BODY | c => c end) (o_ws o) (o_resp o) (o_err o)
        (o_int o) (o_replay o).
Definition begin (live : bool) (f : fl) : fl := set_live live (on_obj begin_edit f).

Fixpoint start_next (q : list (nat * nat)) (fs : list cflow) (lg : list ev)
  : list (nat * nat) * list cflow * option active * list ev :=
  match q with
  | [] => ([], fs, None, lg)
  | (n, i) :: r =>
    match nth_error fs i with
    | None => start_next r fs (lg ++ [LCrash n i])
    | Some f =>
      let o := fo (cf f) in
      if negb (o_req o) then start_next r fs (lg ++ [LCrash n i])
      else match o_resp o with
           | Some t => start_next r (updf i (on_fl (begin false)) fs)
                                  (lg ++ [LStart n i; LStale n i; LFin n i (Some t) (o_err o)])
           | None => (r, updf i (on_fl (begin true)) fs, Some (mkAct n i Connecting None),
                      lg ++ [LStart n i])
           end
    end
  end.

Definition loop (s : st) : st :=
  let s1 := loop_net s in
  match act s1 with
  | Some _ => s1
  | None =>
    let '(q, fs, a, lg) := start_next (queue s1) (flows s1) (log s1) in
    mkSt fs q a (next_seq s1) lg
  end.

(* ---- network results handed to the replay in flight ---- *)
Definition compatible (p : phase) (r : netres) : bool :=
  match p, r with
  | Connecting, NConnected | Connecting, NFailed => true
  | Sent, NResponse _ | Sent, NBroken => true
  | _, _ => false
  end.

Definition net (s : st) (r : netres) : st :=
  match act s with
  | Some a =>
    match a_pend a with
    | None =>
      if compatible (a_phase a) r
      then mkSt (flows s) (queue s) (Some (mkAct (a_seq a) (a_flow a) (a_phase a) (Some r))) (next_seq s) (log s)
      else s
    | Some _ => s
    end
  | None => s
  end.

(* ---- the user / other addons touch a flow ---- *)
Inductive edit :=
| ESetContent (t : nat) | EDropContent | EDropRequest
| EIntercept | EResume | ESetLive (b : bool) | EBackup | ERevert.

Definition edit_fl (e : edit) (f : fl) : fl :=
  match e with
  | ESetContent t => on_obj (fun o => mkObj (o_req o) (Some t) (o_ws o) (o_resp o) (o_err o) (o_int o) (o_replay o)) f
  | EDropContent => on_obj (fun o => mkObj (o_req o) None (o_ws o) (o_resp o) (o_err o) (o_int o) (o_replay o)) f
  | EDropRequest => on_obj (fun o => mkObj false None (o_ws o) (o_resp o) (o_err o) (o_int o) (o_replay o)) f
  | EIntercept => on_obj (fun o => mkObj (o_req o) (o_content o) (o_ws o) (o_resp o) (o_err o) true (o_replay o)) f
  | EResume => on_obj (fun o => mkObj (o_req o) (o_content o) (o_ws o) (o_resp o) (o_err o) false (o_replay o)) f
  | ESetLive b => set_live b f
  | EBackup => f_backup f
  | ERevert => f_revert f
  end.

Inductive op :=
| Submit (ids : list nat)
| Stop
| Loop
| Net (r : netres)
| Edit (i : nat) (e : edit).

Definition step (s : st) (o : op) : st :=
  match o with
  | Submit ids => start_replay s ids
  | Stop => stop_replay s
  | Loop => loop s
  | Net r => net s r
  | Edit i e => mkSt (updf i (on_fl (edit_fl e)) (flows s)) (queue s) (act s) (next_seq s) (log s)
  end.

Definition run (s : st) (ops : list op) : st := fold_left step ops s.

Fixpoint trace (s : st) (ops : list op) : list st :=
  match ops with [] => [] | o :: r => let s' := step s o in s' :: trace s' r end.

Definition init (fs : list cflow) : st := mkSt fs [] None 0 [].
