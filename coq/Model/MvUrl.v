(* Model/MvUrl.v -- urllib.parse quote/unquote/urlencode/parse_qsl, mitmproxy.net.http.url.encode/decode,
   and the Request.query / urlencoded_form / path_components getters and setters (mitmproxy/http.py),
   on UTF-8/surrogateescape bytes. urlparse is modelled for the text that follows scheme://authority,
   i.e. for Request.path in origin form (starts with a slash). *)
From Coq Require Import String.
From Coq Require Import List Bool NArith.
From MV Require Import Base.Bytes Model.MvCommon.
Import ListNotations.

Definition PCT : byte := x25.
Definition AMP : byte := x26.
Definition EQS : byte := x3d.
Definition PLUS : byte := x2b.
Definition SP : byte := x20.
Definition SLASH : byte := x2f.
Definition SEMI : byte := x3b.
Definition QM : byte := x3f.
Definition HASH : byte := x23.

(* urllib.parse._ALWAYS_SAFE *)
Definition unreserved (b : byte) : bool :=
  is_alpha b || is_digit b || memb b [x5f; x2e; x2d; x7e].

Definition hexdig (n : N) : byte := if (n <? 10)%N then Nb (48 + n) else Nb (55 + n).

Definition hexval (b : byte) : option N :=
  if is_digit b then Some (bN b - 48)%N
  else if (65 <=? bN b)%N && (bN b <=? 70)%N then Some (bN b - 55)%N
  else if (97 <=? bN b)%N && (bN b <=? 102)%N then Some (bN b - 87)%N
  else None.

Definition quote_byte (safe : bytes) (b : byte) : bytes :=
  if unreserved b || memb b safe then [b]
  else [PCT; hexdig (bN b / 16); hexdig (bN b mod 16)].

(* urllib.parse.quote(s, safe) *)
Definition quote (safe s : bytes) : bytes := flat_map (quote_byte safe) s.

(* urllib.parse.unquote (str in, str out; see file header for the representation) *)
Fixpoint unquote (s : bytes) : bytes :=
  match s with
  | [] => []
  | c :: s' =>
      if byte_eqb c PCT then
        match s' with
        | h1 :: h2 :: s'' =>
            match hexval h1, hexval h2 with
            | Some a, Some b => Nb (16 * a + b) :: unquote s''
            | _, _ => c :: unquote s'
            end
        | _ => c :: unquote s'
        end
      else c :: unquote s'
  end.

Definition replace_byte (a b : byte) (s : bytes) : bytes :=
  map (fun x => if byte_eqb x a then b else x) s.

(* urllib.parse.quote_plus(s, safe='') *)
Definition quote_plus (s : bytes) : bytes :=
  if negb (memb SP s) then quote [] s
  else replace_byte SP PLUS (quote [SP] s).

(* urllib.parse.urlencode(pairs, False) *)
Definition urlencode (l : pairs) : bytes :=
  join [AMP] (map (fun kv => quote_plus (fst kv) ++ [EQS] ++ quote_plus (snd kv)) l).

(* encoded.replace("=&", "&") *)
Fixpoint replace_eqamp (s : bytes) : bytes :=
  match s with
  | [] => []
  | c :: s' =>
      if byte_eqb c EQS then
        match s' with
        | d :: s'' => if byte_eqb d AMP then AMP :: replace_eqamp s'' else c :: replace_eqamp s'
        | [] => [c]
        end
      else c :: replace_eqamp s'
  end.

Definition strip_last_eq (s : bytes) : bytes :=
  match rev s with
  | c :: r => if byte_eqb c EQS then rev r else s
  | [] => s
  end.

(* mitmproxy.net.http.url.encode(s, similar_to) *)
Definition url_encode (l : pairs) (similar_to : option bytes) : bytes :=
  let remove_trailing_equal :=
    match similar_to with
    | Some st => nonempty st && existsb (fun param => negb (memb EQS param)) (split_char AMP st)
    | None => false
    end in
  let encoded := urlencode l in
  if nonempty encoded && remove_trailing_equal then strip_last_eq (replace_eqamp encoded)
  else encoded.

Definition unplus (s : bytes) : bytes := unquote (replace_byte PLUS SP s).

(* urllib.parse.parse_qsl(qs, keep_blank_values=True) = url.decode *)
Definition parse_qsl (qs : bytes) : pairs :=
  if negb (nonempty qs) then []
  else flat_map (fun nv =>
         if negb (nonempty nv) then []
         else match break_at EQS nv with
              | Some (n, v) => [(unplus n, unplus v)]
              | None => [(unplus nv, [])]
              end) (split_char AMP qs).
Definition url_decode := parse_qsl.

(* ---- urlparse on the part of Request.url that follows scheme://authority ---- *)
Definition unsafe_url_byte (b : byte) : bool := memb b [x09; x0d; x0a].
Definition remove_unsafe (s : bytes) : bytes := filter (fun b => negb (unsafe_url_byte b)) s.

(* split at the LAST slash: Some (before, after) *)
Fixpoint rbreak_slash (s : bytes) : option (bytes * bytes) :=
  match s with
  | [] => None
  | x :: s' =>
      match rbreak_slash s' with
      | Some (a, b) => Some (x :: a, b)
      | None => if byte_eqb x SLASH then Some ([], s') else None
      end
  end.

(* urllib.parse._splitparams *)
Definition splitparams (u : bytes) : bytes * bytes :=
  match rbreak_slash u with
  | Some (a, b) =>
      match break_at SEMI b with
      | Some (b1, b2) => (a ++ SLASH :: b1, b2)
      | None => (u, [])
      end
  | None =>
      match break_at SEMI u with
      | Some (a, b) => (a, b)
      | None => (u, [])       (* not reached: called only when a semicolon is present *)
      end
  end.

Record parsed := { p_path : bytes; p_params : bytes; p_query : bytes; p_fragment : bytes }.

(* urlparse(scheme://authority + p) restricted to (path, params, query, fragment); p starts with a slash *)
Definition urlparse_path (p : bytes) : parsed :=
  let u := remove_unsafe p in
  let (u1, frag) := match break_at HASH u with Some (a, b) => (a, b) | None => (u, []) end in
  let (u2, query) := match break_at QM u1 with Some (a, b) => (a, b) | None => (u1, []) end in
  let (path, params) := if memb SEMI u2 then splitparams u2 else (u2, []) in
  {| p_path := path; p_params := params; p_query := query; p_fragment := frag |}.

(* urlunparse(["", "", path, params, query, fragment]) *)
Definition urlunparse_path (path params query frag : bytes) : bytes :=
  let u := if nonempty params then path ++ SEMI :: params else path in
  let u := if nonempty query then u ++ QM :: query else u in
  if nonempty frag then u ++ HASH :: frag else u.

(* Request._get_query / _set_query on Request.path *)
Definition get_query (p : bytes) : pairs := url_decode (p_query (urlparse_path p)).
Definition set_query (p : bytes) (l : pairs) : bytes :=
  let r := urlparse_path p in
  urlunparse_path (p_path r) (p_params r) (url_encode l None) (p_fragment r).

(* Request.path_components getter / setter *)
Definition get_path_components (p : bytes) : list bytes :=
  map unquote (filter nonempty (split_char SLASH (p_path (urlparse_path p)))).
Definition set_path_components (p : bytes) (comps : list bytes) : bytes :=
  let r := urlparse_path p in
  urlunparse_path (SLASH :: join [SLASH] (map (quote []) comps)) (p_params r) (p_query r) (p_fragment r).

(* Request._set_urlencoded_form: new body; old_text = get_text(strict=False) of the old body (abstract, C32).
   _get_urlencoded_form on a body whose text is t (content-type check done by the caller). *)
Definition set_urlencoded_form (old_text : option bytes) (l : pairs) : bytes := url_encode l old_text.
Definition get_urlencoded_form (t : bytes) : pairs := url_decode t.
