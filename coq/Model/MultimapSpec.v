(* Model/MultimapSpec.v -- the abstract ordered multimap with canonicalised names (C35 specification).
   An abstract state is an ordered list of entries (canonical name, spelling, value); every lookup
   is by canonical name only, the spelling is carried along untouched. Generic in the types of
   names K, canonical names C and values V. The second half instantiates it for header histories
   (K = V = C = bytes, canonical name = lower-cased name). No proofs in this file. *)
From Coq Require Import List Bool NArith ZArith.
From MV Require Import Base.Bytes Model.Headers.
Import ListNotations.

Section Spec.
  Context {K C V : Type}.
  Variable canon_of : K -> C.
  Variable ceqb : C -> C -> bool.
  Variable reduce : list V -> V.

  Definition entry := (C * K * V)%type.
  Definition e_canon (e : entry) : C := fst (fst e).
  Definition e_spelled (e : entry) : K := snd (fst e).
  Definition e_value (e : entry) : V := snd e.

  Definition s_match (c : C) (e : entry) : bool := ceqb (e_canon e) c.
  Definition s_others (c : C) (m : list entry) : list entry := filter (fun e => negb (s_match c e)) m.

  Definition s_get_all (m : list entry) (c : C) : list V := map e_value (filter (s_match c) m).
  Definition s_contains (m : list entry) (c : C) : bool := existsb (s_match c) m.
  Definition s_getitem (m : list entry) (c : C) : option V :=
    if s_contains m c then Some (reduce (s_get_all m c)) else None.
  Definition s_delitem (m : list entry) (c : C) : option (list entry) :=
    if s_contains m c then Some (s_others c m) else None.

  (* the entries named c take the new values in order, keeping position and spelling; surplus
     entries are dropped *)
  Fixpoint s_replace (c : C) (vs : list V) (m : list entry) : list entry :=
    match m with
    | [] => []
    | e :: m' =>
        if s_match c e then
          match vs with
          | v :: vs' => (e_canon e, e_spelled e, v) :: s_replace c vs' m'
          | [] => s_replace c [] m'
          end
        else e :: s_replace c vs m'
    end.
  Definition s_count (m : list entry) (c : C) : nat := length (filter (s_match c) m).
  (* surplus values are appended at the end under the given spelling *)
  Definition s_set_all (m : list entry) (k : K) (vs : list V) : list entry :=
    s_replace (canon_of k) vs m
      ++ map (fun v => (canon_of k, k, v)) (skipn (s_count m (canon_of k)) vs).

  (* position denoted by a Python index on a sequence of length n *)
  Definition s_pos (index : Z) (n : nat) : nat :=
    Z.to_nat (Z.max 0 (Z.min (Z.of_nat n) (if (index <? 0)%Z then index + Z.of_nat n else index)))%Z.
  Definition s_insert (m : list entry) (index : Z) (k : K) (v : V) : list entry :=
    firstn (s_pos index (length m)) m ++ (canon_of k, k, v) :: skipn (s_pos index (length m)) m.
  Definition s_add (m : list entry) (k : K) (v : V) : list entry := m ++ [(canon_of k, k, v)].

  (* an entry is listed iff no earlier entry has the same canonical name *)
  Fixpoint s_firsts (pre m : list entry) : list entry :=
    match m with
    | [] => []
    | e :: m' =>
        if existsb (s_match (e_canon e)) pre then s_firsts (e :: pre) m'
        else e :: s_firsts (e :: pre) m'
    end.
  Definition s_iter (m : list entry) : list K := map e_spelled (s_firsts [] m).
  Definition s_len (m : list entry) : N := N.of_nat (length (s_iter m)).
End Spec.

(* ---------------------------------------------------------------- header instance *)
Definition hentry := @entry bytes bytes bytes.
Definition abs (fs : list field) : list hentry := map (fun f => (lower (fst f), fst f, snd f)) fs.
Definition unabs (m : list hentry) : list field := map (fun e => (e_spelled e, e_value e)) m.

Definition sstate := (list hentry * list hentry)%type.
Definition abs_state (st : state) : sstate := (abs (fst st), abs (snd st)).
Definition sreg (st : sstate) (t : bool) : list hentry := if t then snd st else fst st.
Definition set_sreg (st : sstate) (t : bool) (m : list hentry) : sstate :=
  if t then (fst st, m) else (m, snd st).

(* equality compares spelling and value of all fields, in order *)
Definition s_eq (a b : list hentry) : bool := list_eqb field_eqb (unabs a) (unabs b).

Definition s_step (st : sstate) (o : op) : result * sstate :=
  match o with
  | OGetItem t k =>
      (match s_getitem bytes_eqb _reduce_values (sreg st t) (lower k) with
       | Some v => RVal v | None => RKeyError end, st)
  | OContains t k => (RBool (s_contains bytes_eqb (sreg st t) (lower k)), st)
  | OSetItem t k v => (RNone, set_sreg st t (s_set_all lower bytes_eqb (sreg st t) k [v]))
  | ODelItem t k =>
      match s_delitem bytes_eqb (sreg st t) (lower k) with
      | Some m => (RNone, set_sreg st t m)
      | None => (RKeyError, st)
      end
  | OGetAll t k => (RVals (s_get_all bytes_eqb (sreg st t) (lower k)), st)
  | OSetAll t k vs => (RNone, set_sreg st t (s_set_all lower bytes_eqb (sreg st t) k vs))
  | OAdd t k v => (RNone, set_sreg st t (s_add lower (sreg st t) k v))
  | OInsert t i k v => (RNone, set_sreg st t (s_insert lower (sreg st t) i k v))
  | OIter t => (RKeys (s_iter bytes_eqb (sreg st t)), st)
  | OLen t => (RLen (s_len bytes_eqb (sreg st t)), st)
  | OEq => (RBool (s_eq (fst st) (snd st)), st)
  | OCopy t => (RNone, set_sreg st (negb t) (sreg st t))
  end.

Fixpoint s_run (st : sstate) (ops : list op) : list (result * list field) * sstate :=
  match ops with
  | [] => ([], st)
  | o :: ops' =>
      let '(r, st') := s_step st o in
      let '(obs, st'') := s_run st' ops' in
      ((r, unabs (sreg st' (target o))) :: obs, st'')
  end.
