(* Model/Http1Conn.v -- the HTTP/1 connection objects of mitmproxy/proxy/layers/http/_http1.py, restricted to the
   framing decisions: what Http1Server / Http1Client read_headers decide for a parsed head, and the bytes
   Http1Client.send / Http1Server.send write for RequestHeaders / RequestData / RequestEndOfMessage and the response
   analogues (HTTP/1 messages only: the HTTP/2 and HTTP/3 down-conversion branches are not modelled), plus
   validate_request of layers/http/__init__.py.  Uses the generated Gen/BodySize.v for validate_headers and
   expected_http_body_size.  Executable definitions only. *)
From Coq Require Import List Bool NArith ZArith.
From MV Require Import Base.Bytes Model.Http1Msg Model.BodySizePrelude Gen.BodySize.
Import ListNotations.

(* commands written to the peer connection *)
Inductive cmd := Send (data : bytes) | HalfClose.

(* ---------- receiving: Http1Server.read_headers / Http1Client.read_headers on an extracted head *)
Inductive head_result (H : Type) :=
| BadHead                                   (* read_*_head raised ValueError: no message object *)
| BadSize (h : H)                           (* expected_http_body_size raised ValueError *)
| Accepted (h : H) (size : option Z)        (* ReceiveHttp(Headers(..., end_stream = (size == 0))), body reader made from size *)
| Crashed.                                  (* an exception other than ValueError *)
Arguments BadHead {H}. Arguments BadSize {H} h. Arguments Accepted {H} h size. Arguments Crashed {H}.

Definition server_read_headers (u : url_lib) (lines : list bytes) : head_result request_head :=
  match read_request_head u lines with
  | ValueError => BadHead
  | OtherError => Crashed
  | Ok r => match expected_http_body_size r None with
            | Ok sz => Accepted r sz
            | ValueError => BadSize r
            | OtherError => Crashed
            end
  end.

Definition client_read_headers (request : request_head) (lines : list bytes) : head_result response_head :=
  match read_response_head lines with
  | ValueError => BadHead
  | OtherError => Crashed
  | Ok r => match expected_http_body_size request (Some r) with
            | Ok sz => Accepted r sz
            | ValueError => BadSize r
            | OtherError => Crashed
            end
  end.

(* validate_request(mode, request, validate_inbound_headers) is None *)
Definition HTTP_ : bytes := [x68;x74;x74;x70].
Definition HTTPS_ : bytes := [x68;x74;x74;x70;x73].
Definition validate_request (transparent : bool) (r : request_head) (validate_inbound_headers : bool) : bool :=
  if negb (bytes_eqb (rq_scheme r) HTTP_ || bytes_eqb (rq_scheme r) HTTPS_ || bytes_eqb (rq_scheme r) []) then false
  else if transparent && bytes_eqb (rq_method r) CONNECT then false
  else if validate_inbound_headers
       then match validate_headers (MReq r) with Ok _ => true | _ => false end
       else true.

(* check_invalid(False): the response is acceptable *)
Definition validate_response (r : response_head) (validate_inbound_headers : bool) : bool :=
  if validate_inbound_headers
  then match validate_headers (MResp r) with Ok _ => true | _ => false end
  else true.

(* ---------- sending: Http1Client.send *)
Definition client_send_headers (request : request_head) : list cmd := [Send (assemble_request_head request)].

(* an empty data event never becomes a chunk (a zero-length chunk is the last-chunk): /repo d5b92a7b2 *)
Definition client_send_data (request : request_head) (data : bytes) : list cmd :=
  let raw := if nonempty data && send_chunked (rq_headers request) then emit_chunk data else data in
  match raw with [] => [] | _ => [Send raw] end.

Definition MINUS1 : Z := (-1)%Z.
Definition client_send_end (request : request_head) (response : option response_head) : res (list cmd) :=
  if send_chunked (rq_headers request) then Ok [Send LAST_CHUNK]
  else bind (expected_http_body_size request response)
            (fun sz => match sz with
                       | Some z => if Z.eqb z MINUS1 then Ok [HalfClose] else Ok []
                       | None => Ok []
                       end).

(* RequestHeaders, one RequestData per element of [chunks], RequestEndOfMessage (no response seen yet) *)
Definition forward_request (request : request_head) (chunks : list bytes) : res (list cmd) :=
  bind (client_send_end request None)
       (fun e => Ok (client_send_headers request ++ concat (map (client_send_data request) chunks) ++ e)).

(* ---------- sending: Http1Server.send *)
Definition server_send_headers (response : response_head) : list cmd := [Send (assemble_response_head response)].

Definition server_send_data (response : response_head) (data : bytes) : list cmd :=
  let raw := if nonempty data && send_chunked (rs_headers response) then emit_chunk data else data in
  match raw with [] => [] | _ => [Send raw] end.

(* 1xx, 204 and 304 never have a body (fixes/C01-no-last-chunk-after-bodiless-response.diff) *)
Definition no_body_status (st : Z) : bool :=
  (Z.leb 100 st && Z.leb st 199) || Z.eqb st 204 || Z.eqb st 304.

Definition server_send_end (request : request_head) (response : response_head) : list cmd :=
  if negb (bytes_eqb (upper (rq_method request)) HEAD) && negb (no_body_status (rs_status response))
     && send_chunked (rs_headers response)
  then [Send LAST_CHUNK] else [].

Definition forward_response (request : request_head) (response : response_head) (chunks : list bytes) : list cmd :=
  server_send_headers response ++ concat (map (server_send_data response) chunks) ++ server_send_end request response.

Fixpoint sent_bytes (cs : list cmd) : bytes :=
  match cs with
  | [] => []
  | Send d :: cs' => d ++ sent_bytes cs'
  | HalfClose :: cs' => sent_bytes cs'
  end.
