(* Model/Http2Streams.v -- executable model of the mitmproxy HTTP/2 connection objects (C05):
     proxy/layers/http/_http_h2.py  BufferedH2Connection (stream_buffers, stream_trailers, window updates)
     proxy/layers/http/_http2.py    Http2Connection (streams dict, _handle_event, handle_h2_event, protocol_error,
                                    close_connection), Http2Server, Http2Client (our_stream_id / their_stream_id,
                                    stream_queue, provisional_max_concurrency)
   over a mini-h2: the part of hyper-h2 the code above relies on (stream states, open_outbound_streams,
   get_next_available_stream_id, flow-control windows, SETTINGS effects, the error checks of send_headers /
   send_data / reset_stream).  No proofs here.  A Python exception is the result Crash; running out of the
   structural fuel is the distinct result OutOfFuel.  Header blocks are opaque tokens. *)
From Coq Require Import List Bool NArith ZArith.
From MV Require Import Base.Bytes.
Import ListNotations.
Open Scope N_scope.

(* ------------------------------------------------------------------ results *)
Inductive res (A : Type) := Ok (a : A) | Crash | OutOfFuel.
Arguments Ok {A} a.
Arguments Crash {A}.
Arguments OutOfFuel {A}.

Definition bind {A B} (r : res A) (f : A -> res B) : res B :=
  match r with Ok a => f a | Crash => Crash | OutOfFuel => OutOfFuel end.
Notation "'do' x <- r ; k" := (bind r (fun x => k)) (at level 200, x pattern, r at level 100, k at level 200).

(* ------------------------------------------------------------------ wire frames, HTTP events *)
Inductive hkind := HReq | HResp | HInfo | HTrail | HErr.

Inductive frame :=
| FHeaders (sid : N) (k : hkind) (tok : N) (end_stream : bool)
| FData (sid : N) (data : bytes) (end_stream : bool)
| FRst (sid : N) (code : N)
| FWin (sid : N) (inc : Z)
| FSettings (l : list (N * N))
| FSettingsAck
| FPing (ack : bool)
| FGoaway (code : N).

(* HttpEvent: Request* towards an Http2Client, Response* towards an Http2Server, and the same shapes inside ReceiveHttp *)
Inductive hev :=
| EHeaders (sid tok : N) (end_stream : bool)
| EData (sid : N) (data : bytes)
| ETrailers (sid tok : N)
| EEom (sid : N)
| EErr (sid code : N) (body : bytes) (is_resp : bool).   (* code = ErrorCode value; body = format_error(status, message) *)

Definition hev_sid (e : hev) : N :=
  match e with EHeaders s _ _ | EData s _ | ETrailers s _ | EEom s | EErr s _ _ _ => s end.

Definition hev_set_sid (e : hev) (s : N) : hev :=
  match e with
  | EHeaders _ t b => EHeaders s t b | EData _ d => EData s d | ETrailers _ t => ETrailers s t
  | EEom _ => EEom s | EErr _ c b r => EErr s c b r
  end.

Inductive input := IStart | IHttp (e : hev) | IFrames (l : list frame) | IClosed.
Inductive out := OFrame (f : frame) | ORecv (e : hev) | OClose.

(* ------------------------------------------------------------------ insertion-ordered dicts *)
Section Dict.
  Context {V : Type}.
  Fixpoint dget (k : N) (d : list (N * V)) : option V :=
    match d with [] => None | (k', v) :: t => if k =? k' then Some v else dget k t end.
  (* d[k] = v : in place when present, else at the end *)
  Fixpoint dset (k : N) (v : V) (d : list (N * V)) : list (N * V) :=
    match d with [] => [(k, v)] | (k', v') :: t => if k =? k' then (k, v) :: t else (k', v') :: dset k v t end.
  Fixpoint ddel (k : N) (d : list (N * V)) : list (N * V) :=
    match d with [] => [] | (k', v') :: t => if k =? k' then t else (k', v') :: ddel k t end.
  Definition dmem (k : N) (d : list (N * V)) : bool := match dget k d with Some _ => true | None => false end.
  Definition dkeys (d : list (N * V)) : list N := map fst d.
End Dict.

(* ------------------------------------------------------------------ mini-h2 *)
Inductive sst := SOpen | SHalfLocal | SHalfRemote | SClosed.
Record h2stream := mkS { st : sst; win : Z; hsent : bool }.

Record h2 := mkH2 {
  client_side : bool;
  hstreams : list (N * h2stream);
  conn_closed : bool;        (* state_machine.state is ConnectionState.CLOSED *)
  conn_win : Z;              (* outbound_flow_control_window *)
  max_frame : N;             (* max_outbound_frame_size *)
  r_maxconc : N;             (* remote_settings.max_concurrent_streams *)
  r_initwin : Z;             (* remote_settings.initial_window_size *)
  highest_out : N;           (* highest_outbound_stream_id *)
  pending : list frame       (* frames not yet taken by data_to_send() *)
}.

Definition h2_init (cs : bool) : h2 := mkH2 cs [] false 65535 16384 4294967297 65535 0 [].

Definition set_streams (h : h2) (l : list (N * h2stream)) : h2 :=
  mkH2 (client_side h) l (conn_closed h) (conn_win h) (max_frame h) (r_maxconc h) (r_initwin h) (highest_out h) (pending h).
Definition set_pending (h : h2) (p : list frame) : h2 :=
  mkH2 (client_side h) (hstreams h) (conn_closed h) (conn_win h) (max_frame h) (r_maxconc h) (r_initwin h) (highest_out h) p.
Definition set_conn_win (h : h2) (w : Z) : h2 :=
  mkH2 (client_side h) (hstreams h) (conn_closed h) w (max_frame h) (r_maxconc h) (r_initwin h) (highest_out h) (pending h).
Definition set_closed (h : h2) : h2 :=
  mkH2 (client_side h) (hstreams h) true (conn_win h) (max_frame h) (r_maxconc h) (r_initwin h) (highest_out h) (pending h).
Definition set_highest (h : h2) (n : N) : h2 :=
  mkH2 (client_side h) (hstreams h) (conn_closed h) (conn_win h) (max_frame h) (r_maxconc h) (r_initwin h) n (pending h).
Definition set_settings (h : h2) (mf mc : N) (iw : Z) : h2 :=
  mkH2 (client_side h) (hstreams h) (conn_closed h) (conn_win h) mf mc iw (highest_out h) (pending h).
Definition emit (h : h2) (f : frame) : h2 := set_pending h (pending h ++ [f]).

Definition is_closed_st (s : sst) : bool := match s with SClosed => true | _ => false end.
Definition can_send_st (s : sst) : bool := match s with SOpen | SHalfRemote => true | _ => false end.
Definition after_send_end (s : sst) : sst := match s with SOpen => SHalfLocal | SHalfRemote => SClosed | x => x end.
Definition after_recv_end (s : sst) : sst := match s with SOpen => SHalfRemote | SHalfLocal => SClosed | x => x end.

(* open_outbound_streams: streams we opened (odd ids for a client) that are not closed *)
Definition is_outbound (h : h2) (sid : N) : bool := Bool.eqb (N.odd sid) (client_side h).
Definition open_outbound (h : h2) : N :=
  N.of_nat (length (filter (fun p => is_outbound h (fst p) && negb (is_closed_st (st (snd p)))) (hstreams h))).

Definition next_stream_id (h : h2) : N :=
  if highest_out h =? 0 then (if client_side h then 1 else 2) else highest_out h + 2.

Definition h2_send_headers (h : h2) (sid : N) (k : hkind) (tok : N) (es : bool) : res h2 :=
  if conn_closed h then Crash else                                   (* connection state machine: CLOSED *)
  match dget sid (hstreams h) with
  | None =>
      if r_maxconc h <? open_outbound h + 1 then Crash              (* TooManyStreamsError *)
      else if negb (is_outbound h sid) then Crash
      else if sid <=? highest_out h then Crash                      (* StreamIDTooLowError *)
      else
        let s := mkS (if es then SHalfLocal else SOpen) (r_initwin h) true in
        Ok (emit (set_highest (set_streams h (hstreams h ++ [(sid, s)])) sid) (FHeaders sid k tok es))
  | Some s =>
      if negb (can_send_st (st s)) then Crash                       (* state machine: SEND_HEADERS not allowed *)
      else if hsent s && negb es then Crash                         (* Trailers must have END_STREAM set *)
      else
        let s' := mkS (if es then after_send_end (st s) else st s) (win s) true in
        Ok (emit (set_streams h (dset sid s' (hstreams h))) (FHeaders sid k tok es))
  end.

Definition blen (d : bytes) : Z := Z.of_nat (length d).

Definition local_window (h : h2) (sid : N) : res Z :=
  match dget sid (hstreams h) with
  | None => Crash                                                    (* NoSuchStreamError / StreamClosedError *)
  | Some s => Ok (Z.min (conn_win h) (win s))
  end.

Definition h2_send_data (h : h2) (sid : N) (d : bytes) (es : bool) : res h2 :=
  if conn_closed h then Crash else
  match dget sid (hstreams h) with
  | None => Crash
  | Some s =>
      let n := blen d in
      if (0 <? n)%Z && (Z.min (conn_win h) (win s) <? n)%Z then Crash  (* FlowControlError *)
      else if max_frame h <? N.of_nat (length d) then Crash            (* FrameTooLargeError *)
      else if negb (can_send_st (st s)) then Crash
      else
        let s' := mkS (if es then after_send_end (st s) else st s) (win s - n)%Z (hsent s) in
        Ok (emit (set_conn_win (set_streams h (dset sid s' (hstreams h))) (conn_win h - n)%Z) (FData sid d es))
  end.

Definition h2_reset_stream (h : h2) (sid code : N) : res h2 :=
  if conn_closed h then Crash else
  match dget sid (hstreams h) with
  | None => Crash
  | Some s =>
      if is_closed_st (st s) then Crash
      else Ok (emit (set_streams h (dset sid (mkS SClosed (win s) (hsent s)) (hstreams h))) (FRst sid code))
  end.

Definition h2_close_connection (h : h2) (code : N) : h2 := set_closed (emit h (FGoaway code)).

(* events produced by H2Connection.receive_data *)
Inductive h2ev :=
| VRequest (sid tok : N) (ended : bool)
| VResponse (sid tok : N) (ended : bool)
| VInfo (sid : N)
| VTrailers (sid tok : N)
| VData (sid : N) (d : bytes) (ended : bool)
| VEnded (sid : N)
| VReset (sid code : N)
| VWindow (sid : N)
| VSettings (has_initwin : bool)
| VTerminated
| VOther.

Definition upd_stream (h : h2) (sid : N) (f : h2stream -> h2stream) : h2 :=
  match dget sid (hstreams h) with
  | Some s => set_streams h (dset sid (f s) (hstreams h))
  | None => h
  end.

Definition recv_end (h : h2) (sid : N) (es : bool) : h2 :=
  if es then upd_stream h sid (fun s => mkS (after_recv_end (st s)) (win s) (hsent s)) else h.

Definition ended_ev (sid : N) (es : bool) : list h2ev := if es then [VEnded sid] else [].

Fixpoint apply_settings (h : h2) (l : list (N * N)) : h2 :=
  match l with
  | [] => h
  | (c, v) :: t =>
      let h' :=
        if c =? 4 then
          let delta := (Z.of_N v - r_initwin h)%Z in
          set_settings (set_streams h (map (fun p => (fst p, mkS (st (snd p)) (win (snd p) + delta)%Z (hsent (snd p)))) (hstreams h)))
                       (max_frame h) (r_maxconc h) (Z.of_N v)
        else if c =? 3 then set_settings h (max_frame h) v (r_initwin h)
        else if c =? 5 then set_settings h v (r_maxconc h) (r_initwin h)
        else h in
      apply_settings h' t
  end.

Definition recv_frame (h : h2) (f : frame) : h2 * list h2ev :=
  match f with
  | FHeaders sid HReq tok es =>
      if client_side h then (h, [VRequest sid tok es])
      else match dget sid (hstreams h) with
           | Some _ => (h, [])
           | None =>
               let s := mkS (if es then SHalfRemote else SOpen) (r_initwin h) false in
               (set_streams h (hstreams h ++ [(sid, s)]), VRequest sid tok es :: ended_ev sid es)
           end
  | FHeaders sid HInfo tok es => (h, [VInfo sid])
  | FHeaders sid HTrail tok es => (recv_end h sid true, [VTrailers sid tok; VEnded sid])
  | FHeaders sid _ tok es => (recv_end h sid es, VResponse sid tok es :: ended_ev sid es)
  | FData sid d es => (recv_end h sid es, VData sid d es :: ended_ev sid es)
  | FRst sid code =>
      match dget sid (hstreams h) with
      | Some s => if is_closed_st (st s) then (h, [])
                  else (set_streams h (dset sid (mkS SClosed (win s) (hsent s)) (hstreams h)), [VReset sid code])
      | None => (h, [])
      end
  | FWin sid inc =>
      if sid =? 0 then (set_conn_win h (conn_win h + inc)%Z, [VWindow 0])
      else match dget sid (hstreams h) with
           | Some s => if is_closed_st (st s) then (h, [])
                       else (set_streams h (dset sid (mkS (st s) (win s + inc)%Z (hsent s)) (hstreams h)), [VWindow sid])
           | None => (h, [])
           end
  | FSettings l => (apply_settings h l, [VSettings (existsb (fun p => fst p =? 4) l)])
  | FSettingsAck => (h, [VOther])
  | FPing _ => (h, [VOther])
  | FGoaway _ => (set_closed h, [VTerminated])
  end.

Fixpoint recv_frames (h : h2) (l : list frame) : h2 * list h2ev :=
  match l with
  | [] => (h, [])
  | f :: t => let '(h1, e1) := recv_frame h f in let '(h2, e2) := recv_frames h1 t in (h2, e1 ++ e2)
  end.

(* ------------------------------------------------------------------ BufferedH2Connection *)
Definition chunk := (bytes * bool)%type.
Record bconn := mkB {
  bh : h2;
  bufs : list (N * list chunk);    (* stream_buffers: never holds an empty deque between calls *)
  trls : list (N * N);             (* stream_trailers: sid -> trailers token *)
  fx : bool                        (* true = the repaired send_data (available_window > 0), false = as shipped *)
}.
Definition set_bh (b : bconn) (h : h2) : bconn := mkB h (bufs b) (trls b) (fx b).
Definition set_bufs (b : bconn) (l : list (N * list chunk)) : bconn := mkB (bh b) l (trls b) (fx b).
Definition set_trls (b : bconn) (l : list (N * N)) : bconn := mkB (bh b) (bufs b) l (fx b).

Definition buf_nonempty (b : bconn) (sid : N) : bool :=
  match dget sid (bufs b) with Some (_ :: _) => true | _ => false end.
Definition buf_append (b : bconn) (sid : N) (c : chunk) : bconn :=
  set_bufs b (dset sid (match dget sid (bufs b) with Some l => l ++ [c] | None => [c] end) (bufs b)).

(* Python slices data[:k] and data[k:] for any integer k *)
Definition slice_to (k : Z) (d : bytes) : bytes :=
  firstn (Z.to_nat (if (k <? 0)%Z then Z.max 0 (blen d + k) else k)) d.
Definition slice_from (k : Z) (d : bytes) : bytes :=
  skipn (Z.to_nat (if (k <? 0)%Z then Z.max 0 (blen d + k) else k)) d.

(* send_data for a frame that fits max_outbound_frame_size *)
Definition b_send_data1 (b : bconn) (sid : N) (d : bytes) (es : bool) : res bconn :=
  if buf_nonempty b sid then Ok (buf_append b sid (d, es))
  else
    do aw <- local_window (bh b) sid;
    if (blen d <=? aw)%Z then
      do h <- h2_send_data (bh b) sid d es; Ok (set_bh b h)
    else
      do b1 <- (if (if fx b then (0 <? aw)%Z else negb (aw =? 0)%Z)
                then do h <- h2_send_data (bh b) sid (slice_to aw d) false; Ok (set_bh b h, slice_from aw d)
                else Ok (b, d));
      Ok (buf_append (fst b1) sid (snd b1, es)).

Fixpoint chunks (fuel n : nat) (d : bytes) : list bytes :=
  match fuel with
  | O => []
  | S f => match d with [] => [] | _ => firstn n d :: chunks f n (skipn n d) end
  end.

Fixpoint b_send_chunks (b : bconn) (sid : N) (l : list bytes) : res bconn :=
  match l with
  | [] => Ok b
  | c :: t => do b1 <- b_send_data1 b sid c false; b_send_chunks b1 sid t
  end.

Definition b_send_data (b : bconn) (sid : N) (d : bytes) (es : bool) : res bconn :=
  if max_frame (bh b) <? N.of_nat (length d) then
    if max_frame (bh b) =? 0 then Crash
    else b_send_chunks b sid (chunks (length d) (N.to_nat (max_frame (bh b))) d)   (* end_stream is dropped here, as in the code *)
  else b_send_data1 b sid d es.

Definition b_send_trailers (b : bconn) (sid tok : N) : res bconn :=
  if buf_nonempty b sid then Ok (set_trls b (dset sid tok (trls b)))
  else do h <- h2_send_headers (bh b) sid HTrail tok true; Ok (set_bh b h).

Definition b_end_stream (b : bconn) (sid : N) : res bconn :=
  if dmem sid (trls b) then Ok b else b_send_data b sid [] true.

Definition b_reset_stream (b : bconn) (sid code : N) : res bconn :=
  let b1 := set_bufs b (ddel sid (bufs b)) in
  do h <- h2_reset_stream (bh b1) sid code; Ok (set_bh b1 h).

(* the while loop of stream_window_updated *)
Fixpoint flush_loop (fuel : nat) (b : bconn) (sid : N) (aw : Z) (sent : bool) : res (bconn * bool) :=
  match fuel with
  | O => OutOfFuel
  | S f =>
      if negb (0 <? aw)%Z then Ok (b, sent)
      else match dget sid (bufs b) with
           | None => Ok (b, sent)
           | Some [] => Crash                                   (* popleft on an empty deque *)
           | Some ((d, es) :: rest) =>
               let '(d1, es1, rest1) :=
                 if (aw <? blen d)%Z then (slice_to aw d, false, (slice_from aw d, es) :: rest) else (d, es, rest) in
               do h <- h2_send_data (bh b) sid d1 es1;
               let b1 := set_bh b h in
               let aw1 := (aw - blen d1)%Z in
               match rest1 with
               | [] =>
                   let b2 := set_bufs b1 (ddel sid (bufs b1)) in
                   match dget sid (trls b2) with
                   | Some tok =>
                       do h2' <- h2_send_headers (bh b2) sid HTrail tok true;
                       flush_loop f (set_trls (set_bh b2 h2') (ddel sid (trls b2))) sid aw1 true
                   | None => flush_loop f b2 sid aw1 true
                   end
               | _ => flush_loop f (set_bufs b1 (dset sid rest1 (bufs b1))) sid aw1 true
               end
           end
  end.

Definition stream_window_updated (b : bconn) (sid : N) : res (bconn * bool) :=
  let gone := match dget sid (hstreams (bh b)) with Some s => negb (can_send_st (st s)) | None => true end in
  if gone then Ok (set_bufs b (ddel sid (bufs b)), false)
  else
    do aw <- local_window (bh b) sid;
    flush_loop (S (S (match dget sid (bufs b) with Some l => length l | None => O end))) b sid aw false.

(* one pass of the for loop in connection_window_updated; result: state, sent_any, returned early *)
Fixpoint cwu_pass (b : bconn) (keys : list N) (sent : bool) : res (bconn * bool * bool) :=
  match keys with
  | [] => Ok (b, sent, false)
  | k :: t =>
      match dget k (bufs b) with
      | None => Crash                                           (* stream_buffers.pop(stream_id) KeyError *)
      | Some l =>
          let b1 := set_bufs b (ddel k (bufs b) ++ [(k, l)]) in  (* move to end of dict *)
          do r <- stream_window_updated b1 k;
          let '(b2, s) := r in
          if s then (if (conn_win (bh b2) =? 0)%Z then Ok (b2, true, true) else cwu_pass b2 t true)
          else cwu_pass b2 t sent
      end
  end.

Fixpoint cwu_loop (fuel : nat) (b : bconn) : res bconn :=
  match fuel with
  | O => OutOfFuel
  | S f =>
      do r <- cwu_pass b (dkeys (bufs b)) false;
      let '(b1, sent, early) := r in
      if early then Ok b1 else if sent then cwu_loop f b1 else Ok b1
  end.

Definition total_chunks (b : bconn) : nat := fold_right (fun p n => (length (snd p) + n)%nat) O (bufs b).
Definition connection_window_updated (b : bconn) : res bconn :=
  cwu_loop (S (S (total_chunks b + length (bufs b)))) b.

(* BufferedH2Connection.receive_data, second half: the loop over the events h2 returned *)
Fixpoint b_filter_events (b : bconn) (evs : list h2ev) : res (bconn * list h2ev) :=
  match evs with
  | [] => Ok (b, [])
  | e :: t =>
      match e with
      | VWindow sid =>
          do b1 <- (if sid =? 0 then connection_window_updated b
                    else do r <- stream_window_updated b sid; Ok (fst r));
          b_filter_events b1 t
      | VSettings true =>
          do b1 <- connection_window_updated b;
          do r <- b_filter_events b1 t; Ok (fst r, e :: snd r)
      | VReset sid _ =>
          do r <- b_filter_events (set_bufs b (ddel sid (bufs b))) t; Ok (fst r, e :: snd r)
      | VTerminated =>
          do r <- b_filter_events (set_bufs b []) t; Ok (fst r, e :: snd r)
      | _ => do r <- b_filter_events b t; Ok (fst r, e :: snd r)
      end
  end.

Definition b_receive (b : bconn) (l : list frame) : res (bconn * list h2ev) :=
  let '(h1, evs) := recv_frames (bh b) l in b_filter_events (set_bh b h1) evs.

(* ------------------------------------------------------------------ Http2Connection *)
Inductive sstate := ExpectingHeaders | HeadersReceived.

Record conn := mkC {
  cb : bconn;
  streams : list (N * sstate);
  dead : bool;               (* _handle_event has been replaced by done *)
  prov : bool                (* Http2Client.provisional_max_concurrency is still 10 *)
}.
Definition set_cb (c : conn) (b : bconn) : conn := mkC b (streams c) (dead c) (prov c).
Definition set_sstreams (c : conn) (l : list (N * sstate)) : conn := mkC (cb c) l (dead c) (prov c).
Definition set_prov (c : conn) (p : bool) : conn := mkC (cb c) (streams c) (dead c) p.
Definition ch (c : conn) : h2 := bh (cb c).
Definition is_client (c : conn) : bool := client_side (ch c).

Definition conn_init (cs fixd : bool) : conn := mkC (mkB (h2_init cs) [] [] fixd) [] false true.

Definition is_closed (c : conn) (sid : N) : bool :=
  match dget sid (hstreams (ch c)) with
  | Some s => is_closed_st (st s) || conn_closed (ch c)
  | None => true
  end.

Definition is_open_for_us (c : conn) (sid : N) : bool :=
  match dget sid (hstreams (ch c)) with
  | Some s => can_send_st (st s) && negb (conn_closed (ch c))
  | None => false
  end.

(* data_to_send(): everything pending goes out *)
Definition take_pending (c : conn) : conn * list out :=
  (set_cb c (set_bh (cb c) (set_pending (ch c) [])), map OFrame (pending (ch c))).

(* ErrorCode.http_status_code() *)
Definition http_status (code : N) : option N :=
  if (code =? 1) || (code =? 12) || (code =? 9) then Some 400
  else if code =? 3 then Some 413
  else if (code =? 5) || (code =? 2) || (code =? 13) || (code =? 4) then Some 502
  else None.

(* ErrorCode -> h2 error code in the reset branch *)
Definition h2_error_of (code : N) : N :=
  if (code =? 11) || (code =? 10) || (code =? 6) then 8
  else if code =? 8 then 13
  else 2.

(* h2 error code of a received RST_STREAM -> ErrorCode *)
Definition errcode_of_reset (c : conn) (code : N) : N :=
  if code =? 8 then 11 else if code =? 13 then 8 else if is_client c then 2 else 1.

Definition default_errcode (c : conn) : N := if is_client c then 2 else 1.

(* close_connection(msg) *)
Definition close_connection (c : conn) : conn * list out :=
  (mkC (cb c) [] true (prov c),
   OClose :: map (fun p => ORecv (EErr (fst p) (default_errcode c) [] (is_client c))) (streams c)).

(* protocol_error(msg) *)
Definition protocol_error (c : conn) : conn * list out :=
  let c1 := set_cb c (set_bh (cb c) (h2_close_connection (ch c) 1)) in
  let '(c2, o1) := take_pending c1 in
  let '(c3, o2) := close_connection c2 in
  (c3, o1 ++ o2).

(* Http2Connection._handle_event for an HttpEvent (Data / Trailers / EndOfMessage / ProtocolError),
   plus the Headers branches of Http2Server._handle_event and Http2Client._handle_event2 *)
Definition conn_http (c : conn) (e : hev) : res (conn * list out) :=
  match e with
  | EHeaders sid tok es =>
      if is_client c then
        do h <- h2_send_headers (ch c) sid HReq tok es;
        let c1 := set_sstreams (set_cb c (set_bh (cb c) h)) (dset sid ExpectingHeaders (streams c)) in
        Ok (take_pending c1)
      else if is_open_for_us c sid then
        do h <- h2_send_headers (ch c) sid HResp tok es;
        Ok (take_pending (set_cb c (set_bh (cb c) h)))
      else Ok (c, [])
  | EData sid d =>
      do b <- (if is_open_for_us c sid then b_send_data (cb c) sid d false else Ok (cb c));
      Ok (take_pending (set_cb c b))
  | ETrailers sid tok =>
      do b <- (if is_open_for_us c sid then b_send_trailers (cb c) sid tok else Ok (cb c));
      Ok (take_pending (set_cb c b))
  | EEom sid =>
      do b <- (if is_open_for_us c sid then b_end_stream (cb c) sid else Ok (cb c));
      Ok (take_pending (set_cb c b))
  | EErr sid code body is_resp =>
      do b <- (if negb (is_closed c sid) then
                 match dget sid (hstreams (ch c)) with
                 | None => Crash
                 | Some s =>
                     match http_status code with
                     | Some status =>
                         if is_resp && is_open_for_us c sid && negb (hsent s) then
                           do h <- h2_send_headers (ch c) sid HErr status false;
                           b_send_data (set_bh (cb c) h) sid body true
                         else b_reset_stream (cb c) sid (h2_error_of code)
                     | None => b_reset_stream (cb c) sid (h2_error_of code)
                     end
                 end
               else Ok (cb c));
      Ok (take_pending (set_cb c b))
  end.

(* handle_h2_event (with the Http2Server / Http2Client overrides): state, outputs, stop *)
Definition handle_h2_event (c : conn) (e : h2ev) : res (conn * list out * bool) :=
  match e with
  | VRequest sid tok ended =>
      if is_client c then let '(c1, o) := protocol_error c in Ok (c1, o, true)
      else Ok (set_sstreams c (dset sid HeadersReceived (streams c)), [ORecv (EHeaders sid tok ended)], false)
  | VResponse sid tok ended =>
      if is_client c then
        match dget sid (streams c) with
        | Some ExpectingHeaders =>
            Ok (set_sstreams c (dset sid HeadersReceived (streams c)), [ORecv (EHeaders sid tok ended)], false)
        | _ => let '(c1, o) := protocol_error c in Ok (c1, o, true)
        end
      else Crash                                                    (* AssertionError: Unexpected event *)
  | VInfo _ => if is_client c then Ok (c, [], false) else Crash
  | VData sid d ended =>
      match dget sid (streams c) with
      | Some HeadersReceived =>
          Ok (c, (if ended && (match d with [] => true | _ => false end) then [] else [ORecv (EData sid d)]), false)
      | Some ExpectingHeaders => let '(c1, o) := protocol_error c in Ok (c1, o, true)
      | None => Ok (c, [], false)
      end
  | VTrailers sid tok => Ok (c, [ORecv (ETrailers sid tok)], false)
  | VEnded sid =>
      match dget sid (streams c) with
      | Some ExpectingHeaders => Crash                               (* AssertionError(unreachable) *)
      | x =>
          let o := match x with Some HeadersReceived => [ORecv (EEom sid)] | _ => [] end in
          Ok ((if is_closed c sid then set_sstreams c (ddel sid (streams c)) else c), o, false)
      end
  | VReset sid code =>
      if dmem sid (streams c) then
        Ok (set_sstreams c (ddel sid (streams c)), [ORecv (EErr sid (errcode_of_reset c code) [] (is_client c))], false)
      else Ok (c, [], false)
  | VTerminated => let '(c1, o) := close_connection c in Ok (c1, o, true)
  | VSettings _ => Ok ((if is_client c then set_prov c false else c), [], false)
  | VWindow _ => Ok (c, [], false)
  | VOther => Ok (c, [], false)
  end.

Fixpoint handle_h2_events (c : conn) (evs : list h2ev) : res (conn * list out * bool) :=
  match evs with
  | [] => Ok (c, [], false)
  | e :: t =>
      do r <- handle_h2_event c e;
      let '(c1, o1, stop) := r in
      if stop then Ok (c1, o1, true)
      else do r2 <- handle_h2_events c1 t; let '(c2, o2, stop2) := r2 in Ok (c2, o1 ++ o2, stop2)
  end.

(* Http2Connection._handle_event (Http2Client._handle_event2 for a client) *)
Definition conn_event (c : conn) (i : input) : res (conn * list out) :=
  match i with
  | IStart => Ok (take_pending c)
  | IHttp e => conn_http c e
  | IFrames l =>
      do r <- b_receive (cb c) l;
      let '(b1, evs) := r in
      do r2 <- handle_h2_events (set_cb c b1) evs;
      let '(c2, o, stop) := r2 in
      if stop then Ok (c2, o) else let '(c3, o3) := take_pending c2 in Ok (c3, o ++ o3)
  | IClosed => Ok (close_connection c)
  end.

(* ------------------------------------------------------------------ Http2Client._handle_event: mapping and queue.
   Generic in the wrapped connection so that the mapping theorems are stated over any library satisfying a
   contract; instantiated with conn_event below. *)
Section Client.
  Variable C : Type.
  Variable inner : C -> input -> res (C * list out).      (* _handle_event2 *)
  Variable has_free : C -> bool.                           (* not no_free_streams *)
  Variable next_id : C -> N.                               (* h2_conn.get_next_available_stream_id() *)
  Variable is_dead : C -> bool.                            (* self._handle_event is self.done *)
  Variable fq : bool.          (* true = the repaired wrapper that fails queued streams when the connection is gone *)

  Record client := mkCl {
    cc : C;
    our : list (N * N);            (* our_stream_id *)
    their : list (N * N);          (* their_stream_id *)
    queue : list (N * list hev)    (* stream_queue *)
  }.

  Definition relabel (th : list (N * N)) (o : out) : res out :=
    match o with
    | ORecv e => match dget (hev_sid e) th with Some s => Ok (ORecv (hev_set_sid e s)) | None => Crash end
    | x => Ok x
    end.

  Fixpoint relabel_all (th : list (N * N)) (l : list out) : res (list out) :=
    match l with
    | [] => Ok []
    | o :: t => do o1 <- relabel th o; do t1 <- relabel_all th t; Ok (o1 :: t1)
    end.

  (* for event in events: yield from self._handle_event(event) *)
  Fixpoint replay_with (g : client -> input -> res (client * list out)) (s : client) (l : list hev)
    : res (client * list out) :=
    match l with
    | [] => Ok (s, [])
    | e :: t =>
        do r1 <- g s (IHttp e);
        do r2 <- replay_with g (fst r1) t;
        Ok (fst r2, snd r1 ++ snd r2)
    end.

  Fixpoint cl_event (fuel : nat) (s : client) (i : input) : res (client * list out) :=
    match fuel with
    | O => OutOfFuel
    | S f =>
        if is_dead (cc s) then Ok (s, [])                   (* done() swallows everything *)
        else
        (* 1. translate the stream id, or queue *)
        let mapped : res (option (client * input)) :=
          match i with
          | IHttp e =>
              match dget (hev_sid e) (our s) with
              | Some ours => Ok (Some (s, IHttp (hev_set_sid e ours)))
              | None =>
                  if negb (has_free (cc s)) then
                    Ok None
                  else
                    let ours := next_id (cc s) in
                    Ok (Some (mkCl (cc s) (dset (hev_sid e) ours (our s)) (dset ours (hev_sid e) (their s)) (queue s),
                              IHttp (hev_set_sid e ours)))
              end
          | _ => Ok (Some (s, i))
          end in
        do m <- mapped;
        match m with
        | None =>
            match i with
            | IHttp e =>
                let q := match dget (hev_sid e) (queue s) with Some l => l ++ [e] | None => [e] end in
                Ok (mkCl (cc s) (our s) (their s) (dset (hev_sid e) q (queue s)), [])
            | _ => Ok (s, [])
            end
        | Some (s1, i1) =>
            (* 2. _handle_event2, relabelling ReceiveHttp *)
            do r <- inner (cc s1) i1;
            let '(c2, o) := r in
            do o2 <- relabel_all (their s1) o;
            let s2 := mkCl c2 (our s1) (their s1) (queue s1) in
            (* 3. resume one queued stream (repaired code: fail all of them when the connection is gone) *)
            match queue s2 with
            | (qsid, evs) :: rest =>
                if fq && is_dead (cc s2) then
                  Ok (mkCl (cc s2) (our s2) (their s2) [],
                      o2 ++ map (fun p => ORecv (EErr (fst p) 2 [] true)) (queue s2))
                else if has_free (cc s2) then
                  let s3 := mkCl (cc s2) (our s2) (their s2) rest in
                  do r3 <- replay_with (cl_event f) s3 evs;
                  Ok (fst r3, o2 ++ snd r3)
                else Ok (s2, o2)
            | [] => Ok (s2, o2)
            end
        end
    end.

  Definition cl_step (s : client) (i : input) : res (client * list out) :=
    cl_event (S (S (length (queue s)))) s i.
End Client.

Arguments mkCl {C} _ _ _ _.
Arguments cc {C} _.
Arguments our {C} _.
Arguments their {C} _.
Arguments queue {C} _.

(* environment contract of the mapping theorems (what HttpStream does): the first HttpEvent of every client stream id
   is RequestHeaders *)
Fixpoint wf_first (seen : list N) (l : list input) : bool :=
  match l with
  | [] => true
  | IHttp e :: t =>
      if existsb (N.eqb (hev_sid e)) seen then wf_first seen t
      else match e with EHeaders _ _ _ => wf_first (hev_sid e :: seen) t | _ => false end
  | _ :: t => wf_first seen t
  end.

(* the concrete Http2Client *)
Definition limit (c : conn) : N := if prov c then 10 else r_maxconc (ch c).
Definition has_free (c : conn) : bool := open_outbound (ch c) <? limit c.
Definition h2client := client conn.
Definition client_init (fixd : bool) : h2client := mkCl (conn_init true fixd) [] [] [].
Definition client_step (fq : bool) (s : h2client) (i : input) : res (h2client * list out) :=
  cl_step conn conn_event has_free (fun c => next_stream_id (ch c)) dead fq s i.

(* the concrete Http2Server: no mapping *)
Definition server_init (fixd : bool) : conn := conn_init false fixd.
Definition server_step (c : conn) (i : input) : res (conn * list out) :=
  if dead c then Ok (c, []) else conn_event c i.
