(* Model/Sh.v -- a fail-closed model of how bash (non-interactive, no shell options set) turns one command line
   into the argv of ONE simple command, written from the bash manual (QUOTING, Shell Grammar, Here Strings,
   Command Substitution) and the printf builtin documentation.  Everything outside the modelled fragment is
   [ShUnsupported]: the model never guesses.  Fragment:
     - one simple command; words separated by space / tab;
     - unquoted literal characters: only the bytes in [sh_plain]; backslash-escaped characters;
     - single quotes (every byte literal), double quotes (backslash before dollar, backquote, dquote, backslash),
     - inside double quotes, one level of dollar-paren command substitution whose body is the printf builtin
       with exactly one argument (its output loses NUL bytes and trailing newlines, and is not split);
     - one here-string (three less-than signs): its word, plus a newline, becomes standard input.
   Single pass automaton over the bytes (structural, no fuel).  Executable definitions only.
   Tied to /bin/bash by the correspondence check of C48 (real bash, stub executables that dump argv). *)
From Coq Require Import List Bool NArith.
From MV Require Import Base.Bytes.
Import ListNotations.

Definition NUL : byte := x00.
Definition NL : byte := x0a.
Definition SQUOTE : byte := x27.
Definition DQUOTE : byte := x22.
Definition BSLASH : byte := x5c.
Definition DOLLAR : byte := x24.
Definition BQUOTE : byte := x60.
Definition LPAREN : byte := x28.
Definition RPAREN : byte := x29.
Definition LESS : byte := x3c.
Definition PERCENT : byte := x25.
Definition DASH : byte := x2d.

(* bytes that are literal when they occur unquoted anywhere in a word: letters, digits and _ @ % + = : , . / -
   (no glob, brace, tilde, history, operator or expansion character) *)
Definition sh_plain (b : byte) : bool :=
  is_alpha b || is_digit b ||
  existsb (byte_eqb b) [x5f; x40; x25; x2b; x3d; x3a; x2c; x2e; x2f; x2d].

Inductive lex := U | UB | SQ | DQ | DQB | DQD | L1 | L2.

(* one nesting level of the word parser: finished words, the word in progress (None = no word started),
   the here-string word, and whether the next finished word is the here-string word *)
Record level := mkLv { lx : lex; ws : list bytes; cur : option bytes; here : option bytes; hpend : bool }.

Definition lv0 : level := mkLv U [] None None false.

Definition cur_or_nil (lv : level) : bytes := match cur lv with Some w => w | None => [] end.
Definition set_lx (lv : level) (l : lex) : level := mkLv l (ws lv) (cur lv) (here lv) (hpend lv).
Definition addbytes (lv : level) (bs : bytes) : level :=
  mkLv (lx lv) (ws lv) (Some (cur_or_nil lv ++ bs)) (here lv) (hpend lv).
Definition addc (lv : level) (c : byte) : level := addbytes lv [c].
Definition endword (lv : level) : level :=
  match cur lv with
  | None => lv
  | Some w => if hpend lv then mkLv (lx lv) (ws lv) None (Some w) false
              else mkLv (lx lv) (ws lv ++ [w]) None (here lv) (hpend lv)
  end.

Inductive act := Cont (lv : level) | OpenSub (lv : level) | CloseSub (lv : level) | Bad.

Definition is_blank (c : byte) : bool := byte_eqb c x20 || byte_eqb c x09.
Definition dq_escapable (c : byte) : bool :=
  byte_eqb c DOLLAR || byte_eqb c BQUOTE || byte_eqb c DQUOTE || byte_eqb c BSLASH.

Definition level_step (sub : bool) (lv : level) (c : byte) : act :=
  if byte_eqb c NUL then Bad else
  match lx lv with
  | U =>
      if is_blank c then Cont (endword lv)
      else if byte_eqb c SQUOTE then Cont (set_lx (addbytes lv []) SQ)
      else if byte_eqb c DQUOTE then Cont (set_lx (addbytes lv []) DQ)
      else if byte_eqb c BSLASH then Cont (set_lx lv UB)
      else if byte_eqb c RPAREN then (if sub then CloseSub (endword lv) else Bad)
      else if byte_eqb c LESS then
        (if sub then Bad
         else match cur lv, here lv, hpend lv with
              | None, None, false => Cont (set_lx lv L1)
              | _, _, _ => Bad
              end)
      else if sh_plain c then Cont (addc lv c)
      else Bad
  | UB => if byte_eqb c NL then Bad else Cont (set_lx (addc lv c) U)
  | SQ => if byte_eqb c SQUOTE then Cont (set_lx lv U) else Cont (addc lv c)
  | DQ =>
      if byte_eqb c DQUOTE then Cont (set_lx lv U)
      else if byte_eqb c BSLASH then Cont (set_lx lv DQB)
      else if byte_eqb c DOLLAR then Cont (set_lx lv DQD)
      else if byte_eqb c BQUOTE then Bad
      else Cont (addc lv c)
  | DQB =>
      (* x01 and x7f are internal marker bytes of bash; after a backslash in double quotes they were observed to
         disturb the following expansion (x01) or to vanish in a here-string (x7f) *)
      if byte_eqb c NL || byte_eqb c x01 || byte_eqb c x7f then Bad
      else if dq_escapable c then Cont (set_lx (addc lv c) DQ)
      else Cont (set_lx (addbytes lv [BSLASH; c]) DQ)
  | DQD => if byte_eqb c LPAREN then OpenSub (set_lx lv DQ) else Bad
  | L1 => if byte_eqb c LESS then Cont (set_lx lv L2) else Bad
  | L2 => if byte_eqb c LESS then Cont (mkLv U (ws lv) (cur lv) (here lv) true) else Bad
  end.

(* ---- the printf builtin with a format and no further arguments ---- *)
Definition hexval (c : byte) : option N :=
  if is_digit c then Some (bN c - 48)%N
  else if (97 <=? bN c)%N && (bN c <=? 102)%N then Some (bN c - 87)%N
  else if (65 <=? bN c)%N && (bN c <=? 70)%N then Some (bN c - 55)%N
  else None.
Definition octval (c : byte) : option N :=
  if (48 <=? bN c)%N && (bN c <=? 55)%N then Some (bN c - 48)%N else None.

Definition simple_escape (c : byte) : option byte :=
  match c with
  | x5c => Some x5c | x61 => Some x07 | x62 => Some x08 | x66 => Some x0c | x6e => Some x0a
  | x72 => Some x0d | x74 => Some x09 | x76 => Some x0b | x65 => Some x1b | x45 => Some x1b
  | x22 => Some x22 | x27 => Some x27 | x3f => Some x3f
  | _ => None
  end.

Definition ocons (c : byte) (o : option bytes) : option bytes :=
  match o with Some l => Some (c :: l) | None => None end.
Definition oapp (p : bytes) (o : option bytes) : option bytes :=
  match o with Some l => Some (p ++ l) | None => None end.

(* body of the format after option processing *)
Fixpoint printf_body (s : bytes) : option bytes :=
  match s with
  | [] => Some []
  | c :: r =>
    if byte_eqb c BSLASH then
      match r with
      | [] => Some [BSLASH]
      | e :: r1 =>
        match simple_escape e with
        | Some v => ocons v (printf_body r1)
        | None =>
          if byte_eqb e x78 then                                  (* backslash x: one or two hex digits *)
            match r1 with
            | h1 :: r2 =>
              match hexval h1 with
              | None => None
              | Some v1 =>
                match r2 with
                | h2 :: r3 =>
                  match hexval h2 with
                  | Some v2 => ocons (Nb (v1 * 16 + v2)) (printf_body r3)
                  | None => ocons (Nb v1) (printf_body r2)
                  end
                | [] => Some [Nb v1]
                end
              end
            | [] => None
            end
          else match octval e with
          | Some v1 =>                                            (* one to three octal digits *)
            match r1 with
            | o2 :: r2 =>
              match octval o2 with
              | Some v2 =>
                match r2 with
                | o3 :: r3 =>
                  match octval o3 with
                  | Some v3 => ocons (Nb ((v1 * 64 + v2 * 8 + v3) mod 256)) (printf_body r3)
                  | None => ocons (Nb (v1 * 8 + v2)) (printf_body r2)
                  end
                | [] => Some [Nb (v1 * 8 + v2)]
                end
              | None => ocons (Nb v1) (printf_body r1)
              end
            | [] => Some [Nb v1]
            end
          | None =>
            if byte_eqb e x75 || byte_eqb e x55 then None        (* unicode escapes: not modelled *)
            else ocons BSLASH (printf_body r)     (* unknown escape: the backslash is printed, reading goes on at e *)
          end
        end
      end
    else if byte_eqb c PERCENT then
      match r with
      | [] => None
      | d :: r1 =>
        if byte_eqb d PERCENT then ocons PERCENT (printf_body r1)
        else if byte_eqb d x73 || byte_eqb d x62 then printf_body r1                 (* s, b: missing argument *)
        else if existsb (byte_eqb d) [x64; x69; x75; x78; x6f; x58] then ocons x30 (printf_body r1)
        else None
      end
    else ocons c (printf_body r)
  end.

(* a format that starts with a dash is taken as an option (error, or -v assignment): not modelled *)
Definition printf_fmt (s : bytes) : option bytes :=
  match s with
  | c :: _ => if byte_eqb c DASH then None else printf_body s
  | [] => Some []
  end.

Definition PRINTF : bytes := [x70; x72; x69; x6e; x74; x66].

Definition builtin (argv : list bytes) : option bytes :=
  match argv with
  | [name; fmt] => if bytes_eqb name PRINTF then printf_fmt fmt else None
  | _ => None
  end.

(* command substitution result: NUL bytes are dropped, trailing newlines removed *)
Fixpoint strip_trailing_nl (s : bytes) : bytes :=
  match s with
  | [] => []
  | c :: r => match strip_trailing_nl r with
              | [] => if byte_eqb c NL then [] else [c]
              | r' => c :: r'
              end
  end.
Definition subst_trim (out : bytes) : bytes :=
  strip_trailing_nl (filter (fun c => negb (byte_eqb c NUL)) out).

(* ---- two-level automaton ---- *)
Record st := mkSt { outer : level; inner : option level }.
Definition st0 : st := mkSt lv0 None.

Definition step (s : st) (c : byte) : option st :=
  match inner s with
  | Some il =>
      match level_step true il c with
      | Cont il' => Some (mkSt (outer s) (Some il'))
      | CloseSub il' =>
          match builtin (ws il') with
          | Some out => Some (mkSt (addbytes (outer s) (subst_trim out)) None)
          | None => None
          end
      | OpenSub _ | Bad => None
      end
  | None =>
      match level_step false (outer s) c with
      | Cont ol => Some (mkSt ol None)
      | OpenSub ol => Some (mkSt ol (Some lv0))
      | CloseSub _ | Bad => None
      end
  end.

Fixpoint run (s : st) (l : bytes) : option st :=
  match l with
  | [] => Some s
  | c :: r => match step s c with Some s' => run s' r | None => None end
  end.

(* the first word must name a command: not an assignment word, not a reserved word (quoting is not tracked, so
   this is stricter than bash) *)
Definition reserved : list bytes :=
  [[x69;x66]; [x74;x68;x65;x6e]; [x65;x6c;x73;x65]; [x65;x6c;x69;x66]; [x66;x69]; [x63;x61;x73;x65];
   [x65;x73;x61;x63]; [x66;x6f;x72]; [x73;x65;x6c;x65;x63;x74]; [x77;x68;x69;x6c;x65]; [x75;x6e;x74;x69;x6c];
   [x64;x6f]; [x64;x6f;x6e;x65]; [x69;x6e]; [x66;x75;x6e;x63;x74;x69;x6f;x6e]; [x74;x69;x6d;x65];
   [x63;x6f;x70;x72;x6f;x63]].
Definition cmd_name_ok (w : bytes) : bool :=
  negb (existsb (byte_eqb x3d) w) && negb (existsb (bytes_eqb w) reserved)
  && match w with [] => false | _ => true end.

Inductive sh_result :=
| ShRun (argv : list bytes) (stdin : option bytes)   (* exactly one command is executed: argv, here-string input *)
| ShUnsupported.

Definition finish (s : st) : sh_result :=
  match inner s, lx (outer s) with
  | None, U =>
      let ol := endword (outer s) in
      if hpend ol then ShUnsupported
      else match ws ol with
           | name :: _ => if cmd_name_ok name
                          then ShRun (ws ol) (match here ol with Some h => Some (h ++ [NL]) | None => None end)
                          else ShUnsupported
           | [] => ShUnsupported
           end
  | _, _ => ShUnsupported
  end.

Definition sh_eval (cmd : bytes) : sh_result :=
  match run st0 cmd with Some s => finish s | None => ShUnsupported end.
