(* Model/SavePrelude.v -- vocabulary of the translated part of mitmproxy/addons/save.py
   (Gen/SaveHooks.v is regenerated from the source on every run and uses these types).
   No proofs here. *)
From Coq Require Import List Bool.
Import ListNotations.

(* the flow-lifecycle hook methods of class Save *)
Inductive hook :=
| HRequest | HResponse | HError | HWebsocketEnd
| HTcpStart | HTcpEnd | HTcpError
| HUdpStart | HUdpEnd | HUdpError
| HDnsRequest | HDnsResponse | HDnsError.

(* guards that occur in hook bodies: `if self.stream:` and `if flow.websocket is None:` *)
Inductive cond := CStream | CNoWebsocket.

(* primitive actions of hook bodies: self.active_flows.add(flow) / self.save_flow(flow) *)
Inductive prim := PAdd | PSave.

(* a hook body after inlining delegation (error -> response, tcp_error -> tcp_end ...):
   primitive actions in program order, each with the conjunction of its enclosing guards *)
Definition hook_body := list (list cond * prim).

(* statements of the `if self.stream:` block of Save.done, in program order *)
Inductive dstmt :=
| DWriteActive   (* for f in self.active_flows: self.stream.add(f) *)
| DClearActive   (* self.active_flows.clear() *)
| DResetPath     (* self.current_path = None *)
| DCloseFile     (* self.stream.fo.close() *)
| DDropStream.   (* self.stream = None *)
