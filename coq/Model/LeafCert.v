(* Model/LeafCert.v -- executable model of how mitmproxy chooses the fields of a generated leaf
   certificate: addons/tlsconfig.py TlsConfig.get_cert + _ip_or_dns_name, certs.py CertStore.get_cert
   (store without custom certificates) + dummy_cert, together with the parts of the Python standard
   library they branch on (ipaddress.ip_address / str(ip), the ASCII fast path of the idna codec,
   urllib.parse.urlunsplit).  Definitions only.  A str is held as its UTF-8 bytes.
   Abstract (parameters): the non-ASCII path of the idna codec and urlsplit (given per case). *)
From Coq Require Import String.
From Coq Require Import List Bool Arith NArith ZArith.
From MV Require Import Base.Bytes.
Import ListNotations.
Local Open Scope N_scope.

Definition B (s : String.string) : bytes := String.list_byte_of_string s.

Definition blen (s : bytes) : N := N.of_nat (length s).
Definition is_nil {A} (l : list A) : bool := match l with [] => true | _ => false end.
Definition truthy (s : bytes) : bool := negb (is_nil s).
Definition is_ascii_b (b : byte) : bool := bN b <? 128.
Definition is_ascii (s : bytes) : bool := forallb is_ascii_b s.
(* len() of a str held as UTF-8 = number of bytes that are not continuation bytes *)
Definition is_cont (b : byte) : bool := (128 <=? bN b) && (bN b <? 192).
Definition str_len (s : bytes) : N := N.of_nat (length (filter (fun b => negb (is_cont b)) s)).
Definition contains_byte (b : byte) (s : bytes) : bool := existsb (byte_eqb b) s.

(* str.split(sep) for a one-character separator *)
Fixpoint split_aux (sep : byte) (cur : bytes) (s : bytes) : list bytes :=
  match s with
  | [] => [rev cur]
  | c :: r => if byte_eqb c sep then rev cur :: split_aux sep [] r else split_aux sep (c :: cur) r
  end.
Definition split_byte (sep : byte) (s : bytes) : list bytes := split_aux sep [] s.

Fixpoint join_byte (sep : byte) (l : list bytes) : bytes :=
  match l with
  | [] => []
  | x :: r => match r with [] => x | _ => x ++ sep :: join_byte sep r end
  end.

(* str.partition(sep): text before the first sep, and the text after it when sep occurs *)
Fixpoint partition_byte (sep : byte) (s : bytes) : bytes * option bytes :=
  match s with
  | [] => ([], None)
  | c :: r => if byte_eqb c sep then ([], Some r)
              else let '(a, b) := partition_byte sep r in (c :: a, b)
  end.

Fixpoint map_opt {A C} (f : A -> option C) (l : list A) : option (list C) :=
  match l with
  | [] => Some []
  | x :: r => match f x, map_opt f r with Some y, Some ys => Some (y :: ys) | _, _ => None end
  end.

Definition lastn {A} (n : nat) (l : list A) : list A := skipn (length l - n) l.

(* ------------------------------------------------------------------ ipaddress *)
Fixpoint dec_val (acc : N) (s : bytes) : N :=
  match s with [] => acc | c :: r => dec_val (acc * 10 + (bN c - 48)) r end.

(* IPv4Address._parse_octet *)
Definition parse_octet (o : bytes) : option N :=
  if is_nil o then None
  else if negb (forallb is_digit o) then None
  else if 3 <? blen o then None
  else if negb (bytes_eqb o [x30]) && (match o with c :: _ => byte_eqb c x30 | [] => false end) then None
  else let v := dec_val 0 o in if 255 <? v then None else Some v.

(* IPv4Address(str)._ip *)
Definition ipv4_int (s : bytes) : option N :=
  if contains_byte x2f s then None
  else if is_nil s then None
  else match map_opt parse_octet (split_byte x2e s) with
       | Some [a; b; c; d] => Some (((a * 256 + b) * 256 + c) * 256 + d)
       | _ => None
       end.

Definition is_hex (b : byte) : bool :=
  is_digit b || ((97 <=? bN b) && (bN b <=? 102)) || ((65 <=? bN b) && (bN b <=? 70)).
Definition hex_digit_val (b : byte) : N :=
  if is_digit b then bN b - 48 else if 97 <=? bN b then bN b - 87 else bN b - 55.
Fixpoint hex_val (acc : N) (s : bytes) : N :=
  match s with [] => acc | c :: r => hex_val (acc * 16 + hex_digit_val c) r end.

(* _BaseV6._parse_hextet (int of the empty string raises ValueError) *)
Definition parse_hextet (h : bytes) : option N :=
  if negb (forallb is_hex h) then None
  else if 4 <? blen h then None
  else if is_nil h then None
  else Some (hex_val 0 h).

(* the %x format of a non-negative int *)
Definition hex_char (d : N) : byte := if d <? 10 then Nb (48 + d) else Nb (87 + d).
Fixpoint hex_digits (fuel : nat) (n : N) (acc : bytes) : bytes :=
  match fuel with
  | O => acc
  | S f => let d := hex_char (n mod 16) in
           if n <? 16 then d :: acc else hex_digits f (n / 16) (d :: acc)
  end.
Definition hex_of_N (n : N) : bytes := hex_digits (S (N.to_nat (N.log2 n))) n [].

Fixpoint empties_at (i : nat) (l : list bytes) : list nat :=
  match l with
  | [] => []
  | x :: r => if is_nil x then i :: empties_at (S i) r else empties_at (S i) r
  end.

Definition fold_hextets (acc : N) (l : list N) : N := fold_left (fun a h => a * 65536 + h) l acc.

(* _BaseV6._ip_int_from_string *)
Definition ipv6_int (ip_str : bytes) : option N :=
  if is_nil ip_str then None else
  let parts0 := split_byte x3a ip_str in
  if (length parts0 <? 3)%nat then None else
  let parts1 :=
    if contains_byte x2e (last parts0 []) then
      match ipv4_int (last parts0 []) with
      | None => None
      | Some v => Some (removelast parts0 ++ [hex_of_N ((v / 65536) mod 65536); hex_of_N (v mod 65536)])
      end
    else Some parts0 in
  match parts1 with
  | None => None
  | Some parts =>
    let n := length parts in
    if (9 <? n)%nat then None else
    let first_empty := is_nil (hd [] parts) in
    let last_empty := is_nil (last parts []) in
    let shape :=   (* parts_hi, parts_lo, parts_skipped *)
      match filter (fun i => (1 <=? i)%nat && (i <? n - 1)%nat) (empties_at 0 parts) with
      | [] => if negb (n =? 8)%nat || first_empty || last_empty then None else Some (n, O, O)
      | [i] =>
          let hi := if first_empty then (i - 1)%nat else i in
          let lo := if last_empty then (n - i - 1 - 1)%nat else (n - i - 1)%nat in
          if first_empty && negb (hi =? 0)%nat then None
          else if last_empty && negb (lo =? 0)%nat then None
          else if (8 <=? hi + lo)%nat then None
          else Some (hi, lo, (8 - (hi + lo))%nat)
      | _ => None
      end in
    match shape with
    | None => None
    | Some (hi, lo, skipped) =>
      match map_opt parse_hextet (firstn hi parts), map_opt parse_hextet (lastn lo parts) with
      | Some his, Some los => Some (fold_hextets (fold_hextets 0 his * 65536 ^ N.of_nat skipped) los)
      | _, _ => None
      end
    end
  end.

(* IPv6Address(str): (_ip, _scope_id) *)
Definition ipv6_address (s : bytes) : option (N * option bytes) :=
  if contains_byte x2f s then None else
  let '(addr, sc) := partition_byte x25 s in
  match sc with
  | None => option_map (fun n => (n, None)) (ipv6_int addr)
  | Some scope => if is_nil scope || contains_byte x25 scope then None
                  else option_map (fun n => (n, Some scope)) (ipv6_int addr)
  end.

Inductive ipaddr := V4 (n : N) | V6 (n : N) (scope : option bytes).

(* ipaddress.ip_address(str); None = ValueError *)
Definition ip_address (s : bytes) : option ipaddr :=
  match ipv4_int s with
  | Some n => Some (V4 n)
  | None => match ipv6_address s with Some (n, sc) => Some (V6 n sc) | None => None end
  end.

(* big-endian, k bytes *)
Fixpoint be_bytes (k : nat) (n : N) : bytes :=
  match k with
  | O => []
  | S k' => Nb ((n / 256 ^ N.of_nat k') mod 256) :: be_bytes k' n
  end.

(* ip.packed *)
Definition packed (a : ipaddr) : bytes :=
  match a with V4 n => be_bytes 4 n | V6 n _ => be_bytes 16 n end.

Definition ipv4_str (n : N) : bytes :=
  join_byte x2e (map (fun b => dec_of_N (bN b)) (be_bytes 4 n)).

Definition hextets_of (n : N) : list N :=
  map (fun k => (n / 65536 ^ N.of_nat k) mod 65536) [7; 6; 5; 4; 3; 2; 1; 0]%nat.

(* _BaseV6._compress_hextets: best run of zero hextets; state = (best_start, best_len, cur_start, cur_len) *)
Fixpoint best_run (i : nat) (l : list N) (bs bl : nat) (cs : option nat) (cl : nat) : nat * nat :=
  match l with
  | [] => (bs, bl)
  | h :: r =>
      if h =? 0 then
        let cl' := S cl in
        let cs' := match cs with None => i | Some s => s end in
        if (bl <? cl')%nat then best_run (S i) r cs' cl' (Some cs') cl'
        else best_run (S i) r bs bl (Some cs') cl'
      else best_run (S i) r bs bl None O
  end.

Definition compress_hextets (hs : list N) : list bytes :=
  let texts := map hex_of_N hs in
  let '(bs, bl) := best_run 0 hs O O None O in
  if (1 <? bl)%nat then
    let be := (bs + bl)%nat in
    let t1 := if (be =? length texts)%nat then texts ++ [[]] else texts in
    let t2 := firstn bs t1 ++ [[]] ++ skipn be t1 in
    if (bs =? 0)%nat then [] :: t2 else t2
  else texts.

(* str(ip) *)
Definition ip_str (a : ipaddr) : bytes :=
  match a with
  | V4 n => ipv4_str n
  | V6 n sc =>
      let s := join_byte x3a (compress_hextets (hextets_of n)) in
      match sc with
      | Some scope => if truthy scope then s ++ x25 :: scope else s
      | None => s
      end
  end.

(* ------------------------------------------------------------------ errors *)
Inductive err := EIdna (* UnicodeError *) | EValue (* any other ValueError *).
Inductive res (A : Type) := Ok (a : A) | Err (e : err).
Arguments Ok {A} a.
Arguments Err {A} e.
Definition bind {A C} (m : res A) (f : A -> res C) : res C :=
  match m with Ok a => f a | Err e => Err e end.

(* ------------------------------------------------------------------ general names *)
(* x509.GeneralName: DNSName, IPAddress, or another kind identified by its context tag
   (1 rfc822Name, 4 directoryName, 6 URI, 8 registeredID) and str(value) *)
Inductive gname := GDNS (v : bytes) | GIP (a : ipaddr) | GOther (kind : N) (repr : bytes).

Definition ipaddr_eqb (a b : ipaddr) : bool :=
  match a, b with
  | V4 x, V4 y => x =? y
  | V6 x s, V6 y t => (x =? y) && option_eqb bytes_eqb s t
  | _, _ => false
  end.

(* GeneralName.__eq__ (IPv6Address equality includes the scope id) *)
Definition gname_eqb (a b : gname) : bool :=
  match a, b with
  | GDNS x, GDNS y => bytes_eqb x y
  | GIP x, GIP y => ipaddr_eqb x y
  | GOther k x, GOther j y => (k =? j) && bytes_eqb x y
  | _, _ => false
  end.

(* str(name.value) *)
Definition str_value (g : gname) : bytes :=
  match g with GDNS v => v | GIP a => ip_str a | GOther _ r => r end.

(* what the DER encoding keeps: an iPAddress SAN is the packed address, the scope id is lost *)
Definition wire_gname (g : gname) : gname :=
  match g with
  | GIP (V6 n _) => GIP (V6 n None)
  | _ => g
  end.

(* list(dict.fromkeys(l)) *)
Fixpoint dedup_aux (seen : list gname) (l : list gname) : list gname :=
  match l with
  | [] => []
  | x :: r => if existsb (gname_eqb x) seen then dedup_aux seen r else x :: dedup_aux (x :: seen) r
  end.
Definition dedup (l : list gname) : list gname := dedup_aux [] l.

(* ------------------------------------------------------------------ urlunsplit *)
Definition uses_netloc : list bytes :=
  map B [""; "ftp"; "http"; "gopher"; "nntp"; "telnet"; "imap"; "wais"; "file"; "mms"; "https"; "shttp";
         "snews"; "prospero"; "rtsp"; "rtsps"; "rtspu"; "rsync"; "svn"; "svn+ssh"; "sftp"; "nfs"; "git";
         "git+ssh"; "ws"; "wss"; "itms-services"]%string.

(* urllib.parse.urlunsplit((scheme, netloc, url, None, None)) *)
Definition urlunsplit3 (scheme netloc url : bytes) : bytes :=
  let url1 :=
    if truthy netloc || (truthy scheme && existsb (bytes_eqb scheme) uses_netloc
                         && negb (bytes_eqb (firstn 2 url) (B "//")))
    then B "//" ++ netloc ++ (if truthy url && negb (bytes_eqb (firstn 1 url) (B "/")) then x2f :: url else url)
    else url in
  if truthy scheme then scheme ++ x3a :: url1 else url1.

(* TlsConfig.crl_path *)
Definition crl_path (serial : N) : bytes := B "/mitmproxy-" ++ dec_of_N serial ++ B ".crl".

(* ------------------------------------------------------------------ inputs *)
(* the property-relevant view of the upstream certificate (certs.Cert properties) *)
Record ucert := mkUcert {
  u_cn : option bytes;                       (* Cert.cn *)
  u_sans : list gname;                       (* Cert.altnames *)
  u_org : option bytes;                      (* Cert.organization *)
  u_crl : option (option (bytes * bytes))    (* None: no CRL URI; Some None: urlsplit(crls[0]) raises
                                                ValueError; Some (Some (scheme, netloc)) otherwise *)
}.

Record req := mkReq {
  r_upstream_opt : bool;          (* ctx.options.upstream_cert *)
  r_sni : option bytes;           (* conn_context.client.sni *)
  r_sockname : bytes;             (* conn_context.client.sockname[0] *)
  r_addr : option bytes;          (* conn_context.server.address[0] when address is set *)
  r_upstream : option ucert       (* conn_context.server.certificate_list[0] when the list is not empty *)
}.

(* the issuing CA as far as dummy_cert and a verifier look at it *)
Record ca := mkCa {
  ca_subject : N;                 (* identity of the subject name *)
  ca_key : N;                     (* identity of the key pair *)
  ca_ski : option bytes;          (* SubjectKeyIdentifier extension, if any *)
  ca_key_sha1 : bytes;            (* SHA-1 of the public key (AuthorityKeyIdentifier.from_issuer_public_key) *)
  ca_is_ca : bool;                (* BasicConstraints CA, KeyUsage keyCertSign when KeyUsage is present *)
  ca_server_ok : bool;            (* no ExtendedKeyUsage, or it contains serverAuth *)
  ca_nb : Z; ca_na : Z            (* validity (seconds) *)
}.

Record names := mkNames {
  n_cn : option bytes; n_alt : list gname; n_org : option bytes; n_crl : option bytes }.

Definition EKU_SERVER_AUTH : N := 1.

Record cert := mkCert {
  c_issuer : N;                   (* identity of the issuer name *)
  c_signer : N;                   (* identity of the signing key *)
  c_pubkey : N;                   (* identity of the subject public key *)
  c_cn : option bytes;            (* subject commonName *)
  c_org : option bytes;           (* subject organizationName *)
  c_sans : list gname;            (* subjectAltName, as encoded *)
  c_san_critical : bool;
  c_eku : list N;                 (* ExtendedKeyUsage purposes *)
  c_nb : Z; c_na : Z;             (* validity (seconds, UTC) *)
  c_aki : bytes;                  (* AuthorityKeyIdentifier.key_identifier *)
  c_crl : option bytes            (* CRL distribution point URI *)
}.

(* ------------------------------------------------------------------ the code *)
Section WithLibraries.
(* str.encode(idna) for a str that is not pure ASCII (nameprep + punycode); None = UnicodeError *)
Variable idna_nonascii : bytes -> option bytes.
(* CERT_VALIDITY_OFFSET and CERT_EXPIRY in seconds *)
Variable validity_offset : Z.
Variable cert_expiry : Z.
(* is the conversion of the upstream common name wrapped in try/except ValueError *)
Variable cn_guarded : bool.
(* subjectAltName criticality: true = [critical=not subject] (critical iff the subject is empty),
   false = [critical=not is_valid_commonname] (critical iff there is no common name) *)
Variable crit_by_subject : bool.

(* encodings.idna.Codec.encode, ASCII fast path *)
Definition idna_ascii (s : bytes) : option bytes :=
  let labels := split_byte x2e s in
  if forallb (fun l => (0 <? blen l) && (blen l <? 64)) (removelast labels)
     && (blen (last labels []) <? 64)
  then Some s else None.

Definition idna_encode (s : bytes) : option bytes :=
  if is_nil s then Some []
  else if is_ascii s then idna_ascii s
  else idna_nonascii s.

(* tlsconfig._ip_or_dns_name; x509.DNSName raises ValueError for a non-ASCII value *)
Definition ip_or_dns_name (val : bytes) : res gname :=
  match ip_address val with
  | Some a => Ok (GIP a)
  | None => match idna_encode val with
            | None => Err EIdna
            | Some a => if is_ascii a then Ok (GDNS a) else Err EValue
            end
  end.

(* the name the client asked for: SNI, or our local address *)
Definition requested (r : req) : bytes :=
  match r_sni r with
  | Some s => if truthy s then s else r_sockname r
  | None => r_sockname r
  end.

Definition opt_truthy (o : option bytes) : option bytes :=
  match o with Some s => if truthy s then Some s else None | None => None end.

(* the upstream block of TlsConfig.get_cert *)
Definition upstream_part (serial : N) (u : ucert) : res (list gname * option bytes * option bytes) :=
  bind (match opt_truthy (u_cn u) with
        | Some cn => match ip_or_dns_name cn with
                     | Ok g => Ok [g]
                     | Err e => if cn_guarded then Ok [] else Err e
                     end
        | None => Ok []
        end) (fun a =>
  Ok (a ++ u_sans u,
      opt_truthy (u_org u),
      match u_crl u with
      | Some (Some (scheme, netloc)) => Some (urlunsplit3 scheme netloc (crl_path serial))
      | _ => None
      end)).

(* TlsConfig.get_cert up to the call of certstore.get_cert *)
Definition get_cert_names (serial : N) (r : req) : res names :=
  bind (match r_upstream_opt r, r_upstream r with
        | true, Some u => upstream_part serial u
        | _, _ => Ok ([], None, None)
        end) (fun '(alt0, org, crl) =>
  bind (ip_or_dns_name (requested r)) (fun g1 =>
  bind (match r_addr r with
        | Some a => bind (ip_or_dns_name a) (fun g => Ok [g])
        | None => Ok []
        end) (fun g2 =>
  let alt := dedup (alt0 ++ [g1] ++ g2) in
  Ok (mkNames (match alt with x :: _ => Some (str_value x) | [] => None end) alt org crl)))).

(* certs.dummy_cert; now_local = datetime.datetime.now() read as if it were UTC (naive datetime) *)
Definition dummy_cert (issuer : ca) (now_local : Z) (n : names) : res cert :=
  let valid_cn := match n_cn n with Some c => str_len c <? 64 | None => false end in
  bind (match n_cn n with
        | Some c => if valid_cn && is_nil c then Err EValue else Ok tt   (* x509.NameAttribute: length >= 1 *)
        | None => Ok tt
        end) (fun _ =>
  bind (match n_org n with Some [] => Err EValue | _ => Ok tt end) (fun _ =>
  bind (match n_crl n with
        | Some u => if truthy u && negb (is_ascii u) then Err EValue else Ok tt
        | None => Ok tt
        end) (fun _ =>
  Ok (mkCert (ca_subject issuer) (ca_key issuer) (ca_key issuer)
             (if valid_cn then n_cn n else None)
             (n_org n)
             (map wire_gname (n_alt n))
             (negb (if crit_by_subject then valid_cn || (match n_org n with Some _ => true | None => false end)
                    else valid_cn))
             [EKU_SERVER_AUTH]
             (now_local + validity_offset)%Z (now_local + validity_offset + cert_expiry)%Z
             (match ca_ski issuer with Some s => s | None => ca_key_sha1 issuer end)
             (opt_truthy (n_crl n)))))).

(* CertStore (no custom certificates): generated entries keyed by (commonname, sans) *)
Definition store := list ((option bytes * list gname) * cert).

Definition key_eqb (a b : option bytes * list gname) : bool :=
  option_eqb bytes_eqb (fst a) (fst b) && list_eqb gname_eqb (snd a) (snd b).

Fixpoint store_get (k : option bytes * list gname) (st : store) : option cert :=
  match st with
  | [] => None
  | (k', c) :: r => if key_eqb k' k then Some c else store_get k r
  end.

(* CertStore.get_cert: a cached entry wins; organization and crl_url are not part of the key *)
Definition store_get_cert (issuer : ca) (now_local : Z) (st : store) (n : names) : res (store * cert) :=
  let k := (n_cn n, n_alt n) in
  match store_get k st with
  | Some c => Ok (st, c)
  | None => bind (dummy_cert issuer now_local n) (fun c => Ok (st ++ [(k, c)], c))
  end.

(* tls_start_client -> get_cert -> certstore.get_cert on a given store *)
Definition issue_on (issuer : ca) (serial : N) (now_local : Z) (st : store) (r : req) : res (store * cert) :=
  bind (get_cert_names serial r) (store_get_cert issuer now_local st).

(* ... on a fresh store *)
Definition issue (issuer : ca) (serial : N) (now_local : Z) (r : req) : res cert :=
  bind (issue_on issuer serial now_local [] r) (fun p => Ok (snd p)).

End WithLibraries.
