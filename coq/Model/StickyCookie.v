(* Model/StickyCookie.v -- mitmproxy/addons/stickycookie.py (ckey, domain_match, StickyCookie.response,
   StickyCookie.request), http.cookiejar.domain_match / is_HDN (CPython 3.12 Lib/http/cookiejar.py) and
   mitmproxy/net/http/cookies.py format_cookie_header (_format_pairs, _has_special).
   Python str is carried as its UTF-8 bytes; host names and Domain attributes are assumed ASCII
   (str.lower is modelled by ASCII lower).  The parsed Set-Cookie attributes and the result of
   cookies.is_expired are inputs of the model (carried in the case).
   Two variants of the two predicates are modelled: Orig = the unchanged tree, Fixed = the tree with
   fixes/C54-domain-suffix-path-segment.diff applied.  Executable definitions only. *)
From Coq Require Import List Bool NArith ZArith.
From MV Require Import Base.Bytes.
Import ListNotations.
Local Open Scope N_scope.

Definition str := bytes.
Definition DOT : byte := x2e.
Definition SLASH : byte := x2f.
Definition QMARK : byte := x3f.
Definition LF : byte := x0a.

(* ---------- small str helpers ---------- *)
(* s.endswith(suf) *)
Fixpoint ends_with (suf s : str) : bool :=
  bytes_eqb suf s || match s with [] => false | _ :: s' => ends_with suf s' end.

(* s.rfind(b): highest index at which b occurs in s, counted from i; None is -1 *)
Fixpoint rfind_from (b s : str) (i : N) : option N :=
  match s with
  | [] => if starts_with b [] then Some i else None
  | _ :: s' => match rfind_from b s' (i + 1) with
               | Some r => Some r
               | None => if starts_with b s then Some i else None
               end
  end.
Definition rfind (s b : str) : option N := rfind_from b s 0.

Fixpoint lstrip_dots (s : str) : str :=
  match s with c :: s' => if byte_eqb c DOT then lstrip_dots s' else s | [] => [] end.
(* s.strip(DOT) *)
Definition strip_dots (s : str) : str := rev (lstrip_dots (rev (lstrip_dots s))).
(* s.removeprefix(DOT) *)
Definition remove_dot_prefix (s : str) : str :=
  match s with c :: s' => if byte_eqb c DOT then s' else s | [] => [] end.
(* s.partition(c)[0] *)
Fixpoint take_until (c : byte) (s : str) : str :=
  match s with x :: s' => if byte_eqb x c then [] else x :: take_until c s' | [] => [] end.
Definition last_is (c : byte) (s : str) : bool :=
  match rev s with x :: _ => byte_eqb x c | [] => false end.
Definition first_is (c : byte) (s : str) : bool :=
  match s with x :: _ => byte_eqb x c | [] => false end.

(* ---------- http.cookiejar ---------- *)
Fixpoint skip_digits (r : str) : str :=
  match r with c :: r' => if is_digit c then skip_digits r' else r | [] => [] end.
(* s ends with DOT followed by one or more ASCII digits *)
Definition dot_digits_end (s : str) : bool :=
  let r := rev s in
  first_is DOT (skip_digits r) && match r with c :: _ => is_digit c | [] => false end.
(* IPV4_RE = re.compile(r"\.\d+$", re.ASCII); IPV4_RE.search(text): the dollar also matches just
   before one trailing newline *)
Definition ipv4_re_search (s : str) : bool :=
  dot_digits_end s || (last_is LF s && dot_digits_end (removelast s)).

Definition is_HDN (text : str) : bool :=
  if ipv4_re_search text then false
  else match text with
       | [] => false
       | _ => if first_is DOT text || last_is DOT text then false else true
       end.

Definition cj_domain_match (A B : str) : bool :=
  let A := lower A in
  let B := lower B in
  if bytes_eqb A B then true
  else if negb (is_HDN A) then false
  else match rfind A B with
       | None => false          (* i == -1 *)
       | Some 0 => false        (* i == 0 *)
       | Some _ =>
         if negb (first_is DOT B) then false
         else if negb (is_HDN (tl B)) then false
         else true
       end.

(* ---------- stickycookie.py ---------- *)
Inductive variant := Orig | Fixed.

Definition domain_match_orig (a b : str) : bool :=
  if cj_domain_match a b then true
  else if cj_domain_match a (strip_dots b) then true
  else false.

Definition domain_match_fixed (a b : str) : bool :=
  let a := lower a in
  let b := lower b in
  if cj_domain_match a b && ends_with b a then true
  else if bytes_eqb a (remove_dot_prefix b) then true
  else false.

Definition domain_match (v : variant) : str -> str -> bool :=
  match v with Orig => domain_match_orig | Fixed => domain_match_fixed end.

(* Fixed: def path_match(request_path, cookie_path).  The index request_path[len(cookie_path)] is in
   range whenever it is evaluated (Proofs: path_index_in_range); the [] arm stands for IndexError. *)
Definition path_match_fixed (request_path cookie_path : str) : bool :=
  let request_path := take_until QMARK request_path in
  if bytes_eqb request_path cookie_path then true
  else if starts_with cookie_path request_path then
    last_is SLASH cookie_path
    || match skipn (length cookie_path) request_path with c :: _ => byte_eqb c SLASH | [] => false end
  else false.

(* Orig: flow.request.path.startswith(path) *)
Definition path_match (v : variant) (request_path cookie_path : str) : bool :=
  match v with
  | Orig => starts_with cookie_path request_path
  | Fixed => path_match_fixed request_path cookie_path
  end.

(* A parsed Set-Cookie entry as seen by StickyCookie.response: name, value (None for a bare name),
   the Domain and Path attributes (None = absent, Some None = present without value, e.g. a bare
   Path token), and what cookies.is_expired(attrs) did (None = it raised). *)
Record cookie := Cookie {
  c_name : str; c_value : option str;
  c_domain : option (option str); c_path : option (option str);
  c_expired : option bool }.

Definition key := (str * N * option str)%type.              (* (domain, port, path) *)
Definition jar := list (key * list (str * option str)).    (* ordered dict of ordered dicts *)

Definition ostr_eqb : option str -> option str -> bool := option_eqb bytes_eqb.
Definition key_eqb (a b : key) : bool :=
  let '(d1, p1, q1) := a in let '(d2, p2, q2) := b in
  bytes_eqb d1 d2 && (p1 =? p2) && ostr_eqb q1 q2.

(* ckey: domain None stands for attrs[domain] being None *)
Definition ckey (c : cookie) (host : str) (port : N) : option str * N * option str :=
  let domain := match c_domain c with Some d => d | None => Some host end in
  let path := match c_path c with Some p => p | None => Some [SLASH] end in
  (domain, port, path).

Fixpoint dict_get {V} (n : str) (d : list (str * V)) : option V :=
  match d with [] => None | (m, v) :: d' => if bytes_eqb n m then Some v else dict_get n d' end.
(* d[n] = v : in place when present, appended otherwise *)
Fixpoint dict_set {V} (n : str) (v : V) (d : list (str * V)) : list (str * V) :=
  match d with
  | [] => [(n, v)]
  | (m, w) :: d' => if bytes_eqb n m then (m, v) :: d' else (m, w) :: dict_set n v d'
  end.
(* d.pop(n, None) *)
Fixpoint dict_pop {V} (n : str) (d : list (str * V)) : list (str * V) :=
  match d with
  | [] => []
  | (m, w) :: d' => if bytes_eqb n m then d' else (m, w) :: dict_pop n d'
  end.

Fixpoint jar_get (k : key) (j : jar) : option (list (str * option str)) :=
  match j with [] => None | (k', d) :: j' => if key_eqb k k' then Some d else jar_get k j' end.

(* self.jar[k][name] = value *)
Fixpoint jar_set (k : key) (n : str) (v : option str) (j : jar) : jar :=
  match j with
  | [] => [(k, [(n, v)])]
  | (k', d) :: j' => if key_eqb k k' then (k', dict_set n v d) :: j' else (k', d) :: jar_set k n v j'
  end.

(* self.jar[k].pop(name, None); if not self.jar[k]: self.jar.pop(k, None)
   (for a missing key the defaultdict creates an empty entry which is popped again) *)
Fixpoint jar_del (k : key) (n : str) (j : jar) : jar :=
  match j with
  | [] => []
  | (k', d) :: j' =>
    if key_eqb k k' then
      match dict_pop n d with [] => j' | d' => (k', d') :: j' end
    else (k', d) :: jar_del k n j'
  end.

(* what one Set-Cookie entry does to the jar: independent of the jar *)
Inductive action :=
| ASet (k : key) (n : str) (v : option str)
| ADel (k : key) (n : str)
| ASkip
| AErr.       (* AttributeError (Domain without value) or is_expired raised *)

Definition cookie_action (v : variant) (host : str) (port : N) (c : cookie) : action :=
  match ckey c host port with
  | (None, _, _) => AErr
  | (Some d, p, q) =>
    if domain_match v host d then
      match c_expired c with
      | None => AErr
      | Some true => ADel (d, p, q) (c_name c)
      | Some false => ASet (d, p, q) (c_name c) (c_value c)
      end
    else ASkip
  end.

Definition apply_action (j : jar) (a : action) : jar :=
  match a with
  | ASet k n v => jar_set k n v j
  | ADel k n => jar_del k n j
  | ASkip | AErr => j
  end.

(* the for loop of StickyCookie.response; false = an exception left the hook *)
Fixpoint response_loop (v : variant) (host : str) (port : N) (cs : list cookie) (j : jar) : jar * bool :=
  match cs with
  | [] => (j, true)
  | c :: cs' =>
    match cookie_action v host port c with
    | AErr => (j, false)
    | a => response_loop v host port cs' (apply_action j a)
    end
  end.

Definition response (v : variant) (flt_on : bool) (host : str) (port : N) (cs : list cookie) (j : jar)
  : jar * bool :=
  if flt_on then response_loop v host port cs j else (j, true).

(* the for loop of StickyCookie.request; None = TypeError from startswith(None) *)
Fixpoint request_loop (v : variant) (host : str) (port : N) (path : str) (j : jar)
  : option (list (str * option str)) :=
  match j with
  | [] => Some []
  | ((domain, p, cpath), c) :: j' =>
    match cpath with
    | None => None
    | Some cpath =>
      let m := domain_match v host domain && (port =? p) && path_match v path cpath in
      match request_loop v host port path j' with
      | None => None
      | Some r => Some (if m then c ++ r else r)
      end
    end
  end.

(* ---------- cookies.format_cookie_header ---------- *)
Definition BSL : byte := x5c.
Definition DQ : byte := x22.
Definition is_special (c : byte) : bool :=
  byte_eqb c DQ || byte_eqb c x2c || byte_eqb c x3b || byte_eqb c BSL
  || (bN c <? 33) || (126 <? bN c).
Definition has_special (s : str) : bool := existsb is_special s.
(* ESCAPE.sub: a backslash before every double quote and backslash *)
Definition escape (s : str) : str :=
  flat_map (fun c => if byte_eqb c DQ || byte_eqb c BSL then [BSL; c] else [c]) s.
Definition format_pair (kv : str * option str) : str :=
  match kv with
  | (k, None) => k
  | (k, Some v) => if has_special v then k ++ [x3d; DQ] ++ escape v ++ [DQ] else k ++ [x3d] ++ v
  end.
Fixpoint join_semi (l : list str) : str :=
  match l with [] => [] | [x] => x | x :: l' => x ++ [x3b; x20] ++ join_semi l' end.
Definition format_cookie_header (l : list (str * option str)) : str := join_semi (map format_pair l).

(* StickyCookie.request: result None = the hook raised; Some h = the Cookie header afterwards
   (orig = the header the client sent, if any) *)
Definition request (v : variant) (flt_on fmatch : bool) (host : str) (port : N) (path : str)
  (orig : option str) (j : jar) : option (option str) :=
  if flt_on then
    match (if fmatch then request_loop v host port path j else Some []) with
    | None => None
    | Some [] => Some orig
    | Some l => Some (Some (format_cookie_header l))
    end
  else Some orig.

(* ---------- histories ---------- *)
Inductive event :=
| Resp (host : str) (port : N) (cs : list cookie)
| Req (host : str) (port : N) (path : str) (fmatch : bool) (orig : option str).

Definition step (v : variant) (flt_on : bool) (j : jar) (e : event) : jar :=
  match e with
  | Resp host port cs => fst (response v flt_on host port cs j)
  | Req _ _ _ _ _ => j
  end.

Definition run (v : variant) (flt_on : bool) (h : list event) : jar := fold_left (step v flt_on) h [].

(* ---------- cookies.get_expiration_ts / is_expired ---------- *)
(* Python int(str) in base 10 on ASCII text: surrounding whitespace, optional sign, digit groups separated by
   single underscores; None = ValueError *)
Definition is_pyspace (c : byte) : bool :=
  ((9 <=? bN c) && (bN c <=? 13)) || ((28 <=? bN c) && (bN c <=? 32)).
Fixpoint lstrip_space (s : str) : str :=
  match s with c :: s' => if is_pyspace c then lstrip_space s' else s | [] => [] end.
Fixpoint digits_val (s : str) (acc : N) (prev_digit : bool) : option N :=
  match s with
  | [] => if prev_digit then Some acc else None
  | c :: s' =>
    if is_digit c then digits_val s' (acc * 10 + (bN c - 48)) true
    else if byte_eqb c x5f && prev_digit then digits_val s' acc false
    else None
  end.
Definition py_int (s : str) : option Z :=
  let s := rev (lstrip_space (rev (lstrip_space s))) in
  match s with
  | c :: s' =>
    if byte_eqb c x2d then option_map (fun n => Z.opp (Z.of_N n)) (digits_val s' 0 false)
    else if byte_eqb c x2b then option_map Z.of_N (digits_val s' 0 false)
    else option_map Z.of_N (digits_val s 0 false)
  | [] => None
  end.

(* is_expired(attrs).  expires = what the Expires branch of get_expiration_ts does (email.utils is not
   modelled): None = no Expires attribute, Some None = parsedate_tz gave nothing, Some (Some b) = a timestamp
   was computed and b says whether it is in the past.  max_age = the Max-Age attribute (Some None = present
   without value).  Result None = an exception (int(None) is a TypeError).  An integer max_age gives
   now1 + max_age <= now2 with now1 <= now2 < now1 + 1. *)
Definition is_expired (expires : option (option bool)) (max_age : option (option str)) : option bool :=
  match expires with
  | Some (Some b) => Some b
  | Some None => Some false            (* elif: Max-Age is not consulted *)
  | None =>
    match max_age with
    | None => Some false
    | Some None => None
    | Some (Some s) =>
      match py_int s with
      | Some z => Some (z <=? 0)%Z
      | None => Some false
      end
    end
  end.
