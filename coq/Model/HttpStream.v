(* Model/HttpStream.v -- executable model of mitmproxy/proxy/layers/http/__init__.py HttpStream
   (client_state / server_state machines, check_killed, check_body_size, check_invalid,
   handle_protocol_error, make_server_connection, handle_connect) as an explicit state machine.
   Every blocking yield (hook or GetHttpConnection) is an explicit await state; while a stream
   is paused, arriving events are queued (Layer.handle_event) and replayed after the completion
   (Layer.__continue).  HTTP/1 parsing is abstracted: heads are records stating framing, validity,
   host and the bytes forwarded for them.  Definitions only, no proofs. *)
From Coq Require Import List Bool NArith.
From MV Require Import Base.Bytes.
Import ListNotations.
Local Open Scope N_scope.

(* ---------- heads, framing *)
Inductive meth := MGet | MHead | MConnect.
Inductive hfr := HNone | HLen (n : N) | HChunked.
Record head := mkHead { h_fwd : bytes; h_meth : meth; h_fr : hfr; h_host : N; h_hashost : bool;
                        h_valid : bool; h_exp : bool; h_close : bool; h_status : N;
                        h_ws : bool (* request: Sec-WebSocket-Version 13; response: Upgrade: websocket *) }.
Inductive esz := EChunked | EEof | ESz (n : N).

Definition meth_eqb (a b : meth) : bool :=
  match a, b with MGet, MGet | MHead, MHead | MConnect, MConnect => true | _, _ => false end.

(* expected_http_body_size(request) *)
Definition req_expected (h : head) : esz :=
  match h_fr h with HNone => ESz 0 | HLen n => ESz n | HChunked => EChunked end.
(* expected_http_body_size(request, response) *)
Definition resp_expected (rq rs : head) : esz :=
  let st := h_status rs in
  if meth_eqb (h_meth rq) MHead then ESz 0
  else if (100 <=? st) && (st <=? 199) then ESz 0
  else if (st =? 204) || (st =? 304) then ESz 0
  else if (200 <=? st) && (st <=? 299) && meth_eqb (h_meth rq) MConnect then ESz 0
  else match h_fr rs with HChunked => EChunked | HLen n => ESz n | HNone => EEof end.

Definition is_chunked (h : head) : bool := match h_fr h with HChunked => true | _ => false end.

(* ---------- options, hooks, addon actions *)
Record opts := mkOpts { o_bsl : option N; o_slb : option N; o_val : bool; o_ssb : bool }.
Inductive hook := HkReqHeaders | HkRequest | HkRespHeaders | HkResponse | HkError | HkConnect.
Inductive act := APass | AKill | AResp | AStream | ASResp.

Definition hook_eqb (a b : hook) : bool :=
  match a, b with
  | HkReqHeaders, HkReqHeaders | HkRequest, HkRequest | HkRespHeaders, HkRespHeaders
  | HkResponse, HkResponse | HkError, HkError | HkConnect, HkConnect => true
  | _, _ => false end.

(* ---------- HTTP events between connection layers and streams; error code = HTTP status of the error page *)
Inductive hev :=
| EReqHeaders (h : head) (es : bool) | EReqData (d : bytes) | EReqEOM | EReqErr (code : option N)
| ERespHeaders (h : head) (es : bool) | ERespData (d : bytes) | ERespEOM | ERespErr (code : option N).

Inductive sst := SUninit | SWaitReqH | SConsumeReq | SStreamReq | SWaitRespH | SConsumeResp | SStreamResp | SDone | SErrored.
Definition sst_eqb (a b : sst) : bool :=
  match a, b with
  | SUninit, SUninit | SWaitReqH, SWaitReqH | SConsumeReq, SConsumeReq | SStreamReq, SStreamReq
  | SWaitRespH, SWaitRespH | SConsumeResp, SConsumeResp | SStreamResp, SStreamResp
  | SDone, SDone | SErrored, SErrored => true
  | _, _ => false end.

(* what runs after handle_protocol_error returns to its caller *)
Inductive after := AfNone | AfStreamHdr | AfStreamLate | AfConsume.
(* the blocking yields of HttpStream: the continuation to run on completion *)
Inductive await :=
| AwInvReq1 | AwInvReq2 | AwInvResp
| AwBsReq1 | AwBsReq2 | AwBsResp1 | AwBsResp2
| AwReqHeaders (es : bool)
| AwConnStreamHdr | AwConnStreamLate (body : bytes) | AwConnConsume
| AwReqStream | AwReq | AwRespHSet | AwRespH (es : bool) | AwResponse (already : bool)
| AwKilled | AwPErr (isreq : bool) (code : option N) (af : after) | AwConnect.

(* ghost: summary of the hooks fired so far, maintained by a monitor automaton (see mon_step) *)
Record mstate := mkM { m_qh : bool; m_q : bool; m_rh : bool; m_r : bool; m_er : bool; m_cn : bool;
                       m_ok : bool (* ordering rules never broken *); m_er2 : bool (* error fired twice *);
                       m_early : bool (* responseheaders fired before request *) }.
Definition m0 : mstate := mkM false false false false false false true false false.
Definition mon_step (m : mstate) (h : hook) : mstate :=
  let any := m_qh m || m_q m || m_rh m || m_r m || m_er m || m_cn m in
  match h with
  | HkReqHeaders => mkM true (m_q m) (m_rh m) (m_r m) (m_er m) (m_cn m) (m_ok m && negb any) (m_er2 m) (m_early m)
  | HkConnect => mkM (m_qh m) (m_q m) (m_rh m) (m_r m) (m_er m) true (m_ok m && negb any) (m_er2 m) (m_early m)
  | HkRequest => mkM (m_qh m) true (m_rh m) (m_r m) (m_er m) (m_cn m) (m_ok m && m_qh m && negb (m_q m)) (m_er2 m) (m_early m)
  | HkRespHeaders => mkM (m_qh m) (m_q m) true (m_r m) (m_er m) (m_cn m) (m_ok m && m_qh m && negb (m_rh m)) (m_er2 m)
                         (m_early m || negb (m_q m))
  | HkResponse => mkM (m_qh m) (m_q m) (m_rh m) true (m_er m) (m_cn m) (m_ok m && m_qh m && m_rh m && negb (m_r m)) (m_er2 m) (m_early m)
  | HkError => mkM (m_qh m) (m_q m) (m_rh m) (m_r m) true (m_cn m) (m_ok m && m_qh m) (m_er2 m || m_er m) (m_early m)
  end.
Definition summ (hs : list hook) : mstate := fold_left mon_step hs m0.

Record resp := mkResp { r_head : head; r_content : bytes; r_stream : bool }.

Record stream := mkStream {
  sid : N; cs : sst; ss : sst; pc : option await; queue : list hev;
  req : option head; req_content : bytes; req_stream : bool;
  fresp : option resp; ferr : option bool (* Some true = killed by an addon *); live : bool;
  reqbuf : bytes; respbuf : bytes; srv : option N;
  hooks : list hook (* ghost: hooks fired so far, oldest first *);
  upstream : bool (* ghost: request headers were sent to a server *);
  tunnel : bool; crashed : bool;
  (* ghost state used only by the proofs and by the run-time contract check *)
  msum : mstate          (* = summ hooks *);
  aborted : bool         (* the client error was forwarded to the server (handle_protocol_error, talk-upstream branch) *);
  reqerr_h : bool        (* a RequestProtocolError has been handled *);
  req_fin : bool         (* RequestEndOfMessage or RequestProtocolError handled *);
  resp_fin : bool        (* ResponseEndOfMessage or ResponseProtocolError handled *);
  venv : bool            (* an event was handled that the connection layers never deliver in that situation *);
  fws : bool             (* flow.websocket is set (send_response classified the response as a WebSocket handshake) *) }.

Definition upd_sid (v : N) (s : stream) : stream := {| sid := v; cs := cs s; ss := ss s; pc := pc s; queue := queue s; req := req s; req_content := req_content s; req_stream := req_stream s; fresp := fresp s; ferr := ferr s; live := live s; reqbuf := reqbuf s; respbuf := respbuf s; srv := srv s; hooks := hooks s; upstream := upstream s; tunnel := tunnel s; crashed := crashed s; msum := msum s; aborted := aborted s; reqerr_h := reqerr_h s; req_fin := req_fin s; resp_fin := resp_fin s; venv := venv s; fws := fws s |}.
Definition upd_cs (v : sst) (s : stream) : stream := {| sid := sid s; cs := v; ss := ss s; pc := pc s; queue := queue s; req := req s; req_content := req_content s; req_stream := req_stream s; fresp := fresp s; ferr := ferr s; live := live s; reqbuf := reqbuf s; respbuf := respbuf s; srv := srv s; hooks := hooks s; upstream := upstream s; tunnel := tunnel s; crashed := crashed s; msum := msum s; aborted := aborted s; reqerr_h := reqerr_h s; req_fin := req_fin s; resp_fin := resp_fin s; venv := venv s; fws := fws s |}.
Definition upd_ss (v : sst) (s : stream) : stream := {| sid := sid s; cs := cs s; ss := v; pc := pc s; queue := queue s; req := req s; req_content := req_content s; req_stream := req_stream s; fresp := fresp s; ferr := ferr s; live := live s; reqbuf := reqbuf s; respbuf := respbuf s; srv := srv s; hooks := hooks s; upstream := upstream s; tunnel := tunnel s; crashed := crashed s; msum := msum s; aborted := aborted s; reqerr_h := reqerr_h s; req_fin := req_fin s; resp_fin := resp_fin s; venv := venv s; fws := fws s |}.
Definition upd_pc (v : option await) (s : stream) : stream := {| sid := sid s; cs := cs s; ss := ss s; pc := v; queue := queue s; req := req s; req_content := req_content s; req_stream := req_stream s; fresp := fresp s; ferr := ferr s; live := live s; reqbuf := reqbuf s; respbuf := respbuf s; srv := srv s; hooks := hooks s; upstream := upstream s; tunnel := tunnel s; crashed := crashed s; msum := msum s; aborted := aborted s; reqerr_h := reqerr_h s; req_fin := req_fin s; resp_fin := resp_fin s; venv := venv s; fws := fws s |}.
Definition upd_queue (v : list hev) (s : stream) : stream := {| sid := sid s; cs := cs s; ss := ss s; pc := pc s; queue := v; req := req s; req_content := req_content s; req_stream := req_stream s; fresp := fresp s; ferr := ferr s; live := live s; reqbuf := reqbuf s; respbuf := respbuf s; srv := srv s; hooks := hooks s; upstream := upstream s; tunnel := tunnel s; crashed := crashed s; msum := msum s; aborted := aborted s; reqerr_h := reqerr_h s; req_fin := req_fin s; resp_fin := resp_fin s; venv := venv s; fws := fws s |}.
Definition upd_req (v : option head) (s : stream) : stream := {| sid := sid s; cs := cs s; ss := ss s; pc := pc s; queue := queue s; req := v; req_content := req_content s; req_stream := req_stream s; fresp := fresp s; ferr := ferr s; live := live s; reqbuf := reqbuf s; respbuf := respbuf s; srv := srv s; hooks := hooks s; upstream := upstream s; tunnel := tunnel s; crashed := crashed s; msum := msum s; aborted := aborted s; reqerr_h := reqerr_h s; req_fin := req_fin s; resp_fin := resp_fin s; venv := venv s; fws := fws s |}.
Definition upd_req_content (v : bytes) (s : stream) : stream := {| sid := sid s; cs := cs s; ss := ss s; pc := pc s; queue := queue s; req := req s; req_content := v; req_stream := req_stream s; fresp := fresp s; ferr := ferr s; live := live s; reqbuf := reqbuf s; respbuf := respbuf s; srv := srv s; hooks := hooks s; upstream := upstream s; tunnel := tunnel s; crashed := crashed s; msum := msum s; aborted := aborted s; reqerr_h := reqerr_h s; req_fin := req_fin s; resp_fin := resp_fin s; venv := venv s; fws := fws s |}.
Definition upd_req_stream (v : bool) (s : stream) : stream := {| sid := sid s; cs := cs s; ss := ss s; pc := pc s; queue := queue s; req := req s; req_content := req_content s; req_stream := v; fresp := fresp s; ferr := ferr s; live := live s; reqbuf := reqbuf s; respbuf := respbuf s; srv := srv s; hooks := hooks s; upstream := upstream s; tunnel := tunnel s; crashed := crashed s; msum := msum s; aborted := aborted s; reqerr_h := reqerr_h s; req_fin := req_fin s; resp_fin := resp_fin s; venv := venv s; fws := fws s |}.
Definition upd_fresp (v : option resp) (s : stream) : stream := {| sid := sid s; cs := cs s; ss := ss s; pc := pc s; queue := queue s; req := req s; req_content := req_content s; req_stream := req_stream s; fresp := v; ferr := ferr s; live := live s; reqbuf := reqbuf s; respbuf := respbuf s; srv := srv s; hooks := hooks s; upstream := upstream s; tunnel := tunnel s; crashed := crashed s; msum := msum s; aborted := aborted s; reqerr_h := reqerr_h s; req_fin := req_fin s; resp_fin := resp_fin s; venv := venv s; fws := fws s |}.
Definition upd_ferr (v : option bool) (s : stream) : stream := {| sid := sid s; cs := cs s; ss := ss s; pc := pc s; queue := queue s; req := req s; req_content := req_content s; req_stream := req_stream s; fresp := fresp s; ferr := v; live := live s; reqbuf := reqbuf s; respbuf := respbuf s; srv := srv s; hooks := hooks s; upstream := upstream s; tunnel := tunnel s; crashed := crashed s; msum := msum s; aborted := aborted s; reqerr_h := reqerr_h s; req_fin := req_fin s; resp_fin := resp_fin s; venv := venv s; fws := fws s |}.
Definition upd_live (v : bool) (s : stream) : stream := {| sid := sid s; cs := cs s; ss := ss s; pc := pc s; queue := queue s; req := req s; req_content := req_content s; req_stream := req_stream s; fresp := fresp s; ferr := ferr s; live := v; reqbuf := reqbuf s; respbuf := respbuf s; srv := srv s; hooks := hooks s; upstream := upstream s; tunnel := tunnel s; crashed := crashed s; msum := msum s; aborted := aborted s; reqerr_h := reqerr_h s; req_fin := req_fin s; resp_fin := resp_fin s; venv := venv s; fws := fws s |}.
Definition upd_reqbuf (v : bytes) (s : stream) : stream := {| sid := sid s; cs := cs s; ss := ss s; pc := pc s; queue := queue s; req := req s; req_content := req_content s; req_stream := req_stream s; fresp := fresp s; ferr := ferr s; live := live s; reqbuf := v; respbuf := respbuf s; srv := srv s; hooks := hooks s; upstream := upstream s; tunnel := tunnel s; crashed := crashed s; msum := msum s; aborted := aborted s; reqerr_h := reqerr_h s; req_fin := req_fin s; resp_fin := resp_fin s; venv := venv s; fws := fws s |}.
Definition upd_respbuf (v : bytes) (s : stream) : stream := {| sid := sid s; cs := cs s; ss := ss s; pc := pc s; queue := queue s; req := req s; req_content := req_content s; req_stream := req_stream s; fresp := fresp s; ferr := ferr s; live := live s; reqbuf := reqbuf s; respbuf := v; srv := srv s; hooks := hooks s; upstream := upstream s; tunnel := tunnel s; crashed := crashed s; msum := msum s; aborted := aborted s; reqerr_h := reqerr_h s; req_fin := req_fin s; resp_fin := resp_fin s; venv := venv s; fws := fws s |}.
Definition upd_srv (v : option N) (s : stream) : stream := {| sid := sid s; cs := cs s; ss := ss s; pc := pc s; queue := queue s; req := req s; req_content := req_content s; req_stream := req_stream s; fresp := fresp s; ferr := ferr s; live := live s; reqbuf := reqbuf s; respbuf := respbuf s; srv := v; hooks := hooks s; upstream := upstream s; tunnel := tunnel s; crashed := crashed s; msum := msum s; aborted := aborted s; reqerr_h := reqerr_h s; req_fin := req_fin s; resp_fin := resp_fin s; venv := venv s; fws := fws s |}.
Definition upd_hooks (v : list hook) (s : stream) : stream := {| sid := sid s; cs := cs s; ss := ss s; pc := pc s; queue := queue s; req := req s; req_content := req_content s; req_stream := req_stream s; fresp := fresp s; ferr := ferr s; live := live s; reqbuf := reqbuf s; respbuf := respbuf s; srv := srv s; hooks := v; upstream := upstream s; tunnel := tunnel s; crashed := crashed s; msum := msum s; aborted := aborted s; reqerr_h := reqerr_h s; req_fin := req_fin s; resp_fin := resp_fin s; venv := venv s; fws := fws s |}.
Definition upd_upstream (v : bool) (s : stream) : stream := {| sid := sid s; cs := cs s; ss := ss s; pc := pc s; queue := queue s; req := req s; req_content := req_content s; req_stream := req_stream s; fresp := fresp s; ferr := ferr s; live := live s; reqbuf := reqbuf s; respbuf := respbuf s; srv := srv s; hooks := hooks s; upstream := v; tunnel := tunnel s; crashed := crashed s; msum := msum s; aborted := aborted s; reqerr_h := reqerr_h s; req_fin := req_fin s; resp_fin := resp_fin s; venv := venv s; fws := fws s |}.
Definition upd_tunnel (v : bool) (s : stream) : stream := {| sid := sid s; cs := cs s; ss := ss s; pc := pc s; queue := queue s; req := req s; req_content := req_content s; req_stream := req_stream s; fresp := fresp s; ferr := ferr s; live := live s; reqbuf := reqbuf s; respbuf := respbuf s; srv := srv s; hooks := hooks s; upstream := upstream s; tunnel := v; crashed := crashed s; msum := msum s; aborted := aborted s; reqerr_h := reqerr_h s; req_fin := req_fin s; resp_fin := resp_fin s; venv := venv s; fws := fws s |}.
Definition upd_crashed (v : bool) (s : stream) : stream := {| sid := sid s; cs := cs s; ss := ss s; pc := pc s; queue := queue s; req := req s; req_content := req_content s; req_stream := req_stream s; fresp := fresp s; ferr := ferr s; live := live s; reqbuf := reqbuf s; respbuf := respbuf s; srv := srv s; hooks := hooks s; upstream := upstream s; tunnel := tunnel s; crashed := v; msum := msum s; aborted := aborted s; reqerr_h := reqerr_h s; req_fin := req_fin s; resp_fin := resp_fin s; venv := venv s; fws := fws s |}.
Definition upd_msum (v : mstate) (s : stream) : stream := {| sid := sid s; cs := cs s; ss := ss s; pc := pc s; queue := queue s; req := req s; req_content := req_content s; req_stream := req_stream s; fresp := fresp s; ferr := ferr s; live := live s; reqbuf := reqbuf s; respbuf := respbuf s; srv := srv s; hooks := hooks s; upstream := upstream s; tunnel := tunnel s; crashed := crashed s; msum := v; aborted := aborted s; reqerr_h := reqerr_h s; req_fin := req_fin s; resp_fin := resp_fin s; venv := venv s; fws := fws s |}.
Definition upd_aborted (v : bool) (s : stream) : stream := {| sid := sid s; cs := cs s; ss := ss s; pc := pc s; queue := queue s; req := req s; req_content := req_content s; req_stream := req_stream s; fresp := fresp s; ferr := ferr s; live := live s; reqbuf := reqbuf s; respbuf := respbuf s; srv := srv s; hooks := hooks s; upstream := upstream s; tunnel := tunnel s; crashed := crashed s; msum := msum s; aborted := v; reqerr_h := reqerr_h s; req_fin := req_fin s; resp_fin := resp_fin s; venv := venv s; fws := fws s |}.
Definition upd_reqerr_h (v : bool) (s : stream) : stream := {| sid := sid s; cs := cs s; ss := ss s; pc := pc s; queue := queue s; req := req s; req_content := req_content s; req_stream := req_stream s; fresp := fresp s; ferr := ferr s; live := live s; reqbuf := reqbuf s; respbuf := respbuf s; srv := srv s; hooks := hooks s; upstream := upstream s; tunnel := tunnel s; crashed := crashed s; msum := msum s; aborted := aborted s; reqerr_h := v; req_fin := req_fin s; resp_fin := resp_fin s; venv := venv s; fws := fws s |}.
Definition upd_req_fin (v : bool) (s : stream) : stream := {| sid := sid s; cs := cs s; ss := ss s; pc := pc s; queue := queue s; req := req s; req_content := req_content s; req_stream := req_stream s; fresp := fresp s; ferr := ferr s; live := live s; reqbuf := reqbuf s; respbuf := respbuf s; srv := srv s; hooks := hooks s; upstream := upstream s; tunnel := tunnel s; crashed := crashed s; msum := msum s; aborted := aborted s; reqerr_h := reqerr_h s; req_fin := v; resp_fin := resp_fin s; venv := venv s; fws := fws s |}.
Definition upd_resp_fin (v : bool) (s : stream) : stream := {| sid := sid s; cs := cs s; ss := ss s; pc := pc s; queue := queue s; req := req s; req_content := req_content s; req_stream := req_stream s; fresp := fresp s; ferr := ferr s; live := live s; reqbuf := reqbuf s; respbuf := respbuf s; srv := srv s; hooks := hooks s; upstream := upstream s; tunnel := tunnel s; crashed := crashed s; msum := msum s; aborted := aborted s; reqerr_h := reqerr_h s; req_fin := req_fin s; resp_fin := v; venv := venv s; fws := fws s |}.
Definition upd_venv (v : bool) (s : stream) : stream := {| sid := sid s; cs := cs s; ss := ss s; pc := pc s; queue := queue s; req := req s; req_content := req_content s; req_stream := req_stream s; fresp := fresp s; ferr := ferr s; live := live s; reqbuf := reqbuf s; respbuf := respbuf s; srv := srv s; hooks := hooks s; upstream := upstream s; tunnel := tunnel s; crashed := crashed s; msum := msum s; aborted := aborted s; reqerr_h := reqerr_h s; req_fin := req_fin s; resp_fin := resp_fin s; venv := v; fws := fws s |}.
Definition upd_fws (v : bool) (s : stream) : stream := {| sid := sid s; cs := cs s; ss := ss s; pc := pc s; queue := queue s; req := req s; req_content := req_content s; req_stream := req_stream s; fresp := fresp s; ferr := ferr s; live := live s; reqbuf := reqbuf s; respbuf := respbuf s; srv := srv s; hooks := hooks s; upstream := upstream s; tunnel := tunnel s; crashed := crashed s; msum := msum s; aborted := aborted s; reqerr_h := reqerr_h s; req_fin := req_fin s; resp_fin := resp_fin s; venv := venv s; fws := v |}.
Inductive target := TClient | TServer.
Inductive scmd :=
| CHook (h : hook) | CSend (t : target) (e : hev) | CGetConn (host : N) | CDrop | CCloseServer | CTunnel | CCrash.
Inductive sinput := IEvent (e : hev) | IHookDone | IConnDone (c : option N).
Definition res := (stream * list scmd)%type.

Definition new_stream (id : N) : stream :=
  mkStream id SWaitReqH SUninit None [] None [] false None None false [] [] None [] false false false
           m0 false false false false false false.

Definition isnil {A} (l : list A) : bool := match l with [] => true | _ => false end.
Definition len (b : bytes) : N := N.of_nat (length b).
Definition gt_opt (n : N) (lim : option N) : bool := match lim with Some m => m <? n | None => false end.
Definition is_some {A} (o : option A) : bool := match o with Some _ => true | None => false end.

Definition setresp_head : head :=
  mkHead [x48;x54;x54;x50;x2f;x31;x2e;x31;x20;x32;x30;x30;x20;x4f;x4b;x0d;x0a;
          x63;x6f;x6e;x74;x65;x6e;x74;x2d;x6c;x65;x6e;x67;x74;x68;x3a;x20;x32;x0d;x0a;x0d;x0a]
         MGet (HLen 2) 0 true true false false 200 false.
Definition setresp : resp := mkResp setresp_head [x68;x69] false.
Definition continue_head : head :=
  mkHead [x48;x54;x54;x50;x2f;x31;x2e;x31;x20;x31;x30;x30;x20;x43;x6f;x6e;x74;x69;x6e;x75;x65;x0d;x0a;x0d;x0a]
         MGet HNone 0 true true false false 100 false.
Definition connect200_head : head := mkHead [] MGet HNone 0 true true false false 200 false.

Definition crash (s : stream) : res := (upd_crashed true s, [CCrash]).
Definition emit_hook (h : hook) (k : await) (s : stream) : res :=
  (upd_pc (Some k) (upd_msum (mon_step (msum s) h) (upd_hooks (hooks s ++ [h]) s)), [CHook h]).
Definition seq_res (r : res) (f : stream -> res) : res :=
  let '(s1, c1) := r in let '(s2, c2) := f s1 in (s2, c1 ++ c2).
Definition req_host (s : stream) : N := match req s with Some h => h_host h | None => 0 end.

(* the addon policy is applied to the flow when the hook command is executed (the stream is paused then) *)
Definition killable (s : stream) : bool := live s && negb (match ferr s with Some true => true | _ => false end).
Definition apply_act (h : hook) (a : act) (s : stream) : stream :=
  let s1 := match a with AKill => if killable s then upd_live false (upd_ferr (Some true) s) else s | _ => s end in
  let s2 := match a with AResp | ASResp => upd_fresp (Some setresp) s1 | _ => s1 end in
  match a with
  | AStream | ASResp =>
      match h with
      | HkReqHeaders => upd_req_stream true s2
      | HkRespHeaders => match fresp s2 with
                         | Some r => upd_fresp (Some (mkResp (r_head r) (r_content r) true)) s2
                         | None => s2 end
      | _ => s2 end
  | _ => s2 end.

(* ---------- check_killed *)
Definition is_reqerr (e : hev) : bool := match e with EReqErr _ => true | _ => false end.
Definition killed_by_us (s : stream) : bool := match ferr s with Some true => true | _ => false end.
Definition killed_by_remote (s : stream) : bool := existsb is_reqerr (queue s).
Definition finish_killed (s : stream) : res :=
  (upd_cs SErrored (upd_ss SErrored (upd_live false s)), [CSend TClient (ERespErr None)]).
Definition check_killed (emit : bool) (s : stream) : option res :=
  let rem := killed_by_remote s in
  let s1 := if rem then match ferr s with None => upd_ferr (Some false) s | Some _ => s end else s in
  if killed_by_us s || rem
  then Some (if emit then emit_hook HkError AwKilled s1 else finish_killed s1)
  else None.

Definition req_head_or_default (s : stream) : head :=
  match req s with Some h => h | None => connect200_head end.

(* ---------- flow_done / send_response *)
Definition flow_done (s : stream) : res :=
  let s := if fws s then s else upd_live false s in
  match fresp s with
  | None => crash s
  | Some r => if h_status (r_head r) =? 101 then (upd_tunnel true s, [CTunnel])
              else (s, [CDrop; CSend TClient ERespEOM])
  end.
Definition send_response (already : bool) (s : stream) : res :=
  match fresp s with
  | None => crash s
  | Some r =>
      (* is_websocket is decided (and flow.websocket set) before the response hook runs *)
      let is_ws := (h_status (r_head r) =? 101) && h_ws (r_head r) && h_ws (req_head_or_default s) in
      emit_hook HkResponse (AwResponse already) (if is_ws then upd_fws true s else s)
  end.
Definition send_response_cont (already : bool) (s : stream) : res :=
  let s := upd_ss SDone s in
  match check_killed false s with
  | Some r => r
  | None =>
      match fresp s with
      | None => crash s
      | Some r =>
          let c1 := if already then []
                    else CSend TClient (ERespHeaders (r_head r) (isnil (r_content r)))
                         :: (if isnil (r_content r) then [] else [CSend TClient (ERespData (r_content r))]) in
          if sst_eqb (cs s) SDone then seq_res (s, c1) flow_done else (s, c1)
      end
  end.

(* ---------- handle_protocol_error *)
Definition apply_after (af : after) (s : stream) : stream :=
  match af with
  | AfNone | AfConsume => s
  | AfStreamHdr => upd_ss SWaitRespH (upd_cs SErrored s)
  | AfStreamLate => upd_cs SErrored s
  end.
Definition perr_tail (isreq : bool) (code : option N) (af : after) (s : stream) : res :=
  let '(s2, c2) :=
    match check_killed false s with
    | Some r => r
    | None =>
        let '(s1, c1) :=
          if isreq then (s, [])
          else (upd_ss SErrored s, if sst_eqb (cs s) SErrored then [] else [CSend TClient (ERespErr code)]) in
        (upd_live false s1, c1 ++ [CDrop])
    end in
  (apply_after af s2, c2).
Definition handle_perr (isreq : bool) (code : option N) (af : after) (s : stream) : res :=
  let ss_fin := sst_eqb (ss s) SDone || sst_eqb (ss s) SErrored in
  let talk := isreq && (sst_eqb (cs s) SStreamReq || sst_eqb (cs s) SDone) && negb ss_fin in
  let need := negb (sst_eqb (cs s) SErrored || ss_fin) in
  let r1 := if talk then (upd_aborted true (upd_ss SErrored (upd_cs SErrored s)), [CSend TServer (EReqErr code)]) else (s, []) in
  seq_res r1 (fun s1 =>
    if need then emit_hook HkError (AwPErr isreq code af) (upd_ferr (Some false) s1)
    else perr_tail isreq code af s1).

(* ---------- request side *)
Definition stream_req_data (o : opts) (d : bytes) (s : stream) : res :=
  ((if o_ssb o then upd_reqbuf (reqbuf s ++ d) s else s), [CSend TServer (EReqData d)]).
Definition start_request_stream (late : option bytes) (s : stream) : res :=
  match fresp s with
  | Some _ => crash s   (* NotImplementedError: response set and streaming enabled *)
  | None => (upd_pc (Some match late with None => AwConnStreamHdr | Some b => AwConnStreamLate b end) s,
             [CGetConn (req_host s)])
  end.
Definition resume_conn_stream (o : opts) (late : option bytes) (c : option N) (s : stream) : res :=
  match c with
  | None => handle_perr false (Some 502) (match late with None => AfStreamHdr | Some _ => AfStreamLate end) s
  | Some k =>
      let s1 := upd_cs SStreamReq (upd_upstream true (upd_srv (Some k) s)) in
      let c1 := [CSend TServer (EReqHeaders (req_head_or_default s) false)] in
      match late with
      | None => (upd_ss SWaitRespH s1, c1)
      | Some b => seq_res (s1, c1) (stream_req_data o b)
      end
  end.
Definition resume_conn_consume (c : option N) (s : stream) : res :=
  match c with
  | None => handle_perr false (Some 502) AfConsume s
  | Some k =>
      let s1 := upd_upstream true (upd_srv (Some k) s) in
      let content := req_content s in
      (s1, CSend TServer (EReqHeaders (req_head_or_default s) (isnil content))
           :: (if isnil content then [] else [CSend TServer (EReqData content)])
           ++ [CSend TServer EReqEOM])
  end.

Inductive cbres := CbNo (s : stream) | CbStop (r : res).
Definition limits_on (o : opts) : bool := is_some (o_slb o) || is_some (o_bsl o).
Definition cbs_req (o : opts) (s : stream) : cbres :=
  if negb (limits_on o) then CbNo s else
  let late := negb (isnil (reqbuf s)) in
  let ex := if late then ESz (len (reqbuf s)) else req_expected (req_head_or_default s) in
  match ex with
  | ESz n =>
      if n =? 0 then CbNo s
      else if gt_opt n (o_bsl o) then
        CbStop (if late then emit_hook HkError AwBsReq2 (upd_ferr (Some false) s)
                else emit_hook HkReqHeaders AwBsReq1 s)
      else if gt_opt n (o_slb o) then
        let s1 := upd_req_stream true s in
        if late then CbStop (start_request_stream (Some (reqbuf s)) (upd_reqbuf [] s1)) else CbNo s1
      else CbNo s
  | _ => CbNo s
  end.

Definition state_wait_req_headers (o : opts) (h : head) (es : bool) (s : stream) : res :=
  let s := upd_live true (upd_req (Some h) s) in
  if o_val o && negb (h_valid h) then emit_hook HkReqHeaders AwInvReq1 (upd_ferr (Some false) s)
  else if meth_eqb (h_meth h) MConnect then emit_hook HkConnect AwConnect (upd_cs SDone s)
  else if negb (h_hashost h) then (upd_cs SErrored s, [CSend TClient (ERespErr (Some 400))])
  else match (if es then CbNo s else cbs_req o s) with
       | CbStop r => r
       | CbNo s1 => emit_hook HkReqHeaders (AwReqHeaders es) s1
       end.
Definition cont_req_headers (es : bool) (s : stream) : res :=
  match check_killed true s with
  | Some r => r
  | None =>
      let c1 := if h_exp (req_head_or_default s) then [CSend TClient (ERespHeaders continue_head false)] else [] in
      if req_stream s && negb es then seq_res (s, c1) (start_request_stream None)
      else (upd_ss SWaitRespH (upd_cs SConsumeReq s), c1)
  end.
Definition state_consume_req (o : opts) (e : hev) (s : stream) : res :=
  match e with
  | EReqData d => match cbs_req o (upd_reqbuf (reqbuf s ++ d) s) with CbNo s1 => (s1, []) | CbStop r => r end
  | EReqEOM => emit_hook HkRequest AwReq (upd_cs SDone (upd_reqbuf [] (upd_req_content (reqbuf s) s)))
  | _ => crash s
  end.
Definition cont_req (s : stream) : res :=
  match check_killed true s with
  | Some r => r
  | None => match fresp s with
            | Some _ => emit_hook HkRespHeaders AwRespHSet s
            | None => (upd_pc (Some AwConnConsume) s, [CGetConn (req_host s)])
            end
  end.
Definition state_stream_req (o : opts) (e : hev) (s : stream) : res :=
  match e with
  | EReqData d => stream_req_data o d s
  | EReqEOM =>
      let s1 := if o_ssb o then upd_reqbuf [] (upd_req_content (reqbuf s) s) else s in
      emit_hook HkRequest AwReqStream s1
  | _ => crash s
  end.
Definition cont_req_stream (s : stream) : res :=
  match check_killed (negb (sst_eqb (ss s) SDone || sst_eqb (ss s) SErrored)) s with
  | Some r => r
  | None =>
      let s1 := upd_cs SDone s in
      seq_res (s1, [CSend TServer EReqEOM]) (fun s2 => if sst_eqb (ss s2) SDone then flow_done s2 else (s2, []))
  end.

(* ---------- response side *)
Definition stream_resp_data (o : opts) (d : bytes) (s : stream) : res :=
  ((if o_ssb o then upd_respbuf (respbuf s ++ d) s else s), [CSend TClient (ERespData d)]).
Definition start_response_stream (s : stream) : res :=
  match fresp s with
  | None => crash s
  | Some r => (upd_ss SStreamResp s, [CSend TClient (ERespHeaders (r_head r) false)])
  end.
Definition set_content (b : bytes) (s : stream) : stream :=
  match fresp s with Some r => upd_fresp (Some (mkResp (r_head r) b (r_stream r))) s | None => s end.
Definition set_rstream (s : stream) : stream :=
  match fresp s with Some r => upd_fresp (Some (mkResp (r_head r) (r_content r) true)) s | None => s end.
Definition resp_stream_on (s : stream) : bool := match fresp s with Some r => r_stream r | None => false end.
Definition cbs_resp (o : opts) (s : stream) : cbres :=
  if negb (limits_on o) then CbNo s else
  let late := negb (isnil (respbuf s)) in
  let ex := if late then ESz (len (respbuf s))
            else match fresp s with Some r => resp_expected (req_head_or_default s) (r_head r) | None => ESz 0 end in
  match ex with
  | ESz n =>
      if n =? 0 then CbNo s
      else if gt_opt n (o_bsl o) then
        CbStop (if late then emit_hook HkError AwBsResp2 (upd_ferr (Some false) s)
                else emit_hook HkRespHeaders AwBsResp1 s)
      else if gt_opt n (o_slb o) then
        let s1 := set_rstream s in
        if late then CbStop (seq_res (start_response_stream (upd_respbuf [] s1)) (stream_resp_data o (respbuf s)))
        else CbNo s1
      else CbNo s
  | _ => CbNo s
  end.
Definition state_wait_resp_headers (o : opts) (h : head) (es : bool) (s : stream) : res :=
  let s := upd_fresp (Some (mkResp h [] false)) s in
  match (if es then CbNo s else cbs_resp o s) with
  | CbStop r => r
  | CbNo s1 =>
      if o_val o && negb (h_valid h)
      then seq_res (s1, [CCloseServer]) (fun s2 => emit_hook HkError AwInvResp (upd_ferr (Some false) s2))
      else emit_hook HkRespHeaders (AwRespH es) s1
  end.
Definition cont_resp_headers (es : bool) (s : stream) : res :=
  match check_killed true s with
  | Some r => r
  | None => if resp_stream_on s && negb es then start_response_stream s else (upd_ss SConsumeResp s, [])
  end.
Definition state_consume_resp (o : opts) (e : hev) (s : stream) : res :=
  match e with
  | ERespData d => match cbs_resp o (upd_respbuf (respbuf s ++ d) s) with CbNo s1 => (s1, []) | CbStop r => r end
  | ERespEOM => match fresp s with
                | None => crash s
                | Some _ => send_response false (upd_respbuf [] (set_content (respbuf s) s))
                end
  | _ => crash s
  end.
Definition state_stream_resp (o : opts) (e : hev) (s : stream) : res :=
  match fresp s with
  | None => crash s
  | Some _ =>
      match e with
      | ERespData d => stream_resp_data o d s
      | ERespEOM =>
          let s1 := if o_ssb o then upd_respbuf [] (set_content (respbuf s) s) else s in
          send_response true s1
      | _ => crash s
      end
  end.

(* handle_connect after the http_connect hook (regular mode, connection_strategy=lazy) *)
Definition cont_connect (s : stream) : res :=
  match check_killed false s with
  | Some r => r
  | None =>
      let s1 := match fresp s with Some _ => s | None => upd_fresp (Some (mkResp connect200_head [] false)) s end in
      (* every response reachable here is 2xx: the tunnel starts (http_connected hook, child layer) *)
      (upd_tunnel true s1, [CTunnel])
  end.

(* ---------- HttpStream._handle_event *)
Definition is_req_side (e : hev) : bool :=
  match e with EReqHeaders _ _ | EReqData _ | EReqEOM | EReqErr _ => true | _ => false end.
Definition is_first (e : hev) : bool := match e with EReqHeaders _ _ => true | _ => false end.
(* ghost bookkeeping for the event about to be handled: what the connection layers guarantee (venv), the
   aborted-but-still-fed situation (fws), and which terminal events have been seen *)
Definition note_event (e : hev) (s : stream) : stream :=
  let fresh := sst_eqb (cs s) SWaitReqH && negb (is_some (req s)) in
  let bad_env := (fresh && negb (is_first e)) || (negb fresh && is_first e)
                 || (negb (is_req_side e) && negb (upstream s))
                 || (is_req_side e && reqerr_h s)
                 || match e with EReqData [] | ERespData [] => true | _ => false end in
  let s1 := if bad_env then upd_venv true s else s in
  let s2 := s1 in
  match e with
  | EReqErr _ => upd_req_fin true (upd_reqerr_h true s2)
  | EReqEOM => upd_req_fin true s2
  | ERespEOM | ERespErr _ => upd_resp_fin true s2
  | _ => s2
  end.

Definition run_event (o : opts) (s0 : stream) (e : hev) : res :=
  let s := note_event e s0 in
  match e with
  | EReqErr c => handle_perr true c AfNone s
  | ERespErr c => handle_perr false c AfNone s
  | EReqHeaders _ _ | EReqData _ | EReqEOM =>
      match cs s with
      | SErrored => (s, [])
      | SWaitReqH => match e with EReqHeaders h es => state_wait_req_headers o h es s | _ => crash s end
      | SConsumeReq => state_consume_req o e s
      | SStreamReq => state_stream_req o e s
      | _ => crash s
      end
  | ERespHeaders _ _ | ERespData _ | ERespEOM =>
      match ss s with
      | SErrored => (s, [])
      | SWaitRespH => match e with ERespHeaders h es => state_wait_resp_headers o h es s | _ => crash s end
      | SConsumeResp => state_consume_resp o e s
      | SStreamResp => state_stream_resp o e s
      | _ => crash s
      end
  end.

(* continuation after a completed blocking command *)
Definition resume (o : opts) (k : await) (inp : sinput) (s : stream) : res :=
  let conn := match inp with IConnDone c => c | _ => None end in
  match k with
  | AwInvReq1 => emit_hook HkError AwInvReq2 s
  | AwInvReq2 => (upd_cs SErrored (upd_ss SErrored (upd_live false s)), [CSend TClient (ERespErr (Some 400))])
  | AwInvResp => (upd_cs SErrored (upd_ss SErrored (upd_live false s)), [CSend TClient (ERespErr (Some 502))])
  | AwBsReq1 => emit_hook HkError AwBsReq2 (upd_ferr (Some false) s)
  | AwBsReq2 => (upd_live false (upd_cs SErrored s), [CSend TClient (ERespErr (Some 413))])
  | AwBsResp1 => emit_hook HkError AwBsResp2 (upd_ferr (Some false) s)
  | AwBsResp2 => (upd_live false (upd_ss SErrored (upd_cs SErrored s)),
                  [CSend TClient (ERespErr (Some 502)); CSend TServer (EReqErr None)])
  | AwReqHeaders es => cont_req_headers es s
  | AwConnStreamHdr => resume_conn_stream o None conn s
  | AwConnStreamLate b => resume_conn_stream o (Some b) conn s
  | AwConnConsume => resume_conn_consume conn s
  | AwReqStream => cont_req_stream s
  | AwReq => cont_req s
  | AwRespHSet => match check_killed true s with Some r => r | None => send_response false s end
  | AwRespH es => cont_resp_headers es s
  | AwResponse already => send_response_cont already s
  | AwKilled => finish_killed s
  | AwPErr isreq code af => perr_tail isreq code af s
  | AwConnect => cont_connect s
  end.

Definition stopped (s : stream) : bool := tunnel s || crashed s.

(* Layer.__continue: replay queued events until paused again *)
Fixpoint drain (o : opts) (s : stream) (q : list hev) (acc : list scmd) : res :=
  match q with
  | [] => (upd_queue [] s, acc)
  | e :: q' =>
      if is_some (pc s) || stopped s then (upd_queue q s, acc)
      else let '(s1, c1) := run_event o (upd_queue q' s) e in drain o s1 q' (acc ++ c1)
  end.

(* Layer.handle_event *)
Definition stream_handle (o : opts) (s : stream) (inp : sinput) : res :=
  if stopped s then (s, []) else
  match inp with
  | IEvent e =>
      match pc s with
      | Some _ => (upd_queue (queue s ++ [e]) s, [])
      | None => run_event o s e
      end
  | _ =>
      match pc s with
      | None => crash s
      | Some k => let '(s1, c1) := resume o k inp (upd_pc None s) in drain o s1 (queue s1) c1
      end
  end.

(* ghost: both sides of the flow are finished -- the client side delivered its end of message or protocol error
   (or the stream is errored), and if the request went upstream the server side delivered its end / error (or the
   flow was aborted towards the server, or the stream gave up on the server side itself) *)
Definition closed_s (s : stream) : bool :=
  (req_fin s || sst_eqb (cs s) SErrored || sst_eqb (ss s) SErrored)
  && (negb (upstream s) || resp_fin s || aborted s || sst_eqb (ss s) SErrored).
