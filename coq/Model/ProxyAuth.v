(* Model/ProxyAuth.v -- executable model of mitmproxy/addons/proxyauth.py (ProxyAuth hooks,
   authenticate_http, parse_http_basic_auth, validators), of the pieces of CPython it calls
   (bytes.decode utf-8 with the replace / surrogateescape / backslashreplace handlers, str.encode,
   str.split(), str.split(sep[,1]), binascii.a2b_base64 in non-strict mode, b2a_base64), of
   Headers.get / __delitem__, of Socks5Proxy.state_auth and of what HttpStream does after the
   requestheaders / http_connect hooks.  Definitions only.

   A str is a list of code points (N).  Python exceptions are None results.
   ms1 selects the code variant of parse_http_basic_auth: false = split(COLON) (tree as found),
   true = split(COLON, 1) (fixes/C20-colon-password.diff). *)
From Coq Require Import List Bool NArith.
From MV Require Import Base.Bytes.
Import ListNotations.
Local Open Scope N_scope.

Definition str := list N.
Definition str_eqb (a b : str) : bool := list_eqb N.eqb a b.
Definition ascii (s : bytes) : str := map bN s.

(* ------------------------------------------------------------------ utf-8 *)
Definition REPL : N := 65533.
Definition is_cont (b : byte) : bool := (128 <=? bN b) && (bN b <=? 191).
Definition second_ok (b0 b1 : byte) : bool :=
  is_cont b1 &&
  (if bN b0 =? 224 then 160 <=? bN b1
   else if bN b0 =? 237 then bN b1 <? 160
   else if bN b0 =? 240 then 144 <=? bN b1
   else if bN b0 =? 244 then bN b1 <? 144
   else true).
Definition cp2 (b0 b1 : byte) : N := (bN b0 - 192) * 64 + (bN b1 - 128).
Definition cp3 (b0 b1 b2 : byte) : N := (bN b0 - 224) * 4096 + (bN b1 - 128) * 64 + (bN b2 - 128).
Definition cp4 (b0 b1 b2 b3 : byte) : N :=
  (bN b0 - 240) * 262144 + (bN b1 - 128) * 4096 + (bN b2 - 128) * 64 + (bN b3 - 128).

(* bytes.decode(utf-8, errors=h): h receives the bytes of one error range (invalid start byte alone;
   a lead byte with the valid continuation bytes read so far, decoding resumes at the offending byte;
   a truncated sequence at the end of the input). *)
Fixpoint decode_with (h : bytes -> str) (s : bytes) : str :=
  match s with
  | [] => []
  | b0 :: r0 =>
    if bN b0 <? 128 then bN b0 :: decode_with h r0
    else if bN b0 <? 194 then h [b0] ++ decode_with h r0
    else if bN b0 <? 224 then
      match r0 with
      | [] => h [b0]
      | b1 :: r1 => if is_cont b1 then cp2 b0 b1 :: decode_with h r1 else h [b0] ++ decode_with h r0
      end
    else if bN b0 <? 240 then
      match r0 with
      | [] => h [b0]
      | b1 :: r1 =>
        if second_ok b0 b1 then
          match r1 with
          | [] => h [b0; b1]
          | b2 :: r2 => if is_cont b2 then cp3 b0 b1 b2 :: decode_with h r2 else h [b0; b1] ++ decode_with h r1
          end
        else h [b0] ++ decode_with h r0
      end
    else if bN b0 <? 245 then
      match r0 with
      | [] => h [b0]
      | b1 :: r1 =>
        if second_ok b0 b1 then
          match r1 with
          | [] => h [b0; b1]
          | b2 :: r2 =>
            if is_cont b2 then
              match r2 with
              | [] => h [b0; b1; b2]
              | b3 :: r3 => if is_cont b3 then cp4 b0 b1 b2 b3 :: decode_with h r3
                            else h [b0; b1; b2] ++ decode_with h r2
              end
            else h [b0; b1] ++ decode_with h r1
          end
        else h [b0] ++ decode_with h r0
      end
    else h [b0] ++ decode_with h r0
  end.

Definition h_replace (_ : bytes) : str := [REPL].
Definition h_surrogateescape (e : bytes) : str := map (fun b => 56320 + bN b) e.
Definition hexdig (n : N) : N := if n <? 10 then 48 + n else 87 + n.
Definition h_backslashreplace (e : bytes) : str :=
  flat_map (fun b => [92; 120; hexdig (bN b / 16); hexdig (bN b mod 16)]) e.

(* str.encode(utf-8), strict: None = UnicodeEncodeError (surrogates) *)
Definition encode_cp (c : N) : option bytes :=
  if c <? 128 then Some [Nb c]
  else if c <? 2048 then Some [Nb (192 + c / 64); Nb (128 + c mod 64)]
  else if c <? 65536 then
    if (55296 <=? c) && (c <? 57344) then None
    else Some [Nb (224 + c / 4096); Nb (128 + (c / 64) mod 64); Nb (128 + c mod 64)]
  else if c <? 1114112 then
    Some [Nb (240 + c / 262144); Nb (128 + (c / 4096) mod 64); Nb (128 + (c / 64) mod 64); Nb (128 + c mod 64)]
  else None.
Fixpoint encode_strict (s : str) : option bytes :=
  match s with
  | [] => Some []
  | c :: r => match encode_cp c, encode_strict r with
              | Some a, Some b => Some (a ++ b)
              | _, _ => None
              end
  end.

(* ------------------------------------------------------------------ base64 *)
Definition b64val (b : byte) : option N :=
  let n := bN b in
  if (65 <=? n) && (n <=? 90) then Some (n - 65)
  else if (97 <=? n) && (n <=? 122) then Some (n - 71)
  else if (48 <=? n) && (n <=? 57) then Some (n + 4)
  else if n =? 43 then Some 62
  else if n =? 47 then Some 63
  else None.

(* binascii.a2b_base64(data) with strict_mode=False (CPython 3.12 Modules/binascii.c): characters
   outside the alphabet are skipped; a pad character counts only when quad_pos >= 2 and ends the
   decoding when it completes the quad; leftover quad at the end of the input = binascii.Error *)
Fixpoint a2b_loop (s : bytes) (quad_pos leftchar pads : N) (acc : bytes) : option bytes :=
  match s with
  | [] => if quad_pos =? 0 then Some (rev acc) else None
  | c :: r =>
    if bN c =? 61 then
      if 2 <=? quad_pos then
        if 4 <=? quad_pos + (pads + 1) then Some (rev acc)
        else a2b_loop r quad_pos leftchar (pads + 1) acc
      else a2b_loop r quad_pos leftchar pads acc
    else match b64val c with
      | None => a2b_loop r quad_pos leftchar pads acc
      | Some v =>
        if quad_pos =? 0 then a2b_loop r 1 v 0 acc
        else if quad_pos =? 1 then a2b_loop r 2 (v mod 16) 0 (Nb ((leftchar * 4 + v / 16) mod 256) :: acc)
        else if quad_pos =? 2 then a2b_loop r 3 (v mod 4) 0 (Nb ((leftchar * 16 + v / 4) mod 256) :: acc)
        else a2b_loop r 0 0 0 (Nb ((leftchar * 64 + v) mod 256) :: acc)
      end
  end.
Definition a2b_base64 (s : bytes) : option bytes := a2b_loop s 0 0 0 [].

(* RFC 4648 encoder (binascii.b2a_base64 without the trailing newline); used by mkauth and to state completeness *)
Definition b64chr (v : N) : byte :=
  if v <? 26 then Nb (65 + v) else if v <? 52 then Nb (71 + v) else if v <? 62 then Nb (v - 4)
  else if v =? 62 then x2b else x2f.
Fixpoint b64encode (s : bytes) : bytes :=
  match s with
  | [] => []
  | [a] => [b64chr (bN a / 4); b64chr ((bN a mod 4) * 16); x3d; x3d]
  | [a; b] => [b64chr (bN a / 4); b64chr ((bN a mod 4) * 16 + bN b / 16); b64chr ((bN b mod 16) * 4); x3d]
  | a :: b :: c :: r =>
      b64chr (bN a / 4) :: b64chr ((bN a mod 4) * 16 + bN b / 16)
      :: b64chr ((bN b mod 16) * 4 + bN c / 64) :: b64chr (bN c mod 64) :: b64encode r
  end.

(* ------------------------------------------------------------------ str methods *)
(* str.isspace per code point (the set str.split() uses); checked against CPython for all code points by the harness *)
Definition is_space (c : N) : bool :=
  ((9 <=? c) && (c <=? 13)) || ((28 <=? c) && (c <=? 32)) || (c =? 133) || (c =? 160) || (c =? 5760)
  || ((8192 <=? c) && (c <=? 8202)) || (c =? 8232) || (c =? 8233) || (c =? 8239) || (c =? 8287) || (c =? 12288).

(* s.split(): cur = the word being read (reversed), None between words *)
Fixpoint split_ws (s : str) (cur : option str) : list str :=
  match s with
  | [] => match cur with Some w => [rev w] | None => [] end
  | c :: r =>
    if is_space c then
      match cur with Some w => rev w :: split_ws r None | None => split_ws r None end
    else split_ws r (Some (c :: match cur with Some w => w | None => [] end))
  end.

(* s.split(sep) and s.split(sep, 1) for a one-character separator *)
Fixpoint split_on (sep : N) (s : str) (cur : str) : list str :=
  match s with
  | [] => [rev cur]
  | c :: r => if c =? sep then rev cur :: split_on sep r [] else split_on sep r (c :: cur)
  end.
Fixpoint split_on1 (sep : N) (s : str) (cur : str) : list str :=
  match s with
  | [] => [rev cur]
  | c :: r => if c =? sep then [rev cur; r] else split_on1 sep r (c :: cur)
  end.

(* scheme.lower() compared with the ASCII word basic: only A-Z can lower to its letters
   (checked for all code points by the harness) *)
Definition cp_lower (c : N) : N := if (65 <=? c) && (c <=? 90) then c + 32 else c.
Definition str_lower (s : str) : str := map cp_lower s.
Definition BASIC : str := [98; 97; 115; 105; 99].
Definition COLON : N := 58.

(* parse_http_basic_auth(s) -> (scheme, user, password); None = ValueError *)
Definition parse_http_basic_auth (ms1 : bool) (s : str) : option (str * str * str) :=
  match split_ws s None with
  | [scheme; authinfo] =>
    if negb (str_eqb (str_lower scheme) BASIC) then None
    else match encode_strict authinfo with
      | None => None
      | Some raw =>
        match a2b_base64 raw with
        | None => None
        | Some data =>
          match (if ms1 then split_on1 else split_on) COLON (decode_with h_replace data) [] with
          | [user; password] => Some (scheme, user, password)
          | _ => None
          end
        end
      end
  | _ => None
  end.

(* ------------------------------------------------------------------ Headers *)
Definition header := (bytes * bytes)%type.
Definition headers := list header.
Definition name_is (k : bytes) (h : header) : bool := bytes_eqb (lower (fst h)) (lower k).
Definition get_all (k : bytes) (hs : headers) : list str :=
  map (fun h => decode_with h_surrogateescape (snd h)) (filter (name_is k) hs).
Fixpoint join_comma (vs : list str) : str :=
  match vs with
  | [] => []
  | [v] => v
  | v :: r => v ++ [44; 32] ++ join_comma r
  end.
(* headers.get(k, empty string) *)
Definition headers_get (k : bytes) (hs : headers) : str := join_comma (get_all k hs).
(* del headers[k] (the key is present whenever the model calls it) *)
Definition headers_del (k : bytes) (hs : headers) : headers := filter (fun h => negb (name_is k h)) hs.

Definition PROXY_AUTHORIZATION : bytes :=
  [x50;x72;x6f;x78;x79;x2d;x41;x75;x74;x68;x6f;x72;x69;x7a;x61;x74;x69;x6f;x6e].
Definition AUTHORIZATION : bytes := [x41;x75;x74;x68;x6f;x72;x69;x7a;x61;x74;x69;x6f;x6e].
Definition http_auth_header (is_proxy : bool) : bytes := if is_proxy then PROXY_AUTHORIZATION else AUTHORIZATION.
Definition auth_required_status (is_proxy : bool) : N := if is_proxy then 407 else 401.

(* ------------------------------------------------------------------ validators *)
Definition validator := str -> str -> bool.
Inductive vspec :=
| VNone                                   (* proxyauth option unset: self.validator is None *)
| VAny                                    (* AcceptAll *)
| VSingle (u p : str)                     (* SingleUser *)
| VTable (t : list (str * str)).          (* Htpasswd / Ldap seen as the set of pairs they accept *)
Definition in_table (t : list (str * str)) (u p : str) : bool :=
  existsb (fun e => str_eqb (fst e) u && str_eqb (snd e) p) t.
Definition validator_of (v : vspec) : option validator :=
  match v with
  | VNone => None
  | VAny => Some (fun _ _ => true)
  | VSingle u p => Some (fun u' p' => str_eqb u u' && str_eqb p p')
  | VTable t => Some (in_table t)
  end.

(* ------------------------------------------------------------------ the addon *)
(* the part of an HTTPFlow the addon reads and writes *)
Record flow := mkFlow {
  f_conn : N;                       (* identity of flow.client_conn *)
  f_is_proxy : bool;                (* is_http_proxy(f): client_conn.proxy_mode is Regular or Upstream *)
  f_replay : bool;                  (* f.is_replay *)
  f_stream : bool;                  (* f.request.stream (set by check_body_size before the hook) *)
  f_hdrs : headers;                 (* f.request.headers.fields *)
  f_resp : option N;                (* status code of f.response, None if unset *)
  f_meta : option (str * str) }.    (* f.metadata[proxyauth] *)

Definition authstate := list (N * (str * str)).   (* ProxyAuth.authenticated *)
Fixpoint lookup (c : N) (st : authstate) : option (str * str) :=
  match st with
  | [] => None
  | (c', v) :: r => if c' =? c then Some v else lookup c r
  end.
Definition set_auth (c : N) (v : str * str) (st : authstate) : authstate := (c, v) :: st.

(* the credentials authenticate_http reads from the flow (None = any exception in the try block) *)
Definition creds_of (ms1 : bool) (f : flow) : option (str * str) :=
  match parse_http_basic_auth ms1 (headers_get (http_auth_header (f_is_proxy f)) (f_hdrs f)) with
  | Some (_, u, p) => Some (u, p)
  | None => None
  end.

Definition authenticate_http (ms1 : bool) (V : validator) (f : flow) : bool * flow :=
  let is_proxy := f_is_proxy f in
  match creds_of ms1 f with
  | Some (u, p) =>
    if V u p then
      (true, mkFlow (f_conn f) is_proxy (f_replay f) (f_stream f) (headers_del (http_auth_header is_proxy) (f_hdrs f))
                    (f_resp f) (Some (u, p)))
    else (false, mkFlow (f_conn f) is_proxy (f_replay f) (f_stream f) (f_hdrs f) (Some (auth_required_status is_proxy)) (f_meta f))
  | None => (false, mkFlow (f_conn f) is_proxy (f_replay f) (f_stream f) (f_hdrs f) (Some (auth_required_status is_proxy)) (f_meta f))
  end.

Definition http_connect (ms1 : bool) (V : option validator) (st : authstate) (f : flow) : authstate * flow :=
  match V with
  | None => (st, f)
  | Some v =>
    match authenticate_http ms1 v f with
    | (true, f') => (match f_meta f' with Some m => set_auth (f_conn f) m st | None => st end, f')
    | (false, f') => (st, f')
    end
  end.

Definition requestheaders (ms1 : bool) (V : option validator) (st : authstate) (f : flow) : authstate * flow :=
  match V with
  | None => (st, f)
  | Some v =>
    match lookup (f_conn f) st with
    | Some m => (st, mkFlow (f_conn f) (f_is_proxy f) (f_replay f) (f_stream f) (f_hdrs f) (f_resp f) (Some m))
    | None => if f_replay f then (st, f) else (st, snd (authenticate_http ms1 v f))
    end
  end.

Definition socks5_auth (V : option validator) (st : authstate) (c : N) (u p : str) : authstate * bool :=
  match V with
  | None => (st, false)
  | Some v => if v u p then (set_auth c (u, p) st, true) else (st, false)
  end.

(* ------------------------------------------------------------------ Socks5Proxy.state_auth *)
Inductive auth_parse := NeedMore | AuthMsg (user password : bytes) (rest : bytes).
Definition blen (s : bytes) : N := N.of_nat (length s).
Definition slice (s : bytes) (a n : N) : bytes := firstn (N.to_nat n) (skipn (N.to_nat a) s).
Definition state_auth_parse (buf : bytes) : auth_parse :=
  if blen buf <? 3 then NeedMore
  else
    let user_len := bN (nth 1 buf x00) in
    if blen buf <? 3 + user_len then NeedMore
    else
      let pass_len := bN (nth (N.to_nat (2 + user_len)) buf x00) in
      if blen buf <? 3 + user_len + pass_len then NeedMore
      else AuthMsg (slice buf 2 user_len) (slice buf (3 + user_len) pass_len)
                   (skipn (N.to_nat (3 + user_len + pass_len)) buf).

(* what the layer does with the buffer: bytes sent to the client, connection closed?, handshake continues? *)
Inductive socks_out := SWait | SFail (to_client : bytes) | SOk (to_client : bytes) (rest : bytes).
Definition state_auth (V : option validator) (st : authstate) (c : N) (buf : bytes) : authstate * socks_out :=
  match state_auth_parse buf with
  | NeedMore => (st, SWait)
  | AuthMsg ub pb rest =>
    match socks5_auth V st c (decode_with h_backslashreplace ub) (decode_with h_backslashreplace pb) with
    | (st', true) => (st', SOk [x01; x00] rest)
    | (st', false) => (st', SFail [x01; x01])          (* then socks_err: CloseConnection(client) *)
    end
  end.

(* ------------------------------------------------------------------ HttpStream after the hooks *)
(* commands of the proxy core that matter here *)
Inductive cmd :=
| ToClient (status : N)            (* SendHttp(ResponseHeaders(flow.response)) to the client *)
| OpenServer                       (* OpenConnection(server) *)
| ToServer (hs : headers)          (* SendHttp(RequestHeaders(flow.request)) to the server / upstream proxy *)
| Tunnel                           (* CONNECT accepted: 200 sent, child layer started *)
| Crash.                           (* NotImplementedError escapes the layer: nothing is sent to anybody *)

(* state_wait_for_request_headers .. state_consume_request_body: a response set in the hook is sent
   instead of contacting the server; when check_body_size already switched the request to streaming
   (stream_large_bodies), start_request_stream raises NotImplementedError if a response is set *)
Definition stream_request (f : flow) : list cmd :=
  match f_resp f with
  | Some s => if f_stream f then [Crash] else [ToClient s]
  | None => [OpenServer; ToServer (f_hdrs f)]
  end.
(* handle_connect / handle_connect_finish: a non-2xx response set in http_connect is sent, no tunnel *)
Definition stream_connect (f : flow) : list cmd :=
  match f_resp f with
  | Some s => if (200 <=? s) && (s <? 300) then [Tunnel; ToClient s] else [ToClient s]
  | None => [Tunnel; ToClient 200]
  end.

(* ------------------------------------------------------------------ the proxy seen from the clients *)
Inductive event :=
| EReq (c : N) (is_proxy is_connect replay streaming : bool) (hs : headers)
| ESocks (c : N) (u p : str).                     (* decoded user/password of a SOCKS5 sub-negotiation *)
Definition ev_conn (e : event) : N := match e with EReq c _ _ _ _ _ => c | ESocks c _ _ => c end.
Inductive outcome :=
| OHttp (f : flow) (cmds : list cmd)
| OSocks (valid : bool).

Definition new_flow (c : N) (is_proxy replay streaming : bool) (hs : headers) : flow :=
  mkFlow c is_proxy replay streaming hs None None.

Definition step (ms1 : bool) (V : option validator) (st : authstate) (e : event) : authstate * outcome :=
  match e with
  | EReq c is_proxy true replay sm hs =>
      let (st', f) := http_connect ms1 V st (new_flow c is_proxy replay sm hs) in (st', OHttp f (stream_connect f))
  | EReq c is_proxy false replay sm hs =>
      let (st', f) := requestheaders ms1 V st (new_flow c is_proxy replay sm hs) in (st', OHttp f (stream_request f))
  | ESocks c u p =>
      let (st', ok) := socks5_auth V st c u p in (st', OSocks ok)
  end.

Fixpoint run (ms1 : bool) (V : option validator) (st : authstate) (es : list event) : list outcome :=
  match es with
  | [] => []
  | e :: r => let (st', o) := step ms1 V st e in o :: run ms1 V st' r
  end.
Fixpoint final_state (ms1 : bool) (V : option validator) (st : authstate) (es : list event) : authstate :=
  match es with
  | [] => st
  | e :: r => final_state ms1 V (fst (step ms1 V st e)) r
  end.
