(* Model/MvViews.v -- coretypes/multidict.py: the _MultiDict mutators as used through MultiDictView
   (_kconv = identity; the view reads fields with the getter and writes them back with the setter). *)
From Coq Require Import List Bool NArith.
From MV Require Import Base.Bytes Model.MvCommon.
Import ListNotations.

Inductive md_op :=
| OpSetItem (k v : bytes)                 (* view[k] = v  == set_all(k, [v]) *)
| OpSetAll (k : bytes) (vs : list bytes)
| OpAdd (k v : bytes)                     (* insert(len(fields), k, v) *)
| OpInsert (i : nat) (k v : bytes)        (* index >= 0 *)
| OpDel (k : bytes).                      (* KeyError (no write) when the key is absent *)

(* _MultiDict.set_all with _kconv = identity *)
Fixpoint md_set_all_go (k : bytes) (f : pairs) (values : list bytes) : pairs * list bytes :=
  match f with
  | [] => ([], values)
  | x :: f' =>
      if bytes_eqb (fst x) k then
        match values with
        | v :: vs => let (r, rest) := md_set_all_go k f' vs in ((fst x, v) :: r, rest)
        | [] => md_set_all_go k f' []
        end
      else let (r, rest) := md_set_all_go k f' values in (x :: r, rest)
  end.
Definition md_set_all (k : bytes) (vs : list bytes) (f : pairs) : pairs :=
  let (r, rest) := md_set_all_go k f vs in r ++ map (fun v => (k, v)) rest.

Definition apply_op (o : md_op) (f : pairs) : option pairs :=
  match o with
  | OpSetItem k v => Some (md_set_all k [v] f)
  | OpSetAll k vs => Some (md_set_all k vs f)
  | OpAdd k v => Some (f ++ [(k, v)])
  | OpInsert i k v => Some (firstn i f ++ (k, v) :: skipn i f)
  | OpDel k => if existsb (fun x => bytes_eqb (fst x) k) f
               then Some (filter (fun x => negb (bytes_eqb k (fst x))) f) else None
  end.

Definition view_op {M} (get : M -> pairs) (set : M -> pairs -> M) (m : M) (o : md_op) : M :=
  match apply_op o (get m) with
  | Some f => set m f
  | None => m
  end.
