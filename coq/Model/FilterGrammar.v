(* Model/FilterGrammar.v -- executable model of mitmproxy/flowfilter.py: the pyparsing grammar built by
   _make (atom table and character classes come from Gen/FlowFilterAtoms.v), flowfilter.parse, the
   FAnd / FOr / FNot evaluation, and a renderer of expression trees into filter strings.
   Definitions only; proofs are in Proofs/FilterGrammar*.v.

   pyparsing semantics modelled (pyparsing is the contract):
   - every token skips leading white_chars, except WordEnd;
   - Literal(prefix+code) + WordEnd(chars): at end of input, or next char not in chars and previous in chars;
   - CharsNotIn(word_excluded): maximal non-empty run;  Word(nums): maximal non-empty digit run;
   - QuotedString(q, esc_char=backslash): single line, backslash escapes any char but LF; unquoting maps
     backslash t n f r to the control characters, the numeric escapes of pyparsing 3.3.2 (see decode_esc) to a
     code point (UTF-8 here, the model works on UTF-8 bytes) and backslash + c to c;
   - MatchFirst over the parts in table order, naked regex last;
   - infix_notation: base = atom or ( expr ); not-level = op_not not-level, falling back to base;
     and-level = not-level (op_and not-level)*, or-level likewise; no juxtaposition inside;
   - OneOrMore(expr) at top level, FAnd of the items unless there is exactly one; parse_all;
   - parse_string expands tabs (str.expandtabs) before parsing unless the grammar has parse_with_tabs(). *)
From Coq Require Import List Bool NArith Arith.
From MV Require Import Base.Bytes Gen.FlowFilterAtoms.
Import ListNotations.

Fixpoint memb (b : byte) (l : bytes) : bool :=
  match l with [] => false | c :: r => byte_eqb b c || memb b r end.
Fixpoint mem_bytes (x : bytes) (l : list bytes) : bool :=
  match l with [] => false | c :: r => bytes_eqb x c || mem_bytes x r end.

Definition is_ws (b : byte) : bool := memb b white_chars.
Definition is_wordch (b : byte) : bool := negb (memb b word_excluded).
Definition is_we (b : byte) : bool := memb b wordend_chars.
Definition is_dig (b : byte) : bool := memb b digit_chars.
Definition esc : byte := x5c.
Definition LF : byte := x0a.
Definition CR : byte := x0d.
Definition lpar : byte := x28.
Definition rpar : byte := x29.

Fixpoint skip_ws (s : bytes) : bytes :=
  match s with c :: r => if is_ws c then skip_ws r else s | [] => [] end.
Fixpoint strip_prefix (p s : bytes) : option bytes :=
  match p with
  | [] => Some s
  | a :: p' => match s with b :: s' => if byte_eqb a b then strip_prefix p' s' else None | [] => None end
  end.
Fixpoint span (f : byte -> bool) (s : bytes) : bytes * bytes :=
  match s with
  | c :: r => if f c then let (a, b) := span f r in (c :: a, b) else ([], s)
  | [] => ([], [])
  end.

Inductive atom := AUnary (code : bytes) | ARex (code arg : bytes) | AInt (code : bytes) (n : N).
Inductive ast := Atom (a : atom) | Not (x : ast) | And (l : list ast) | Or (l : list ast).
Inductive res (A : Type) := Ok (a : A) | Fail | Fuel.
Arguments Ok {A} a. Arguments Fail {A}. Arguments Fuel {A}.

(* ---- tokens ---- *)
Definition lit_str (l s : bytes) : option bytes := strip_prefix l (skip_ws s).
Definition lit (c : byte) (s : bytes) : option bytes :=
  match skip_ws s with d :: r => if byte_eqb c d then Some r else None | [] => None end.
Definition word_end (prev : byte) (r : bytes) : bool :=
  match r with [] => true | c :: _ => negb (is_we c) && is_we prev end.
Definition code_lit (c : bytes) : bytes := code_prefix ++ c.
Definition p_code (c s : bytes) : option bytes :=
  match lit_str (code_lit c) s with
  | Some r => if word_end (last (code_lit c) x00) r then Some r else None
  | None => None
  end.

(* QuotedString: s is the text after the opening quote; returns raw content and the text after the closing quote *)
Fixpoint q_scan (q : byte) (s : bytes) : option (bytes * bytes) :=
  match s with
  | [] => None
  | c :: r =>
      if byte_eqb c q then Some ([], r)
      else if byte_eqb c esc then
        match r with
        | [] => None
        | d :: r' => if byte_eqb d LF then None
                     else match q_scan q r' with Some (raw, rest) => Some (c :: d :: raw, rest) | None => None end
        end
      else if byte_eqb c LF || byte_eqb c CR then None
      else match q_scan q r with Some (raw, rest) => Some (c :: raw, rest) | None => None end
  end.

Definition utf8 (cp : N) : bytes :=
  (if cp <? 128 then [Nb cp]
   else if cp <? 2048 then [Nb (192 + cp / 64); Nb (128 + cp mod 64)]
   else [Nb (224 + cp / 4096); Nb (128 + (cp / 64) mod 64); Nb (128 + cp mod 64)])%N.
Definition is_oct (b : byte) : bool := (48 <=? bN b)%N && (bN b <=? 55)%N.
Definition hexval (b : byte) : option N :=
  (if is_digit b then Some (bN b - 48)
   else if (97 <=? bN b) && (bN b <=? 102) then Some (bN b - 87)
   else if (65 <=? bN b) && (bN b <=? 70) then Some (bN b - 55) else None)%N.
(* d is the character after the backslash, r what follows; returns output and how many bytes of r are consumed.
   pyparsing 3.3.2 builds its scan pattern with an rf-string, so the intended repetition counts {3} {2} {4} are
   interpolated as the literal digits 3 2 4: backslash + octal digit + 3 yields those two characters,
   backslash x + hex digit + 2 and backslash u + hex digit + 4 yield the code point with that hex value. *)
Definition decode_esc (d : byte) (r : bytes) : bytes * nat :=
  if byte_eqb d x74 then ([x09], 0)
  else if byte_eqb d x6e then ([x0a], 0)
  else if byte_eqb d x66 then ([x0c], 0)
  else if byte_eqb d x72 then ([x0d], 0)
  else if is_oct d && match r with e :: _ => byte_eqb e x33 | [] => false end then ([d; x33], 1)
  else if byte_eqb d x30 then ([x00], 0)
  else
    match (if byte_eqb d x78 || byte_eqb d x75 then
             match r with
             | h :: e :: _ =>
                 if byte_eqb e (if byte_eqb d x78 then x32 else x34)
                 then match hexval h with
                      | Some v => Some (utf8 (v * 16 + (if byte_eqb d x78 then 2 else 4))%N, 2)
                      | None => None
                      end
                 else None
             | _ => None
             end
           else None) with
    | Some x => x
    | None => ([d], 0)
    end.
Fixpoint unq (skip : nat) (s : bytes) : bytes :=
  match s with
  | [] => []
  | c :: r =>
      match skip with
      | S k => unq k r
      | O => if byte_eqb c esc
             then match r with d :: r' => let (out, k) := decode_esc d r' in out ++ unq (S k) r | [] => [c] end
             else c :: unq 0 r
      end
  end.

Definition p_word (s : bytes) : option (bytes * bytes) :=
  let (w, r) := span is_wordch (skip_ws s) in match w with [] => None | _ => Some (w, r) end.
Definition p_quoted (q : byte) (s : bytes) : option (bytes * bytes) :=
  match skip_ws s with
  | c :: r => if byte_eqb c q
              then match q_scan q r with Some (raw, rest) => Some (unq 0 raw, rest) | None => None end
              else None
  | [] => None
  end.
Fixpoint first_quoted (qs : bytes) (s : bytes) : option (bytes * bytes) :=
  match qs with
  | [] => None
  | q :: qs' => match p_quoted q s with Some x => Some x | None => first_quoted qs' s end
  end.
Definition p_regex (s : bytes) : option (bytes * bytes) :=
  match p_word s with Some x => Some x | None => first_quoted quote_chars s end.
Definition N_of_digits (ds : bytes) : N := fold_left (fun acc d => acc * 10 + (bN d - 48))%N ds 0%N.
Definition p_int (s : bytes) : option (N * bytes) :=
  let (d, r) := span is_dig (skip_ws s) in match d with [] => None | _ => Some (N_of_digits d, r) end.

(* ---- atoms: MatchFirst(parts) ---- *)
Inductive part := PUnary (c : bytes) | PRex (c : bytes) | PInt (c : bytes) | PNaked.
Definition parts : list part :=
  map PUnary unary_codes ++ map PRex rex_codes ++ map PInt int_codes ++ [PNaked].
Definition p_part (p : part) (s : bytes) : option (atom * bytes) :=
  match p with
  | PUnary c => match p_code c s with Some r => Some (AUnary c, r) | None => None end
  | PRex c => match p_code c s with
              | Some r => match p_regex r with Some (a, r') => Some (ARex c a, r') | None => None end
              | None => None
              end
  | PInt c => match p_code c s with
              | Some r => match p_int r with Some (n, r') => Some (AInt c n, r') | None => None end
              | None => None
              end
  | PNaked => match p_regex s with Some (a, r) => Some (ARex naked_code a, r) | None => None end
  end.
Fixpoint first_part (ps : list part) (s : bytes) : option (atom * bytes) :=
  match ps with
  | [] => None
  | p :: ps' => match p_part p s with Some x => Some x | None => first_part ps' s end
  end.
Definition p_atom (s : bytes) : option (atom * bytes) := first_part parts s.

(* ---- infix_notation ---- *)
Definition rs := res (ast * bytes).
Definition p_base (rec : bytes -> rs) (s : bytes) : rs :=
  match p_atom s with
  | Some (a, r) => Ok (Atom a, r)
  | None =>
      match lit lpar s with
      | Some r => match rec r with
                  | Ok (x, r') => match lit rpar r' with Some r'' => Ok (x, r'') | None => Fail end
                  | Fail => Fail
                  | Fuel => Fuel
                  end
      | None => Fail
      end
  end.
Fixpoint p_not_n (base : bytes -> rs) (n : nat) (s : bytes) : rs :=
  match n with
  | O => Fuel
  | S n' =>
      match lit op_not s with
      | Some r => match p_not_n base n' r with
                  | Ok (x, r') => Ok (Not x, r')
                  | Fail => base s
                  | Fuel => Fuel
                  end
      | None => base s
      end
  end.
Definition p_not (base : bytes -> rs) (s : bytes) : rs := p_not_n base (S (length s)) s.
Fixpoint loop_n (op : byte) (sub : bytes -> rs) (n : nat) (s : bytes) : res (list ast * bytes) :=
  match n with
  | O => Fuel
  | S n' =>
      match lit op s with
      | None => Ok ([], s)
      | Some r => match sub r with
                  | Ok (x, r') => match loop_n op sub n' r' with
                                  | Ok (xs, r'') => Ok (x :: xs, r'')
                                  | Fail => Fail
                                  | Fuel => Fuel
                                  end
                  | Fail => Ok ([], s)
                  | Fuel => Fuel
                  end
      end
  end.
Definition p_bin (op : byte) (mk : list ast -> ast) (sub : bytes -> rs) (s : bytes) : rs :=
  match sub s with
  | Ok (x, r) => match loop_n op sub (S (length r)) r with
                 | Ok (xs, r') => match xs with [] => Ok (x, r') | _ => Ok (mk (x :: xs), r') end
                 | Fail => Fail
                 | Fuel => Fuel
                 end
  | Fail => Fail
  | Fuel => Fuel
  end.
Definition p_and (base : bytes -> rs) : bytes -> rs := p_bin op_and And (p_not base).
Definition p_or (base : bytes -> rs) : bytes -> rs := p_bin op_or Or (p_and base).
Fixpoint parse_expr (fuel : nat) (s : bytes) : rs :=
  match fuel with O => Fuel | S f => p_or (p_base (parse_expr f)) s end.

(* ---- OneOrMore(expr), parse_all, flowfilter.parse ---- *)
Fixpoint top_n (sub : bytes -> rs) (n : nat) (s : bytes) : res (list ast * bytes) :=
  match n with
  | O => Fuel
  | S n' => match sub s with
            | Ok (x, r) => match top_n sub n' r with
                           | Ok (xs, r') => Ok (x :: xs, r')
                           | Fail => Fail
                           | Fuel => Fuel
                           end
            | Fail => Ok ([], s)
            | Fuel => Fuel
            end
  end.
(* str.expandtabs(8) on UTF-8 bytes: the column counts characters, restarts after LF / CR *)
Fixpoint expandtabs (col : nat) (s : bytes) : bytes :=
  match s with
  | [] => []
  | c :: r =>
      if byte_eqb c x09 then repeat x20 (8 - col) ++ expandtabs 0 r
      else if byte_eqb c LF || byte_eqb c CR then c :: expandtabs 0 r
      else if (128 <=? bN c)%N && (bN c <? 192)%N then c :: expandtabs col r
      else c :: expandtabs (Nat.modulo (S col) 8) r
  end.
(* parse_string expands tabs first unless parse_with_tabs() was called on the grammar *)
Definition pre (s : bytes) : bytes := if keep_tabs then s else expandtabs 0 s.
Definition parse_grammar (s0 : bytes) : res ast :=
  let s := pre s0 in
  match s with
  | [] => Fail
  | _ => match top_n (parse_expr (S (length s))) (S (length s)) s with
         | Ok (xs, r) => match skip_ws r with
                         | [] => match xs with [] => Fail | [x] => Ok x | _ => Ok (And xs) end
                         | _ => Fail
                         end
         | Fail => Fail
         | Fuel => Fuel
         end
  end.
Fixpoint all_rex (ok : bytes -> bytes -> bool) (t : ast) : bool :=
  match t with
  | Atom (ARex c a) => ok c a
  | Atom _ => true
  | Not x => all_rex ok x
  | And l => forallb (all_rex ok) l
  | Or l => forallb (all_rex ok) l
  end.
(* rex_ok code arg: re.compile accepts the argument (bytes or str pattern depending on the class) *)
Definition parse_filter (rex_ok : bytes -> bytes -> bool) (s : bytes) : res ast :=
  match parse_grammar s with
  | Ok t => if all_rex rex_ok t then Ok t else Fail
  | Fail => Fail
  | Fuel => Fuel
  end.

(* ---- evaluation: FAnd = all, FOr = any, FNot = not ---- *)
Fixpoint eval (rho : atom -> bool) (t : ast) : bool :=
  match t with
  | Atom a => rho a
  | Not x => negb (eval rho x)
  | And l => forallb (eval rho) l
  | Or l => existsb (eval rho) l
  end.
Fixpoint atoms (t : ast) : list atom :=
  match t with
  | Atom a => [a]
  | Not x => atoms x
  | And l => flat_map atoms l
  | Or l => flat_map atoms l
  end.

(* ---- source expressions and the renderer (documented surface syntax) ---- *)
Inductive eatom := EUnary (code : bytes) | ERex (code arg : bytes) | EInt (code digits : bytes).
Definition atom_of (a : eatom) : atom :=
  match a with EUnary c => AUnary c | ERex c a => ARex c a | EInt c ds => AInt c (N_of_digits ds) end.
Inductive expr := EAtom (a : eatom) | ENot (x : expr) | EAnd (l r : expr) | EOr (l r : expr).
Fixpoint evalE (rho : atom -> bool) (e : expr) : bool :=
  match e with
  | EAtom a => rho (atom_of a)
  | ENot x => negb (evalE rho x)
  | EAnd l r => evalE rho l && evalE rho r
  | EOr l r => evalE rho l || evalE rho r
  end.
Fixpoint atomsE (e : expr) : list atom :=
  match e with
  | EAtom a => [atom_of a]
  | ENot x => atomsE x
  | EAnd l r => atomsE l ++ atomsE r
  | EOr l r => atomsE l ++ atomsE r
  end.

Inductive wsch := WSp | WTab | WLf | WCr.
Definition wsch_byte (c : wsch) : byte := match c with WSp => x20 | WTab => x09 | WLf => x0a | WCr => x0d end.
Definition ws := list wsch.
Definition ws_bytes (w : ws) : bytes := map wsch_byte w.
Definition ws1 (w : ws) : bytes := match w with [] => [x20] | _ => ws_bytes w end.
(* QBare: unquoted; QRaw q: between quotes verbatim; QEsc q: between quotes with pyparsing escapes.
   q = false: first quote character, q = true: second. *)
Inductive qstyle := QBare | QRaw (q : bool) | QEsc (q : bool).
Inductive style :=
| SNil
| Sty (pars : list (ws * ws)) (naked : bool) (qs : qstyle) (juxt : bool) (w1 w2 : ws) (c1 c2 : style).
Definition pars (st : style) := match st with Sty p _ _ _ _ _ _ _ => p | SNil => [] end.
Definition naked (st : style) := match st with Sty _ n _ _ _ _ _ _ => n | SNil => false end.
Definition qs (st : style) := match st with Sty _ _ q _ _ _ _ _ => q | SNil => QEsc false end.
Definition juxt (st : style) := match st with Sty _ _ _ j _ _ _ _ => j | SNil => false end.
Definition w1 (st : style) := match st with Sty _ _ _ _ w _ _ _ => w | SNil => [] end.
Definition w2 (st : style) := match st with Sty _ _ _ _ _ w _ _ => w | SNil => [] end.
Definition c1 (st : style) := match st with Sty _ _ _ _ _ _ c _ => c | SNil => SNil end.
Definition c2 (st : style) := match st with Sty _ _ _ _ _ _ _ c => c | SNil => SNil end.

Definition quote_of (q : bool) : byte := nth (if q then 1 else 0) quote_chars x22.
Fixpoint escape (q : byte) (a : bytes) : bytes :=
  match a with
  | [] => []
  | c :: r => (if byte_eqb c q || byte_eqb c esc then [esc; c]
               else if byte_eqb c LF then [esc; x6e]
               else if byte_eqb c CR then [esc; x72]
               else [c]) ++ escape q r
  end.
Definition render_arg (k : qstyle) (a : bytes) : bytes :=
  match k with
  | QBare => a
  | QRaw q => quote_of q :: a ++ [quote_of q]
  | QEsc q => quote_of q :: escape (quote_of q) a ++ [quote_of q]
  end.
Definition is_bare (k : qstyle) : bool := match k with QBare => true | _ => false end.
Definition render_atom (a : eatom) (st : style) : bytes :=
  match a with
  | EUnary c => code_lit c
  | ERex c a => if naked st && bytes_eqb c naked_code then render_arg (qs st) a
                else code_lit c ++ (if is_bare (qs st) then ws1 (w1 st) else ws_bytes (w1 st)) ++ render_arg (qs st) a
  | EInt c ds => code_lit c ++ ws1 (w1 st) ++ ds
  end.

Fixpoint ends_word (s : bytes) : bool :=
  match s with
  | [] => false
  | c :: r => match r with [] => is_wordch c | _ => ends_word r end
  end.
(* whitespace before a binary operator or between juxtaposed operands: at least one character when the left
   text ends in a character that an unquoted word, a code or a number could absorb *)
Definition sep (left : bytes) (w : ws) : bytes := if ends_word left then ws1 w else ws_bytes w.
Fixpoint wrap (ps : list (ws * ws)) (s : bytes) : bytes :=
  match ps with
  | [] => s
  | (a, b) :: ps' => lpar :: ws_bytes a ++ wrap ps' s ++ ws_bytes b ++ [rpar]
  end.
(* documented precedence: or-level 0, and-level 1 (explicit op_and and juxtaposition alike), not-level / atoms 2 *)
Definition lvl (e : expr) : nat := match e with EOr _ _ => 0 | EAnd _ _ => 1 | _ => 2 end.
Fixpoint render (e : expr) (st : style) (ctx : nat) : bytes :=
  let co := match e with
            | EAtom a => render_atom a st
            | ENot x => op_not :: ws_bytes (w1 st) ++ render x (c1 st) 2
            | EAnd l r => let L := render l (c1 st) 1 in
                          L ++ (if juxt st then sep L (w1 st) else sep L (w1 st) ++ op_and :: ws_bytes (w2 st))
                            ++ render r (c2 st) 2
            | EOr l r => let L := render l (c1 st) 0 in
                         L ++ sep L (w1 st) ++ op_or :: ws_bytes (w2 st) ++ render r (c2 st) 1
            end in
  match pars st with
  | [] => if lvl e <? ctx then lpar :: co ++ [rpar] else co
  | ps => wrap ps co
  end.
Definition render_top (e : expr) (st : style) (lead trail : ws) : bytes :=
  ws_bytes lead ++ render e st 0 ++ ws_bytes trail.

(* ---- guards: when a rendering is inside the documented-and-implemented fragment ---- *)
Definition arg_ok (k : qstyle) (is_naked : bool) (a : bytes) : bool :=
  match k with
  | QBare => match a with
             | [] => false
             | c :: _ => forallb is_wordch a
                         && negb (is_naked && (byte_eqb c op_not || byte_eqb c op_and || byte_eqb c op_or))
             end
  | QRaw q => forallb (fun c => negb (byte_eqb c (quote_of q) || byte_eqb c esc || byte_eqb c LF || byte_eqb c CR)) a
  | QEsc _ => true
  end.
(* table: the atom's code is in the right table *)
Definition atom_in_table (a : eatom) : bool :=
  match a with
  | EUnary c => mem_bytes c unary_codes
  | ERex c _ => mem_bytes c rex_codes
  | EInt c ds => mem_bytes c int_codes && match ds with [] => false | _ => forallb is_dig ds end
  end.
Definition atom_style_ok (a : eatom) (st : style) : bool :=
  match a with
  | ERex c x => arg_ok (qs st) (naked st && bytes_eqb c naked_code) x
  | _ => true
  end.
(* every atom is in the tables *)
Fixpoint atoms_ok (e : expr) : bool :=
  match e with
  | EAtom a => atom_in_table a
  | ENot x => atoms_ok x
  | EAnd l r => atoms_ok l && atoms_ok r
  | EOr l r => atoms_ok l && atoms_ok r
  end.
(* quoting styles fit their arguments (the documentation: arguments with reserved characters must be quoted) *)
Fixpoint quoting_ok (e : expr) (st : style) : bool :=
  match e with
  | EAtom a => atom_style_ok a st
  | ENot x => quoting_ok x (c1 st)
  | EAnd l r => quoting_ok l (c1 st) && quoting_ok r (c2 st)
  | EOr l r => quoting_ok l (c1 st) && quoting_ok r (c2 st)
  end.
(* no juxtaposition anywhere *)
Fixpoint juxt_free (e : expr) (st : style) : bool :=
  match e with
  | EAtom _ => true
  | ENot x => juxt_free x (c1 st)
  | EAnd l r => negb (juxt st) && juxt_free l (c1 st) && juxt_free r (c2 st)
  | EOr l r => juxt_free l (c1 st) && juxt_free r (c2 st)
  end.
(* juxtaposition only along the top-level spine, outside any parentheses *)
Fixpoint juxt_top (e : expr) (st : style) : bool :=
  match e with
  | EAnd l r => if juxt st then match pars st with [] => juxt_top l (c1 st) && juxt_free r (c2 st) | _ => false end
                else juxt_free e st
  | _ => juxt_free e st
  end.
