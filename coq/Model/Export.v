(* Model/Export.v -- executable model of mitmproxy/addons/export.py: pop_headers, request_content_for_console,
   curl_command, httpie_command, raw_request, and of shlex.quote (CPython Lib/shlex.py).
   Strings are the UTF-8 (surrogateescape) bytes of the Python str values, which is what export.file writes;
   every test the code makes on characters (code point below 32, the ASCII classes of the shlex regex, the quote
   character, ASCII lower-casing of header names against ASCII constants) reads the same on those bytes.
   Inputs are the fields export.py reads from the request returned by cleanup_request (copy + decode): method,
   pretty_url, pretty_host, host, port, header fields, whether content is non-empty, and the outcome of
   get_text(strict=True); their computation belongs to C31/C32/C33.  Python exceptions are explicit results.
   [variant] selects the code before / after fixes/C48-*.diff; the theorems are about [repaired]. *)
From Coq Require Import List Bool NArith.
From MV Require Import Base.Bytes Model.Http1Msg.
Import ListNotations.

(* ---- shlex.quote: _find_unsafe = re.compile(r'[^\w@%+=:,./-]', re.ASCII).search ---- *)
Definition is_safe (b : byte) : bool :=
  is_alpha b || is_digit b || byte_eqb b x5f
  || existsb (byte_eqb b) [x40; x25; x2b; x3d; x3a; x2c; x2e; x2f; x2d].

Definition SQ_ESC : bytes := [x27; x22; x27; x22; x27].
Fixpoint sq_escape (s : bytes) : bytes :=          (* s.replace(quote, quote dquote quote dquote quote) *)
  match s with
  | [] => []
  | c :: r => (if byte_eqb c x27 then SQ_ESC else [c]) ++ sq_escape r
  end.

Definition quote (s : bytes) : bytes :=
  match s with
  | [] => [x27; x27]
  | _ => if forallb is_safe s then s else [x27] ++ sq_escape s ++ [x27]
  end.

Fixpoint join_sp (l : list bytes) : bytes :=        (* " ".join(l) *)
  match l with
  | [] => []
  | a :: r => a ++ match r with [] => [] | _ => [x20] ++ join_sp r end
  end.

(* ---- results ---- *)
Inductive xres (A : Type) : Type :=
| XOk (a : A)
| XCommandError          (* exceptions.CommandError *)
| XAssertionError        (* assert text *)
| XKeyError              (* headers.pop(name) without default on an absent name *)
| XOther.                (* any other exception: never produced by the model *)
Arguments XOk {A} a.
Arguments XCommandError {A}.
Arguments XAssertionError {A}.
Arguments XKeyError {A}.
Arguments XOther {A}.

Inductive text_res :=
| TextOk (t : bytes)     (* get_text(strict=True) returned a non-empty str (UTF-8 bytes of it) *)
| TextEmpty              (* returned an empty str or None *)
| TextValueError.        (* raised ValueError *)

Record variant := mkVar { fix_printf : bool; fix_get_body : bool }.
Definition repaired : variant := mkVar true true.
Definition original : variant := mkVar false false.

Record xreq := mkX {
  x_method : bytes; x_pretty_url : bytes; x_pretty_host : bytes; x_host : bytes; x_port : N;
  x_headers : headers; x_has_content : bool; x_text : text_res }.

(* ---- Headers (case-insensitive multidict) ---- *)
Definition key_is (name : bytes) (f : header) : bool := bytes_eqb (lower (fst f)) name.   (* name is lower-case *)
Definition h_get_all (name : bytes) (h : headers) : list bytes := map snd (filter (key_is name) h).
Fixpoint join_comma (vs : list bytes) : bytes :=
  match vs with
  | [] => []
  | a :: r => a ++ match r with [] => [] | _ => [x2c; x20] ++ join_comma r end
  end.
Definition h_get (name : bytes) (h : headers) : bytes :=        (* headers.get(name, "") *)
  join_comma (h_get_all name h).
Definition h_remove (name : bytes) (h : headers) : headers := filter (fun f => negb (key_is name f)) h.
Definition h_pop_strict (name : bytes) (h : headers) : xres headers :=   (* headers.pop(name) *)
  match h_get_all name h with [] => XKeyError | _ => XOk (h_remove name h) end.

Definition CONTENT_LENGTH_L : bytes := [x63;x6f;x6e;x74;x65;x6e;x74;x2d;x6c;x65;x6e;x67;x74;x68].
Definition HOST_L : bytes := [x68;x6f;x73;x74].
Definition AUTHORITY_L : bytes := [x3a;x61;x75;x74;x68;x6f;x72;x69;x74;x79].
Definition ACCEPT_ENCODING_L : bytes := [x61;x63;x63;x65;x70;x74;x2d;x65;x6e;x63;x6f;x64;x69;x6e;x67].

Definition xbind {A B} (r : xres A) (f : A -> xres B) : xres B :=
  match r with XOk a => f a | XCommandError => XCommandError | XAssertionError => XAssertionError
             | XKeyError => XKeyError | XOther => XOther end.

Definition pop_headers (host : bytes) (h : headers) : xres headers :=
  let h1 := h_remove CONTENT_LENGTH_L h in
  xbind (if bytes_eqb (h_get HOST_L h1) host then h_pop_strict HOST_L h1 else XOk h1) (fun h2 =>
  if bytes_eqb (h_get AUTHORITY_L h2) host then h_pop_strict AUTHORITY_L h2 else XOk h2).

(* ---- request_content_for_console ---- *)
Definition is_ctrl (c : byte) : bool := (bN c <? 32)%N.
Definition hexd (n : N) : byte := if (n <? 10)%N then Nb (48 + n) else Nb (87 + n).
Definition ctrl_escape (c : byte) : bytes := [x5c; x78; hexd (bN c / 16); hexd (bN c mod 16)].  (* backslash x hh *)

Definition escape_char (v : variant) (c : byte) : bytes :=
  if is_ctrl c then ctrl_escape c
  else if fix_printf v && byte_eqb c x5c then [x5c; x5c]
  else if fix_printf v && byte_eqb c x25 then [x25; x25]
  else [c].
Definition DASH_ESC : bytes := [x5c; x78; x32; x64].
Definition printf_escape (v : variant) (t : bytes) : bytes :=
  let e := flat_map (escape_char v) t in
  if fix_printf v
  then match e with c :: r => if byte_eqb c x2d then DASH_ESC ++ r else e | [] => e end
  else e.

Definition SUBST_OPEN : bytes := [x22; x24; x28; x70; x72; x69; x6e; x74; x66; x20].   (* dquote dollar paren printf space *)
Definition SUBST_CLOSE : bytes := [x29; x22].

Definition request_content_for_console (v : variant) (t : text_res) : xres bytes :=
  match t with
  | TextValueError => XCommandError
  | TextEmpty => XAssertionError
  | TextOk text =>
      if existsb is_ctrl text
      then XOk (SUBST_OPEN ++ quote (printf_escape v text) ++ SUBST_CLOSE)
      else XOk (quote text)
  end.

(* ---- curl_command ---- *)
Definition CURL : bytes := [x63;x75;x72;x6c].
Definition HTTP : bytes := [x68;x74;x74;x70].
Definition GET : bytes := [x47;x45;x54].
Definition OPT_H : bytes := [x2d;x48].
Definition OPT_X : bytes := [x2d;x58].
Definition OPT_D : bytes := [x2d;x64].
Definition OPT_RESOLVE : bytes := [x2d;x2d;x72;x65;x73;x6f;x6c;x76;x65].
Definition OPT_COMPRESSED : bytes := [x2d;x2d;x63;x6f;x6d;x70;x72;x65;x73;x73;x65;x64].
Definition CL_ZERO : bytes := CONTENT_LENGTH_L ++ [x3a; x20; x30].
Definition header_line (f : header) : bytes := fst f ++ [x3a; x20] ++ snd f.

Definition resolve_args (preserve : bool) (server_addr : option bytes) (r : xreq) : list bytes :=
  match server_addr with
  | Some (a0 :: a') =>
      let a := a0 :: a' in
      if preserve && negb (bytes_eqb (x_pretty_host r) a)
      then [OPT_RESOLVE; x_pretty_host r ++ [x3a] ++ dec_of_N (x_port r) ++ [x3a; x5b] ++ a ++ [x5d]]
      else []
  | _ => []
  end.

Definition curl_header_args (h : headers) : list bytes :=
  flat_map (fun f => if bytes_eqb (lower (fst f)) ACCEPT_ENCODING_L then [OPT_COMPRESSED]
                     else [OPT_H; header_line f]) h.

Definition curl_method_args (v : variant) (r : xreq) : list bytes :=
  if negb (bytes_eqb (x_method r) GET)
  then (if x_has_content r then [] else [OPT_H; CL_ZERO]) ++ [OPT_X; x_method r]
  else if fix_get_body v && x_has_content r then [OPT_X; GET] else [].

Definition curl_args (v : variant) (preserve : bool) (server_addr : option bytes) (r : xreq) (h : headers)
  : list bytes :=
  [CURL] ++ resolve_args preserve server_addr r ++ curl_header_args h ++ curl_method_args v r ++ [x_pretty_url r].

Definition curl_command (v : variant) (preserve : bool) (server_addr : option bytes) (r : xreq) : xres bytes :=
  xbind (pop_headers (x_host r) (x_headers r)) (fun h =>
  let command := join_sp (map quote (curl_args v preserve server_addr r h)) in
  if x_has_content r
  then xbind (request_content_for_console v (x_text r)) (fun c => XOk (command ++ [x20] ++ OPT_D ++ [x20] ++ c))
  else XOk command).

(* ---- httpie_command ---- *)
Definition httpie_args (r : xreq) (h : headers) : list bytes :=
  [HTTP; x_method r; x_pretty_url r] ++ map header_line h.
Definition HERE : bytes := [x20; x3c; x3c; x3c; x20].

Definition httpie_command (v : variant) (r : xreq) : xres bytes :=
  xbind (pop_headers (x_host r) (x_headers r)) (fun h =>
  let cmd := join_sp (map quote (httpie_args r h)) in
  if x_has_content r
  then xbind (request_content_for_console v (x_text r)) (fun c => XOk (cmd ++ HERE ++ c))
  else XOk cmd).

(* ---- raw_request: assemble_request(cleanup_request(f)); raw_content None is CommandError ---- *)
Definition raw_request (r : request_head) (content : option bytes) (trailers : bytes) : res bytes :=
  match content with
  | None => OtherError
  | Some c => match assemble_body (rq_headers r) [c] trailers with
              | Ok b => Ok (assemble_request_head r ++ b)
              | ValueError => ValueError
              | OtherError => OtherError
              end
  end.

(* ---- histories of exports of one flow: every exporter works on cleanup_request(f), a private copy, so the flow the
   next export sees is the flow the first one saw.  The state is threaded explicitly so that this is a statement. ---- *)
Record flowst := mkFlow {
  fl_x : xreq; fl_head : request_head; fl_content : option bytes; fl_trailers : bytes }.
Inductive fmt := FCurl | FHttpie | FRaw.
Inductive eout := OX (o : xres bytes) | OR (o : res bytes).

Definition export_step (v : variant) (preserve : bool) (addr : option bytes) (s : flowst) (f : fmt) : eout * flowst :=
  (match f with
   | FCurl => OX (curl_command v preserve addr (fl_x s))
   | FHttpie => OX (httpie_command v (fl_x s))
   | FRaw => OR (raw_request (fl_head s) (fl_content s) (fl_trailers s))
   end, s).

Fixpoint export_history (v : variant) (preserve : bool) (addr : option bytes) (s : flowst) (fs : list fmt)
  : list eout * flowst :=
  match fs with
  | [] => ([], s)
  | f :: r => let (o, s1) := export_step v preserve addr s f in
              let (os, s2) := export_history v preserve addr s1 r in (o :: os, s2)
  end.
