(* Base/Bytes.v — bytes as lists of Coq.Init.Byte.byte; shared helpers.
   Executable definitions and small lemmas only. Frozen interface: per-property
   files add their own helpers instead of editing this file. *)
From Coq Require Import List Bool Arith NArith ZArith Lia.
From Coq Require Export Init.Byte.
From Coq Require Import Strings.Byte.
Import ListNotations.

Definition byte := Init.Byte.byte.
Definition bytes := list byte.

Definition byte_eqb (a b : byte) : bool := Byte.eqb a b.

Lemma byte_eqb_eq a b : byte_eqb a b = true <-> a = b.
Proof. unfold byte_eqb. split; [apply Byte.byte_dec_bl | apply Byte.byte_dec_lb]. Qed.

Lemma byte_eqb_refl a : byte_eqb a a = true.
Proof. apply byte_eqb_eq; reflexivity. Qed.

Lemma byte_eqb_neq a b : byte_eqb a b = false <-> a <> b.
Proof.
  split; intros H.
  - intros ->. rewrite byte_eqb_refl in H. discriminate.
  - destruct (byte_eqb a b) eqn:E; [apply byte_eqb_eq in E; contradiction | reflexivity].
Qed.

Definition byte_dec (a b : byte) : {a = b} + {a <> b}.
Proof. destruct (byte_eqb a b) eqn:E; [left; apply byte_eqb_eq; exact E | right; apply byte_eqb_neq; exact E]. Defined.

Definition bN (b : byte) : N := Byte.to_N b.
Definition Nb (n : N) : byte := match Byte.of_N n with Some b => b | None => x00 end.

Lemma Nb_bN b : Nb (bN b) = b.
Proof. unfold Nb, bN. rewrite Byte.of_to_N. reflexivity. Qed.

Lemma bN_lt b : (bN b < 256)%N.
Proof. unfold bN. pose proof (Byte.to_N_bounded b). lia. Qed.

Lemma bN_Nb n : (n < 256)%N -> bN (Nb n) = n.
Proof.
  intros H. unfold bN, Nb.
  destruct (Byte.of_N n) eqn:E.
  - apply Byte.to_of_N in E. exact E.
  - apply Byte.of_N_None_iff in E. lia.
Qed.

(* complete enumeration of the 256 bytes *)
Definition all_bytes : bytes := map Nb (map N.of_nat (seq 0 256)).

Lemma all_bytes_complete : forall b, In b all_bytes.
Proof.
  intros b. unfold all_bytes. rewrite <- (Nb_bN b).
  apply in_map. rewrite <- (N2Nat.id (bN b)). apply in_map.
  apply in_seq. pose proof (bN_lt b). lia.
Qed.

(* lifting a finite sweep to a universally quantified statement *)
Lemma forall_bytes (P : byte -> bool) :
  forallb P all_bytes = true -> forall b, P b = true.
Proof. intros H b. rewrite forallb_forall in H. apply H, all_bytes_complete. Qed.

Fixpoint bytes_eqb (a b : bytes) : bool :=
  match a, b with
  | [], [] => true
  | x :: a', y :: b' => byte_eqb x y && bytes_eqb a' b'
  | _, _ => false
  end.

Lemma bytes_eqb_eq a b : bytes_eqb a b = true <-> a = b.
Proof.
  revert b; induction a as [|x a IH]; intros [|y b]; simpl; split; intros H;
    try reflexivity; try discriminate.
  - apply andb_true_iff in H as [H1 H2]. apply byte_eqb_eq in H1. apply IH in H2. congruence.
  - inversion H; subst. rewrite byte_eqb_refl. simpl. apply IH. reflexivity.
Qed.

Lemma bytes_eqb_refl a : bytes_eqb a a = true.
Proof. apply bytes_eqb_eq; reflexivity. Qed.

(* generic correspondence helper: indices (from 0) of the cases where [chk] is false *)
Fixpoint mismatches_from {A} (chk : A -> bool) (i : nat) (l : list A) : list nat :=
  match l with
  | [] => []
  | x :: l' => if chk x then mismatches_from chk (S i) l' else i :: mismatches_from chk (S i) l'
  end.
Definition mismatches {A} (chk : A -> bool) (l : list A) : list nat := mismatches_from chk 0 l.

(* equality helpers for correspondence glue *)
Definition option_eqb {A} (eqb : A -> A -> bool) (a b : option A) : bool :=
  match a, b with
  | Some x, Some y => eqb x y
  | None, None => true
  | _, _ => false
  end.

Fixpoint list_eqb {A} (eqb : A -> A -> bool) (a b : list A) : bool :=
  match a, b with
  | [], [] => true
  | x :: a', y :: b' => eqb x y && list_eqb eqb a' b'
  | _, _ => false
  end.

Definition pair_eqb {A B} (ea : A -> A -> bool) (eb : B -> B -> bool) (a b : A * B) : bool :=
  ea (fst a) (fst b) && eb (snd a) (snd b).

(* ASCII classification used by several models *)
Definition is_digit (b : byte) : bool := (48 <=? bN b)%N && (bN b <=? 57)%N.
Definition is_upper (b : byte) : bool := (65 <=? bN b)%N && (bN b <=? 90)%N.
Definition is_lower (b : byte) : bool := (97 <=? bN b)%N && (bN b <=? 122)%N.
Definition is_alpha (b : byte) : bool := is_upper b || is_lower b.
Definition to_lower (b : byte) : byte := if is_upper b then Nb (bN b + 32) else b.
Definition lower (s : bytes) : bytes := map to_lower s.

(* big-endian integers *)
Definition u16be (hi lo : byte) : N := (bN hi * 256 + bN lo)%N.
Definition put_u16be (n : N) : bytes := [Nb (n / 256 mod 256); Nb (n mod 256)]%N.

Lemma u16be_put n : (n < 65536)%N ->
  match put_u16be n with [h; l] => u16be h l = n | _ => False end.
Proof.
  intros H. unfold put_u16be, u16be.
  rewrite !bN_Nb by (apply N.mod_lt; lia).
  rewrite (N.mod_small (n / 256) 256) by (apply N.div_lt_upper_bound; lia).
  rewrite N.mul_comm. symmetry. apply N.div_mod. lia.
Qed.

Fixpoint starts_with (p s : bytes) : bool :=
  match p, s with
  | [], _ => true
  | x :: p', y :: s' => byte_eqb x y && starts_with p' s'
  | _ :: _, [] => false
  end.

(* decimal rendering of naturals, as Python str(int) for n >= 0 *)
Fixpoint dec_digits (fuel : nat) (n : N) (acc : bytes) : bytes :=
  match fuel with
  | O => acc
  | S f => let d := Nb (48 + n mod 10)%N in
           if (n <? 10)%N then d :: acc else dec_digits f (n / 10)%N (d :: acc)
  end.
Definition dec_of_N (n : N) : bytes := dec_digits (S (N.to_nat (N.log2 n))) n [].
