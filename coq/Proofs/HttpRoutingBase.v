(* Proofs/HttpRoutingBase.v -- basic facts for C08: decidable equalities of the routing vocabulary, the
   meaning of the regenerated predicate connection_spec_matches, heap / dict / waiting-list lemmas. *)
From Coq Require Import NArith List Bool Lia.
From MV Require Import Base.Bytes Model.HttpRoutingBase Gen.ConnSpec Model.HttpRouting.
Import ListNotations.
Open Scope N_scope.

(* ---------- equalities ---------- *)
Lemma addr_eqb_eq a b : addr_eqb a b = true <-> a = b.
Proof.
  destruct a as [h p], b as [h' p']; unfold addr_eqb; cbn [fst snd].
  rewrite andb_true_iff, bytes_eqb_eq, N.eqb_eq. split.
  - intros [-> ->]; reflexivity.
  - intros E; inversion E; auto.
Qed.

Lemma option_eqb_eq {A} (eqb : A -> A -> bool) (H : forall x y, eqb x y = true <-> x = y) a b :
  option_eqb eqb a b = true <-> a = b.
Proof.
  destruct a as [x|], b as [y|]; cbn; try (split; congruence).
  rewrite H. split; congruence.
Qed.

Lemma via_eqb_eq a b : via_eqb a b = true <-> a = b.
Proof.
  unfold via_eqb. apply option_eqb_eq. intros [s x] [s' y]; cbn [fst snd].
  rewrite andb_true_iff, bytes_eqb_eq, addr_eqb_eq. split.
  - intros [-> ->]; reflexivity.
  - intros E; inversion E; auto.
Qed.

Lemma transport_eqb_eq a b : transport_eqb a b = true <-> a = b.
Proof. destruct a, b; cbn; split; congruence. Qed.

Lemma bool_eqb_eq a b : Bool.eqb a b = true <-> a = b.
Proof. destruct a, b; cbn; split; congruence. Qed.

Lemma connected_iff k : connected k = true <-> c_state k = Open.
Proof. unfold connected. destruct (c_state k); cbn; split; congruence. Qed.

(* ---------- what the regenerated predicate means ---------- *)
Definition spec_eq (g : get_cmd) (k : conn) : Prop :=
  c_server k = true /\ c_address k = Some (g_address g) /\ c_tls k = g_tls g /\ c_via k = g_via g /\ c_tp k = g_tp g.

Lemma matches_iff g k : connection_spec_matches g k = true <-> spec_eq g k.
Proof.
  unfold connection_spec_matches, spec_eq, eq_address, eq_tls, eq_via, eq_transport_protocol.
  rewrite !andb_true_iff, (option_eqb_eq addr_eqb addr_eqb_eq), bool_eqb_eq, via_eqb_eq, transport_eqb_eq.
  split.
  - intros [[[[H1 H2] H3] H4] H5]. repeat split; auto.
  - intros (H1 & H2 & H3 & H4 & H5). repeat split; auto.
Qed.

Lemma new_server_spec g : spec_eq g (new_server g).
Proof. unfold spec_eq, new_server; cbn. repeat split; reflexivity. Qed.

Lemma dest_of_flow_spec host port scheme via tp :
  let g := dest_of_flow host port scheme via tp in
  g_address g = (host, port) /\ (g_tls g = true <-> scheme = https_scheme) /\ g_via g = via /\ g_tp g = tp.
Proof.
  cbn. repeat split; try reflexivity.
  - intros H. apply bytes_eqb_eq in H. exact H.
  - intros ->. reflexivity.
Qed.

(* ---------- heap ---------- *)
Lemma hget_hset_same h c k : hget (hset h c k) c = k.
Proof.
  induction h as [|[c' k'] r IH]; cbn.
  - rewrite N.eqb_refl; reflexivity.
  - destruct (N.eqb c c') eqn:E; cbn; rewrite ?N.eqb_refl, ?E; auto.
Qed.

Lemma hget_hset_other h c c' k : c' <> c -> hget (hset h c k) c' = hget h c'.
Proof.
  intros D. induction h as [|[c0 k0] r IH]; cbn.
  - destruct (N.eqb c' c) eqn:E; [apply N.eqb_eq in E; congruence | reflexivity].
  - destruct (N.eqb c c0) eqn:E; cbn.
    + apply N.eqb_eq in E; subst c0.
      destruct (N.eqb c' c) eqn:E2; [apply N.eqb_eq in E2; congruence | reflexivity].
    + destruct (N.eqb c' c0); auto.
Qed.

(* ---------- dict ---------- *)
Lemma handler_of_dict_set_same l c h : handler_of (dict_set l c h) c = h.
Proof.
  induction l as [|[c' h'] r IH]; cbn.
  - rewrite N.eqb_refl; reflexivity.
  - destruct (N.eqb c c') eqn:E; cbn; rewrite ?N.eqb_refl, ?E; auto.
Qed.

Lemma handler_of_dict_set_other l c c' h : c' <> c -> handler_of (dict_set l c h) c' = handler_of l c'.
Proof.
  intros D. induction l as [|[c0 h0] r IH]; cbn.
  - destruct (N.eqb c' c) eqn:E; [apply N.eqb_eq in E; congruence | reflexivity].
  - destruct (N.eqb c c0) eqn:E; cbn.
    + apply N.eqb_eq in E; subst c0.
      destruct (N.eqb c' c) eqn:E2; [apply N.eqb_eq in E2; congruence | reflexivity].
    + destruct (N.eqb c' c0); auto.
Qed.

Lemma has_key_In {A} (l : list (N * A)) c : has_key l c = true <-> exists x, In (c, x) l.
Proof.
  induction l as [|[c' x'] r IH]; cbn.
  - split; [discriminate | intros [x []]].
  - rewrite orb_true_iff, IH, N.eqb_eq. split.
    + intros [-> | [x H]]; eauto.
    + intros [x [E | H]]; [inversion E; auto | eauto].
Qed.

(* ---------- waiting lists ---------- *)
(* every entry of the waiting map satisfies Q *)
Definition all_waiting (Q : N -> waiter -> Prop) (w : list (N * list waiter)) : Prop :=
  forall c ws x, In (c, ws) w -> In x ws -> Q c x.

Lemma all_waiting_add Q w c x : all_waiting Q w -> Q c x -> all_waiting Q (waiting_add w c x).
Proof.
  intros HW HQ. induction w as [|[c' ws'] r IH]; cbn.
  - intros c0 ws0 x0 [E | []] Hx; inversion E; subst. destruct Hx as [<- | []]; exact HQ.
  - assert (HR : all_waiting Q r) by (intros c0 ws0 x0 H1 H2; eapply HW; [right; exact H1 | exact H2]).
    destruct (N.eqb c c') eqn:E.
    + apply N.eqb_eq in E; subst c'.
      intros c0 ws0 x0 [E0 | H1] Hx.
      * inversion E0; subst. apply in_app_or in Hx. destruct Hx as [Hx | [<- | []]]; auto.
        eapply HW; [left; reflexivity | exact Hx].
      * eapply HW; [right; exact H1 | exact Hx].
    + intros c0 ws0 x0 [E0 | H1] Hx.
      * inversion E0; subst. eapply HW; [left; reflexivity | exact Hx].
      * eapply IH; eauto.
Qed.

Lemma waiting_add_keys w c x c0 : has_key (waiting_add w c x) c0 = true -> c0 = c \/ has_key w c0 = true.
Proof.
  induction w as [|[c' ws'] r IH]; cbn.
  - rewrite orb_false_r, N.eqb_eq; auto.
  - destruct (N.eqb c c') eqn:E; cbn; rewrite !orb_true_iff; intros [H | H]; auto.
    destruct (IH H); auto.
Qed.

Lemma waiting_pop_spec w l ws w' :
  waiting_pop w l = Some (ws, w') ->
  In (l, ws) w /\ (forall c x, In (c, x) w' -> In (c, x) w).
Proof.
  revert ws w'. induction w as [|[c' ws'] r IH]; cbn; intros ws w' H; [discriminate|].
  destruct (N.eqb l c') eqn:E.
  - apply N.eqb_eq in E; subst c'. inversion H; subst. split; auto.
  - destruct (waiting_pop r l) as [[x r']|] eqn:EP; [|discriminate].
    inversion H; subst. destruct (IH _ _ eq_refl) as [H1 H2]. split; auto.
    intros c x0 [E0 | H3]; [left; exact E0 | right; auto].
Qed.

Lemma all_waiting_pop Q w l ws w' :
  all_waiting Q w -> waiting_pop w l = Some (ws, w') ->
  (forall x, In x ws -> Q l x) /\ all_waiting Q w'.
Proof.
  intros HW HP. destruct (waiting_pop_spec _ _ _ _ HP) as [H1 H2]. split.
  - intros x Hx. eapply HW; eauto.
  - intros c ws0 x H3 Hx. eapply HW; eauto.
Qed.

Lemma waiting_pop_keys w l ws w' c :
  waiting_pop w l = Some (ws, w') -> has_key w' c = true -> has_key w c = true.
Proof.
  intros HP H. apply has_key_In in H. destruct H as [x H]. apply has_key_In. exists x.
  destruct (waiting_pop_spec _ _ _ _ HP) as [_ H2]. auto.
Qed.

Lemma all_waiting_weaken (Q Q' : N -> waiter -> Prop) w :
  (forall c x, has_key w c = true -> Q c x -> Q' c x) -> all_waiting Q w -> all_waiting Q' w.
Proof.
  intros HQ HW c ws x H1 H2. apply HQ; [apply has_key_In; eauto | eapply HW; eauto].
Qed.
