(* Proofs/ServerTlsLayerInv.v -- invariants of Model/ServerTlsLayer.v for every event history, every
   child layer and every OpenSSL connection object that satisfies the contract stated as Hypotheses
   below (recorded in TRUSTED of harness/props/C15.py as openssl_verifies). *)
From Coq Require Import List Bool.
From MV Require Import Base.Bytes Model.ServerTlsLayer.
Import ListNotations.

Section Inv.
  Variable eng seg : Type.
  Variable hs_step : eng -> option seg -> eng * hs_result.
  Variable send_app : eng -> bytes -> eng * send_result.
  Variable recv_app : eng -> option seg -> eng * (bytes * bool).
  Variable got_shutdown : eng -> bool.
  Variable start_conn : option eng.
  Variable cst : Type.
  Variable child_step : cst -> bool -> cev -> cst * list ccmd.

  (* ---- contract of the OpenSSL connection object ----
     live e   : e is the object tls_start_server created, or a later state of it
     ok_eng e : the handshake on e has completed successfully
     accept   : the peer is acceptable for the configuration e was created with *)
  Variable live : eng -> Prop.
  Variable ok_eng : eng -> bool.
  Variable accept : Prop.
  Hypothesis H_start : forall e, start_conn = Some e -> live e /\ ok_eng e = false.
  (* do_handshake returns successfully only for an acceptable peer; a handshake completes in no other way *)
  Hypothesis H_hs : forall e d e' r, live e -> hs_step e d = (e', r) ->
    live e' /\ (r = HsDone -> accept) /\ (ok_eng e' = true -> r = HsDone \/ ok_eng e = true).
  (* sendall emits application plaintext only on a completed handshake and never completes one *)
  Hypothesis H_send : forall e d e' r, live e -> send_app e d = (e', r) ->
    live e' /\ (ok_eng e' = true -> ok_eng e = true) /\ (forall p, r = Sent p -> ok_eng e = true).
  Hypothesis H_recv : forall e d e' x, live e -> recv_app e d = (e', x) ->
    live e' /\ (ok_eng e' = true -> ok_eng e = true).

  Notation st := (st eng seg cst).
  Notation out := (out eng seg cst).
  Notation bind := (bind eng seg cst).

  Notation send_data := (send_data eng seg send_app cst).
  Notation handle_command := (handle_command eng seg send_app cst).
  Notation handle_commands := (handle_commands eng seg send_app cst).
  Notation event_to_child := (event_to_child eng seg send_app cst child_step).
  Notation events_to_child := (events_to_child eng seg send_app cst child_step).
  Notation start_tls := (start_tls eng seg start_conn cst).
  Notation receive_data := (receive_data eng seg send_app recv_app cst child_step).
  Notation receive_handshake_data := (receive_handshake_data eng seg hs_step send_app recv_app cst child_step).
  Notation on_handshake_error := (on_handshake_error eng seg cst).
  Notation handshake_finished := (handshake_finished eng seg send_app cst child_step).
  Notation start_handshake := (start_handshake eng seg hs_step send_app recv_app start_conn cst child_step).
  Notation on_data := (on_data eng seg hs_step send_app recv_app cst child_step).
  Notation on_closed := (on_closed eng seg send_app got_shutdown cst child_step).
  Notation on_start := (on_start eng seg hs_step send_app recv_app start_conn cst child_step).
  Notation on_open_reply := (on_open_reply eng seg hs_step send_app recv_app start_conn cst child_step).
  Notation handle := (handle eng seg hs_step send_app recv_app got_shutdown start_conn cst child_step).
  Notation step := (step eng seg hs_step send_app recv_app got_shutdown start_conn cst child_step).
  Notation run := (run eng seg hs_step send_app recv_app got_shutdown start_conn cst child_step).

  Definition ev_ok (e : cev) : Prop := e = CevOpenReply false -> accept.

  Definition Inv (s : st) : Prop :=
    (forall e, tls _ _ _ s = Some e -> live e /\ (ok_eng e = true -> accept))
    /\ (established _ _ _ s = true -> accept)
    /\ (tunnel_state _ _ _ s = OPEN -> accept)
    /\ Forall ev_ok (queue _ _ _ s).

  (* what must not happen unless the peer is acceptable: application plaintext sent to the server, the
     established hook, the child told that the connection is up, the child seeing tls_established *)
  Definition good_cmd (c : cmd) : Prop :=
    match c with
    | CSendApp _ => accept
    | CHook HEstablished => accept
    | CChild (CevOpenReply false) _ => accept
    | CChild _ true => accept
    | _ => True
    end.

  Definition P (o : out) : Prop := Inv (fst o) /\ Forall good_cmd (snd o).

  Lemma P_nil s : Inv s -> P (s, []).
  Proof. intros H; split; [exact H|constructor]. Qed.

  Lemma bind_P r f : P r -> (forall s, Inv s -> P (f s)) -> P (bind r f).
  Proof.
    unfold ServerTlsLayer.bind. destruct r as [s c]; intros [Hi Hc] Hf; simpl in *.
    destruct (crashed _ _ _ s); [split; assumption|].
    specialize (Hf s Hi). destruct (f s) as [s' c']; destruct Hf as [Hi' Hc']; simpl in *.
    split; [exact Hi'|apply Forall_app; split; assumption].
  Qed.

  Lemma crash_P s : Inv s -> P (crash _ _ _ s).
  Proof. intros H; split; [exact H|repeat constructor]. Qed.

  Lemma Inv_set_ts s t : Inv s -> (t = OPEN -> accept) -> Inv (set_ts _ _ _ s t).
  Proof. intros [A [B [C D]]] Ht; repeat split; auto; apply A; assumption. Qed.

  Lemma Inv_set_tls s e : Inv s -> live e -> (ok_eng e = true -> accept) -> Inv (set_tls _ _ _ s (Some e)).
  Proof.
    intros [A [B [C D]]] L O; repeat split; auto; simpl in H; inversion H; subst; assumption.
  Qed.

  Lemma Inv_set_est s : Inv s -> accept -> Inv (set_est _ _ _ s true).
  Proof. intros [A [B [C D]]] Ha; repeat split; auto; apply A; assumption. Qed.

  Lemma Inv_set_queue s q : Inv s -> Forall ev_ok q -> Inv (set_queue _ _ _ s q).
  Proof. intros [A [B [C D]]] Hq; repeat split; auto; apply A; assumption. Qed.

  Lemma good_child e est : ev_ok e -> (est = true -> accept) -> good_cmd (CChild e est).
  Proof.
    unfold ev_ok; intros He Hest; destruct e as [| |err| |]; destruct est; simpl; auto;
      destruct err; simpl; auto.
  Qed.

  Lemma send_data_P s d : Inv s -> P (send_data s d).
  Proof.
    intros Hi; unfold ServerTlsLayer.send_data. destruct (tls _ _ _ s) as [e|] eqn:T; [|apply crash_P; exact Hi].
    destruct Hi as [A R]. destruct (A e T) as [L O].
    destruct (send_app e d) as [e' r] eqn:S. destruct (H_send _ _ _ _ L S) as [L' [O' Sp]].
    assert (I' : Inv (set_tls _ _ _ s (Some e'))) by (apply Inv_set_tls; [split; assumption|exact L'|auto]).
    destruct r as [p| |].
    - split; [exact I'|]. repeat constructor. simpl. apply O. eapply Sp; reflexivity.
    - apply P_nil; exact I'.
    - apply crash_P; exact I'.
  Qed.

  Lemma handle_command_P s c : Inv s -> P (handle_command s c).
  Proof.
    intros Hi; destruct c; simpl.
    - split; [|repeat constructor]. simpl.
      destruct Hi as [A [B [C D]]]; repeat split; auto; try discriminate; apply A; assumption.
    - apply send_data_P; exact Hi.
    - split; [exact Hi|repeat constructor].
    - split; [exact Hi|repeat constructor].
  Qed.

  Lemma handle_commands_P cs : forall s, Inv s -> P (handle_commands s cs).
  Proof.
    induction cs as [|c r IH]; intros s Hi; simpl; [apply P_nil; exact Hi|].
    apply bind_P; [apply handle_command_P; exact Hi|exact IH].
  Qed.

  Lemma event_to_child_P s e : Inv s -> ev_ok e -> P (event_to_child s e).
  Proof.
    intros Hi He; unfold ServerTlsLayer.event_to_child.
    destruct (tstate_eqb _ ESTABLISHING && negb _).
    - apply P_nil. apply Inv_set_queue; [exact Hi|].
      apply Forall_app; split; [apply Hi|repeat constructor; exact He].
    - destruct (child_step _ _ e) as [c' cmds].
      apply bind_P; [|intros s' Hs'; apply handle_commands_P; exact Hs'].
      split; [exact Hi|]. repeat constructor. apply good_child; [exact He|apply Hi].
  Qed.

  Lemma events_to_child_P es : forall s, Inv s -> Forall ev_ok es ->
    P (events_to_child s es).
  Proof.
    induction es as [|e r IH]; intros s Hi Hes; simpl; [apply P_nil; exact Hi|].
    inversion Hes; subst.
    apply bind_P; [apply event_to_child_P; assumption|intros s' Hs'; apply IH; assumption].
  Qed.

  Lemma start_tls_P s : Inv s -> P (start_tls s).
  Proof.
    intros Hi; unfold ServerTlsLayer.start_tls. destruct (tls _ _ _ s); [apply crash_P; exact Hi|].
    destruct start_conn as [e|] eqn:SC.
    - destruct (H_start e eq_refl) as [L O].
      split; [|repeat constructor]. apply Inv_set_tls; [exact Hi|exact L|].
      intros X; rewrite O in X; discriminate.
    - split; [exact Hi|repeat constructor].
  Qed.

  Lemma ev_ok_data p : ev_ok (CevServerData p).
  Proof. unfold ev_ok; discriminate. Qed.
  Lemma ev_ok_closed : ev_ok CevServerClosed.
  Proof. unfold ev_ok; discriminate. Qed.

  Lemma receive_data_P s d : Inv s -> P (receive_data s d).
  Proof.
    intros Hi; unfold ServerTlsLayer.receive_data. destruct (tls _ _ _ s) as [e|] eqn:T; [|apply crash_P; exact Hi].
    destruct (proj1 Hi e T) as [L O].
    destruct (recv_app e d) as [e' [p closed]] eqn:R. destruct (H_recv _ _ _ _ L R) as [L' O'].
    apply bind_P.
    - apply P_nil. apply Inv_set_tls; [exact Hi|exact L'|auto].
    - intros s1 H1. apply bind_P.
      + destruct p; [apply P_nil; exact H1|apply event_to_child_P; [exact H1|apply ev_ok_data]].
      + intros s2 H2. destruct closed; [apply event_to_child_P; [exact H2|apply ev_ok_closed]|apply P_nil; exact H2].
  Qed.

  Lemma receive_handshake_data_P s d : Inv s ->
    P (fst (receive_handshake_data s d))
    /\ (fst (snd (receive_handshake_data s d)) = true -> accept).
  Proof.
    intros Hi; unfold ServerTlsLayer.receive_handshake_data. destruct (tls _ _ _ s) as [e|] eqn:T.
    - destruct (proj1 Hi e T) as [L O].
      destruct (hs_step e d) as [e' r] eqn:S. destruct (H_hs _ _ _ _ L S) as [L' [Dn O']].
      assert (I' : r <> HsDone -> Inv (set_tls _ _ _ s (Some e'))).
      { intros Hr. apply Inv_set_tls; [exact Hi|exact L'|]. intros X. destruct (O' X) as [Y|Y]; [contradiction|auto]. }
      destruct r; cbn [fst snd].
      + split; [apply P_nil; apply I'; discriminate|discriminate].
      + split; [apply P_nil; apply I'; discriminate|discriminate].
      + assert (Ha : accept) by (apply Dn; reflexivity). split; [|intros _; exact Ha].
        apply bind_P.
        * split; [|repeat constructor; exact Ha]. apply Inv_set_est; [|exact Ha].
          apply Inv_set_tls; [exact Hi|exact L'|intros _; exact Ha].
        * intros s2 H2. apply receive_data_P; exact H2.
    - simpl. split; [apply crash_P; exact Hi|discriminate].
  Qed.

  Lemma on_handshake_error_P s : Inv s -> P (on_handshake_error s).
  Proof. intros Hi; split; [exact Hi|repeat constructor]. Qed.

  Lemma handshake_finished_P s err : Inv s -> (err = false -> accept) ->
    P (handshake_finished s err).
  Proof.
    intros Hi He; unfold ServerTlsLayer.handshake_finished.
    assert (I1 : Inv (set_ts _ _ _ s (if err then CLOSED else OPEN))).
    { apply Inv_set_ts; [exact Hi|]. destruct err; [discriminate|intros _; apply He; reflexivity]. }
    destruct (reply_to _ _ _ _).
    - apply bind_P.
      + apply event_to_child_P; [exact I1|]. unfold ev_ok; intros X; inversion X; subst; auto.
      + intros s2 H2. apply P_nil. exact H2.
    - apply bind_P.
      + apply events_to_child_P; [exact I1|apply I1].
      + intros s2 H2. apply P_nil. apply Inv_set_queue; [exact H2|constructor].
  Qed.

  Lemma start_handshake_P s : Inv s ->
    P (start_handshake s).
  Proof.
    intros Hi; unfold ServerTlsLayer.start_handshake. apply bind_P; [apply start_tls_P; exact Hi|].
    intros s1 H1. destruct (tls _ _ _ s1); [|apply P_nil; exact H1].
    apply receive_handshake_data_P; exact H1.
  Qed.

  Lemma on_data_P s d : Inv s -> P (on_data s d).
  Proof.
    intros Hi; unfold ServerTlsLayer.on_data. destruct (tstate_eqb _ _); [|apply receive_data_P; exact Hi].
    pose proof (receive_handshake_data_P s (Some d) Hi) as [HP Hd].
    destruct (receive_handshake_data s (Some d)) as [r [done err]].
    simpl in HP, Hd.
    apply bind_P; [exact HP|]. intros s1 H1. apply bind_P.
    - destruct err; [apply on_handshake_error_P; exact H1|apply P_nil; exact H1].
    - intros s2 H2. destruct (done || err) eqn:DE; [|apply P_nil; exact H2].
      apply handshake_finished_P; [exact H2|]. intros X; subst err. rewrite orb_false_r in DE. auto.
  Qed.

  Lemma on_closed_P s : Inv s -> P (on_closed s).
  Proof.
    intros Hi; unfold ServerTlsLayer.on_closed. apply bind_P.
    - destruct (tunnel_state _ _ _ s).
      + apply P_nil; exact Hi.
      + apply bind_P; [apply on_handshake_error_P; exact Hi|].
        intros s1 H1. apply handshake_finished_P; [exact H1|discriminate].
      + destruct (tls _ _ _ s) as [e|]; [|apply crash_P; exact Hi].
        destruct (got_shutdown e); [apply P_nil; exact Hi|apply event_to_child_P; [exact Hi|apply ev_ok_closed]].
      + apply P_nil; exact Hi.
    - intros s1 H1. apply P_nil. apply Inv_set_ts; [exact H1|discriminate].
  Qed.

  Lemma on_start_P s : Inv s -> P (on_start s).
  Proof.
    intros Hi; unfold ServerTlsLayer.on_start. apply bind_P.
    - destruct (conn_closed _ _ _ s); [apply P_nil; exact Hi|].
      apply start_handshake_P. apply Inv_set_ts; [exact Hi|discriminate].
    - intros s1 H1. apply event_to_child_P; [exact H1|unfold ev_ok; discriminate].
  Qed.

  Lemma on_open_reply_P s err : Inv s ->
    P (on_open_reply s err).
  Proof.
    intros Hi; unfold ServerTlsLayer.on_open_reply. destruct err.
    - apply bind_P; [apply event_to_child_P; [exact Hi|unfold ev_ok; discriminate]|].
      intros s1 H1. apply P_nil. apply Inv_set_ts; [exact H1|discriminate].
    - apply start_handshake_P. exact Hi.
  Qed.

  Lemma handle_P s e : Inv s ->
    P (handle s e).
  Proof.
    intros Hi; destruct e; simpl.
    - apply on_start_P; exact Hi.
    - apply on_data_P; exact Hi.
    - apply on_closed_P; exact Hi.
    - apply event_to_child_P; [exact Hi|unfold ev_ok; discriminate].
    - apply P_nil; exact Hi.
  Qed.


  Lemma step_P s e : Inv s -> P (step s e).
  Proof.
    intros Hi; unfold ServerTlsLayer.step.
    destruct (crashed _ _ _ s); [apply P_nil; exact Hi|].
    destruct (awaiting_open _ _ _ s); [|apply handle_P; exact Hi].
    destruct e; try (apply P_nil; exact Hi).
    apply bind_P; [apply on_open_reply_P; exact Hi|].
    intros s1 H1.
    assert (G : forall l acc, P acc ->
              P (fold_left (fun (acc : out) (b : ev seg) =>
                   bind acc (fun s2 => if awaiting_open _ _ _ s2
                                       then (set_paused _ _ _ s2 (paused _ _ _ s2 ++ [b]), [])
                                       else handle s2 b))
                 l acc)).
    { induction l as [|b l IH]; intros acc Ha; simpl; [exact Ha|].
      apply IH. apply bind_P; [exact Ha|].
      intros s2 H2. destruct (awaiting_open _ _ _ s2); [apply P_nil; exact H2|apply handle_P; exact H2]. }
    apply G. apply P_nil; exact H1.
  Qed.

  Theorem run_P es : forall s, Inv s -> P (run s es).
  Proof.
    induction es as [|e r IH]; intros s Hi; simpl; [apply P_nil; exact Hi|].
    pose proof (step_P s e Hi) as Hs. destruct (step s e) as [s1 c1]. destruct Hs as [H1 F1]; simpl in *.
    specialize (IH s1 H1). destruct (run s1 r) as [s2 c2]. destruct IH as [H2 F2]; simpl in *.
    split; [exact H2|apply Forall_app; split; assumption].
  Qed.

  Lemma init_Inv c b : Inv (init _ _ _ c b).
  Proof. repeat split; simpl; try discriminate; constructor. Qed.

  (* every history, from the initial state *)
  Theorem run_init_safe c b es :
    Forall good_cmd (snd (run (init _ _ _ c b) es))
    /\ (tunnel_state _ _ _ (fst (run (init _ _ _ c b) es)) = OPEN -> accept)
    /\ (established _ _ _ (fst (run (init _ _ _ c b) es)) = true -> accept).
  Proof.
    destruct (run_P es _ (init_Inv c b)) as [[A [B [C D]]] F]. auto.
  Qed.
End Inv.

(* ---- what the layer emits when the handshake fails (one step, no contract needed) ---- *)
Section Fail.
  Variable eng seg : Type.
  Variable hs_step : eng -> option seg -> eng * hs_result.
  Variable send_app : eng -> bytes -> eng * send_result.
  Variable recv_app : eng -> option seg -> eng * (bytes * bool).
  Variable got_shutdown : eng -> bool.
  Variable start_conn : option eng.
  Variable cst : Type.
  Variable child_step : cst -> bool -> cev -> cst * list ccmd.

  Notation send_data := (send_data eng seg send_app cst).
  Notation handle_command := (handle_command eng seg send_app cst).
  Notation handle_commands := (handle_commands eng seg send_app cst).
  Notation event_to_child := (event_to_child eng seg send_app cst child_step).
  Notation events_to_child := (events_to_child eng seg send_app cst child_step).
  Notation start_tls := (start_tls eng seg start_conn cst).
  Notation receive_data := (receive_data eng seg send_app recv_app cst child_step).
  Notation receive_handshake_data := (receive_handshake_data eng seg hs_step send_app recv_app cst child_step).
  Notation on_handshake_error := (on_handshake_error eng seg cst).
  Notation handshake_finished := (handshake_finished eng seg send_app cst child_step).
  Notation start_handshake := (start_handshake eng seg hs_step send_app recv_app start_conn cst child_step).
  Notation on_data := (on_data eng seg hs_step send_app recv_app cst child_step).
  Notation on_closed := (on_closed eng seg send_app got_shutdown cst child_step).
  Notation on_start := (on_start eng seg hs_step send_app recv_app start_conn cst child_step).
  Notation on_open_reply := (on_open_reply eng seg hs_step send_app recv_app start_conn cst child_step).
  Notation handle := (handle eng seg hs_step send_app recv_app got_shutdown start_conn cst child_step).
  Notation step := (step eng seg hs_step send_app recv_app got_shutdown start_conn cst child_step).
  Notation run := (run eng seg hs_step send_app recv_app got_shutdown start_conn cst child_step).

  Definition failure_prefix : list cmd := [CLogWarn; CHook HFailed; CClose].

  (* OpenSSL reports an error for data received during the handshake: warning, tls_failed_server,
     CloseConnection, and the waiting child gets OpenConnectionCompleted(error) *)
  Lemma handshake_error_is_signalled (s : st eng seg cst) e e' d :
    crashed _ _ _ s = false -> awaiting_open _ _ _ s = false ->
    tunnel_state _ _ _ s = ESTABLISHING -> reply_to _ _ _ s = true ->
    tls _ _ _ s = Some e -> hs_step e (Some d) = (e', HsError) ->
    exists rest, snd (step s (EData _ d))
                 = failure_prefix ++ CChild (CevOpenReply true) (established _ _ _ s) :: rest.
  Proof.
    intros Hc Ha Ht Hr Hl Hh. unfold ServerTlsLayer.step. rewrite Hc, Ha. simpl.
    unfold ServerTlsLayer.on_data. rewrite Ht. simpl. unfold ServerTlsLayer.receive_handshake_data. rewrite Hl, Hh. simpl.
    rewrite !Hc. unfold ServerTlsLayer.handshake_finished. simpl. rewrite Hr.
    unfold ServerTlsLayer.event_to_child. simpl.
    destruct (child_step _ _ _) as [c' cmds]. unfold ServerTlsLayer.bind. simpl. rewrite Hc.
    destruct (ServerTlsLayer.handle_commands _ _ _ _ _ _) as [s3 c3]. simpl.
    destruct (crashed _ _ _ s3); simpl; eexists; reflexivity.
  Qed.

  (* the server closes during the handshake *)
  Lemma close_during_handshake_is_signalled (s : st eng seg cst) :
    crashed _ _ _ s = false -> awaiting_open _ _ _ s = false ->
    tunnel_state _ _ _ s = ESTABLISHING -> reply_to _ _ _ s = true ->
    exists rest, snd (step s (EClosed _))
                 = failure_prefix ++ CChild (CevOpenReply true) (established _ _ _ s) :: rest.
  Proof.
    intros Hc Ha Ht Hr. unfold ServerTlsLayer.step. rewrite Hc, Ha. simpl.
    unfold ServerTlsLayer.on_closed. rewrite Ht. simpl.
    unfold ServerTlsLayer.bind. simpl.
    rewrite !Hc. unfold ServerTlsLayer.handshake_finished. simpl. rewrite Hr.
    unfold ServerTlsLayer.event_to_child. simpl.
    destruct (child_step _ _ _) as [c' cmds]. unfold ServerTlsLayer.bind. simpl. rewrite Hc.
    destruct (ServerTlsLayer.handle_commands _ _ _ _ _ _) as [s3 c3]. simpl.
    destruct (crashed _ _ _ s3) eqn:C3; simpl; rewrite ?C3; simpl; eexists; reflexivity.
  Qed.

  (* tls_start_server left no connection object (it raised): error log and CloseConnection *)
  Lemma no_context_closes (s : st eng seg cst) :
    start_conn = None -> tls _ _ _ s = None ->
    snd (start_tls s) = [CHook HStart; CLogError; CClose].
  Proof. intros Hs Ht; unfold ServerTlsLayer.start_tls; rewrite Ht, Hs; reflexivity. Qed.
End Fail.
