(* Proofs/StrutilsDecode.v — escape_decode inverts the per-byte escaping, and the
   escaped text has no control characters except kept spacing. *)
From Coq Require Import List Bool NArith Lia.
From MV Require Import Base.Bytes Model.Strutils.
Import ListNotations.
Local Open Scope N_scope.

(* Per-byte: the escape of b is self-delimiting for escape_decode, whatever follows. *)
Lemma decode_esc_byte ks eq b rest :
  escape_decode (esc_byte ks eq b ++ rest) = ocons (Some b) (escape_decode rest).
Proof.
  destruct ks, eq; destruct b; reflexivity.
Qed.

Lemma decode_direct ks eq data :
  escape_decode (escape_direct data ks eq) = Some data.
Proof.
  unfold escape_direct. induction data as [|b data IH]; [reflexivity|].
  cbn [flat_map]. rewrite decode_esc_byte, IH. reflexivity.
Qed.

(* control characters *)
Definition char_ok (ks : bool) (c : byte) : bool :=
  negb (is_cc (bN c)) || (ks && is_spacing (bN c)).

Lemma esc_byte_ok ks eq b : forallb (char_ok ks) (esc_byte ks eq b) = true.
Proof.
  revert b. apply forall_bytes. destruct ks, eq; vm_compute; reflexivity.
Qed.

Lemma direct_no_cc ks eq data : forallb (char_ok ks) (escape_direct data ks eq) = true.
Proof.
  unfold escape_direct. induction data as [|b data IH]; [reflexivity|].
  cbn [flat_map]. rewrite forallb_app, esc_byte_ok, IH. reflexivity.
Qed.
