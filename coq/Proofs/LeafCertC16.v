(* Proofs/LeafCertC16.v -- proofs for C16 about Model/LeafCert.v (the code) and
   Model/LeafCertSpec.v (what a strict verifier accepts). *)
From Coq Require Import String.
From Coq Require Import List Bool Arith NArith ZArith Lia.
From MV Require Import Base.Bytes Model.LeafCert Model.LeafCertSpec Gen.LeafCertConst.
Import ListNotations.

(* ------------------------------------------------------------------ equality tests are sound *)
Lemma option_bytes_eqb_eq (a b : option bytes) : option_eqb bytes_eqb a b = true -> a = b.
Proof.
  destruct a, b; simpl; intros H; try discriminate; try reflexivity.
  apply bytes_eqb_eq in H. congruence.
Qed.

Lemma gname_eqb_eq (a b : gname) : gname_eqb a b = true -> a = b.
Proof.
  destruct a as [x|x|k x], b as [y|y|j y]; simpl; intros H; try discriminate.
  - apply bytes_eqb_eq in H. congruence.
  - destruct x as [n|n s], y as [m|m t]; simpl in H; try discriminate.
    + apply N.eqb_eq in H. congruence.
    + apply andb_true_iff in H as [H1 H2]. apply N.eqb_eq in H1. apply option_bytes_eqb_eq in H2. congruence.
  - apply andb_true_iff in H as [H1 H2]. apply N.eqb_eq in H1. apply bytes_eqb_eq in H2. congruence.
Qed.

(* ------------------------------------------------------------------ dedup keeps exactly the members *)
Lemma dedup_aux_in seen l x : In x (dedup_aux seen l) -> In x l.
Proof.
  revert seen; induction l as [|y l IH]; intros seen H; simpl in *; [exact H|].
  destruct (existsb (gname_eqb y) seen).
  - right. eapply IH; exact H.
  - destruct H as [H|H]; [left; exact H | right; eapply IH; exact H].
Qed.

Lemma dedup_aux_keeps seen l x :
  In x l -> existsb (gname_eqb x) seen = true \/ In x (dedup_aux seen l).
Proof.
  revert seen; induction l as [|y l IH]; intros seen H; simpl in *; [contradiction|].
  destruct H as [H|H].
  - subst y. destruct (existsb (gname_eqb x) seen) eqn:E; [left; reflexivity | right; left; reflexivity].
  - destruct (existsb (gname_eqb y) seen) eqn:E.
    + apply IH; exact H.
    + destruct (IH (y :: seen) H) as [H1|H1].
      * simpl in H1. apply orb_true_iff in H1 as [H1|H1].
        -- apply gname_eqb_eq in H1. subst y. right; left; reflexivity.
        -- left; exact H1.
      * right; right; exact H1.
Qed.

Lemma dedup_in l x : In x (dedup l) <-> In x l.
Proof.
  split; [apply dedup_aux_in|].
  intros H. destruct (dedup_aux_keeps [] l x H) as [H1|H1]; [discriminate | exact H1].
Qed.

Lemma dedup_nonempty l : l <> [] -> dedup l <> [].
Proof.
  destruct l as [|y l]; [congruence|]. intros _. unfold dedup. simpl. discriminate.
Qed.

(* ------------------------------------------------------------------ OpenSSL name matching is reflexive *)
Lemma has_nul_tail c r : has_nul (c :: r) = false -> has_nul r = false.
Proof. unfold has_nul, contains_byte. simpl. intros H. apply orb_false_iff in H. tauto. Qed.

Lemma equal_plain_refl h : has_nul h = false -> equal_plain h h = true.
Proof. intros H. unfold equal_plain. rewrite H. simpl. apply bytes_eqb_refl. Qed.

Lemma skip_prefix_same h : skip_prefix h h = h.
Proof.
  unfold skip_prefix. destruct ((1 <? length h)%nat && bytes_eqb (firstn 1 h) [x2e]); [|reflexivity].
  rewrite Nat.sub_diag. reflexivity.
Qed.

Lemma equal_nocase_refl h : has_nul h = false -> equal_nocase h h = true.
Proof. intros H. unfold equal_nocase. rewrite skip_prefix_same. apply equal_plain_refl; exact H. Qed.

(* once a star has been recorded it is never replaced *)
Lemma star_stays p : forall i s s' j,
  st_star s = Some j -> valid_star_loop i p s = Some s' -> st_star s' = Some j.
Proof.
  induction p as [|c r IH]; intros i s s' j Hs H; simpl in H.
  - inversion H; subst; exact Hs.
  - destruct (byte_eqb c x2a).
    + rewrite Hs in H. simpl in H. discriminate.
    + destruct (is_alpha c || is_digit c).
      * eapply IH; [|exact H]. exact Hs.
      * destruct (byte_eqb c x2e).
        -- destruct (st_hyphen s || st_start s); [discriminate|]. eapply IH; [|exact H]. exact Hs.
        -- destruct (byte_eqb c x2d); [|discriminate].
           destruct (st_start s); [discriminate|]. eapply IH; [|exact H]. exact Hs.
Qed.

(* after the first character a label start only occurs behind a dot, where a star is refused *)
Lemma late_no_star p : forall i s s',
  st_star s = None -> (st_start s = true -> (0 <? st_dots s)%N = true) ->
  valid_star_loop i p s = Some s' -> st_star s' = None.
Proof.
  induction p as [|c r IH]; intros i s s' Hs Hl H; simpl in H.
  - inversion H; subst; exact Hs.
  - destruct (byte_eqb c x2a).
    + rewrite Hs in H. simpl in H.
      destruct (st_idna s); [discriminate|]. simpl in H.
      destruct (0 <? st_dots s)%N eqn:Ed; [discriminate|].
      destruct (st_start s) eqn:Est; [specialize (Hl eq_refl); discriminate|].
      simpl in H. discriminate.
    + destruct (is_alpha c || is_digit c).
      * eapply IH; [| |exact H]; simpl; [exact Hs | discriminate].
      * destruct (byte_eqb c x2e).
        -- destruct (st_hyphen s || st_start s); [discriminate|].
           eapply IH; [| |exact H]; simpl; [exact Hs | intros _; apply N.ltb_lt; lia].
        -- destruct (byte_eqb c x2d); [|discriminate].
           destruct (st_start s) eqn:Est; [discriminate|].
           eapply IH; [| |exact H]; simpl; [exact Hs | discriminate].
Qed.

Lemma valid_star_first p i : valid_star p = Some i -> i = O /\ exists r, p = x2a :: r.
Proof.
  unfold valid_star. destruct p as [|c r]; simpl; [discriminate|].
  destruct (byte_eqb c x2a) eqn:Ec.
  - apply byte_eqb_eq in Ec. subst c. simpl.
    destruct (negb match r with [] => true | d :: _ => byte_eqb d x2e end); [discriminate|].
    destruct (valid_star_loop 1 r _) as [s'|] eqn:E; [|discriminate].
    eapply star_stays in E; [|reflexivity]. cbn [st_star] in E.
    destruct (st_start s' || st_hyphen s' || (st_dots s' <? 2)%N); [discriminate|].
    rewrite E. intros H; inversion H. split; [reflexivity | eexists; reflexivity].
  - destruct (is_alpha c || is_digit c).
    + destruct (valid_star_loop 1 r _) as [s'|] eqn:E; [|discriminate].
      apply late_no_star in E; [|reflexivity | simpl; discriminate].
      destruct (st_start s' || st_hyphen s' || (st_dots s' <? 2)%N); [discriminate|].
      rewrite E. discriminate.
    + destruct (byte_eqb c x2e); [simpl; discriminate|].
      destruct (byte_eqb c x2d); simpl; discriminate.
Qed.

Lemma equal_wildcard_refl h : has_nul h = false -> equal_wildcard h h = true.
Proof.
  intros Hn. unfold equal_wildcard.
  destruct (if (1 <? length h)%nat && bytes_eqb (firstn 1 h) [x2e] then None else valid_star h) as [i|] eqn:E;
    [|apply equal_nocase_refl; exact Hn].
  destruct ((1 <? length h)%nat && bytes_eqb (firstn 1 h) [x2e]); [discriminate|].
  apply valid_star_first in E as [-> [r ->]].
  pose proof (has_nul_tail _ _ Hn) as Hr.
  unfold wildcard_match. cbn [firstn skipn length].
  remember (@length byte r) as n eqn:En. clear En.
  assert (E1 : (S n <? 0 + n)%nat = false) by (apply Nat.ltb_ge; lia).
  assert (E2 : (S n - n - 0)%nat = 1%nat) by lia.
  assert (E3 : (S n - n)%nat = 1%nat) by lia.
  rewrite E1, E2, E3. cbn [skipn firstn].
  rewrite (equal_plain_refl r Hr).
  assert (E4 : equal_plain [] [] = true) by reflexivity.
  rewrite E4. cbn [negb is_nil].
  assert (E5 : starts_nocase ACE (x2a :: r) = false) by reflexivity.
  rewrite E5, !andb_false_r. reflexivity.
Qed.

(* ------------------------------------------------------------------ what get_cert puts into the names *)
Section Code.
Variable idna : bytes -> option bytes.
Variables off exp : Z.
Variable guard : bool.
Variable crit : bool.

Notation conv := (ip_or_dns_name idna).

(* identities the certificate may name: the requested one, the server address, the upstream CN and SANs *)
Definition allowed (r : req) (g : gname) : Prop :=
  conv (requested r) = Ok g
  \/ (exists a, r_addr r = Some a /\ conv a = Ok g)
  \/ (exists u, r_upstream_opt r = true /\ r_upstream r = Some u /\
        ((exists cn, opt_truthy (u_cn u) = Some cn /\ conv cn = Ok g) \/ In g (u_sans u))).

Lemma upstream_part_names serial u alt org crl :
  upstream_part idna guard serial u = Ok (alt, org, crl) ->
  (forall g, In g alt -> (exists cn, opt_truthy (u_cn u) = Some cn /\ conv cn = Ok g) \/ In g (u_sans u))
  /\ org = opt_truthy (u_org u).
Proof.
  unfold upstream_part. destruct (opt_truthy (u_cn u)) as [cn|] eqn:Ecn; simpl.
  - destruct (conv cn) as [g0|e] eqn:Eg; simpl.
    + intros H; inversion H; subst. split; [|reflexivity].
      intros g [Hg|Hg]; [left; exists cn; subst; auto | right; exact Hg].
    + destruct guard; simpl; [|discriminate].
      intros H; inversion H; subst. split; [|reflexivity]. intros g Hg; right; exact Hg.
  - intros H; inversion H; subst. split; [|reflexivity]. intros g Hg; right; exact Hg.
Qed.

Lemma get_cert_names_spec serial r n :
  get_cert_names idna guard serial r = Ok n ->
  (forall g, In g (n_alt n) -> allowed r g)
  /\ (exists g1, conv (requested r) = Ok g1 /\ In g1 (n_alt n))
  /\ n_cn n = match n_alt n with x :: _ => Some (str_value x) | [] => None end
  /\ n_alt n <> []
  /\ n_org n <> Some [].
Proof.
  unfold get_cert_names.
  destruct (match r_upstream_opt r, r_upstream r with
            | true, Some u => upstream_part idna guard serial u
            | _, _ => Ok ([], None, None) end) as [[[alt0 org] crl]|e] eqn:Eup; simpl; [|discriminate].
  destruct (conv (requested r)) as [g1|e] eqn:E1; simpl; [|discriminate].
  assert (Hup : (forall g, In g alt0 -> exists u, r_upstream_opt r = true /\ r_upstream r = Some u /\
                  ((exists cn, opt_truthy (u_cn u) = Some cn /\ conv cn = Ok g) \/ In g (u_sans u)))
                /\ org <> Some []).
  { destruct (r_upstream_opt r) eqn:Eo; [destruct (r_upstream r) as [u|] eqn:Eu|].
    - apply upstream_part_names in Eup as [Ha Ho]. split.
      + intros g Hg. exists u. auto.
      + subst org. unfold opt_truthy. destruct (u_org u) as [[|c o]|]; simpl; congruence.
    - inversion Eup; subst. split; [intros g []|discriminate].
    - inversion Eup; subst. split; [intros g []|discriminate]. }
  destruct Hup as [Hup Horg].
  destruct (r_addr r) as [a|] eqn:Ea; simpl.
  - destruct (conv a) as [g2|e] eqn:E2; simpl; [|discriminate].
    intros H; inversion H; subst; clear H. cbn [n_alt n_cn n_org].
    repeat split.
    + intros g Hg. apply (proj1 (dedup_in _ _)) in Hg. apply in_app_or in Hg as [Hg|[Hg|[Hg|[]]]].
      * right; right. apply Hup; exact Hg.
      * left. subst g; exact E1.
      * right; left. exists a. subst g. auto.
    + exists g1. split; [reflexivity|]. apply dedup_in. apply in_or_app. right. left. reflexivity.
    + apply dedup_nonempty. destruct alt0; discriminate.
    + exact Horg.
  - intros H; inversion H; subst; clear H. cbn [n_alt n_cn n_org].
    repeat split.
    + intros g Hg. apply (proj1 (dedup_in _ _)) in Hg. apply in_app_or in Hg as [Hg|[Hg|[]]].
      * right; right. apply Hup; exact Hg.
      * left. subst g; exact E1.
    + exists g1. split; [reflexivity|]. apply dedup_in. apply in_or_app. right. left. reflexivity.
    + apply dedup_nonempty. destruct alt0; discriminate.
    + exact Horg.
Qed.

(* ------------------------------------------------------------------ what dummy_cert makes of them *)
Definition valid_cn (n : names) : bool :=
  match n_cn n with Some c => (str_len c <? 64)%N | None => false end.

Lemma dummy_cert_fields issuer now n c :
  dummy_cert off exp crit issuer now n = Ok c ->
  c_issuer c = ca_subject issuer /\ c_signer c = ca_key issuer
  /\ c_sans c = map wire_gname (n_alt n)
  /\ c_cn c = (if valid_cn n then n_cn n else None)
  /\ c_san_critical c = negb (if crit then valid_cn n || is_some (n_org n) else valid_cn n)
  /\ c_eku c = [EKU_SERVER_AUTH]
  /\ c_nb c = (now + off)%Z /\ c_na c = (now + off + exp)%Z
  /\ c_aki c = (match ca_ski issuer with Some s => s | None => ca_key_sha1 issuer end)
  /\ c_org c = n_org n.
Proof.
  unfold dummy_cert, valid_cn.
  destruct (match n_cn n with
            | Some c0 => if (match n_cn n with Some c1 => (str_len c1 <? 64)%N | None => false end) && is_nil c0
                         then Err EValue else Ok tt
            | None => Ok tt end); simpl; [|discriminate].
  destruct (match n_org n with Some [] => Err EValue | _ => Ok tt end); simpl; [|discriminate].
  destruct (match n_crl n with
            | Some u => if truthy u && negb (is_ascii u) then Err EValue else Ok tt
            | None => Ok tt end); simpl; [|discriminate].
  intros H; inversion H; subst; clear H. cbn. repeat split; reflexivity.
Qed.

Lemma dummy_cert_total issuer now n :
  n_cn n <> Some [] -> n_org n <> Some [] ->
  (forall u, n_crl n = Some u -> is_ascii u = true) ->
  exists c, dummy_cert off exp crit issuer now n = Ok c.
Proof.
  intros Hcn Horg Hcrl. unfold dummy_cert.
  assert (E1 : match n_cn n with
               | Some c0 => if (match n_cn n with Some c1 => (str_len c1 <? 64)%N | None => false end) && is_nil c0
                            then Err EValue else Ok tt
               | None => Ok tt end = Ok tt).
  { destruct (n_cn n) as [[|b c0]|] eqn:Ecn; [exfalso; apply Hcn; reflexivity| |reflexivity]. simpl. rewrite andb_false_r. reflexivity. }
  rewrite E1. simpl.
  assert (E2 : match n_org n with Some [] => Err EValue | _ => Ok tt end = Ok tt).
  { destruct (n_org n) as [[|b o]|] eqn:Eorg; [exfalso; apply Horg; reflexivity|reflexivity|reflexivity]. }
  rewrite E2. simpl.
  assert (E3 : match n_crl n with
               | Some u => if truthy u && negb (is_ascii u) then Err EValue else Ok tt
               | None => Ok tt end = Ok tt).
  { destruct (n_crl n) as [u|]; [|reflexivity]. rewrite (Hcrl u eq_refl). simpl. rewrite andb_false_r. reflexivity. }
  rewrite E3. simpl. eexists; reflexivity.
Qed.

(* issue = get_cert_names then dummy_cert (the fresh store has no entry) *)
Lemma issue_split issuer serial now r c :
  issue idna off exp guard crit issuer serial now r = Ok c ->
  exists n, get_cert_names idna guard serial r = Ok n /\ dummy_cert off exp crit issuer now n = Ok c.
Proof.
  unfold issue, issue_on. destruct (get_cert_names idna guard serial r) as [n|e]; simpl; [|discriminate].
  unfold store_get_cert. simpl. destruct (dummy_cert off exp crit issuer now n) as [c0|e] eqn:Ed; simpl; [|discriminate].
  intros H; inversion H; subst. exists n. auto.
Qed.

(* reference identity of a converted name *)
Definition target_of (g : gname) : target :=
  match g with GDNS h => THost h | GIP a => TIP (packed a) | GOther _ _ => THost [] end.
Definition target_clean (g : gname) : bool :=
  match g with GDNS h => negb (has_nul h) | _ => true end.

Lemma conv_not_other s g : conv s = Ok g -> match g with GOther _ _ => False | _ => True end.
Proof.
  unfold ip_or_dns_name. destruct (ip_address s); [intros H; inversion H; exact I|].
  destruct (idna_encode idna s) as [a|]; [|discriminate].
  destruct (is_ascii a); [intros H; inversion H; exact I | discriminate].
Qed.

Lemma packed_wire a : match wire_gname (GIP a) with GIP a' => packed a' = packed a | _ => False end.
Proof. destruct a; reflexivity. Qed.

Lemma name_match_member cs c g :
  In (wire_gname g) (c_sans c) -> match g with GOther _ _ => False | _ => True end ->
  target_clean g = true -> name_match cs c (target_of g) = true.
Proof.
  intros Hin Hk Hc. destruct g as [h|a|k x]; [| |contradiction]; simpl in *.
  - apply negb_true_iff in Hc. unfold host_match. rewrite Hc.
    assert (E : existsb (fun p => equal_wildcard p h) (dns_names (c_sans c)) = true).
    { apply existsb_exists. exists h. split; [|apply equal_wildcard_refl; exact Hc].
      unfold dns_names. apply in_flat_map. exists (GDNS h). split; [exact Hin | left; reflexivity]. }
    rewrite E. reflexivity.
  - unfold ip_match. apply existsb_exists. exists (packed a). split; [|apply bytes_eqb_refl].
    unfold ip_names. apply in_flat_map. exists (wire_gname (GIP a)). split; [exact Hin|].
    pose proof (packed_wire a) as Hp. destruct (wire_gname (GIP a)) as [|a'|]; try contradiction.
    left. exact Hp.
Qed.

(* the strict rule: an empty subject comes with a critical SAN, in both forms of the criticality expression *)
Lemma subject_or_critical n c :
  c_cn c = (if valid_cn n then n_cn n else None) ->
  c_san_critical c = negb (if crit then valid_cn n || is_some (n_org n) else valid_cn n) ->
  c_org c = n_org n ->
  has_subject c || c_san_critical c = true.
Proof.
  intros Hccn Hcrit Horg. unfold has_subject. rewrite Hccn, Hcrit, Horg. unfold valid_cn.
  destruct (n_cn n) as [v|]; [destruct (str_len v <? 64)%N; [reflexivity|]|];
    destruct crit; destruct (n_org n); reflexivity.
Qed.

Lemma subject_iff_not_critical n c :
  crit = true ->
  c_cn c = (if valid_cn n then n_cn n else None) ->
  c_san_critical c = negb (if crit then valid_cn n || is_some (n_org n) else valid_cn n) ->
  c_org c = n_org n ->
  c_san_critical c = negb (has_subject c).
Proof.
  intros -> Hccn Hcrit Horg. unfold has_subject. rewrite Hccn, Hcrit, Horg. unfold valid_cn.
  destruct (n_cn n) as [v|]; [destruct (str_len v <? 64)%N|]; destruct (n_org n); reflexivity.
Qed.

(* T1: the served certificate verifies for the requested identity *)
Theorem verifies issuer serial now tz r c cs g :
  issue idna off exp guard crit issuer serial (now + tz) r = Ok c ->
  (off + tz <= 0)%Z -> (0 <= off + exp + tz)%Z ->
  ca_ok issuer now = true ->
  conv (requested r) = Ok g -> target_clean g = true ->
  x509_ok cs issuer c now (target_of g) = true.
Proof.
  intros Hi Hlo Hhi Hca Hg Hclean.
  apply issue_split in Hi as [n [Hn Hd]].
  apply get_cert_names_spec in Hn as [_ [[g1 [Hg1 Hin]] [Hcn [Hne _]]]].
  rewrite Hg in Hg1. inversion Hg1; subst g1.
  apply dummy_cert_fields in Hd as [Hiss [Hsig [Hsans [Hccn [Hcrit [Heku [Hnb [Hna [Haki Horg]]]]]]]]].
  unfold x509_ok.
  rewrite Hiss, Hsig, !N.eqb_refl. cbn [andb].
  assert (Ea : akid_ok issuer c = true).
  { unfold akid_ok. rewrite Haki. destruct (ca_ski issuer); [apply bytes_eqb_refl | reflexivity]. }
  rewrite Ea, Hca. cbn [andb].
  assert (Et : zle3 (c_nb c) now (c_na c) = true).
  { unfold zle3. rewrite Hnb, Hna. apply andb_true_iff. split; apply Z.leb_le; lia. }
  rewrite Et, Heku. cbn [andb existsb orb]. rewrite N.eqb_refl. cbn [orb andb].
  assert (Es : negb (is_nil (c_sans c)) = true).
  { rewrite Hsans. destruct (n_alt n); [congruence | reflexivity]. }
  rewrite Es. cbn [andb].
  assert (Ec : has_subject c || c_san_critical c = true).
  { apply (subject_or_critical n c); assumption. }
  rewrite Ec. cbn [andb].
  apply name_match_member; [| eapply conv_not_other; exact Hg | exact Hclean].
  rewrite Hsans. apply in_map. exact Hin.
Qed.

(* T2: the certificate names only identities taken from the request and the upstream certificate *)
Theorem names_allowed issuer serial now r c :
  issue idna off exp guard crit issuer serial now r = Ok c ->
  (forall g, In g (c_sans c) -> exists g0, g = wire_gname g0 /\ allowed r g0)
  /\ (forall v, c_cn c = Some v -> exists g0, In (wire_gname g0) (c_sans c) /\ allowed r g0 /\ v = str_value g0).
Proof.
  intros Hi. apply issue_split in Hi as [n [Hn Hd]].
  apply get_cert_names_spec in Hn as [Hall [_ [Hcn _]]].
  apply dummy_cert_fields in Hd as [_ [_ [Hsans [Hccn _]]]].
  split.
  - intros g Hg. rewrite Hsans in Hg. apply in_map_iff in Hg as [g0 [E Hin]].
    exists g0. split; [symmetry; exact E | apply Hall; exact Hin].
  - intros v Hv. rewrite Hccn in Hv. destruct (valid_cn n); [|discriminate].
    rewrite Hcn in Hv. destruct (n_alt n) as [|x l] eqn:El; [discriminate|].
    inversion Hv; subst v. exists x. repeat split.
    + rewrite Hsans. apply in_map. left; reflexivity.
    + apply Hall. left; reflexivity.
Qed.

(* T3: issued by the CA, for server authentication, critical SAN when the subject is empty, AKI = issuer SKI *)
Theorem issued_by_ca issuer serial now r c :
  issue idna off exp guard crit issuer serial now r = Ok c ->
  c_issuer c = ca_subject issuer /\ c_signer c = ca_key issuer
  /\ In EKU_SERVER_AUTH (c_eku c)
  /\ c_sans c <> []
  /\ (has_subject c = false -> c_san_critical c = true)
  /\ (forall s, ca_ski issuer = Some s -> c_aki c = s)
  /\ c_nb c = (now + off)%Z /\ c_na c = (now + off + exp)%Z.
Proof.
  intros Hi. apply issue_split in Hi as [n [Hn Hd]].
  apply get_cert_names_spec in Hn as [_ [_ [_ [Hne _]]]].
  apply dummy_cert_fields in Hd as [Hiss [Hsig [Hsans [Hccn [Hcrit [Heku [Hnb [Hna [Haki Horg]]]]]]]]].
  repeat split; try assumption.
  - rewrite Heku. left; reflexivity.
  - rewrite Hsans. destruct (n_alt n); [congruence | discriminate].
  - intros Hs. pose proof (subject_or_critical n c Hccn Hcrit Horg) as H. rewrite Hs in H. exact H.
  - intros s Hs. rewrite Haki, Hs. reflexivity.
Qed.

(* T3b: RFC 5280 4.2.1.6 both ways -- the SAN is critical exactly when the subject is empty (repaired form) *)
Theorem san_criticality issuer serial now r c :
  crit = true ->
  issue idna off exp guard crit issuer serial now r = Ok c ->
  c_san_critical c = negb (has_subject c).
Proof.
  intros Hc Hi. apply issue_split in Hi as [n [Hn Hd]].
  apply dummy_cert_fields in Hd as [_ [_ [_ [Hccn [Hcrit [_ [_ [_ [_ Horg]]]]]]]]].
  eapply subject_iff_not_critical; eassumption.
Qed.

(* T4: when is a certificate issued at all *)
Definition encodable (s : bytes) : Prop := exists g, conv s = Ok g.

Definition upstream_cn_ok (r : req) : Prop :=
  forall u cn, r_upstream_opt r = true -> r_upstream r = Some u -> opt_truthy (u_cn u) = Some cn -> encodable cn.

Lemma names_total serial r :
  encodable (requested r) -> (forall a, r_addr r = Some a -> encodable a) ->
  (guard = true \/ upstream_cn_ok r) ->
  exists n, get_cert_names idna guard serial r = Ok n.
Proof.
  intros [g1 H1] Ha Hup. unfold get_cert_names.
  assert (E : exists x, match r_upstream_opt r, r_upstream r with
                        | true, Some u => upstream_part idna guard serial u
                        | _, _ => Ok ([], None, None) end = Ok x).
  { destruct (r_upstream_opt r) eqn:Eo; [|eexists; reflexivity].
    destruct (r_upstream r) as [u|] eqn:Eu; [|eexists; reflexivity].
    unfold upstream_part. destruct (opt_truthy (u_cn u)) as [cn|] eqn:Ecn; simpl; [|eexists; reflexivity].
    destruct (conv cn) as [g|e] eqn:Eg; simpl; [eexists; reflexivity|].
    destruct Hup as [->|Hup]; [simpl; eexists; reflexivity|].
    destruct (Hup u cn Eo Eu Ecn) as [g Hg]. congruence. }
  destruct E as [[[alt0 org] crl] E]. rewrite E. simpl. rewrite H1. simpl.
  destruct (r_addr r) as [a|]; simpl; [|eexists; reflexivity].
  destruct (Ha a eq_refl) as [g2 H2]. rewrite H2. simpl. eexists; reflexivity.
Qed.

Theorem issues issuer serial now r :
  encodable (requested r) -> (forall a, r_addr r = Some a -> encodable a) ->
  (guard = true \/ upstream_cn_ok r) ->
  (forall n, get_cert_names idna guard serial r = Ok n ->
     n_cn n <> Some [] /\ (forall u, n_crl n = Some u -> is_ascii u = true)) ->
  exists c, issue idna off exp guard crit issuer serial now r = Ok c.
Proof.
  intros H1 Ha Hup Hn. destruct (names_total serial r H1 Ha Hup) as [n En].
  destruct (Hn n En) as [Hcn Hcrl].
  pose proof (get_cert_names_spec serial r n En) as [_ [_ [_ [_ Horg]]]].
  destruct (dummy_cert_total issuer now n Hcn Horg Hcrl) as [c Ec].
  exists c. unfold issue, issue_on. rewrite En. simpl. unfold store_get_cert. simpl. rewrite Ec. reflexivity.
Qed.

(* T5: any store whose entries were made by dummy_cert for their key serves only allowed names *)
Definition store_wf (st : store) : Prop :=
  forall k c, In (k, c) st ->
    c_sans c = map wire_gname (snd k)
    /\ (forall v, c_cn c = Some v -> fst k = Some v).

Lemma key_eqb_eq a b : key_eqb a b = true -> a = b.
Proof.
  destruct a as [c1 s1], b as [c2 s2]. unfold key_eqb. simpl. intros H.
  apply andb_true_iff in H as [H1 H2]. apply option_bytes_eqb_eq in H1. subst c2. f_equal.
  revert s2 H2. induction s1 as [|x s1 IH]; intros [|y s2] H; simpl in H; try discriminate; [reflexivity|].
  apply andb_true_iff in H as [Hx Hs]. apply gname_eqb_eq in Hx. subst y. f_equal. apply IH; exact Hs.
Qed.

Lemma store_get_in k st c : store_get k st = Some c -> In (k, c) st.
Proof.
  induction st as [|[k' c'] st IH]; simpl; [discriminate|].
  destruct (key_eqb k' k) eqn:E.
  - intros H; inversion H; subst. apply key_eqb_eq in E. subst. left; reflexivity.
  - intros H. right. apply IH; exact H.
Qed.

Theorem served_from_any_store issuer serial now st r st' c :
  store_wf st ->
  issue_on idna off exp guard crit issuer serial now st r = Ok (st', c) ->
  store_wf st'
  /\ (forall g, In g (c_sans c) -> exists g0, g = wire_gname g0 /\ allowed r g0)
  /\ (forall v, c_cn c = Some v -> exists g0, In (wire_gname g0) (c_sans c) /\ allowed r g0 /\ v = str_value g0).
Proof.
  intros Hwf. unfold issue_on.
  destruct (get_cert_names idna guard serial r) as [n|e] eqn:En; simpl; [|discriminate].
  pose proof (get_cert_names_spec serial r n En) as [Hall [_ [Hcn _]]].
  unfold store_get_cert.
  assert (Hserve : forall c0, c_sans c0 = map wire_gname (n_alt n) -> (forall v, c_cn c0 = Some v -> n_cn n = Some v) ->
            (forall g, In g (c_sans c0) -> exists g0, g = wire_gname g0 /\ allowed r g0)
            /\ (forall v, c_cn c0 = Some v -> exists g0, In (wire_gname g0) (c_sans c0) /\ allowed r g0 /\ v = str_value g0)).
  { intros c0 Hs Hc. split.
    - intros g Hg. rewrite Hs in Hg. apply in_map_iff in Hg as [g0 [E Hin]].
      exists g0. split; [symmetry; exact E | apply Hall; exact Hin].
    - intros v Hv. apply Hc in Hv. rewrite Hcn in Hv. destruct (n_alt n) as [|x l] eqn:El; [discriminate|].
      inversion Hv; subst v. exists x. repeat split.
      + rewrite Hs. apply in_map. left; reflexivity.
      + apply Hall. left; reflexivity. }
  destruct (store_get (n_cn n, n_alt n) st) as [c0|] eqn:Eg.
  - intros H; inversion H; subst; clear H. split; [exact Hwf|].
    apply store_get_in in Eg. destruct (Hwf _ _ Eg) as [Hs Hc]. apply Hserve; assumption.
  - destruct (dummy_cert off exp crit issuer now n) as [c0|e] eqn:Ed; simpl; [|discriminate].
    intros H; inversion H; subst; clear H.
    apply dummy_cert_fields in Ed as [_ [_ [Hsans [Hccn _]]]].
    assert (Hc : forall v, c_cn c = Some v -> n_cn n = Some v).
    { intros v Hv. rewrite Hccn in Hv. destruct (valid_cn n); [exact Hv | discriminate]. }
    split; [|apply Hserve; assumption].
    intros k c1 Hin. apply in_app_or in Hin as [Hin|[Hin|[]]]; [apply Hwf; exact Hin|].
    inversion Hin; subst. split; assumption.
Qed.

End Code.

(* ------------------------------------------------------------------ the constants of the source tree *)
(* the window contains the time of issue for every local clock within a day of UTC *)
Lemma validity_source : forall tz : Z,
  (-86400 <= tz <= 86400)%Z ->
  (VALIDITY_OFFSET + tz <= 0)%Z /\ (0 <= VALIDITY_OFFSET + CERT_EXPIRY + tz)%Z.
Proof. intros tz H. unfold VALIDITY_OFFSET, CERT_EXPIRY. lia. Qed.

Theorem verifies_source idna issuer serial now tz r c cs g :
  issue idna VALIDITY_OFFSET CERT_EXPIRY CN_GUARDED SAN_CRIT_BY_SUBJECT issuer serial (now + tz) r = Ok c ->
  (-86400 <= tz <= 86400)%Z ->
  ca_ok issuer now = true ->
  ip_or_dns_name idna (requested r) = Ok g -> target_clean g = true ->
  x509_ok cs issuer c now (target_of g) = true.
Proof.
  intros Hi Htz Hca Hg Hc. destruct (validity_source tz Htz) as [H1 H2].
  eapply verifies; eassumption.
Qed.

(* ------------------------------------------------------------------ concrete witnesses *)
Definition no_idna : bytes -> option bytes := fun _ => None.
Definition ca0 : ca := mkCa 1 1 (Some [x01; x02]) [x03] true true (-1000000)%Z 400000000%Z.

Definition long_cn_req : req :=
  mkReq true (Some (B "example.com")) (B "127.0.0.1") (Some (B "example.com"))
        (Some (mkUcert (Some (repeat x78 64)) [GDNS (B "example.com")] None None)).

(* without the guard an upstream CN of 64 characters (legal in X.509) makes get_cert raise *)
Lemma unguarded_cn_raises :
  issue no_idna VALIDITY_OFFSET CERT_EXPIRY false false ca0 5 0 long_cn_req = Err EIdna
  /\ encodable no_idna (requested long_cn_req)
  /\ (forall a, r_addr long_cn_req = Some a -> encodable no_idna a).
Proof.
  split; [vm_compute; reflexivity|]. split.
  - eexists. vm_compute. reflexivity.
  - intros a H. inversion H; subst. eexists. vm_compute. reflexivity.
Qed.

Lemma issues_refuted :
  exists r,
    encodable no_idna (requested r)
    /\ (forall a, r_addr r = Some a -> encodable no_idna a)
    /\ issue no_idna VALIDITY_OFFSET CERT_EXPIRY false false ca0 5 0 r = Err EIdna.
Proof. exists long_cn_req. destruct unguarded_cn_raises as [H1 [H2 H3]]. auto. Qed.

Lemma guarded_cn_issues :
  exists c, issue no_idna VALIDITY_OFFSET CERT_EXPIRY true false ca0 5 0 long_cn_req = Ok c
            /\ c_sans c = [GDNS (B "example.com")].
Proof. eexists. split; vm_compute; reflexivity. Qed.

Definition sample_req : req :=
  mkReq true (Some (B "*.example.com")) (B "10.0.0.1") (Some (B "fe80::1%eth0"))
        (Some (mkUcert (Some (B "up.example")) [GDNS (B "*.up.example"); GIP (V4 16909060); GDNS (B "up.example")]
                       (Some (B "Org")) (Some (Some (B "http", B "crl.example"))))).

Definition sample_cert : cert :=
  mkCert 1 1 1 (Some (B "up.example")) (Some (B "Org"))
    [GDNS (B "up.example"); GDNS (B "*.up.example"); GIP (V4 16909060); GDNS (B "*.example.com");
     GIP (V6 338288524927261089654018896841347694593 None)]
    false [1%N] (-172800 + 3600)%Z (-172800 + 3600 + 17193600)%Z [x01; x02]
    (Some (B "http://crl.example/mitmproxy-5.crl")).

Lemma sample_ok :
  issue no_idna (-172800) 17193600 false false ca0 5 3600 sample_req = Ok sample_cert
  /\ x509_ok false ca0 sample_cert 0 (THost (B "*.example.com")) = true
  /\ x509_ok false ca0 sample_cert 0 (THost (B "www.example.com")) = true
  /\ x509_ok false ca0 sample_cert 0 (THost (B "a.b.example.com")) = false
  /\ x509_ok false ca0 sample_cert 0 (THost (B "example.com")) = false
  /\ x509_ok true ca0 sample_cert 0 (TIP [x01; x02; x03; x04]) = true
  /\ x509_ok true ca0 sample_cert 0 (TIP [x01; x02; x03; x05]) = false
  /\ x509_ok false ca0 sample_cert (17193600 - 172800 + 3601) (THost (B "up.example")) = false.
Proof. repeat split; vm_compute; reflexivity. Qed.

(* a name of 64 or more characters (no CN) together with an upstream organization: subject not empty *)
Definition long_name_org_req : req :=
  mkReq true (Some (repeat x78 63 ++ B ".example.com")) (B "127.0.0.1") None
        (Some (mkUcert None [] (Some (B "Org")) None)).

Lemma critical_with_subject_unrepaired :
  exists c, issue no_idna VALIDITY_OFFSET CERT_EXPIRY false false ca0 5 0 long_name_org_req = Ok c
            /\ has_subject c = true /\ c_san_critical c = true.
Proof. eexists. repeat split; vm_compute; reflexivity. Qed.

Lemma critical_with_subject_repaired :
  exists c, issue no_idna VALIDITY_OFFSET CERT_EXPIRY false true ca0 5 0 long_name_org_req = Ok c
            /\ has_subject c = true /\ c_san_critical c = false.
Proof. eexists. repeat split; vm_compute; reflexivity. Qed.
