(* Proofs/ViewBase.v -- lemmas about the monad, the dictionaries and the sorted-list functions of Model/View.v *)
From Coq Require Import List Bool Arith NArith ZArith Lia Permutation Sorted.
From MV Require Import Base.Bytes Model.View.
Import ListNotations.

(* ---------- monad ---------- *)
Lemma bind_ok {A B} (m : M A) (k : A -> M B) s a s1 : m s = Ok (a, s1) -> bind m k s = k a s1.
Proof. intros E. unfold bind. rewrite E. reflexivity. Qed.
Lemma bind_gets {A B} (f : state -> A) (k : A -> M B) s : bind (gets f) k s = k (f s) s.
Proof. reflexivity. Qed.
Lemma bind_modify {B} (f : state -> state) (k : unit -> M B) s : bind (modify f) k s = k tt (f s).
Proof. reflexivity. Qed.
Lemma bind_ret {A B} (a : A) (k : A -> M B) s : bind (ret a) k s = k a s.
Proof. reflexivity. Qed.
Lemma bind_assoc {A B C} (m : M A) (k : A -> M B) (h : B -> M C) s :
  bind (bind m k) h s = bind m (fun a => bind (k a) h) s.
Proof. unfold bind. destruct (m s) as [[a s1]|e]; reflexivity. Qed.

(* ---------- memN ---------- *)
Lemma memN_In x l : memN x l = true <-> In x l.
Proof.
  unfold memN. rewrite existsb_exists. split.
  - intros (y & Hy & E). apply N.eqb_eq in E. subst. exact Hy.
  - intros H. exists x. split; [exact H | apply N.eqb_refl].
Qed.
Lemma memN_false x l : memN x l = false <-> ~ In x l.
Proof.
  split.
  - intros H Hin. apply memN_In in Hin. congruence.
  - intros H. destruct (memN x l) eqn:E; [|reflexivity]. apply memN_In in E. contradiction.
Qed.

(* ---------- heap ---------- *)
Lemma hget_hset h f id : hget (hset h f) id = if N.eqb (fid f) id then f else hget h id.
Proof.
  induction h as [|g t IH]; simpl.
  - destruct (N.eqb (fid f) id); reflexivity.
  - destruct (N.eqb (fid g) (fid f)) eqn:E; simpl.
    + apply N.eqb_eq in E. rewrite E. destruct (N.eqb (fid f) id); reflexivity.
    + destruct (N.eqb (fid g) id) eqn:E2.
      * apply N.eqb_eq in E2. destruct (N.eqb (fid f) id) eqn:E3; [|reflexivity].
        apply N.eqb_eq in E3. apply N.eqb_neq in E. congruence.
      * exact IH.
Qed.

(* ---------- caches ---------- *)
Lemma order_eqb_eq a b : order_eqb a b = true <-> a = b.
Proof. destruct a, b; simpl; split; intros; congruence. Qed.
Lemma cget_cset o o' k c : cget o (cset o' k c) = if order_eqb o o' then Some k else cget o c.
Proof. destruct o, o'; reflexivity. Qed.
Lemma cget_cempty o : cget o cempty = None.
Proof. destruct o; reflexivity. Qed.

Lemma sget_sset l id c id' : sget (sset l id c) id' = if N.eqb id id' then Some c else sget l id'.
Proof.
  induction l as [|[i c0] t IH]; simpl.
  - destruct (N.eqb id id'); reflexivity.
  - destruct (N.eqb i id) eqn:E; simpl.
    + apply N.eqb_eq in E. subst i. destruct (N.eqb id id'); reflexivity.
    + destruct (N.eqb i id') eqn:E2.
      * apply N.eqb_eq in E2. subst i. rewrite N.eqb_sym in E. rewrite E. reflexivity.
      * exact IH.
Qed.
Lemma sset_ids l id c x : In x (map fst (sset l id c)) -> x = id \/ In x (map fst l).
Proof.
  induction l as [|[i c0] t IH]; simpl.
  - intros [H|[]]; auto.
  - destruct (N.eqb i id) eqn:E; simpl.
    + apply N.eqb_eq in E. subst. intros [H|H]; auto.
    + intros [H|H]; auto. destruct (IH H); auto.
Qed.
Lemma sget_ids l id c : sget l id = Some c -> In id (map fst l).
Proof.
  induction l as [|[i c0] t IH]; simpl; [discriminate|].
  destruct (N.eqb i id) eqn:E; [apply N.eqb_eq in E; auto | auto].
Qed.
Lemma sget_filter l p id : p id = true -> sget (filter (fun e => p (fst e)) l) id = sget l id.
Proof.
  intros Hp. induction l as [|[i c0] t IH]; simpl; [reflexivity|].
  destruct (p i) eqn:E; simpl.
  - destruct (N.eqb i id); [reflexivity | exact IH].
  - destruct (N.eqb i id) eqn:E2; [apply N.eqb_eq in E2; congruence | exact IH].
Qed.
Lemma sget_filter_sub l (p : N * cache -> bool) id c : sget (filter p l) id = Some c -> exists c', sget l id = Some c'.
Proof.
  induction l as [|[i c0] t IH]; simpl; [discriminate|].
  destruct (p (i, c0)); simpl.
  - destruct (N.eqb i id); [eauto | exact IH].
  - destruct (N.eqb i id); [eauto | exact IH].
Qed.

(* ---------- sorted (key, id) lists ---------- *)
Definition keys (v : list (N * N)) : list N := map fst v.
Definition ksorted (v : list (N * N)) : Prop := StronglySorted N.le (keys v).

Lemma ksorted_nil : ksorted []. Proof. constructor. Qed.
Lemma ksorted_cons k id v : ksorted ((k, id) :: v) <-> ksorted v /\ Forall (N.le k) (keys v).
Proof.
  unfold ksorted; simpl. split.
  - intros H. inversion H; subst. auto.
  - intros [H1 H2]. constructor; assumption.
Qed.

Lemma sl_add_perm k id v : Permutation (sl_add k id v) ((k, id) :: v).
Proof.
  induction v as [|[k' id'] t IH]; simpl; [reflexivity|].
  destruct (N.leb k' k); [|reflexivity].
  rewrite IH. apply perm_swap.
Qed.
Lemma sl_add_sorted k id v : ksorted v -> ksorted (sl_add k id v).
Proof.
  induction v as [|[k' id'] t IH]; simpl; intros H.
  - apply ksorted_cons. split; [constructor | constructor].
  - apply ksorted_cons in H as [H1 H2].
    destruct (N.leb k' k) eqn:E.
    + apply ksorted_cons. split; [auto|].
      apply N.leb_le in E.
      assert (P : Permutation (keys (sl_add k id t)) (k :: keys t)).
      { unfold keys. rewrite (sl_add_perm k id t). reflexivity. }
      eapply Permutation_Forall; [symmetry; exact P|]. constructor; assumption.
    + apply N.leb_gt in E. apply ksorted_cons. split.
      * apply ksorted_cons. auto.
      * simpl. constructor; [lia|]. eapply Forall_impl; [|exact H2]. intros; simpl in *; lia.
Qed.

Lemma sl_index_some k id v i : sl_index k id v = Some i -> nth_error v i = Some (k, id).
Proof.
  revert i. induction v as [|[k' id'] t IH]; simpl; intros i; [discriminate|].
  destruct (N.ltb k' k).
  - destruct (sl_index k id t); simpl; [|discriminate]. intros [= <-]. simpl. auto.
  - destruct (N.eqb k' k) eqn:E; [|discriminate]. apply N.eqb_eq in E. subst k'.
    destruct (N.eqb id' id) eqn:E2.
    + apply N.eqb_eq in E2. subst. intros [= <-]. reflexivity.
    + destruct (sl_index k id t); simpl; [|discriminate]. intros [= <-]. simpl. auto.
Qed.
Lemma sl_index_in k id v : ksorted v -> In (k, id) v -> exists i, sl_index k id v = Some i.
Proof.
  induction v as [|[k' id'] t IH]; simpl; intros Hs Hin; [contradiction|].
  apply ksorted_cons in Hs as [H1 H2].
  destruct Hin as [Hin|Hin].
  - inversion Hin; subst. rewrite N.ltb_irrefl, !N.eqb_refl. eauto.
  - assert (k' <= k)%N.
    { rewrite Forall_forall in H2. apply H2. unfold keys. change k with (fst (k, id)). apply in_map. exact Hin. }
    destruct (IH H1 Hin) as [i Hi]. rewrite Hi. simpl.
    destruct (N.ltb k' k) eqn:E; [eauto|].
    apply N.ltb_ge in E. assert (k' = k) by lia. subst. rewrite N.eqb_refl.
    destruct (N.eqb id' id); eauto.
Qed.
Lemma sl_index_none k id v : ~ In id (map snd v) -> sl_index k id v = None.
Proof.
  intros H. destruct (sl_index k id v) eqn:E; [|reflexivity].
  apply sl_index_some in E. apply nth_error_In in E. exfalso. apply H.
  change id with (snd (k, id)). apply in_map. exact E.
Qed.

Lemma sl_remove_some k id v v' : sl_remove k id v = Some v' ->
  exists l1 l2, v = l1 ++ (k, id) :: l2 /\ v' = l1 ++ l2.
Proof.
  revert v'. induction v as [|[k' id'] t IH]; simpl; intros v'; [discriminate|].
  destruct (N.ltb k' k).
  - destruct (sl_remove k id t) as [w|]; simpl; [|discriminate]. intros [= <-].
    destruct (IH w eq_refl) as (l1 & l2 & -> & ->). exists ((k', id') :: l1), l2. auto.
  - destruct (N.eqb k' k) eqn:E; [|discriminate]. apply N.eqb_eq in E. subst k'.
    destruct (N.eqb id' id) eqn:E2.
    + apply N.eqb_eq in E2. subst. intros [= <-]. exists [], t. auto.
    + destruct (sl_remove k id t) as [w|]; simpl; [|discriminate]. intros [= <-].
      destruct (IH w eq_refl) as (l1 & l2 & -> & ->). exists ((k, id') :: l1), l2. auto.
Qed.
Lemma sl_remove_in k id v : ksorted v -> In (k, id) v -> exists v', sl_remove k id v = Some v'.
Proof.
  induction v as [|[k' id'] t IH]; simpl; intros Hs Hin; [contradiction|].
  apply ksorted_cons in Hs as [H1 H2].
  destruct Hin as [Hin|Hin].
  - inversion Hin; subst. rewrite N.ltb_irrefl, !N.eqb_refl. eauto.
  - assert (k' <= k)%N.
    { rewrite Forall_forall in H2. apply H2. unfold keys. change k with (fst (k, id)). apply in_map. exact Hin. }
    destruct (IH H1 Hin) as [w Hw]. rewrite Hw. simpl.
    destruct (N.ltb k' k) eqn:E; [eauto|].
    apply N.ltb_ge in E. assert (k' = k) by lia. subst. rewrite N.eqb_refl.
    destruct (N.eqb id' id); eauto.
Qed.

Lemma ksorted_app_remove l1 x l2 : ksorted (l1 ++ x :: l2) -> ksorted (l1 ++ l2).
Proof.
  unfold ksorted, keys. rewrite !map_app. simpl.
  induction (map fst l1) as [|a t IH]; simpl; intros H.
  - inversion H; assumption.
  - inversion H; subst. constructor; [auto|].
    rewrite Forall_forall in *. intros y Hy. apply H3. rewrite in_app_iff in *. simpl. tauto.
Qed.

Lemma sl_bisect_right_le k v : (sl_bisect_right k v <= length v)%nat.
Proof. induction v as [|[k' id'] t IH]; simpl; [lia|]. destruct (N.leb k' k); lia. Qed.

Lemma sl_sorted_spec kv : ksorted (sl_sorted kv) /\ Permutation (sl_sorted kv) kv.
Proof.
  unfold sl_sorted.
  assert (G : forall acc, ksorted acc ->
            ksorted (fold_left (fun acc e => sl_add (fst e) (snd e) acc) kv acc)
            /\ Permutation (fold_left (fun acc e => sl_add (fst e) (snd e) acc) kv acc) (kv ++ acc)).
  { induction kv as [|[k id] t IH]; simpl; intros acc Ha.
    - split; [exact Ha | reflexivity].
    - destruct (IH (sl_add k id acc) (sl_add_sorted k id acc Ha)) as [H1 H2]. split; [exact H1|].
      rewrite H2. rewrite sl_add_perm. symmetry. apply Permutation_middle. }
  destruct (G [] ksorted_nil) as [H1 H2]. rewrite app_nil_r in H2. auto.
Qed.

(* membership through map snd *)
Lemma in_ids_split (v : list (N * N)) id : In id (map snd v) -> exists k, In (k, id) v.
Proof. rewrite in_map_iff. intros ([k i] & E & H). simpl in E. subst. eauto. Qed.
Lemma in_ids (v : list (N * N)) k id : In (k, id) v -> In id (map snd v).
Proof. intros H. change id with (snd (k, id)). apply in_map. exact H. Qed.
