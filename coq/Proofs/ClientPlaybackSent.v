(* Proofs/ClientPlaybackSent.v -- start_replay accepts exactly the replayable flows, in argument
   order; a replay that ends without an error has a response, and either its request reached the
   server or the response is a stale one the flow already carried when its turn came. *)
From Coq Require Import List Bool Arith Lia.
From MV Require Import Base.Bytes Model.FlowBackup Model.ClientPlayback Proofs.ClientPlaybackLog.
Import ListNotations.
Local Open Scope nat_scope.

(* ------------------------------------------------------------------ start_replay *)
Definition infl_eq (infl : option nat) (i : nat) : bool :=
  match infl with Some j => Nat.eqb i j | None => false end.

Definition ok (infl : option nat) (fs : list cflow) (i : nat) : bool :=
  match nth_error fs i with
  | Some f => match check (infl_eq infl i) f with None => true | Some _ => false end
  | None => false
  end.

Lemma ok_ext : forall infl fs1 fs,
  (forall b j, option_map (check b) (nth_error fs1 j) = option_map (check b) (nth_error fs j)) ->
  forall i, ok infl fs1 i = ok infl fs i.
Proof.
  intros infl fs1 fs H i. unfold ok. specialize (H (infl_eq infl i) i).
  destruct (nth_error fs1 i), (nth_error fs i); simpl in H; try discriminate; auto.
  inversion H. reflexivity.
Qed.

Lemma start_loop_filter : forall ids infl fs q next upd fs' q' nx' upd',
  start_loop infl ids fs q next upd = (fs', q', nx', upd') -> upd' = upd ++ filter (ok infl fs) ids.
Proof.
  induction ids as [|i r IH]; intros infl fs q next upd fs' q' nx' upd' H; simpl in H.
  - inversion H; subst. simpl. rewrite app_nil_r. reflexivity.
  - simpl. unfold ok at 1. unfold infl_eq. destruct (nth_error fs i) as [f|] eqn:N.
    + destruct (check _ f) eqn:C.
      * eapply IH; eauto.
      * rewrite (IH _ _ _ _ _ _ _ _ _ H). rewrite <- app_assoc. simpl. f_equal. f_equal.
        apply filter_ext. apply ok_ext. intros b j. destruct (Nat.eq_dec i j) as [->|D].
        -- rewrite updf_same. destruct (nth_error fs j); simpl; auto. rewrite check_prepare. reflexivity.
        -- rewrite updf_other by exact D. reflexivity.
    + eapply IH; eauto.
Qed.

Lemma ok_iff : forall infl fs i,
  ok infl fs i = true <-> exists f, nth_error fs i = Some f /\ replayable (infl_eq infl i) f.
Proof.
  intros infl fs i. unfold ok. destruct (nth_error fs i) as [f|].
  - destruct (check (infl_eq infl i) f) eqn:C; split.
    + discriminate.
    + intros (g & G & R). inversion G; subst. apply check_table in R. congruence.
    + intros _. exists f. split; auto. apply check_table. exact C.
    + reflexivity.
  - split; [discriminate|]. intros (g & G & _). discriminate.
Qed.

(* start_replay: the accepted flows are exactly the replayable ones among the arguments, in
   argument order with repetitions; they are appended to the queue in that order and announced in
   the update hook; the replay in flight is untouched *)
Theorem submit_spec : forall s ids,
  let acc := filter (ok (inflight s) (flows s)) ids in
  log (step s (Submit ids)) = log s ++ [LSubmit (next_seq s) acc]
  /\ queue (step s (Submit ids)) = queue s ++ combine (seq (next_seq s) (length acc)) acc
  /\ map snd (queue (step s (Submit ids))) = map snd (queue s) ++ acc
  /\ act (step s (Submit ids)) = act s
  /\ (forall i, In i acc <->
        In i ids /\ exists f, nth_error (flows s) i = Some f /\ replayable (infl_eq (inflight s) i) f).
Proof.
  intros s ids acc. simpl. unfold start_replay.
  destruct (start_loop _ _ _ _ _ _) as [[[fs q] nx] upd] eqn:SL.
  pose proof (start_loop_filter _ _ _ _ _ _ _ _ _ _ SL) as F. simpl in F. fold acc in F. subst upd.
  destruct (start_loop_spec _ _ _ _ _ _ _ _ _ _ SL) as (acc' & A1 & A2 & _). simpl in A1. subst acc'.
  simpl. split; [reflexivity|]. split; [exact A2|]. split.
  - rewrite A2, map_app, map_snd_combine_seq. reflexivity.
  - split; [reflexivity|]. intros i. unfold acc. rewrite filter_In, ok_iff. reflexivity.
Qed.

(* ------------------------------------------------------------------ requests really sent *)
Definition fin_sent (l : list ev) : Prop :=
  forall n i r, In (LFin n i r false) l -> r <> None /\ (In (LReq n i) l \/ In (LStale n i) l).

Lemma fin_sent_app : forall l d, fin_sent l ->
  (forall n i r, In (LFin n i r false) d ->
     r <> None /\ (In (LReq n i) (l ++ d) \/ In (LStale n i) (l ++ d))) ->
  fin_sent (l ++ d).
Proof.
  intros l d F D n i r I. apply in_app_or in I. destruct I as [I|I]; [|apply D; exact I].
  destruct (F _ _ _ I) as [A [B|B]]; split; auto; [left|right]; apply in_or_app; left; exact B.
Qed.

Definition sent_inv (s : st) : Prop :=
  (forall a, act s = Some a -> a_phase a <> Connecting -> In (LReq (a_seq a) (a_flow a)) (log s))
  /\ (forall a t, act s = Some a -> a_pend a = Some (NResponse t) -> a_phase a <> Connecting)
  /\ fin_sent (log s).

Lemma start_next_sent : forall q fs lg q' fs' a' lg',
  start_next q fs lg = (q', fs', a', lg') -> fin_sent lg ->
  fin_sent lg' /\ (forall a, a' = Some a -> a_phase a = Connecting /\ a_pend a = None).
Proof.
  induction q as [|[n i] r IH]; intros fs lg q' fs' a' lg' H F; simpl in H.
  - inversion H; subst. split; auto. discriminate.
  - destruct (nth_error fs i) as [f|].
    + destruct (negb (o_req (fo (cf f)))).
      * eapply IH; [exact H|]. apply fin_sent_app; auto. intros m j x [X|[]]. discriminate.
      * destruct (o_resp (fo (cf f))).
        -- eapply IH; [exact H|]. apply fin_sent_app; auto. intros m j x [X|[X|[X|[]]]]; try discriminate.
           inversion X; subst. split; [discriminate|]. right. apply in_or_app. right. simpl. auto.
        -- inversion H; subst. split.
           ++ apply fin_sent_app; auto. intros m j x [X|[]]. discriminate.
           ++ intros a A. inversion A; subst. auto.
    + eapply IH; [exact H|]. apply fin_sent_app; auto. intros m j x [X|[]]. discriminate.
Qed.

Ltac keep_sent := unfold sent_inv; repeat match goal with H : act _ = _ |- _ => rewrite H end;
  split; [assumption|split; assumption].

Lemma loop_net_sent : forall s, sent_inv s ->
  sent_inv (loop_net s).
Proof.
  intros s (I1 & I2 & I3). unfold loop_net. destruct (act s) as [a|] eqn:A; [|keep_sent].
  assert (FIN : forall t, (t = None \/ exists t0, t = Some t0 /\ a_pend a = Some (NResponse t0)) ->
                sent_inv (finish s a t)).
  { intros t T. unfold sent_inv, finish. simpl. split; [discriminate|]. split; [discriminate|].
    apply fin_sent_app; auto. intros n i r [X|[]]. inversion X; subst.
    destruct T as [->|(t0 & -> & P)].
    - unfold fin_err, finish_edit in H3. simpl in H3. discriminate.
    - split; [unfold fin_resp; simpl; discriminate|]. left. apply in_or_app. left.
      apply I1; auto. eapply I2; eauto. }
  destruct (a_phase a) eqn:P; destruct (a_pend a) as [[]|] eqn:Q;
    try (keep_sent; fail);
    try (apply FIN; auto; fail);
    try (apply FIN; right; eexists; split; reflexivity; fail).
  all: unfold sent_inv; simpl; split; [|split].
  all: try (intros a0 A0 _; inversion A0; subst; simpl; apply in_or_app; right; simpl; auto).
  all: try (intros a0 t A0 Q0; inversion A0; subst; simpl in Q0; discriminate).
  all: apply fin_sent_app; auto; intros n i r [X|[]]; discriminate.
Qed.

Lemma step_sent : forall s o, sent_inv s -> sent_inv (step s o).
Proof.
  intros s o I. destruct o as [ids| | |r|i e]; simpl.
  - destruct I as (I1 & I2 & I3). unfold start_replay.
    destruct (start_loop _ _ _ _ _ _) as [[[fs q] nx] upd]. unfold sent_inv. simpl. split; [|split; [exact I2|]].
    + intros a A P. apply in_or_app. left. auto.
    + apply fin_sent_app; auto. intros n i r [X|[]]. discriminate.
  - destruct I as (I1 & I2 & I3). unfold stop_replay, sent_inv. simpl. split; [|split].
    + intros a A P. apply in_or_app. left.
      destruct (hits_connected s) eqn:H.
      * destruct (act s) as [a0|] eqn:A0; [|discriminate]. simpl in A. inversion A; subst. simpl.
        apply I1; auto. unfold hits_connected in H. rewrite A0 in H. destruct (a_phase a0); discriminate.
      * auto.
    + intros a t A Q. destruct (hits_connected s); [|eauto].
      destruct (act s) as [a0|] eqn:A0; [|discriminate]. simpl in A. inversion A; subst. simpl. discriminate.
    + apply fin_sent_app; auto. intros n i r [X|[]]. discriminate.
  - pose proof (loop_net_sent s I) as J. unfold loop. set (s1 := loop_net s) in *.
    destruct (act s1) eqn:A; auto. destruct J as (_ & _ & J3).
    destruct (start_next _ _ _) as [[[q' fs'] a'] lg'] eqn:SN.
    destruct (start_next_sent _ _ _ _ _ _ _ SN J3) as (K1 & K2).
    unfold sent_inv. simpl. split; [|split]; auto.
    + intros a0 A0 P. destruct (K2 _ A0). congruence.
    + intros a0 t A0 Q. destruct (K2 _ A0). congruence.
  - destruct I as (I1 & I2 & I3). unfold net. destruct (act s) as [a|] eqn:A; [|keep_sent].
    destruct (a_pend a) eqn:Q; [keep_sent|].
    destruct (compatible (a_phase a) r) eqn:C; [|keep_sent].
    unfold sent_inv. simpl. split; [|split; [|exact I3]].
    + intros a0 A0 P. inversion A0; subst. simpl in *. auto.
    + intros a0 t A0 Q0. inversion A0; subst. simpl in *. inversion Q0; subst.
      destruct (a_phase a); simpl in C; congruence.
  - exact I.
Qed.

(* a replay that ends without an error ends with a response, and its request reached the server --
   or it is the stale-response case (finding): the flow already carried a response when the entry
   was taken from the queue, and nothing was sent *)
Theorem response_needs_request : forall fs ops n i r,
  In (LFin n i r false) (log (run (init fs) ops)) ->
  r <> None /\ (In (LReq n i) (log (run (init fs) ops)) \/ In (LStale n i) (log (run (init fs) ops))).
Proof.
  intros fs ops. assert (I : sent_inv (run (init fs) ops)).
  { apply run_inv; [apply step_sent|]. unfold sent_inv, init. simpl.
    split; [discriminate|]. split; [discriminate|]. intros n0 i0 r0 []. }
  destruct I as (_ & _ & I3). exact I3.
Qed.

(* the stale case arises only in a loop run, for an entry taken from the queue whose flow carries a
   response at that moment *)
Definition resp_at (fs : list cflow) (i : nat) : bool :=
  match nth_error fs i with Some f => match o_resp (fo (cf f)) with Some _ => true | None => false end | None => false end.

Lemma start_next_stale : forall q fs lg q' fs' a' lg' n i,
  start_next q fs lg = (q', fs', a', lg') -> In (LStale n i) lg' ->
  In (LStale n i) lg \/ In (n, i) q.
Proof.
  induction q as [|[m j] r IH]; intros fs lg q' fs' a' lg' n i H I; simpl in H.
  - inversion H; subst. auto.
  - assert (G : forall fs0 d, start_next r fs0 (lg ++ d) = (q', fs', a', lg') ->
                (forall x, In x d -> x = LStale n i -> (n, i) = (m, j)) -> In (LStale n i) lg \/ In (n, i) ((m, j) :: r)).
    { intros fs0 d H0 D. destruct (IH _ _ _ _ _ _ _ _ H0 I) as [J|J]; [|right; right; exact J].
      apply in_app_or in J. destruct J as [J|J]; auto. right. left. symmetry. eapply D; eauto. }
    destruct (nth_error fs j) as [f|].
    + destruct (negb (o_req (fo (cf f)))).
      * eapply G; [exact H|]. intros x [<-|[]] E. discriminate.
      * destruct (o_resp (fo (cf f))).
        -- eapply G; [exact H|]. intros x [<-|[<-|[<-|[]]]] E; try discriminate. inversion E. reflexivity.
        -- inversion H; subst. apply in_app_or in I. destruct I as [I|[I|[]]]; auto. discriminate.
    + eapply G; [exact H|]. intros x [<-|[]] E. discriminate.
Qed.

Theorem stale_only_from_queue : forall s o n i,
  In (LStale n i) (log (step s o)) -> In (LStale n i) (log s) \/ (o = Loop /\ In (n, i) (queue s)).
Proof.
  intros s o n i I. destruct o as [ids| | |r|j e]; simpl in I.
  - unfold start_replay in I. destruct (start_loop _ _ _ _ _ _) as [[[fs q] nx] upd]. simpl in I.
    apply in_app_or in I. destruct I as [I|[I|[]]]; auto. discriminate.
  - unfold stop_replay in I. simpl in I. apply in_app_or in I. destruct I as [I|[I|[]]]; auto. discriminate.
  - unfold loop in I.
    assert (LN : In (LStale n i) (log (loop_net s)) -> In (LStale n i) (log s)).
    { destruct (loop_net_cases s) as [E|[(a & A & _ & _ & E)|(a & t & A & _ & E)]]; rewrite E; auto.
      - simpl. intros J. apply in_app_or in J. destruct J as [J|[J|[]]]; auto. discriminate.
      - unfold finish. simpl. intros J. apply in_app_or in J. destruct J as [J|[J|[]]]; auto. discriminate. }
    destruct (act (loop_net s)) eqn:A; [left; apply LN; exact I|].
    destruct (start_next _ _ _) as [[[q' fs'] a'] lg'] eqn:SN. simpl in I.
    destruct (start_next_stale _ _ _ _ _ _ _ _ _ SN I) as [J|J]; [left; apply LN; exact J|].
    right. split; auto. destruct (loop_net_popped s) as (_ & Q & _). rewrite Q in J. exact J.
  - unfold net in I. destruct (act s) as [a|]; auto. destruct (a_pend a); auto. destruct (compatible _ _); auto.
  - auto.
Qed.
