(* Proofs/DnsLayerC27.v -- the statements of Props/C27.v in their final form, and the concrete
   witnesses (refutations, non-vacuity). *)
From Coq Require Import List Bool Arith NArith Lia.
From MV Require Import Base.Bytes Model.DnsLayer Proofs.DnsLayerFrame Proofs.DnsLayerSeg Proofs.DnsLayerInv.
Import ListNotations.

(* ---------- segmentation ---------- *)

Lemma segmentation_partial : forall unpack c fc chunks s ms r rest,
  chunks <> [] -> working s -> ctcp c = true ->
  unpack_tcp unpack (buf_of s fc ++ concat chunks) = ROk ms r ->
  run unpack c s (map (EData fc) chunks ++ rest) = run unpack c s (EData fc (concat chunks) :: rest).
Proof.
  intros unpack c fc chunks s ms r rest Hne Hw Ht Hu.
  destruct chunks as [|a tl]; [congruence|].
  apply (run_any_split unpack c fc (length tl) (a :: tl) s ms r); auto.
Qed.

Lemma malformed_closes : forall unpack c fc chunks s rest,
  chunks <> [] -> working s -> ctcp c = true ->
  unpack_tcp unpack (buf_of s fc ++ concat chunks) = RErr ->
  let r := run unpack c s (map (EData fc) chunks ++ rest) in
  (exists pre, snd r = pre ++ [OClose fc]) /\ s_phase (fst r) = PDone.
Proof.
  intros unpack c fc chunks s rest Hne Hw Ht Hu r.
  destruct (closes_any_split unpack c fc chunks s Hne Hw Ht Hu rest) as (pre & H1 & H2).
  split; [exists pre; exact H1 | exact H2].
Qed.

Lemma malformed_kinds : forall unpack,
  (forall buf ms tail, unpack_tcp unpack buf = ROk ms [] ->
     unpack_tcp unpack (buf ++ x00 :: x00 :: tail) = RErr)
  /\ (forall buf ms h l body tail, unpack_tcp unpack buf = ROk ms [] ->
     N.to_nat (u16be h l) = length body -> body <> [] -> unpack body = UStruct ->
     unpack_tcp unpack (buf ++ h :: l :: body ++ tail) = RErr)
  /\ (forall c s fc d, working s -> ctcp c = false -> unpack d = UStruct ->
     snd (step unpack c s (EData fc d)) = [OClose fc] /\ s_phase (fst (step unpack c s (EData fc d))) = PDone).
Proof.
  intros unpack. split; [|split].
  - intros buf ms tail H. apply (utcp_zero_after_frames unpack buf ms tail H).
  - intros buf ms h l body tail H Hn Hb Hu. rewrite (utcp_app unpack), H. cbn [continue_with app].
    rewrite (utcp_bad_frame unpack h l body tail Hn Hb Hu). reflexivity.
  - intros c s fc d. apply step_udp_err.
Qed.

Lemma done_is_silent : forall unpack c es s, s_phase s = PDone -> snd (run unpack c s es) = [].
Proof. intros unpack c es s H. rewrite (done_silent unpack c es s H). reflexivity. Qed.

(* ---------- SERVFAIL ---------- *)

Lemma step_servfail unpack c s e : servfail_ok (ctcp c) (snd (step unpack c s e)).
Proof.
  unfold step. destruct (s_crashed s); [exact I|]. destruct (s_phase s); [|exact I].
  destruct e as [fc d|fc].
  - destruct (unpack_message unpack c s fc d); try exact I.
    apply handle_msgs_struct.
  - cbn [snd]. destruct fc; [destruct (s_srv s)|]; exact I.
Qed.

Lemma run_servfail : forall unpack c es s, servfail_ok (ctcp c) (snd (run unpack c s es)).
Proof.
  intros unpack c es. induction es as [|e es IH]; intros s; [exact I|].
  cbn [run]. pose proof (step_servfail unpack c s e) as H1.
  destruct (step unpack c s e) as [s1 o1]. specialize (IH s1).
  destruct (run unpack c s1 es) as [s2 o2]. cbn [snd] in *. apply servfail_ok_app; assumption.
Qed.

Lemma fail_fields : forall q,
  m_id (fail q) = m_id q /\ m_query (fail q) = false /\ m_op (fail q) = m_op q
  /\ m_rd (fail q) = m_rd q /\ m_qn (fail q) = m_qn q /\ m_qs (fail q) = m_qs q
  /\ m_packed (fail q) =
       put_u16be (m_id q) ++ put_u16be (32768 + m_op q * 2048 + (if m_rd q then 256 else 0) + 2)%N
       ++ put_u16be (m_qn q) ++ [x00; x00; x00; x00; x00; x00] ++ m_qs q.
Proof. intros q. repeat split. Qed.

(* the SERVFAIL on the wire starts with the id of the query (ids are 16 bit) *)
Lemma fail_wire_id : forall q, (m_id q < 65536)%N ->
  exists h l rest, m_packed (fail q) = h :: l :: rest /\ u16be h l = m_id q.
Proof.
  intros q H. pose proof (u16be_put (m_id q) H) as P.
  cbn [fail m_packed]. unfold put_u16be in *. cbn [app].
  eexists _, _, _. split; [reflexivity | exact P].
Qed.

(* ---------- replies and flows ---------- *)

Lemma reply_fixed : forall unpack c script conn es,
  fix_drop c = true ->
  let r := run unpack c (init script conn) es in
  (forall o, In o (snd r) -> carries_query script (s_cq (fst r)) (s_sm (fst r)) o)
  /\ (forall data, In (OSend true data) (snd r) -> answers_query c script (s_cq (fst r)) (s_sm (fst r)) data).
Proof.
  intros unpack c script conn es Hd r.
  pose proof (no_orphan_fixed unpack c script conn es Hd) as Hno.
  split; [apply hooks_carry_query | apply replies_answer_query]; exact Hno.
Qed.

Lemma reply_partial : forall unpack c script conn es,
  let r := run unpack c (init script conn) es in
  (forall k ord rs e, ~ In (OHook k ord None rs e) (snd r)) ->
  (forall o, In o (snd r) -> carries_query script (s_cq (fst r)) (s_sm (fst r)) o)
  /\ (forall data, In (OSend true data) (snd r) -> answers_query c script (s_cq (fst r)) (s_sm (fst r)) data).
Proof.
  intros unpack c script conn es r Hno.
  split; [apply hooks_carry_query | apply replies_answer_query]; exact Hno.
Qed.

(* the only flows without request are those made for an upstream message (response hook) *)
Lemma orphan_only_response : forall unpack c script conn es k ord rs e,
  In (OHook k ord None rs e) (snd (run unpack c (init script conn) es)) -> fix_drop c = false /\ k = HResp.
Proof.
  intros unpack c script conn es k ord rs e Hin.
  pose proof (run_good unpack c script conn es) as G. cbv zeta in G.
  unfold good in G. rewrite Forall_forall in G. exact (G _ Hin).
Qed.

Lemma question_partial : forall unpack c script conn es,
  let r := run unpack c (init script conn) es in
  (forall k ord rs e, ~ In (OHook k ord None rs e) (snd r)) ->
  (forall m, In m (s_sm (fst r)) -> forall q, In q (s_cq (fst r)) -> m_id q = m_id m -> m_qs q = m_qs m) ->
  forall data, In (OSend true data) (snd r) ->
  exists m, data = pack_message m (ctcp c) /\
    (addon_msg script m \/ exists q, In q (s_cq (fst r)) /\ m_id q = m_id m /\ m_qs q = m_qs m).
Proof.
  intros unpack c script conn es r Hno Hecho data Hin.
  destruct (replies_answer_query unpack c script conn es Hno data Hin) as (m & Hd & [Ha|(q & Q1 & Q2 & Q3)]).
  - exists m. split; [exact Hd | left; exact Ha].
  - exists m. split; [exact Hd|]. right. exists q. split; [exact Q1|]. split; [exact Q2|].
    destruct Q3 as [Q3|Q3]; [subst m; reflexivity | apply Hecho; assumption].
Qed.

Lemma stale_partial : forall c s m,
  id_unanswered s m -> resp_hooks_from (s_script s) (snd (handle_msg c true s m)).
Proof. intros c s m H. exact (proj2 (handle_msg_client_fresh c s m (or_intror H))). Qed.

(* ---------- witnesses ---------- *)

Definition q1 := mkMsg 1 true 0 true 1 [x61] [x01].
Definition q1b := mkMsg 1 true 0 true 1 [x62] [x02].
Definition r1 := mkMsg 1 false 0 true 1 [x61] [x03].
Definition r2 := mkMsg 2 false 0 true 1 [x61] [x04].
Definition r1b := mkMsg 1 false 0 true 1 [x62] [x05].
Definition wunpack (b : bytes) : ures :=
  match b with
  | [x01] => UOk q1 | [x02] => UOk q1b | [x03] => UOk r1 | [x04] => UOk r2 | [x05] => UOk r1b
  | _ => UStruct
  end.
Definition cu := mkCfg false false true false false.   (* UDP, the code as it is *)
Definition ct := mkCfg true true true false false.     (* TCP, the code as it is *)

(* client query id 1, upstream datagram id 2 *)
Lemma reply_refuted :
  exists unpack c script conn es,
    fix_drop c = false /\
    let r := run unpack c (init script conn) es in
    (exists ord rs e, In (OHook HResp ord None rs e) (snd r))
    /\ exists data, In (OSend true data) (snd r)
         /\ ~ answers_query c script (s_cq (fst r)) (s_sm (fst r)) data.
Proof.
  exists wunpack, cu, [], [true], [EData true [x01]; EData false [x04]].
  split; [reflexivity|]. cbv zeta. split.
  - exists 1, (Some r2), false. vm_compute. auto 10.
  - exists [x04]. split; [vm_compute; auto 10|].
    intros (m & Hd & [Ha|(q & Hq & Hid & Hm)]).
    + destruct Ha.
    + vm_compute in Hq. destruct Hq as [Hq|[]]. subst q.
      destruct Hm as [Hm|Hm].
      * subst m. vm_compute in Hd. discriminate.
      * vm_compute in Hm. destruct Hm as [Hm|[]]. subst m. vm_compute in Hid. discriminate.
Qed.

(* query id 1 (question a), reply id 1 whose question is b *)
Lemma question_refuted :
  exists unpack c script conn es m,
    let r := run unpack c (init script conn) es in
    (forall k ord rs e, ~ In (OHook k ord None rs e) (snd r))
    /\ In (OSend true (pack_message m (ctcp c))) (snd r) /\ In m (s_sm (fst r))
    /\ forall q, In q (s_cq (fst r)) -> m_qs q <> m_qs m.
Proof.
  exists wunpack, cu, [], [true], [EData true [x01]; EData false [x05]], r1b.
  cbv zeta. split; [|split; [|split]].
  - intros k ord rs e H. vm_compute in H.
    repeat (destruct H as [H|H]; [discriminate|]). exact H.
  - vm_compute. auto 10.
  - vm_compute. auto.
  - intros q Hq. vm_compute in Hq. destruct Hq as [Hq|[]]. subst q. vm_compute. discriminate.
Qed.

(* frame(query) then 00 00: in one segment nothing is handled, in two the query is *)
Lemma segmentation_refuted :
  exists unpack c s fc a b,
    working s /\ ctcp c = true /\
    run unpack c s [EData fc a; EData fc b] <> run unpack c s [EData fc (a ++ b)].
Proof.
  exists wunpack, ct, (init [] [true]), true, [x00; x01; x01], [x00; x00].
  split; [split; reflexivity|]. split; [reflexivity|].
  intros H. apply (f_equal snd) in H. vm_compute in H. discriminate.
Qed.

(* query id 1 question a, its reply, then query id 1 question b: answered from the old reply *)
Lemma stale_refuted :
  exists unpack c script conn es data,
    fix_fresh c = false /\
    let s := fst (run unpack c (init script conn) es) in
    ~ resp_hooks_from (s_script s) (snd (step unpack c s (EData true data))).
Proof.
  exists wunpack, cu, [], [true], [EData true [x01]; EData false [x03]], [x02].
  split; [reflexivity|]. cbv zeta. intros H.
  destruct (H 0 (Some q1b) (Some r1) false) as (r & _ & Hin).
  - vm_compute. auto.
  - vm_compute in Hin. exact Hin.
Qed.

Lemma nonvacuous :
  let chunks := [[x00]; [x01; x01; x00]; [x01; x02]] in
  let s := init [] [true] in
  working s /\ ctcp ct = true
  /\ unpack_tcp wunpack (buf_of s true ++ concat chunks) = ROk [q1; q1b] []
  /\ run wunpack ct s (map (EData true) chunks) = run wunpack ct s [EData true (concat chunks)]
  /\ length (snd (run wunpack ct s (map (EData true) chunks))) = 5
  /\ (forall k ord rs e, ~ In (OHook k ord None rs e) (snd (run wunpack cu s [EData true [x01]; EData false [x03]])))
  /\ In (OSend true [x03]) (snd (run wunpack cu s [EData true [x01]; EData false [x03]])).
Proof.
  cbv zeta. split; [split; reflexivity|]. split; [reflexivity|]. split; [reflexivity|].
  split; [vm_compute; reflexivity|]. split; [vm_compute; reflexivity|]. split.
  - intros k ord rs e H. vm_compute in H. repeat (destruct H as [H|H]; [discriminate|]). exact H.
  - vm_compute. auto 10.
Qed.
