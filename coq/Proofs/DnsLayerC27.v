(* Proofs/DnsLayerC27.v -- the statements of Props/C27.v in their final form, and the concrete
   witnesses (refutations, non-vacuity). *)
From Coq Require Import List Bool Arith NArith Lia.
From MV Require Import Base.Bytes Model.DnsLayer Proofs.DnsLayerFrame Proofs.DnsLayerSeg Proofs.DnsLayerInv.
Import ListNotations.

(* ---------- segmentation ---------- *)

Lemma segmentation_partial : forall unpack c fc chunks s ms r rest,
  chunks <> [] -> working s -> ctcp c = true ->
  unpack_tcp unpack (buf_of s fc ++ concat chunks) = ROk ms r ->
  run unpack c s (map (EData fc) chunks ++ rest) = run unpack c s (EData fc (concat chunks) :: rest).
Proof.
  intros unpack c fc chunks s ms r rest Hne Hw Ht Hu.
  destruct chunks as [|a tl]; [congruence|].
  apply (run_any_split unpack c fc (length tl) (a :: tl) s ms r); auto.
Qed.

Lemma malformed_closes : forall unpack c fc chunks s rest,
  chunks <> [] -> working s -> ctcp c = true ->
  unpack_tcp unpack (buf_of s fc ++ concat chunks) = RErr ->
  let r := run unpack c s (map (EData fc) chunks ++ rest) in
  (exists pre, snd r = pre ++ [OClose fc]) /\ s_phase (fst r) = PDone.
Proof.
  intros unpack c fc chunks s rest Hne Hw Ht Hu r.
  destruct (closes_any_split unpack c fc chunks s Hne Hw Ht Hu rest) as (pre & H1 & H2).
  split; [exists pre; exact H1 | exact H2].
Qed.

Lemma malformed_kinds : forall unpack,
  (forall buf ms tail, unpack_tcp unpack buf = ROk ms [] ->
     unpack_tcp unpack (buf ++ x00 :: x00 :: tail) = RErr)
  /\ (forall buf ms h l body tail, unpack_tcp unpack buf = ROk ms [] ->
     N.to_nat (u16be h l) = length body -> body <> [] -> unpack body = UStruct ->
     unpack_tcp unpack (buf ++ h :: l :: body ++ tail) = RErr)
  /\ (forall c s fc d, working s -> ctcp c = false -> unpack d = UStruct ->
     snd (step unpack c s (EData fc d)) = [OClose fc] /\ s_phase (fst (step unpack c s (EData fc d))) = PDone).
Proof.
  intros unpack. split; [|split].
  - intros buf ms tail H. apply (utcp_zero_after_frames unpack buf ms tail H).
  - intros buf ms h l body tail H Hn Hb Hu. rewrite (utcp_app unpack), H. cbn [continue_with app].
    rewrite (utcp_bad_frame unpack h l body tail Hn Hb Hu). reflexivity.
  - intros c s fc d. apply step_udp_err.
Qed.

Lemma done_is_silent : forall unpack c es s, s_phase s = PDone -> snd (run unpack c s es) = [].
Proof. intros unpack c es s H. rewrite (done_silent unpack c es s H). reflexivity. Qed.

(* ---------- SERVFAIL ---------- *)

Lemma step_servfail unpack c s e : servfail_ok (ctcp c) (snd (step unpack c s e)).
Proof.
  unfold step. destruct (s_crashed s); [exact I|]. destruct (s_phase s); [|exact I].
  destruct e as [fc d|fc].
  - destruct (unpack_message unpack c s fc d); try exact I.
    apply handle_msgs_struct.
  - cbn [snd]. destruct fc; [destruct (s_srv s)|]; exact I.
Qed.

Lemma run_servfail : forall unpack c es s, servfail_ok (ctcp c) (snd (run unpack c s es)).
Proof.
  intros unpack c es. induction es as [|e es IH]; intros s; [exact I|].
  cbn [run]. pose proof (step_servfail unpack c s e) as H1.
  destruct (step unpack c s e) as [s1 o1]. specialize (IH s1).
  destruct (run unpack c s1 es) as [s2 o2]. cbn [snd] in *. apply servfail_ok_app; assumption.
Qed.

Lemma fail_fields : forall q,
  m_id (fail q) = m_id q /\ m_query (fail q) = false /\ m_op (fail q) = m_op q
  /\ m_rd (fail q) = m_rd q /\ m_qn (fail q) = m_qn q /\ m_qs (fail q) = m_qs q
  /\ m_packed (fail q) =
       put_u16be (m_id q) ++ put_u16be (32768 + m_op q * 2048 + (if m_rd q then 256 else 0) + 2)%N
       ++ put_u16be (m_qn q) ++ [x00; x00; x00; x00; x00; x00] ++ m_qs q.
Proof. intros q. repeat split. Qed.

(* the SERVFAIL on the wire starts with the id of the query (ids are 16 bit) *)
Lemma fail_wire_id : forall q, (m_id q < 65536)%N ->
  exists h l rest, m_packed (fail q) = h :: l :: rest /\ u16be h l = m_id q.
Proof.
  intros q H. pose proof (u16be_put (m_id q) H) as P.
  cbn [fail m_packed]. unfold put_u16be in *. cbn [app].
  eexists _, _, _. split; [reflexivity | exact P].
Qed.

(* ---------- replies and flows ---------- *)

Lemma reply_fixed : forall unpack c script conn es,
  fix_drop c = true ->
  let r := run unpack c (init script conn) es in
  (forall o, In o (snd r) -> carries_query script (s_cq (fst r)) (s_sm (fst r)) o)
  /\ (forall data, In (OSend true data) (snd r) -> answers_query c script (s_cq (fst r)) (s_sm (fst r)) data).
Proof.
  intros unpack c script conn es Hd r.
  pose proof (no_orphan_fixed unpack c script conn es Hd) as Hno.
  split; [apply hooks_carry_query | apply replies_answer_query]; exact Hno.
Qed.

Lemma reply_partial : forall unpack c script conn es,
  let r := run unpack c (init script conn) es in
  (forall k ord rs e, ~ In (OHook k ord None rs e) (snd r)) ->
  (forall o, In o (snd r) -> carries_query script (s_cq (fst r)) (s_sm (fst r)) o)
  /\ (forall data, In (OSend true data) (snd r) -> answers_query c script (s_cq (fst r)) (s_sm (fst r)) data).
Proof.
  intros unpack c script conn es r Hno.
  split; [apply hooks_carry_query | apply replies_answer_query]; exact Hno.
Qed.

(* the only flows without request are those made for an upstream message (response hook) *)
Lemma orphan_only_response : forall unpack c script conn es k ord rs e,
  In (OHook k ord None rs e) (snd (run unpack c (init script conn) es)) -> fix_drop c = false /\ k = HResp.
Proof.
  intros unpack c script conn es k ord rs e Hin.
  pose proof (run_good unpack c script conn es) as G. cbv zeta in G.
  unfold good in G. rewrite Forall_forall in G. exact (G _ Hin).
Qed.

Lemma question_partial : forall unpack c script conn es,
  let r := run unpack c (init script conn) es in
  (forall k ord rs e, ~ In (OHook k ord None rs e) (snd r)) ->
  (forall m, In m (s_sm (fst r)) -> forall q, In q (s_cq (fst r)) -> m_id q = m_id m -> m_qs q = m_qs m) ->
  forall data, In (OSend true data) (snd r) ->
  exists m, data = pack_message m (ctcp c) /\
    (addon_msg script m \/ exists q, In q (s_cq (fst r)) /\ m_id q = m_id m /\ m_qs q = m_qs m).
Proof.
  intros unpack c script conn es r Hno Hecho data Hin.
  destruct (replies_answer_query unpack c script conn es Hno data Hin) as (m & Hd & [Ha|(q & Q1 & Q2 & Q3)]).
  - exists m. split; [exact Hd | left; exact Ha].
  - exists m. split; [exact Hd|]. right. exists q. split; [exact Q1|]. split; [exact Q2|].
    destruct Q3 as [Q3|Q3]; [subst m; reflexivity | apply Hecho; assumption].
Qed.

Lemma stale_partial : forall c s m,
  id_unanswered s m -> resp_hooks_from (s_script s) (snd (handle_msg c true s m)).
Proof. intros c s m H. exact (proj2 (handle_msg_client_fresh c s m (or_intror H))). Qed.

(* ---------- the resolver addon answers the request it is given; several clients ---------- *)

Lemma resolved_fields : forall q rc n an,
  m_id (resolved q rc n an) = m_id q /\ m_query (resolved q rc n an) = false
  /\ m_op (resolved q rc n an) = m_op q /\ m_rd (resolved q rc n an) = m_rd q
  /\ m_qn (resolved q rc n an) = m_qn q /\ m_qs (resolved q rc n an) = m_qs q
  /\ ((m_id q < 65536)%N -> exists h l rest, m_packed (resolved q rc n an) = h :: l :: rest /\ u16be h l = m_id q).
Proof.
  intros q rc n an. repeat split.
  intros H. pose proof (u16be_put (m_id q) H) as P.
  cbn [resolved m_packed]. unfold put_u16be in *. cbn [app].
  eexists _, _, _. split; [reflexivity | exact P].
Qed.

Lemma handle_request_resolved c s i f m rc n an rest :
  f_resp f = None -> f_err f = false -> s_script s = AResolve rc n an :: ANone :: rest ->
  snd (handle_request c s i f m) =
    [OHook HReq (f_ord f) (Some m) None false;
     OHook HResp (f_ord f) (Some m) (Some (resolved m rc n an)) false;
     OSend true (pack_message (resolved m rc n an) (ctcp c))].
Proof.
  intros Hn He Hs. unfold handle_request, handle_response, pop_act, hook_of. rewrite Hs.
  cbn. rewrite Hn, He. reflexivity.
Qed.

(* Regular dns mode, a client message handled while the next two addon replies are: the resolver
   answers at dns_request, nothing at dns_response.  Exactly one reply is sent, and it is the
   answer built from THIS message (so it has its id and question section), whatever the state
   of the connection and whatever other connections do. *)
Lemma resolver_reply_own_query : forall c s m rc n an rest,
  fix_fresh c = true -> s_crashed s = false ->
  s_script s = AResolve rc n an :: ANone :: rest ->
  exists ord,
  snd (handle_msg c true s m) =
    [OHook HReq ord (Some m) None false;
     OHook HResp ord (Some m) (Some (resolved m rc n an)) false;
     OSend true (pack_message (resolved m rc n an) (ctcp c))].
Proof.
  intros c s m rc n an rest Hf Hc Hs. unfold handle_msg. rewrite Hc, Hf. cbn [andb].
  destruct (find_flow (m_id m) (s_flows s)) as [f|].
  - destruct (answered f) eqn:Ea.
    + exists (s_next s).
      change (new_flow (retire (note_msg s true m) f))
        with (mkFlow (s_next s) None None false true, snd (new_flow (retire (note_msg s true m) f))).
      apply (handle_request_resolved c _ (m_id m) (mkFlow (s_next s) None None false true) m rc n an rest);
        [reflexivity | reflexivity | exact Hs].
    + exists (f_ord f). unfold answered in Ea.
      destruct (f_resp f) eqn:Er; [discriminate|].
      apply (handle_request_resolved c (note_msg s true m) (m_id m) f m rc n an rest Er Ea). exact Hs.
  - exists (s_next s).
    change (new_flow (note_msg s true m))
      with (mkFlow (s_next s) None None false true, snd (new_flow (note_msg s true m))).
    apply (handle_request_resolved c _ (m_id m) (mkFlow (s_next s) None None false true) m rc n an rest);
      [reflexivity | reflexivity | exact Hs].
Qed.

Lemma nth_error_set_nth_eq {A} (x : A) : forall l i s, nth_error l i = Some s -> nth_error (set_nth i x l) i = Some x.
Proof.
  induction l as [|y l IH]; intros [|i] s H; cbn in *; try discriminate; [reflexivity|].
  eapply IH. exact H.
Qed.

Lemma nth_error_set_nth_neq {A} (x : A) : forall l i j, i <> j -> nth_error (set_nth j x l) i = nth_error l i.
Proof.
  induction l as [|y l IH]; intros i j H; [destruct j; reflexivity|].
  destruct j as [|j]; destruct i as [|i]; cbn; try reflexivity; try congruence.
  apply IH. congruence.
Qed.

Lemma proj_outs_app i a b : proj_outs i (a ++ b) = proj_outs i a ++ proj_outs i b.
Proof. unfold proj_outs. rewrite filter_app, map_app. reflexivity. Qed.

Lemma proj_outs_tag i j (o : list out) :
  proj_outs i (map (fun x => (j, x)) o) = if Nat.eqb j i then o else [].
Proof.
  unfold proj_outs. induction o as [|x o IH]; cbn [map filter fst]; [destruct (Nat.eqb j i); reflexivity|].
  destruct (Nat.eqb j i) eqn:E; cbn [map snd]; [rewrite IH; reflexivity | exact IH].
Qed.

(* every connection runs as if it were alone: its final state and its commands are those of the
   run of its own events *)
Lemma sys_run_proj unpack c : forall es ss i s,
  nth_error ss i = Some s ->
  nth_error (fst (sys_run unpack c ss es)) i = Some (fst (run unpack c s (proj_events i es)))
  /\ proj_outs i (snd (sys_run unpack c ss es)) = snd (run unpack c s (proj_events i es)).
Proof.
  induction es as [|[j e] es IH]; intros ss i s Hs; [split; [exact Hs | reflexivity]|].
  cbn [sys_run]. unfold proj_events. cbn [filter fst].
  destruct (Nat.eqb j i) eqn:E.
  - apply Nat.eqb_eq in E. subst j. rewrite Hs. cbn [map snd run].
    destruct (step unpack c s e) as [s1 o1].
    destruct (IH (set_nth i s1 ss) i s1 (nth_error_set_nth_eq s1 ss i s Hs)) as [I1 I2].
    fold (proj_events i es) in *.
    destruct (sys_run unpack c (set_nth i s1 ss) es) as [ss2 o2].
    destruct (run unpack c s1 (proj_events i es)) as [s2 o3]. cbn [fst snd] in *.
    split; [exact I1|]. rewrite proj_outs_app, proj_outs_tag, Nat.eqb_refl, I2. reflexivity.
  - apply Nat.eqb_neq in E. fold (proj_events i es).
    destruct (nth_error ss j) as [sj|]; [|apply IH; exact Hs].
    destruct (step unpack c sj e) as [s1 o1].
    assert (Hs' : nth_error (set_nth j s1 ss) i = Some s)
      by (rewrite nth_error_set_nth_neq; [exact Hs | congruence]).
    destruct (IH (set_nth j s1 ss) i s Hs') as [I1 I2].
    destruct (sys_run unpack c (set_nth j s1 ss) es) as [ss2 o2]. cbn [fst snd] in *.
    split; [exact I1|]. rewrite proj_outs_app, proj_outs_tag.
    destruct (Nat.eqb j i) eqn:E2; [apply Nat.eqb_eq in E2; congruence|]. exact I2.
Qed.

Lemma in_proj_outs i o os : In (i, o) os -> In o (proj_outs i os).
Proof.
  intros H. unfold proj_outs. apply in_map_iff. exists (i, o). split; [reflexivity|].
  apply filter_In. split; [exact H | apply Nat.eqb_refl].
Qed.

(* concurrent histories: any interleaving of the events of any number of connections; what
   connection i is sent answers a query extracted from connection i *)
Lemma concurrent_replies : forall unpack c inits es i script conn,
  fix_drop c = true ->
  nth_error inits i = Some (script, conn) ->
  let r := sys_run unpack c (map (fun p => init (fst p) (snd p)) inits) es in
  exists si, nth_error (fst r) i = Some si /\
  forall data, In (i, OSend true data) (snd r) -> answers_query c script (s_cq si) (s_sm si) data.
Proof.
  intros unpack c inits es i script conn Hd Hi r.
  assert (Hs : nth_error (map (fun p => init (fst p) (snd p)) inits) i = Some (init script conn))
    by (rewrite nth_error_map, Hi; reflexivity).
  destruct (sys_run_proj unpack c es _ i _ Hs) as [P1 P2]. fold r in P1, P2.
  exists (fst (run unpack c (init script conn) (proj_events i es))). split; [exact P1|].
  intros data Hin. apply in_proj_outs in Hin. rewrite P2 in Hin.
  exact (proj2 (reply_fixed unpack c script conn (proj_events i es) Hd) data Hin).
Qed.

(* ---------- witnesses ---------- *)

Definition q1 := mkMsg 1 true 0 true 1 [x61] [x01].
Definition q1b := mkMsg 1 true 0 true 1 [x62] [x02].
Definition r1 := mkMsg 1 false 0 true 1 [x61] [x03].
Definition r2 := mkMsg 2 false 0 true 1 [x61] [x04].
Definition r1b := mkMsg 1 false 0 true 1 [x62] [x05].
Definition wunpack (b : bytes) : ures :=
  match b with
  | [x01] => UOk q1 | [x02] => UOk q1b | [x03] => UOk r1 | [x04] => UOk r2 | [x05] => UOk r1b
  | _ => UStruct
  end.
Definition cu := mkCfg false false true false false.   (* UDP, the code as it is *)
Definition ct := mkCfg true true true false false.     (* TCP, the code as it is *)

(* client query id 1, upstream datagram id 2 *)
Lemma reply_refuted :
  exists unpack c script conn es,
    fix_drop c = false /\
    let r := run unpack c (init script conn) es in
    (exists ord rs e, In (OHook HResp ord None rs e) (snd r))
    /\ exists data, In (OSend true data) (snd r)
         /\ ~ answers_query c script (s_cq (fst r)) (s_sm (fst r)) data.
Proof.
  exists wunpack, cu, [], [true], [EData true [x01]; EData false [x04]].
  split; [reflexivity|]. cbv zeta. split.
  - exists 1, (Some r2), false. vm_compute. auto 10.
  - exists [x04]. split; [vm_compute; auto 10|].
    intros (m & Hd & [Ha|(q & Hq & Hid & Hm)]).
    + destruct Ha as [[]|(rc & n & an & q & [] & _)].
    + vm_compute in Hq. destruct Hq as [Hq|[]]. subst q.
      destruct Hm as [Hm|Hm].
      * subst m. vm_compute in Hd. discriminate.
      * vm_compute in Hm. destruct Hm as [Hm|[]]. subst m. vm_compute in Hid. discriminate.
Qed.

(* query id 1 (question a), reply id 1 whose question is b *)
Lemma question_refuted :
  exists unpack c script conn es m,
    let r := run unpack c (init script conn) es in
    (forall k ord rs e, ~ In (OHook k ord None rs e) (snd r))
    /\ In (OSend true (pack_message m (ctcp c))) (snd r) /\ In m (s_sm (fst r))
    /\ forall q, In q (s_cq (fst r)) -> m_qs q <> m_qs m.
Proof.
  exists wunpack, cu, [], [true], [EData true [x01]; EData false [x05]], r1b.
  cbv zeta. split; [|split; [|split]].
  - intros k ord rs e H. vm_compute in H.
    repeat (destruct H as [H|H]; [discriminate|]). exact H.
  - vm_compute. auto 10.
  - vm_compute. auto.
  - intros q Hq. vm_compute in Hq. destruct Hq as [Hq|[]]. subst q. vm_compute. discriminate.
Qed.

(* frame(query) then 00 00: in one segment nothing is handled, in two the query is *)
Lemma segmentation_refuted :
  exists unpack c s fc a b,
    working s /\ ctcp c = true /\
    run unpack c s [EData fc a; EData fc b] <> run unpack c s [EData fc (a ++ b)].
Proof.
  exists wunpack, ct, (init [] [true]), true, [x00; x01; x01], [x00; x00].
  split; [split; reflexivity|]. split; [reflexivity|].
  intros H. apply (f_equal snd) in H. vm_compute in H. discriminate.
Qed.

(* query id 1 question a, its reply, then query id 1 question b: answered from the old reply *)
Lemma stale_refuted :
  exists unpack c script conn es data,
    fix_fresh c = false /\
    let s := fst (run unpack c (init script conn) es) in
    ~ resp_hooks_from (s_script s) (snd (step unpack c s (EData true data))).
Proof.
  exists wunpack, cu, [], [true], [EData true [x01]; EData false [x03]], [x02].
  split; [reflexivity|]. cbv zeta. intros H.
  destruct (H 0 (Some q1b) (Some r1) false) as (r & _ & Hin).
  - vm_compute. auto.
  - destruct Hin as [Hin|(rc & n & an & q & Hin & _)]; vm_compute in Hin; exact Hin.
Qed.

Lemma nonvacuous :
  let chunks := [[x00]; [x01; x01; x00]; [x01; x02]] in
  let s := init [] [true] in
  working s /\ ctcp ct = true
  /\ unpack_tcp wunpack (buf_of s true ++ concat chunks) = ROk [q1; q1b] []
  /\ run wunpack ct s (map (EData true) chunks) = run wunpack ct s [EData true (concat chunks)]
  /\ length (snd (run wunpack ct s (map (EData true) chunks))) = 5
  /\ (forall k ord rs e, ~ In (OHook k ord None rs e) (snd (run wunpack cu s [EData true [x01]; EData false [x03]])))
  /\ In (OSend true [x03]) (snd (run wunpack cu s [EData true [x01]; EData false [x03]])).
Proof.
  cbv zeta. split; [split; reflexivity|]. split; [reflexivity|]. split; [reflexivity|].
  split; [vm_compute; reflexivity|]. split; [vm_compute; reflexivity|]. split.
  - intros k ord rs e H. vm_compute in H. repeat (destruct H as [H|H]; [discriminate|]). exact H.
  - vm_compute. auto 10.
Qed.
