(* Proofs/ClientHelloBase.v -- C13: list / reader lemmas shared by the other proof files. *)
From Coq Require Import List Bool Arith NArith Lia ZifyBool.
From MV Require Import Base.Bytes Model.ClientHello.
Import ListNotations.
Local Open Scope N_scope.

Lemma blen_app a b : blen (a ++ b) = blen a + blen b.
Proof. unfold blen. rewrite app_length. lia. Qed.

Lemma blen_nil : blen [] = 0. Proof. reflexivity. Qed.
Lemma blen_cons c s : blen (c :: s) = 1 + blen s.
Proof. unfold blen. cbn [length]. lia. Qed.

Lemma take_app_exact a b n : blen a = n -> take n (a ++ b) = a.
Proof.
  unfold blen, take. intros <-. rewrite Nat2N.id.
  rewrite firstn_app, Nat.sub_diag, firstn_all. cbn. apply app_nil_r.
Qed.

Lemma drop_app_exact a b n : blen a = n -> drop n (a ++ b) = b.
Proof.
  unfold blen, drop. intros <-. rewrite Nat2N.id.
  rewrite skipn_app, Nat.sub_diag, skipn_all. reflexivity.
Qed.

Lemma take_all a n : blen a = n -> take n a = a.
Proof. intros H. rewrite <- (app_nil_r a) at 1. apply take_app_exact, H. Qed.

Lemma drop_all a n : blen a = n -> drop n a = [].
Proof. intros H. rewrite <- (app_nil_r a) at 1. apply drop_app_exact, H. Qed.

Lemma blen_take n s : n <= blen s -> blen (take n s) = n.
Proof. unfold blen, take. intros H. rewrite firstn_length. lia. Qed.

Lemma blen_drop n s : blen (drop n s) = blen s - n.
Proof. unfold blen, drop. rewrite skipn_length. lia. Qed.

Lemma take_drop n s : take n s ++ drop n s = s.
Proof. apply firstn_skipn. Qed.

(* taking from a prefix: the appended tail is not seen *)
Lemma take_app_le n a b : n <= blen a -> take n (a ++ b) = take n a.
Proof.
  unfold blen, take. intros H. rewrite firstn_app.
  replace (N.to_nat n - length a)%nat with 0%nat by lia. cbn. apply app_nil_r.
Qed.

Lemma drop_app_le n a b : n <= blen a -> drop n (a ++ b) = drop n a ++ b.
Proof.
  unfold blen, drop. intros H. rewrite skipn_app.
  replace (N.to_nat n - length a)%nat with 0%nat by lia. reflexivity.
Qed.

Lemma at_app_lt i a b : (i < length a)%nat -> at_ i (a ++ b) = at_ i a.
Proof. intros H. unfold at_. apply app_nth1, H. Qed.

Lemma at_take i n s : (i < N.to_nat n)%nat -> at_ i (take n s) = at_ i s.
Proof.
  unfold at_, take. revert i s. induction (N.to_nat n) as [|k IH]; intros i s H; [lia|].
  destruct s as [|c s]; [destruct i; reflexivity|].
  destruct i; cbn; [reflexivity|]. apply IH. lia.
Qed.

(* ---- primitive readers on encoded data ---- *)
Lemma read_bytes_app a r n : blen a = n -> read_bytes n (a ++ r) = Ok (a, r).
Proof.
  intros H. unfold read_bytes. rewrite blen_app.
  destruct (blen a + blen r <? n) eqn:E; [lia|].
  rewrite take_app_exact, drop_app_exact by exact H. reflexivity.
Qed.

Lemma read_u1_Nb n r : n < 256 -> read_u1 (Nb n :: r) = Ok (n, r).
Proof. intros H. cbn. rewrite bN_Nb by exact H. reflexivity. Qed.

Lemma put_u16be_shape n : exists a b, put_u16be n = [a; b].
Proof. unfold put_u16be. eauto. Qed.

Lemma read_u2be_put n r : n < 65536 -> read_u2be (put_u16be n ++ r) = Ok (n, r).
Proof.
  intros H. pose proof (u16be_put n H) as P.
  destruct (put_u16be_shape n) as (a & b & E). rewrite E in *. cbn. rewrite P. reflexivity.
Qed.

Lemma length_put_u16be n : length (put_u16be n) = 2%nat.
Proof. reflexivity. Qed.

(* ---- the many loop on a concatenation of encoded items ---- *)
Lemma many_concat {A B} (item : reader A) (enc : B -> bytes) (dec : B -> A) (xs : list B) :
  (forall x r, In x xs -> item (enc x ++ r) = Ok (dec x, r)) ->
  (forall x, In x xs -> enc x <> []) ->
  forall fuel, (length (concat (map enc xs)) <= fuel)%nat ->
  many item fuel (concat (map enc xs)) = Ok (map dec xs).
Proof.
  induction xs as [|x xs IH]; intros Hi Hne fuel Hf.
  - destruct fuel; reflexivity.
  - cbn [map concat] in *.
    assert (Hx : enc x <> []) by (apply Hne; left; reflexivity).
    remember (enc x ++ concat (map enc xs)) as s eqn:Es.
    destruct s as [|c s]; [destruct (enc x); [congruence|discriminate]|].
    destruct fuel as [|f]; [cbn in Hf; lia|].
    cbn [many]. rewrite Es. rewrite Hi by (left; reflexivity). cbn [bind].
    rewrite IH.
    + reflexivity.
    + intros; apply Hi; right; assumption.
    + intros; apply Hne; right; assumption.
    + rewrite Es, app_length in Hf.
      destruct (enc x); [congruence|]. cbn in Hf. lia.
Qed.

(* ---- the loops never run out of fuel ---- *)
Definition shrinks {A} (item : reader A) : Prop :=
  forall s a r, item s = Ok (a, r) -> (length r < length s)%nat.
Definition no_fuel_fail {A} (item : reader A) : Prop := forall s, item s <> NoFuel.

Lemma many_total {A} (item : reader A) :
  shrinks item -> no_fuel_fail item ->
  forall fuel s, (length s <= fuel)%nat -> many item fuel s <> NoFuel.
Proof.
  intros Hs Hn. induction fuel as [|f IH]; intros s Hl.
  - destruct s; [discriminate|cbn in Hl; lia].
  - destruct s as [|c s]; [discriminate|]. cbn [many].
    destruct (item (c :: s)) as [[a r]| |] eqn:E; cbn [bind]; try discriminate.
    + pose proof (Hs _ _ _ E) as L.
      specialize (IH r). destruct (many item f r) eqn:E2; cbn [bind]; try discriminate.
      apply IH. cbn in *. lia.
    + exfalso. exact (Hn _ E).
Qed.

Lemma read_bytes_len n s a r : read_bytes n s = Ok (a, r) -> (length r <= length s)%nat.
Proof.
  unfold read_bytes. destruct (blen s <? n); [discriminate|]. intros [= <- <-].
  unfold drop. rewrite skipn_length. lia.
Qed.
Lemma read_u1_len s a r : read_u1 s = Ok (a, r) -> (length r < length s)%nat.
Proof. destruct s; [discriminate|]. intros [= <- <-]. cbn. lia. Qed.
Lemma read_u2be_len s a r : read_u2be s = Ok (a, r) -> (length r < length s)%nat.
Proof. destruct s as [|? [|? ?]]; try discriminate. intros [= <- <-]. cbn. lia. Qed.
