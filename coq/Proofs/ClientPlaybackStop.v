(* Proofs/ClientPlaybackStop.v -- stop_replay: what it does to every flow, and when that is the
   pre-replay state.  Everything an operation other than stop_replay / a user revert does to one
   flow is a revert-free history of that flow in the sense of C40 (Model/FlowBackup.v), so the
   C40 theorem revert_restores applies to the whole time a flow spends in the queue. *)
From Coq Require Import List Bool Arith NArith Lia.
From MV Require Import Base.Bytes Model.FlowBackup Proofs.FlowBackup Model.ClientPlayback Proofs.ClientPlaybackLog.
Import ListNotations.
Local Open Scope nat_scope.

Definition fr (f : fl) (h : list (fop obj)) : fl := frun obj obj gc scx f h.
Definition nr (h : list (fop obj)) : Prop := no_revert obj h.

Lemma gc_scx : forall (c o : obj), gc (scx c o) = c.
Proof. reflexivity. Qed.

Lemma fr_app : forall f a b, fr f (a ++ b) = fr (fr f a) b.
Proof. intros. unfold fr, frun. apply fold_left_app. Qed.

Lemma nr_app : forall a b, nr a -> nr b -> nr (a ++ b).
Proof. unfold nr, no_revert. intros a b A B I. apply in_app_or in I. tauto. Qed.

Lemma nr_nil : nr [].
Proof. unfold nr, no_revert. simpl. tauto. Qed.

Ltac nr_list := unfold nr, no_revert; simpl; intuition discriminate.

(* g is f after a revert-free history *)
Definition proj (f g : cflow) : Prop := exists h, nr h /\ g = mkCf (fr (cf f) h) (c_http f).

Lemma proj_refl : forall f, proj f f.
Proof. intros [c h]. exists []. split; [apply nr_nil|reflexivity]. Qed.

Lemma proj_trans : forall f g k, proj f g -> proj g k -> proj f k.
Proof.
  intros f g k (h1 & N1 & E1) (h2 & N2 & E2). exists (h1 ++ h2). split; [apply nr_app; auto|].
  subst g. simpl in E2. rewrite fr_app. exact E2.
Qed.

Lemma proj_hist : forall f (g : fl -> fl) h, nr h -> (forall x, g x = fr x h) -> proj f (on_fl g f).
Proof. intros f g h N E. exists h. split; auto. unfold on_fl. rewrite E. reflexivity. Qed.

Lemma proj_prepare : forall f, proj f (on_fl prepare f).
Proof. intros f. apply proj_hist with (h := [FBackup; FEdit prepare_edit]); [nr_list|reflexivity]. Qed.

Lemma proj_begin : forall b f, proj f (on_fl (begin b) f).
Proof. intros b f. apply proj_hist with (h := [FEdit begin_edit; FLive b]); [nr_list|reflexivity]. Qed.

Lemma proj_finish : forall t f, proj f (on_fl (fun x => set_live false (on_obj (finish_edit t) x)) f).
Proof. intros t f. apply proj_hist with (h := [FEdit (finish_edit t); FLive false]); [nr_list|reflexivity]. Qed.

Lemma proj_edit : forall e f, e <> ERevert -> proj f (on_fl (edit_fl e) f).
Proof.
  intros e f NE. destruct e; try congruence.
  - eapply proj_hist with (h := [FEdit _]); [nr_list|reflexivity].
  - eapply proj_hist with (h := [FEdit _]); [nr_list|reflexivity].
  - eapply proj_hist with (h := [FEdit _]); [nr_list|reflexivity].
  - eapply proj_hist with (h := [FEdit _]); [nr_list|reflexivity].
  - eapply proj_hist with (h := [FEdit _]); [nr_list|reflexivity].
  - eapply proj_hist with (h := [FLive b]); [nr_list|reflexivity].
  - eapply proj_hist with (h := [FBackup]); [nr_list|reflexivity].
Qed.

(* the same for one position of the flow table *)
Definition proj_at (i : nat) (fs fs' : list cflow) : Prop :=
  forall f, nth_error fs i = Some f -> exists g, nth_error fs' i = Some g /\ proj f g.

Lemma proj_at_refl : forall i fs, proj_at i fs fs.
Proof. intros i fs f N. exists f. split; auto. apply proj_refl. Qed.

Lemma proj_at_trans : forall i a b c, proj_at i a b -> proj_at i b c -> proj_at i a c.
Proof.
  intros i a b c P Q f N. destruct (P f N) as (g & N1 & P1). destruct (Q g N1) as (k & N2 & P2).
  exists k. split; auto. eapply proj_trans; eauto.
Qed.

Lemma proj_at_updf : forall i j g fs, (forall f, proj f (g f)) -> proj_at i fs (updf j g fs).
Proof.
  intros i j g fs H f N. destruct (Nat.eq_dec j i) as [->|D].
  - rewrite updf_same, N. simpl. eauto.
  - rewrite updf_other by exact D. exists f. split; auto. apply proj_refl.
Qed.

Lemma start_loop_proj : forall ids infl fs q next upd fs' q' nx' upd' i,
  start_loop infl ids fs q next upd = (fs', q', nx', upd') -> proj_at i fs fs'.
Proof.
  induction ids as [|j r IH]; intros infl fs q next upd fs' q' nx' upd' i H; simpl in H.
  - inversion H; subst. apply proj_at_refl.
  - destruct (nth_error fs j) as [f|]; [|eapply IH; eauto].
    destruct (check _ f); [eapply IH; eauto|].
    eapply proj_at_trans; [|eapply IH; eauto]. apply proj_at_updf. apply proj_prepare.
Qed.

Lemma start_next_proj : forall q fs lg q' fs' a' lg' i,
  start_next q fs lg = (q', fs', a', lg') -> proj_at i fs fs'.
Proof.
  induction q as [|[n j] r IH]; intros fs lg q' fs' a' lg' i H; simpl in H.
  - inversion H; subst. apply proj_at_refl.
  - destruct (nth_error fs j) as [f|]; [|eapply IH; eauto].
    destruct (negb _); [eapply IH; eauto|]. destruct (o_resp _).
    + eapply proj_at_trans; [|eapply IH; eauto]. apply proj_at_updf. apply proj_begin.
    + inversion H; subst. apply proj_at_updf. apply proj_begin.
Qed.

Lemma loop_net_proj : forall s i, proj_at i (flows s) (flows (loop_net s)).
Proof.
  intros s i. destruct (loop_net_cases s) as [E|[(a & A & _ & _ & E)|(a & t & A & _ & E)]]; rewrite E.
  - apply proj_at_refl.
  - apply proj_at_refl.
  - unfold finish. simpl. apply proj_at_updf. apply proj_finish.
Qed.

(* operations that do not revert flow i *)
Definition safe (i : nat) (o : op) : Prop := o <> Stop /\ o <> Edit i ERevert.

Lemma step_proj : forall s o i, safe i o -> proj_at i (flows s) (flows (step s o)).
Proof.
  intros s o i [S1 S2]. destruct o as [ids| | |r|j e]; simpl; try congruence.
  - unfold start_replay. destruct (start_loop _ _ _ _ _ _) as [[[fs q] nx] upd] eqn:SL. simpl.
    eapply start_loop_proj; eauto.
  - unfold loop. pose proof (loop_net_proj s i) as P. set (s1 := loop_net s) in *.
    destruct (act s1); auto. destruct (start_next _ _ _) as [[[q' fs'] a'] lg'] eqn:SN. simpl.
    eapply proj_at_trans; [exact P|]. eapply start_next_proj; eauto.
  - unfold net. destruct (act s) as [a|]; [|apply proj_at_refl].
    destruct (a_pend a); [apply proj_at_refl|]. destruct (compatible (a_phase a) r); apply proj_at_refl.
  - destruct (Nat.eq_dec j i) as [->|D].
    + apply proj_at_updf. intros f. apply proj_edit. congruence.
    + intros f N. rewrite updf_other by exact D. exists f. split; auto. apply proj_refl.
Qed.

Lemma run_proj : forall h s i, Forall (safe i) h -> proj_at i (flows s) (flows (run s h)).
Proof.
  induction h as [|o r IH]; intros s i F; simpl; [apply proj_at_refl|].
  inversion F; subst. eapply proj_at_trans; [apply step_proj; eauto|]. apply IH. assumption.
Qed.

(* an accepted flow starts its stay in the queue with backup() *)
Lemma prepare_backup : forall x, prepare x = fr (f_backup x) [FEdit prepare_edit].
Proof. reflexivity. Qed.

Lemma start_loop_backup : forall ids infl fs q next upd fs' q' nx' upd',
  start_loop infl ids fs q next upd = (fs', q', nx', upd') ->
  forall i f, nth_error fs i = Some f -> In i upd' ->
  In i upd \/ exists hh, nr hh /\ nth_error fs' i = Some (mkCf (fr (f_backup (cf f)) hh) (c_http f)).
Proof.
  induction ids as [|j r IH]; intros infl fs q next upd fs' q' nx' upd' H i f N I; simpl in H.
  - inversion H; subst. left. exact I.
  - destruct (nth_error fs j) as [fj|] eqn:NJ; [|eapply IH; eauto].
    destruct (check _ fj); [eapply IH; eauto|].
    destruct (Nat.eq_dec i j) as [->|D].
    + right. assert (NJ1 : nth_error (updf j (on_fl prepare) fs) j = Some (on_fl prepare f)).
      { rewrite updf_same, N. reflexivity. }
      destruct (start_loop_proj _ _ _ _ _ _ _ _ _ _ j H _ NJ1) as (g & G1 & (h & G2 & G3)).
      exists (FEdit prepare_edit :: h). split.
      * unfold nr, no_revert in *. simpl. intros [X|X]; [discriminate|auto].
      * rewrite G1, G3. simpl. reflexivity.
    + assert (N1 : nth_error (updf j (on_fl prepare) fs) i = Some f).
      { rewrite updf_other; auto. }
      destruct (IH _ _ _ _ _ _ _ _ _ H _ _ N1 I) as [X|X]; auto.
      apply in_app_or in X. destruct X as [X|[X|[]]]; auto. congruence.
Qed.

(* ------------------------------------------------------------------ stop_replay *)
Lemma f_revert_idem : forall x, f_revert (f_revert x) = f_revert x.
Proof. intros x. unfold f_revert. apply revert_noop. apply revert_clears. Qed.

Lemma revert_all_notin : forall q fs i, ~ In i (map snd q) -> nth_error (revert_all q fs) i = nth_error fs i.
Proof.
  induction q as [|[n j] r IH]; intros fs i NI; simpl; auto.
  simpl in NI. rewrite IH by tauto. apply updf_other. intros E. apply NI. left. exact E.
Qed.

Lemma revert_all_in : forall q fs i f, nth_error fs i = Some f -> In i (map snd q) ->
  nth_error (revert_all q fs) i = Some (on_fl f_revert f).
Proof.
  induction q as [|[n j] r IH]; intros fs i f N I; simpl in *; [contradiction|].
  destruct (Nat.eq_dec j i) as [->|D].
  - assert (N1 : nth_error (updf i (on_fl f_revert) fs) i = Some (on_fl f_revert f)).
    { rewrite updf_same, N. reflexivity. }
    destruct (in_dec Nat.eq_dec i (map snd r)) as [Y|Y].
    + rewrite (IH _ _ _ N1 Y). unfold on_fl. simpl. rewrite f_revert_idem. reflexivity.
    + rewrite revert_all_notin by exact Y. exact N1.
  - destruct I as [I|I]; [congruence|]. apply IH; auto. rewrite updf_other; auto.
Qed.

(* what stop_replay does: the queue is emptied, every flow that was in it is reverted, every other
   flow is untouched, and the update hook names exactly the queued flows *)
Theorem stop_spec : forall s,
  queue (stop_replay s) = []
  /\ log (stop_replay s) = log s ++ [LStopped (queue s)]
  /\ length (flows (stop_replay s)) = length (flows s)
  /\ forall i f, nth_error (flows s) i = Some f ->
       nth_error (flows (stop_replay s)) i =
         Some (if in_dec Nat.eq_dec i (map snd (queue s)) then on_fl f_revert f else f).
Proof.
  intros s. unfold stop_replay. simpl. repeat split.
  - generalize (flows s). induction (queue s) as [|[n j] r IH]; intros fs; simpl; auto.
    rewrite IH. apply updf_length.
  - intros i f N. destruct (in_dec Nat.eq_dec i (map snd (queue s))) as [Y|Y].
    + apply revert_all_in; auto.
    + rewrite revert_all_notin; auto.
Qed.

(* a reverted flow has exactly the state saved in its backup, and no backup *)
Lemma reverted_state : forall (x : fl) b, fbackup x = Some b ->
  f_state (f_revert x) = St (sid b) (sc b) None /\ fbackup (f_revert x) = None.
Proof.
  intros x b B. split.
  - apply (revert_state obj obj gc scx gc_scx x b B).
  - apply revert_clears.
Qed.

(* The pre-replay state.  Flow i has no backup pending when start_replay accepts it; then any
   history without stop_replay and without a user revert of flow i (more submissions, loop runs,
   network results, replays of other entries and even of an earlier entry for flow i, edits of
   any flow); flow i is still queued; stop_replay.  Flow i then has exactly the state it had
   before it was submitted, and no backup. *)
Theorem stop_restores : forall s ids upd h i f0,
  nth_error (flows s) i = Some f0 -> fbackup (cf f0) = None ->
  log (step s (Submit ids)) = log s ++ [LSubmit (next_seq s) upd] -> In i upd ->
  Forall (safe i) h ->
  let s2 := run (step s (Submit ids)) h in
  In i (map snd (queue s2)) ->
  exists g, nth_error (flows (step s2 Stop)) i = Some g
    /\ f_state (cf g) = f_state (cf f0) /\ fbackup (cf g) = None /\ c_http g = c_http f0
    /\ queue (step s2 Stop) = [].
Proof.
  intros s ids upd h i f0 N B L I F s2 Q.
  assert (A : exists hh, nr hh /\ nth_error (flows (step s (Submit ids))) i
                                  = Some (mkCf (fr (f_backup (cf f0)) hh) (c_http f0))).
  { simpl in *. unfold start_replay in *. destruct (start_loop _ _ _ _ _ _) as [[[fs q] nx] u] eqn:SL.
    simpl in *. apply app_inv_head in L. inversion L; subst u.
    destruct (start_loop_backup _ _ _ _ _ _ _ _ _ _ SL _ _ N I) as [[]|X]. exact X. }
  destruct A as (hh & NH & N1).
  destruct (run_proj h _ i F _ N1) as (g2 & N2 & (h2 & NH2 & E2)). fold s2 in N2.
  simpl in E2. rewrite <- fr_app in E2.
  destruct (stop_spec s2) as (Q0 & _ & _ & SP). change (step s2 Stop) with (stop_replay s2).
  rewrite (SP _ _ N2). destruct (in_dec Nat.eq_dec i (map snd (queue s2))) as [_|NI]; [|contradiction].
  eexists. split; [reflexivity|]. subst g2. simpl.
  pose proof (revert_restores obj obj gc scx gc_scx (cf f0) (hh ++ h2) (nr_app _ _ NH NH2)) as R.
  simpl in R. rewrite B in R. destruct R as (R1 & R2 & _).
  repeat split; auto.
Qed.

(* In general (backup pending or not): after stop_replay a flow that was queued with a backup
   pending has the state saved in THAT backup -- which is older than the replay whenever the flow
   had been edited, or replayed before, and not reverted since. *)
Theorem stop_reverts_to_backup : forall s i f b,
  nth_error (flows s) i = Some f -> In i (map snd (queue s)) -> fbackup (cf f) = Some b ->
  exists g, nth_error (flows (step s Stop)) i = Some g
    /\ f_state (cf g) = St (sid b) (sc b) None /\ fbackup (cf g) = None.
Proof.
  intros s i f b N Q B. destruct (stop_spec s) as (_ & _ & _ & SP).
  change (step s Stop) with (stop_replay s). rewrite (SP _ _ N).
  destruct (in_dec Nat.eq_dec i (map snd (queue s))) as [_|NI]; [|contradiction].
  eexists. split; [reflexivity|]. simpl. apply reverted_state. exact B.
Qed.

(* ------------------------------------------------------------------ witnesses *)
Definition http_flow (id : N) (resp : option nat) : cflow :=
  mkCf (Flow id (mkObj true (Some 0%nat) false resp false false false) false None) true.

(* the user edits a flow (backup, new body 7), replays it, stops: the edit is gone *)
Definition edited_then_stopped : list op :=
  [Edit 0 EBackup; Edit 0 (ESetContent 7); Submit [0]; Stop].

Lemma stop_restores_refuted_witness :
  let before := run (init [http_flow 0%N (Some 100)]) [Edit 0 EBackup; Edit 0 (ESetContent 7)] in
  let after := run (init [http_flow 0%N (Some 100)]) edited_then_stopped in
  option_map (fun f => o_content (fo (cf f))) (nth_error (flows before) 0) = Some (Some 7)
  /\ option_map (fun f => o_content (fo (cf f))) (nth_error (flows after) 0) = Some (Some 0)
  /\ option_map (fun f => fbackup (cf f)) (nth_error (flows before) 0) <> Some None
  /\ option_map (fun f => fbackup (cf f)) (nth_error (flows after) 0) = Some None
  /\ queue after = [].
Proof. vm_compute. repeat split; try reflexivity. discriminate. Qed.
