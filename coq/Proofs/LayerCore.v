(* Proofs/LayerCore.v — invariants of Layer.handle_event for every handler and schedule. *)
From Coq Require Import List Bool Arith Lia.
From MV Require Import Model.LayerCore.
Import ListNotations.

Lemma handled_app a b : handled (a ++ b) = handled a ++ handled b.
Proof. induction a as [|[ev|c|c r] a IH]; simpl; rewrite ?IH; reflexivity. Qed.
Lemma resumed_app a b : resumed (a ++ b) = resumed a ++ resumed b.
Proof. induction a as [|[ev|c|c r] a IH]; simpl; rewrite ?IH; reflexivity. Qed.

Lemma bracketed_app p a b :
  bracketed p (a ++ b) = bracketed p a && bracketed (pending_after p a) b.
Proof.
  revert p; induction a as [|[ev|c|c r] a IH]; intros p; simpl.
  - reflexivity.
  - destruct p; [reflexivity | apply IH].
  - destruct p; [reflexivity | apply IH].
  - destruct p; [|reflexivity]. rewrite IH. rewrite andb_assoc. reflexivity.
Qed.
Lemma pending_after_app p a b : pending_after p (a ++ b) = pending_after (pending_after p a) b.
Proof. revert p; induction a as [|[ev|c|c r] a IH]; intros p; simpl; auto. Qed.

Section Layer.
  Variable S : Type.
  Variable h : S -> event -> prog S.
  Variable me : nat.

  Definition pend (r : runstate S) : option nat :=
    match r with Waiting c _ => Some c | Idle _ => None end.
  Definition inv (st : lst S) : Prop :=
    match run st with Idle _ => queue st = [] | Waiting _ _ => True end.

  (* ---- process ---- *)
  Lemma process_trace (p : prog S) :
    let '(r, out, tr) := process me p in
    tr = match r with Waiting c _ => [TPause c] | Idle _ => [] end.
  Proof.
    induction p as [s|c k IH]; simpl; [reflexivity|].
    destruct (cblock c); try reflexivity;
      specialize (IH None); destruct (process me (k None)) as [[r out] tr]; exact IH.
  Qed.

  Lemma process_no_blocking (p : prog S) :
    let '(r, out, tr) := process me p in
    Forall (fun c => cblock c <> Blocking) out.
  Proof.
    induction p as [s|c k IH]; simpl; [constructor|].
    destruct (cblock c) eqn:E.
    - specialize (IH None). destruct (process me (k None)) as [[r out] tr].
      constructor; [rewrite E; discriminate | exact IH].
    - constructor; [simpl; discriminate | constructor].
    - specialize (IH None). destruct (process me (k None)) as [[r out] tr].
      constructor; [rewrite E; discriminate | exact IH].
  Qed.

  (* a program whose commands are all non-Blocking runs to its end: the relaying parent never pauses *)
  Lemma process_relay out (fin : prog S) :
    Forall (fun c => cblock c <> Blocking) out ->
    process me (relay out fin) =
    let '(r, o, t) := process me fin in (r, out ++ o, t).
  Proof.
    induction 1 as [|c out Hc _ IH]; simpl.
    - destruct (process me fin) as [[r o] t]. reflexivity.
    - destruct (cblock c) eqn:E; try contradiction;
        rewrite IH; destruct (process me fin) as [[r o] t]; reflexivity.
  Qed.

  (* ---- drain ---- *)
  Lemma drain_spec s q :
    let '(r, q2, out, tr) := drain h me s q in
    handled tr ++ q2 = q /\ resumed tr = [] /\
    bracketed None tr = true /\ pending_after None tr = pend r /\
    (match r with Idle _ => q2 = [] | Waiting _ _ => True end) /\
    Forall (fun c => cblock c <> Blocking) out.
  Proof.
    revert s; induction q as [|ev q IH]; intros s; simpl.
    - repeat split; constructor.
    - pose proof (process_trace (h s ev)) as Ht.
      pose proof (process_no_blocking (h s ev)) as Hb.
      destruct (process me (h s ev)) as [[r out] tr].
      destruct r as [s'|c k].
      + subst tr. specialize (IH s').
        destruct (drain h me s' q) as [[[r2 q2] out2] tr2].
        destruct IH as (H1 & H2 & H3 & H4 & H5 & H6).
        simpl. repeat split; try assumption.
        * rewrite H1. reflexivity.
        * apply Forall_app; split; assumption.
      + subst tr. simpl. repeat split; try reflexivity. exact Hb.
  Qed.

  (* ---- handle_event ---- *)
  Lemma handle_event_spec st ev :
    inv st ->
    let '(st', out, tr, consumed) := handle_event h me st ev in
    inv st' /\
    handled tr ++ queue st' = queue st ++ (if consumed then [] else [ev]) /\
    resumed tr = (if consumed then [ev] else []) /\
    bracketed (pend (run st)) tr = true /\
    pending_after (pend (run st)) tr = pend (run st') /\
    Forall (fun c => cblock c <> Blocking) out.
  Proof.
    unfold inv, handle_event. intros Hinv.
    destruct (run st) as [s|c k] eqn:Er.
    - (* idle *)
      pose proof (process_trace (h s ev)) as Ht.
      pose proof (process_no_blocking (h s ev)) as Hb.
      destruct (process me (h s ev)) as [[r out] tr]. simpl.
      rewrite Hinv. subst tr.
      destruct r as [s'|c k]; simpl; repeat split; try reflexivity; assumption.
    - destruct ev as [kind eid|c' r].
      + simpl. repeat split; try reflexivity; constructor.
      + destruct (Nat.eqb c' c) eqn:Ec.
        * apply Nat.eqb_eq in Ec. subst c'.
          pose proof (process_trace (k (Some r))) as Ht.
          pose proof (process_no_blocking (k (Some r))) as Hb.
          destruct (process me (k (Some r))) as [[res out] tr].
          destruct res as [s'|c2 k2].
          -- subst tr. pose proof (drain_spec s' (queue st)) as Hd.
             destruct (drain h me s' (queue st)) as [[[r2 q2] out2] tr2].
             destruct Hd as (H1 & H2 & H3 & H4 & H5 & H6). simpl.
             rewrite Nat.eqb_refl. simpl.
             split; [destruct r2; [exact H5 | exact I]|].
             split; [rewrite app_nil_r; exact H1|].
             split; [rewrite H2; reflexivity|].
             split; [exact H3|]. split; [exact H4|].
             apply Forall_app; split; assumption.
          -- subst tr. simpl. rewrite Nat.eqb_refl. simpl.
             repeat split; try reflexivity.
             ++ rewrite app_nil_r. reflexivity.
             ++ exact Hb.
        * simpl. repeat split; try reflexivity; constructor.
  Qed.

  Lemma run_events_spec evs : forall st,
    inv st ->
    let '(st', out, tr, fs) := run_events h me st evs in
    inv st' /\
    length fs = length evs /\
    handled tr ++ queue st' = queue st ++ select negb evs fs /\
    resumed tr = select (fun b => b) evs fs /\
    bracketed (pend (run st)) tr = true /\
    pending_after (pend (run st)) tr = pend (run st') /\
    Forall (fun c => cblock c <> Blocking) out.
  Proof.
    induction evs as [|ev evs IH]; intros st Hinv; simpl.
    - repeat split; try reflexivity; try assumption; try constructor.
      rewrite app_nil_r. reflexivity.
    - pose proof (handle_event_spec st ev Hinv) as H1.
      destruct (handle_event h me st ev) as [[[st1 out1] tr1] f1].
      destruct H1 as (I1 & Q1 & R1 & B1 & P1 & F1).
      specialize (IH st1 I1).
      destruct (run_events h me st1 evs) as [[[st2 out2] tr2] fs].
      destruct IH as (I2 & L2 & Q2 & R2 & B2 & P2 & F2).
      repeat split.
      + exact I2.
      + simpl. rewrite L2. reflexivity.
      + rewrite handled_app, <- app_assoc, Q2, app_assoc, Q1.
        destruct f1; simpl; rewrite <- ?app_assoc; simpl; reflexivity.
      + rewrite resumed_app, R1, R2. destruct f1; reflexivity.
      + rewrite bracketed_app, B1, P1, B2. reflexivity.
      + rewrite pending_after_app, P1, P2. reflexivity.
      + apply Forall_app; split; assumption.
  Qed.
End Layer.

(* ------------------------------------------------------------------ *)
(* Theorems from the initial state                                     *)
(* ------------------------------------------------------------------ *)
Section Top.
  Variable S : Type.
  Variable h : S -> event -> prog S.
  Variable me : nat.
  Variable s0 : S.

  Lemma inv_init : inv S (init s0).
  Proof. reflexivity. Qed.

  (* (1) every non-consumed event is handled exactly once, in arrival order, or is still
         queued (only possible while waiting); consumed events are exactly the resumptions *)
  Theorem exactly_once_in_order evs :
    let '(st, out, tr, fs) := run_events h me (init s0) evs in
    handled tr ++ queue st = select negb evs fs /\
    resumed tr = select (fun b => b) evs fs /\
    length fs = length evs /\
    (match run st with Idle _ => handled tr = select negb evs fs | Waiting _ _ => True end).
  Proof.
    pose proof (run_events_spec S h me evs (init s0) inv_init) as H.
    destruct (run_events h me (init s0) evs) as [[[st out] tr] fs].
    destruct H as (I & L & Q & R & B & P & F).
    repeat split; try assumption.
    unfold inv in I. destruct (run st); [|exact I].
    rewrite I, app_nil_r in Q. exact Q.
  Qed.

  (* (2)+(3) no handler is started while waiting, and each wait is ended by exactly its own completion *)
  Theorem no_handling_while_waiting evs :
    let '(st, out, tr, fs) := run_events h me (init s0) evs in
    bracketed None tr = true /\ pending_after None tr = pend S (run st).
  Proof.
    pose proof (run_events_spec S h me evs (init s0) inv_init) as H.
    destruct (run_events h me (init s0) evs) as [[[st out] tr] fs].
    destruct H as (I & L & Q & R & B & P & F). split; assumption.
  Qed.

  (* (4) no command leaves a layer still marked blocking=True, so a relaying parent never pauses *)
  Theorem outputs_never_blocking evs :
    let '(st, out, tr, fs) := run_events h me (init s0) evs in
    Forall (fun c => cblock c <> Blocking) out.
  Proof.
    pose proof (run_events_spec S h me evs (init s0) inv_init) as H.
    destruct (run_events h me (init s0) evs) as [[[st out] tr] fs].
    destruct H as (I & L & Q & R & B & P & F). exact F.
  Qed.
End Top.

Theorem parent_not_blocked (S PS : Type) (h : S -> event -> prog S) (me parent : nat)
        (s0 : S) (evs : list event) (fin : prog PS) :
  let '(st, out, tr, fs) := run_events h me (init s0) evs in
  process parent (relay out fin) = let '(r, o, t) := process parent fin in (r, out ++ o, t).
Proof.
  pose proof (outputs_never_blocking S h me s0 evs) as H.
  destruct (run_events h me (init s0) evs) as [[[st out] tr] fs].
  apply process_relay. exact H.
Qed.
