(* Proofs/OptManagerBase.v -- basic facts about Model/OptManager.v: Python ==, dict helpers, name sets,
   the typed invariant, and the exact shape of what a .changed signal appends to the log. *)
From Coq Require Import List Bool NArith ZArith Lia.
From MV Require Import Base.Bytes Model.OptManager.
Import ListNotations.

(* ---------- Python == ---------- *)
Lemma item_eqb_refl i : item_eqb i i = true.
Proof. destruct i; simpl; [apply bytes_eqb_refl | apply N.eqb_refl]. Qed.

Lemma list_eqb_refl {A} (e : A -> A -> bool) :
  (forall x, e x x = true) -> forall l, list_eqb e l l = true.
Proof. intros H l; induction l as [|x t IH]; simpl; [reflexivity | now rewrite H, IH]. Qed.

Lemma py_eq_refl v : py_eq v v = true.
Proof.
  destruct v; simpl; try reflexivity.
  - apply Bool.eqb_reflx.
  - apply Z.eqb_refl.
  - apply bytes_eqb_refl.
  - rewrite Bool.eqb_reflx; simpl; apply list_eqb_refl, item_eqb_refl.
  - apply N.eqb_refl.
Qed.

Lemma item_eqb_eq a b : item_eqb a b = true -> a = b.
Proof.
  destruct a, b; simpl; intros H; try discriminate.
  - apply bytes_eqb_eq in H; now subst.
  - apply N.eqb_eq in H; now subst.
Qed.

Lemma list_eqb_eq {A} (e : A -> A -> bool) :
  (forall x y, e x y = true -> x = y) -> forall a b, list_eqb e a b = true -> a = b.
Proof.
  intros H a; induction a as [|x t IH]; intros [|y u]; simpl; intros E; try discriminate; [reflexivity|].
  apply andb_true_iff in E as [E1 E2]. f_equal; [now apply H | now apply IH].
Qed.

(* the only values that are == without being identical are a bool and the int 0/1 *)
Definition bool_int_mix (a b : val) : Prop :=
  (exists x, a = VBool x /\ b = VInt (Z.b2z x)) \/ (exists x, a = VInt (Z.b2z x) /\ b = VBool x).

Lemma py_eq_spec a b : py_eq a b = true -> a = b \/ bool_int_mix a b.
Proof.
  destruct a, b; simpl; intros H; try discriminate.
  - now left.
  - left; f_equal; now apply Bool.eqb_prop.
  - right; left; exists b0; apply Z.eqb_eq in H; now subst.
  - right; right; exists b; apply Z.eqb_eq in H; now subst.
  - left; apply Z.eqb_eq in H; now subst.
  - left; apply bytes_eqb_eq in H; now subst.
  - apply andb_true_iff in H as [H1 H2]. left. apply Bool.eqb_prop in H1.
    apply (list_eqb_eq item_eqb item_eqb_eq) in H2. now subst.
  - left; apply N.eqb_eq in H; now subst.
Qed.

(* ---------- dicts ---------- *)
Lemma dget_dset_same {A} k (v : A) d : dget k (dset k v d) = Some v.
Proof.
  induction d as [|[k' v'] t IH]; simpl.
  - now rewrite N.eqb_refl.
  - destruct (N.eqb k k') eqn:E; simpl; rewrite ?N.eqb_refl, ?E; auto.
Qed.

Lemma dget_dset_other {A} k n (v : A) d : n <> k -> dget n (dset k v d) = dget n d.
Proof.
  intros Hn. induction d as [|[k' v'] t IH]; simpl.
  - destruct (N.eqb n k) eqn:E; [apply N.eqb_eq in E; contradiction | reflexivity].
  - destruct (N.eqb k k') eqn:E; simpl.
    + apply N.eqb_eq in E; subst k'.
      destruct (N.eqb n k) eqn:E2; [apply N.eqb_eq in E2; contradiction | reflexivity].
    + destruct (N.eqb n k'); auto.
Qed.

Lemma dget_dmap {A B} (f : A -> B) k d : dget k (dmap f d) = option_map f (dget k d).
Proof.
  induction d as [|[k' v'] t IH]; simpl; [reflexivity|].
  destruct (N.eqb k k'); simpl; auto.
Qed.

Lemma dget_In {A} k (v : A) d : dget k d = Some v -> In (k, v) d.
Proof.
  induction d as [|[k' v'] t IH]; simpl; [discriminate|].
  destruct (N.eqb k k') eqn:E; intros H.
  - apply N.eqb_eq in E; inversion H; subst; now left.
  - right; auto.
Qed.

Lemma dget_app {A} k (a b : list (name * A)) :
  dget k (a ++ b) = match dget k a with Some v => Some v | None => dget k b end.
Proof.
  induction a as [|[k' v'] t IH]; simpl; [reflexivity|].
  destruct (N.eqb k k'); auto.
Qed.

Lemma map_fst_dmap {A B} (f : A -> B) d : map fst (dmap f d) = map fst d.
Proof. unfold dmap; rewrite map_map; simpl; reflexivity. Qed.

Lemma map_fst_dset_mem {A} k (v : A) d : dmem k d = true -> map fst (dset k v d) = map fst d.
Proof.
  unfold dmem. induction d as [|[k' v'] t IH]; simpl; [discriminate|].
  destruct (N.eqb k k') eqn:E; simpl; intros H.
  - apply N.eqb_eq in E; now subst.
  - f_equal; auto.
Qed.

(* ---------- name sets ---------- *)
Lemma sins_In x y l : In y (sins x l) <-> y = x \/ In y l.
Proof.
  induction l as [|z t IH]; simpl.
  - intuition.
  - destruct (N.ltb x z) eqn:E1; simpl; [intuition|].
    destruct (N.eqb x z) eqn:E2; simpl.
    + apply N.eqb_eq in E2; subst; intuition.
    + rewrite IH; intuition.
Qed.

Lemma set_of_In y l : In y (set_of l) <-> In y l.
Proof.
  induction l as [|x t IH]; simpl; [reflexivity|].
  rewrite sins_In, IH; intuition.
Qed.

Definition lt_all (x : name) (l : list name) : Prop := Forall (fun y => (x < y)%N) l.
Fixpoint ssorted (l : list name) : Prop :=
  match l with [] => True | x :: t => lt_all x t /\ ssorted t end.

Lemma sins_sorted x l : ssorted l -> ssorted (sins x l).
Proof.
  induction l as [|z t IH]; simpl; intros H.
  - split; [constructor | exact I].
  - destruct H as [Hz Ht].
    destruct (N.ltb x z) eqn:E1.
    + apply N.ltb_lt in E1. simpl; split; [|split; assumption].
      constructor; [assumption|]. unfold lt_all in *. rewrite Forall_forall in *.
      intros y Hy. specialize (Hz y Hy). lia.
    + destruct (N.eqb x z) eqn:E2; [simpl; split; assumption|].
      apply N.ltb_ge in E1. apply N.eqb_neq in E2.
      simpl; split; [|apply IH; assumption].
      unfold lt_all in *. rewrite Forall_forall in *. intros y Hy.
      apply sins_In in Hy as [->|Hy]; [lia | auto].
Qed.

Lemma set_of_sorted l : ssorted (set_of l).
Proof. induction l as [|x t IH]; simpl; [exact I | apply sins_sorted, IH]. Qed.

Lemma ssorted_NoDup l : ssorted l -> NoDup l.
Proof.
  induction l as [|x t IH]; simpl; intros H; constructor.
  - destruct H as [H _]. unfold lt_all in H. rewrite Forall_forall in H.
    intros Hin. specialize (H x Hin). lia.
  - apply IH, H.
Qed.

(* ---------- the typed invariant ---------- *)
Definition typed_opt (o : opt) : Prop :=
  check_option_type (odefault o) (otype o) = true
  /\ (forall v, ovalue o = Some v -> check_option_type v (otype o) = true).
Definition typed_opts (d : list (name * opt)) : Prop := Forall (fun p => typed_opt (snd p)) d.
Definition wf (s : state) : Prop := typed_opts (options s).

Lemma typed_current o : typed_opt o -> check_option_type (current o) (otype o) = true.
Proof. intros [H1 H2]. unfold current. destruct (ovalue o) eqn:E; auto. Qed.

Lemma typed_dget d k o : typed_opts d -> dget k d = Some o -> typed_opt o.
Proof.
  intros H E. apply dget_In in E. unfold typed_opts in H. rewrite Forall_forall in H.
  exact (H _ E).
Qed.

Lemma typed_dset d k o : typed_opts d -> typed_opt o -> typed_opts (dset k o d).
Proof.
  intros H Ho. induction d as [|[k' v'] t IH]; simpl.
  - constructor; [exact Ho | constructor].
  - inversion H as [|? ? H1 H2]; subst. destruct (N.eqb k k').
    + constructor; [exact Ho | exact H2].
    + constructor; [exact H1 | apply IH, H2].
Qed.

Lemma typed_dmap f d : (forall o, typed_opt o -> typed_opt (f o)) -> typed_opts d -> typed_opts (dmap f d).
Proof.
  intros Hf H. unfold typed_opts, dmap in *. rewrite Forall_forall in *.
  intros p Hp. apply in_map_iff in Hp as [q [<- Hq]]. simpl. apply Hf, H, Hq.
Qed.

Lemma typed_set_value o v : typed_opt o -> check_option_type v (otype o) = true -> typed_opt (set_value o v).
Proof. intros [H1 H2] Hv. split; simpl; [exact H1|]. intros w E; inversion E; now subst. Qed.

Lemma typed_reset o : typed_opt o -> typed_opt (reset_opt o).
Proof. intros [H1 H2]. split; simpl; [exact H1 | intros v E; discriminate E]. Qed.

Lemma typed_deepcopy o : typed_opt o -> typed_opt (deepcopy_opt o).
Proof.
  intros H. split; simpl; [exact (proj1 H)|].
  destruct (has_changed o); [|intros w E; discriminate E].
  intros w E; inversion E; subst. now apply typed_current.
Qed.

(* ---------- what one update may change: same names, types, defaults; values == ---------- *)
Definition same_value (o o' : opt) : Prop :=
  otype o' = otype o /\ odefault o' = odefault o /\ py_eq (current o) (current o') = true.
Definition restored (d d' : list (name * opt)) : Prop :=
  Forall2 (fun p p' => fst p' = fst p /\ same_value (snd p) (snd p')) d d'.

Lemma same_value_refl o : same_value o o.
Proof. repeat split; apply py_eq_refl. Qed.

Lemma restored_refl d : restored d d.
Proof. induction d; constructor; auto. split; [reflexivity | apply same_value_refl]. Qed.

Lemma same_value_deepcopy o : same_value o (deepcopy_opt o).
Proof.
  repeat split; simpl. unfold current at 2; simpl.
  destruct (has_changed o) eqn:E; [apply py_eq_refl|].
  unfold has_changed in E. now apply negb_false_iff in E.
Qed.

Lemma restored_deepcopy d : restored d (dmap deepcopy_opt d).
Proof.
  induction d as [|[k o] t IH]; simpl; constructor; auto.
  split; [reflexivity | apply same_value_deepcopy].
Qed.

(* ---------- events ---------- *)
Definition ev_listener (e : event) : option N :=
  match e with Notified l _ _ _ => Some l | Errored => None end.
Definition ev_ok (e : event) : bool := match e with Notified _ _ _ KReject => false | _ => true end.
Definition ev_nested (e : event) : bool := match e with Notified _ _ _ KNested => true | _ => false end.
(* e is a notification showing the option values sn together with the updated-set u *)
Definition shows (sn : snap) (u : list name) (e : event) : Prop :=
  exists l k, e = Notified l sn u k.
Fixpoint listeners (evs : list event) : list N :=
  match evs with
  | [] => []
  | Notified l _ _ _ :: t => l :: listeners t
  | Errored :: t => listeners t
  end.

(* what the listener l saw most recently (log is newest first) *)
Fixpoint last_seen (l : N) (lg : list event) : option snap :=
  match lg with
  | [] => None
  | Notified l' sn _ _ :: t => if N.eqb l l' then Some sn else last_seen l t
  | Errored :: t => last_seen l t
  end.

Lemma listeners_app a b : listeners (a ++ b) = listeners a ++ listeners b.
Proof.
  induction a as [|e t IH]; simpl; [reflexivity|].
  destruct e; simpl; now rewrite IH.
Qed.

Lemma last_seen_app_shows l sn u a b :
  Forall (shows sn u) a -> In l (listeners a) -> last_seen l (a ++ b) = Some sn.
Proof.
  induction a as [|e t IH]; simpl; intros H Hin; [contradiction|].
  inversion H as [|? ? He Ht]; subst. destruct He as [l' [ok ->]]. simpl in *.
  destruct (N.eqb l l') eqn:E; [reflexivity|].
  destruct Hin as [->|Hin]; [now rewrite N.eqb_refl in E | auto].
Qed.

Section Signals.
  Variable behave : N -> state -> list name -> reaction.
  Variable nested : list (name * val) -> state -> state * result.

  (* listeners that never re-enter the manager *)
  Definition non_reentrant : Prop := forall l s u kw, behave l s u <> Nested kw.

  (* a signal sent to such listeners never touches anything but the log *)
  Definition same_static (s s' : state) : Prop :=
    options s' = options s /\ deferred s' = deferred s
    /\ subscriptions s' = subscriptions s /\ receivers s' = receivers s.

  Lemma same_static_refl s : same_static s s.
  Proof. repeat split. Qed.

  (* the events of one send, newest first: every one shows the values at the time of the send and the same
     updated-set; if all accept, exactly the listeners ls were called, in order; otherwise a prefix of them,
     the last of which (the newest event) refused *)
  Lemma notify_spec (NR : non_reentrant) ls : forall u s s' r,
    notify behave nested ls u s = (s', r) ->
    exists evs, log s' = evs ++ log s /\ same_static s s'
      /\ Forall (shows (snapshot (options s)) u) evs
      /\ (r = NOk -> rev (listeners evs) = ls /\ forallb ev_ok evs = true)
      /\ (r <> NOk -> r = NRaised EOptionsError /\ exists pre rest e tl, ls = pre ++ rest /\ evs = e :: tl
            /\ rev (listeners evs) = pre /\ ev_ok e = false /\ forallb ev_ok tl = true).
  Proof.
    induction ls as [|l t IH]; simpl; intros u s s' r H.
    - inversion H; subst. exists []. repeat split; try congruence; constructor.
    - destruct (behave l s u) as [| |kw] eqn:B.
      + apply IH in H as [evs [Hlog [Hst [Hsh [Hok Hno]]]]].
        exists (evs ++ [Notified l (snapshot (options s)) u KAccept]).
        simpl in *. split; [rewrite Hlog, <- app_assoc; reflexivity|].
        split; [unfold same_static in *; simpl in *; intuition|].
        split; [apply Forall_app; split; [exact Hsh | constructor; [now exists l, KAccept | constructor]]|].
        split.
        * intros Hk. destruct (Hok Hk) as [H1 H2]. rewrite listeners_app, rev_app_distr; simpl.
          rewrite H1, forallb_app, H2; simpl. split; reflexivity.
        * intros Hk. destruct (Hno Hk) as [Hr [pre [rest [e [tl [E1 [E2 [E3 [E4 E5]]]]]]]]].
          split; [exact Hr|].
          exists (l :: pre), rest, e, (tl ++ [Notified l (snapshot (options s)) u KAccept]).
          subst evs.
          split; [simpl; now rewrite E1|].
          split; [reflexivity|].
          split; [change (e :: tl ++ [Notified l (snapshot (options s)) u KAccept])
                    with ((e :: tl) ++ [Notified l (snapshot (options s)) u KAccept]);
                  rewrite listeners_app, rev_app_distr, E3; reflexivity|].
          split; [exact E4|].
          rewrite forallb_app, E5; reflexivity.
      + inversion H; subst; clear H.
        exists [Notified l (snapshot (options s)) u KReject]. simpl.
        split; [reflexivity|]. split; [repeat split|].
        split; [constructor; [now exists l, KReject | constructor]|].
        split; [discriminate|]. intros _. split; [reflexivity|].
        exists [l], t, (Notified l (snapshot (options s)) u KReject), []. repeat split.
      + exfalso. exact (NR l s u kw B).
  Qed.
End Signals.
