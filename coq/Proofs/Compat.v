(* Proofs/Compat.v -- lemmas about the migrate_flow driver model, for an arbitrary converter table
   satisfying the decidable well-formedness check chain_ok and arbitrary converter bodies. *)
From Coq Require Import ZArith List Bool Lia.
From MV Require Import Model.CompatPrelude Model.Compat.
Import ListNotations.

(* ---------- key equality ---------- *)
Lemma velt_eqb_eq : forall a b, velt_eqb a b = true -> a = b.
Proof.
  intros a b H. destruct a, b; cbn in H; try discriminate.
  apply Z.eqb_eq in H. subst. reflexivity.
Qed.

Lemma velts_eqb_eq : forall a b, velts_eqb a b = true -> a = b.
Proof.
  induction a as [|x a IH]; intros b H; destruct b as [|y b]; cbn in H; try discriminate.
  - reflexivity.
  - apply andb_true_iff in H. destruct H as [H1 H2].
    apply velt_eqb_eq in H1. apply IH in H2. subst. reflexivity.
Qed.

Lemma fver_eqb_eq : forall a b, fver_eqb a b = true -> a = b.
Proof.
  intros a b H. destruct a, b; cbn in H; try discriminate.
  - apply Z.eqb_eq in H. subst. reflexivity.
  - apply velts_eqb_eq in H. subst. reflexivity.
Qed.

Lemma velt_eqb_sym : forall a b, velt_eqb a b = velt_eqb b a.
Proof. intros a b. destruct a, b; cbn; try reflexivity. apply Z.eqb_sym. Qed.

Lemma velts_eqb_sym : forall a b, velts_eqb a b = velts_eqb b a.
Proof.
  induction a as [|x a IH]; intros b; destruct b as [|y b]; cbn; try reflexivity.
  rewrite velt_eqb_sym, IH. reflexivity.
Qed.

Lemma fver_eqb_sym : forall a b, fver_eqb a b = fver_eqb b a.
Proof.
  intros a b. destruct a, b; cbn; try reflexivity.
  - apply Z.eqb_sym.
  - apply velts_eqb_sym.
Qed.

Lemma velts_eqb_refl : forall l,
  forallb (fun e => match e with EInt _ => true | _ => false end) l = true -> velts_eqb l l = true.
Proof.
  induction l as [|x l IH]; cbn; intros H.
  - reflexivity.
  - apply andb_true_iff in H. destruct H as [H1 H2]. destruct x; try discriminate.
    cbn. rewrite Z.eqb_refl. cbn. apply IH. exact H2.
Qed.

Lemma fver_eqb_refl : forall k, ints_only k = true -> fver_eqb k k = true.
Proof.
  intros k H. destruct k; cbn in *.
  - apply Z.eqb_refl.
  - apply velts_eqb_refl. exact H.
Qed.

Lemma ints_only_hashable : forall k, ints_only k = true -> unhashable k = false.
Proof.
  intros k H. destruct k as [z|l]; cbn in *.
  - reflexivity.
  - induction l as [|x l IH]; cbn in *.
    + reflexivity.
    + apply andb_true_iff in H. destruct H as [H1 H2]. destruct x; try discriminate.
      cbn. apply IH. exact H2.
Qed.

Lemma opt_fver_eqb_eq : forall a b, opt_fver_eqb a b = true -> a = Some b.
Proof.
  intros a b H. destruct a as [x|]; cbn in H; try discriminate.
  apply fver_eqb_eq in H. subst. reflexivity.
Qed.

(* ---------- table lemmas ---------- *)
Lemma lookup_split : forall fv c et, lookup fv c = Some et ->
  exists pre post, c = pre ++ (fv, et) :: post.
Proof.
  intros fv c. induction c as [|[k et'] tl IH]; intros et H; cbn in H.
  - discriminate.
  - destruct (fver_eqb fv k) eqn:E.
    + inversion H. subst. apply fver_eqb_eq in E. subst.
      exists [], tl. reflexivity.
    + destruct (IH et H) as [pre [post Hc]]. exists ((k, et') :: pre), post.
      rewrite Hc. reflexivity.
Qed.

Lemma nodup_pre : forall pre x post, nodup_keys (pre ++ x :: post) = true ->
  forall p, In p pre -> fver_eqb (fst p) (fst x) = false.
Proof.
  induction pre as [|a pre IH]; intros x post H p Hin.
  - destruct Hin.
  - cbn in H. destruct a as [ka eta]. apply andb_true_iff in H. destruct H as [H1 H2].
    destruct Hin as [Hp|Hp].
    + subst p. cbn. apply negb_true_iff in H1. rewrite existsb_app in H1.
      apply orb_false_iff in H1. destruct H1 as [_ H1]. cbn in H1.
      apply orb_false_iff in H1. destruct H1 as [H1 _]. exact H1.
    + apply (IH x post H2 p Hp).
Qed.

Lemma nodup_app_r : forall pre c, nodup_keys (pre ++ c) = true -> nodup_keys c = true.
Proof.
  induction pre as [|a pre IH]; intros c H.
  - exact H.
  - cbn in H. destruct a as [ka eta]. apply andb_true_iff in H. destruct H as [_ H]. apply IH. exact H.
Qed.

Lemma lookup_app_mid : forall pre k et post,
  (forall p, In p pre -> fver_eqb k (fst p) = false) -> fver_eqb k k = true ->
  lookup k (pre ++ (k, et) :: post) = Some et.
Proof.
  induction pre as [|[ka eta] pre IH]; intros k et post Hpre Hr; cbn.
  - rewrite Hr. reflexivity.
  - pose proof (Hpre (ka, eta) (or_introl eq_refl)) as H0. cbn in H0. rewrite H0. apply IH.
    + intros p Hp. apply Hpre. right. exact Hp.
    + exact Hr.
Qed.

Lemma keys_ok_in : forall current c e, keys_ok current c = true -> In e c ->
  ints_only (fst e) = true /\ is_current current (fst e) = false /\ should_upgrade current (fst e) = false.
Proof.
  intros current c e H Hin. unfold keys_ok in H. rewrite forallb_forall in H.
  specialize (H e Hin). repeat (apply andb_true_iff in H; destruct H as [H ?]).
  repeat split; try assumption; apply negb_true_iff; assumption.
Qed.

Lemma linked_split : forall current pre k e t post,
  linked current (pre ++ (k, (e, t)) :: post) = true ->
  match post with
  | [] => normalise t = Some (FInt current)
  | (k', _) :: _ => normalise t = Some k'
  end.
Proof.
  induction pre as [|[ka [ea ta]] pre IH]; intros k e t post H.
  - cbn in H. apply andb_true_iff in H. destruct H as [H _].
    destruct post as [|[k' et'] post']; apply opt_fver_eqb_eq; exact H.
  - cbn [app linked] in H. apply andb_true_iff in H. destruct H as [_ H]. apply (IH k e t post H).
Qed.

Lemma era_split : forall pre k e t post,
  era_ok (pre ++ (k, (e, t)) :: post) = true ->
  match post with
  | [] => e <> WB
  | (_, (e', _)) :: _ => e = WB -> e' <> WS
  end.
Proof.
  induction pre as [|[ka [ea ta]] pre IH]; intros k e t post H.
  - cbn in H. apply andb_true_iff in H. destruct H as [H _].
    destruct post as [|[k' [e' t']] post'].
    + intros ->. discriminate.
    + intros -> ->. discriminate.
  - cbn [app era_ok] in H. apply andb_true_iff in H. destruct H as [_ H]. apply (IH k e t post H).
Qed.

(* ---------- the driver ---------- *)
Section Driver.
  Variable R : Type.
  Variable body : fver -> state R -> option (state R).
  Variable chain : chain_t.
  Variable current : Z.
  Variable guard : bool.
  Hypothesis Hok : chain_ok current chain = true.

  Notation mig := (migrate_flow body chain current guard).
  Definition key_of (s : state R) : option fver := normalise (get_version s).

  (* the outcome is not OutOfFuel, and a migrated state is at the current version *)
  Definition good (r : result R) : Prop :=
    match r with
    | OutOfFuel => False
    | Migrated s' => key_of s' = Some (FInt current)
    | _ => True
    end.

  Definition prefix_of {A} (a b : list A) : Prop := exists c, b = a ++ c.

  Lemma Hparts : keys_ok current chain = true /\ nodup_keys chain = true
                 /\ linked current chain = true /\ era_ok chain = true.
  Proof.
    pose proof Hok as H. unfold chain_ok in H.
    apply andb_true_iff in H. destruct H as [H H4].
    apply andb_true_iff in H. destruct H as [H H3].
    apply andb_true_iff in H. destruct H as [H1 H2].
    repeat split; assumption.
  Qed.
  Definition Hkeys := proj1 Hparts.
  Definition Hnodup := proj1 (proj2 Hparts).
  Definition Hlinked := proj1 (proj2 (proj2 Hparts)).
  Definition Hera := proj2 (proj2 (proj2 Hparts)).

  Lemma migrate_unfold : forall fuel prev s,
    mig fuel prev s =
    match key_of s with
    | None => ([], TupleTypeError)
    | Some fv =>
        if is_current current fv then ([], Migrated s)
        else if unhashable fv then ([], UnhashableTypeError)
        else match lookup fv chain with
             | None => ([], Rejected (should_upgrade current fv))
             | Some et =>
                 if guard && prev_eqb prev fv then ([], Rejected (should_upgrade current fv))
                 else match fuel with
                      | O => ([], OutOfFuel)
                      | S f =>
                          match convert body fv et s with
                          | None => ([(fv, None)], ConverterRaised fv)
                          | Some s' =>
                              let tr := mig f (Some fv) s' in
                              ((fv, Some (bver s', sver s')) :: fst tr, snd tr)
                          end
                      end
             end
    end.
  Proof. intros fuel prev s. destruct fuel; reflexivity. Qed.

  Lemma split_facts : forall pre k et post, chain = pre ++ (k, et) :: post ->
    ints_only k = true /\ is_current current k = false /\ should_upgrade current k = false
    /\ unhashable k = false /\ lookup k chain = Some et.
  Proof.
    intros pre k et post Hc.
    assert (Hin : In (k, et) chain) by (rewrite Hc; apply in_or_app; right; left; reflexivity).
    destruct (keys_ok_in current chain (k, et) Hkeys Hin) as [Hi [Hcur Hup]]. cbn in Hi, Hcur, Hup.
    repeat split; try assumption.
    - apply ints_only_hashable. exact Hi.
    - rewrite Hc. apply lookup_app_mid.
      + intros p Hp. rewrite fver_eqb_sym.
        pose proof Hnodup as Hn. rewrite Hc in Hn. apply (nodup_pre pre (k, et) post Hn p Hp).
      + apply fver_eqb_refl. exact Hi.
  Qed.

  Lemma next_distinct : forall pre k et k' et' post, chain = pre ++ (k, et) :: (k', et') :: post ->
    fver_eqb k' k = false.
  Proof.
    intros pre k et k' et' post Hc. pose proof Hnodup as Hn. rewrite Hc in Hn.
    apply nodup_app_r in Hn. cbn in Hn. apply andb_true_iff in Hn. destruct Hn as [Hn _].
    apply negb_true_iff in Hn. apply orb_false_iff in Hn. destruct Hn as [Hn _].
    rewrite fver_eqb_sym. exact Hn.
  Qed.

  (* generic progress argument: an invariant I on states and a one-step fact *)
  Section Progress.
    Variable I : state R -> Prop.
    Hypothesis Hstep : forall pre k e t post s s1,
      chain = pre ++ (k, (e, t)) :: post -> I s -> key_of s = Some k -> body k s = Some s1 ->
      I (apply_effect e t s1)
      /\ (key_of (apply_effect e t s1) = normalise t
          \/ (guard = true /\ key_of (apply_effect e t s1) = Some k)).

    Lemma progress_from : forall post pre k e t s prev fuel,
      chain = pre ++ (k, (e, t)) :: post -> I s -> key_of s = Some k ->
      (guard && prev_eqb prev k) = false -> (S (length post) <= fuel)%nat ->
      good (snd (mig fuel prev s))
      /\ (length (fst (mig fuel prev s)) <= S (length post))%nat
      /\ prefix_of (map fst (fst (mig fuel prev s))) (k :: map fst post).
    Proof.
      induction post as [|[k' [e' t']] post' IH]; intros pre k e t s prev fuel Hc HI Hk Hg Hf;
        (destruct fuel as [|f]; [lia|]);
        destruct (split_facts pre k (e, t) _ Hc) as [Hi [Hcur [Hup [Hh Hl]]]];
        rewrite migrate_unfold; rewrite Hk, Hcur, Hh, Hl, Hg; unfold convert; cbn [fst snd];
        destruct (body k s) as [s1|] eqn:B.
      - (* last converter returned *)
        destruct (Hstep pre k e t [] s s1 Hc HI Hk B) as [HI' [Hn|[Hgd Hn]]].
        + pose proof (linked_split current pre k e t [] (eq_ind _ (fun c => linked current c = true) Hlinked _ Hc)) as Hlast.
          cbn in Hlast. rewrite Hlast in Hn.
          rewrite (migrate_unfold f (Some k) (apply_effect e t s1)). rewrite Hn. cbn [is_current]. rewrite Z.eqb_refl.
          cbn. repeat split; try lia. * exact Hn. * exists []. reflexivity.
        + rewrite (migrate_unfold f (Some k) (apply_effect e t s1)). rewrite Hn, Hcur, Hh, Hl, Hgd.
          cbn [prev_eqb andb]. rewrite (fver_eqb_refl k Hi). cbn. repeat split; try lia. exists []. reflexivity.
      - cbn. repeat split; try lia. exists []. reflexivity.
      - (* an inner converter returned *)
        destruct (Hstep pre k e t _ s s1 Hc HI Hk B) as [HI' [Hn|[Hgd Hn]]].
        + pose proof (linked_split current pre k e t _ (eq_ind _ (fun c => linked current c = true) Hlinked _ Hc)) as Hnext.
          cbn in Hnext. rewrite Hnext in Hn.
          assert (Hc' : chain = (pre ++ [(k, (e, t))]) ++ (k', (e', t')) :: post')
            by (rewrite <- app_assoc; exact Hc).
          assert (Hg' : (guard && prev_eqb (Some k) k') = false).
          { cbn [prev_eqb]. rewrite (next_distinct pre k (e, t) k' (e', t') post' Hc). apply andb_false_r. }
          assert (Hf' : (S (length post') <= f)%nat) by (cbn in Hf; lia).
          destruct (IH _ k' e' t' (apply_effect e t s1) (Some k) f Hc' HI' Hn Hg' Hf') as [G [L [c P]]].
          cbn [fst snd length map]. repeat split.
          * exact G.
          * lia.
          * exists c. cbn. rewrite <- P. reflexivity.
        + rewrite (migrate_unfold f (Some k) (apply_effect e t s1)). rewrite Hn, Hcur, Hh, Hl, Hgd.
          cbn [prev_eqb andb]. rewrite (fver_eqb_refl k Hi). cbn. repeat split; try lia.
          exists (k' :: map fst post'). reflexivity.
      - cbn. repeat split; try lia. exists (k' :: map fst post'). reflexivity.
    Qed.

    Lemma progress_all : forall s prev fuel, I s -> (length chain <= fuel)%nat ->
      good (snd (mig fuel prev s))
      /\ (length (fst (mig fuel prev s)) <= length chain)%nat
      /\ exists pre, prefix_of (pre ++ map fst (fst (mig fuel prev s))) (map fst chain).
    Proof.
      intros s prev fuel HI Hf.
      destruct (key_of s) as [fv|] eqn:Hk.
      2:{ rewrite migrate_unfold, Hk. cbn. repeat split; try lia. exists []. exists (map fst chain). reflexivity. }
      destruct (is_current current fv) eqn:Hcur.
      { rewrite migrate_unfold, Hk, Hcur. cbn. repeat split; try lia.
        - destruct fv as [z|l]; cbn in Hcur; try discriminate. apply Z.eqb_eq in Hcur. subst. exact Hk.
        - exists []. exists (map fst chain). reflexivity. }
      destruct (unhashable fv) eqn:Hh.
      { rewrite migrate_unfold, Hk, Hcur, Hh. cbn. repeat split; try lia. exists []. exists (map fst chain). reflexivity. }
      destruct (lookup fv chain) as [[e t]|] eqn:Hl.
      2:{ rewrite migrate_unfold, Hk, Hcur, Hh, Hl. cbn. repeat split; try lia. exists []. exists (map fst chain). reflexivity. }
      destruct (guard && prev_eqb prev fv) eqn:Hg.
      { rewrite migrate_unfold, Hk, Hcur, Hh, Hl, Hg. cbn. repeat split; try lia. exists []. exists (map fst chain). reflexivity. }
      destruct (lookup_split fv chain (e, t) Hl) as [pre [post Hc]].
      assert (Hlen : (S (length post) <= fuel)%nat).
      { assert (length chain = length pre + S (length post))%nat by (rewrite Hc, app_length; reflexivity). lia. }
      destruct (progress_from post pre fv e t s prev fuel Hc HI Hk Hg Hlen) as [G [L [c P]]].
      repeat split.
      - exact G.
      - assert (length chain = length pre + S (length post))%nat by (rewrite Hc, app_length; reflexivity). lia.
      - exists (map fst pre). unfold prefix_of.
        pose proof (f_equal (map fst) Hc) as Hm. rewrite map_app in Hm. cbn [map fst] in Hm.
        exists c. rewrite Hm, P, <- app_assoc. reflexivity.
    Qed.
  End Progress.

  (* contracts on converter bodies *)
  Definition frame : Prop := forall k s s1, body k s = Some s1 -> bver s1 = bver s.
  Definition body_ok : Prop := forall k s s1, body k s = Some s1 -> key_of s = Some k ->
    bver s1 = None \/ exists v, bver s1 = Some v /\ normalise v = Some k.
  Definition no_stale : Prop := forall k s s1 t, body k s = Some s1 -> lookup k chain = Some (WS, t) ->
    bver s1 = None.
  (* the state has no bytes version entry, or its version is not one handled by a str-era converter *)
  Definition not_stale (s : state R) : Prop :=
    bver s = None \/ forall k e t, key_of s = Some k -> lookup k chain = Some (e, t) -> e <> WS.

  Lemma frame_body_ok : frame -> body_ok.
  Proof.
    intros Hf k s s1 B Hk. rewrite (Hf k s s1 B). unfold key_of, get_version in Hk.
    destruct (bver s) as [v|]; [right; exists v; split; [reflexivity|exact Hk] | left; reflexivity].
  Qed.

  Lemma key_after_clear : forall e t (s1 : state R), bver s1 = None \/ e <> WS ->
    key_of (apply_effect e t s1) = normalise t.
  Proof.
    intros e t s1 H. unfold key_of, get_version. destruct e; cbn.
    - reflexivity.
    - destruct H as [H|H]; [rewrite H; reflexivity | congruence].
    - reflexivity.
  Qed.

  Theorem guarded_total : guard = true -> body_ok -> forall s prev fuel, (length chain <= fuel)%nat ->
    good (snd (mig fuel prev s))
    /\ (length (fst (mig fuel prev s)) <= length chain)%nat
    /\ exists pre, prefix_of (pre ++ map fst (fst (mig fuel prev s))) (map fst chain).
  Proof.
    intros Hg Hb s prev fuel Hf.
    apply (progress_all (fun _ => True)); [|exact I|exact Hf].
    intros pre k e t post s0 s1 Hc _ Hk B. split; [exact I|].
    destruct (Hb k s0 s1 B Hk) as [Hn|[v [Hv Hkv]]].
    - left. apply key_after_clear. left. exact Hn.
    - destruct e.
      + left. apply key_after_clear. right. discriminate.
      + right. split; [exact Hg|]. unfold key_of, get_version. cbn. rewrite Hv. exact Hkv.
      + left. apply key_after_clear. right. discriminate.
  Qed.

  Theorem unguarded_no_stale_total : no_stale -> forall s prev fuel, (length chain <= fuel)%nat ->
    good (snd (mig fuel prev s))
    /\ (length (fst (mig fuel prev s)) <= length chain)%nat
    /\ exists pre, prefix_of (pre ++ map fst (fst (mig fuel prev s))) (map fst chain).
  Proof.
    intros Hn s prev fuel Hf.
    apply (progress_all (fun _ => True)); [|exact I|exact Hf].
    intros pre k e t post s0 s1 Hc _ Hk B. split; [exact I|]. left.
    destruct (split_facts pre k (e, t) post Hc) as [_ [_ [_ [_ Hl]]]].
    apply key_after_clear. destruct e; [right; discriminate | left; apply (Hn k s0 s1 t B Hl) | right; discriminate].
  Qed.

  Theorem unguarded_frame_total : frame -> forall s prev fuel, not_stale s -> (length chain <= fuel)%nat ->
    good (snd (mig fuel prev s))
    /\ (length (fst (mig fuel prev s)) <= length chain)%nat
    /\ exists pre, prefix_of (pre ++ map fst (fst (mig fuel prev s))) (map fst chain).
  Proof.
    intros Hfr s prev fuel Hs Hf.
    apply (progress_all not_stale); [|exact Hs|exact Hf].
    intros pre k e t post s0 s1 Hc HI Hk B.
    destruct (split_facts pre k (e, t) post Hc) as [_ [_ [_ [_ Hl]]]].
    assert (Hb1 : bver s1 = bver s0) by (apply (Hfr k s0 s1 B)).
    destruct e.
    - (* WB *) split; [|left; apply key_after_clear; right; discriminate].
      right. intros k2 e2 t2 Hk2 Hl2.
      assert (Hwb : WB <> WS) by discriminate.
      rewrite (key_after_clear WB t s1 (or_intror Hwb)) in Hk2.
      pose proof (linked_split current pre k WB t post (eq_ind _ (fun c => linked current c = true) Hlinked _ Hc)) as Hnext.
      pose proof (era_split pre k WB t post (eq_ind _ (fun c => era_ok c = true) Hera _ Hc)) as Hnera.
      destruct post as [|[k' [e' t']] post'].
      + exfalso. apply Hnera. reflexivity.
      + rewrite Hnext in Hk2. inversion Hk2. subst k2.
        assert (Hc' : chain = (pre ++ [(k, (WB, t))]) ++ (k', (e', t')) :: post')
          by (rewrite <- app_assoc; exact Hc).
        destruct (split_facts _ k' (e', t') post' Hc') as [_ [_ [_ [_ Hl']]]].
        rewrite Hl' in Hl2. inversion Hl2. subst. apply Hnera. reflexivity.
    - (* WS *) destruct HI as [Hnone|Hne].
      + assert (Hb : bver s1 = None) by (rewrite Hb1; exact Hnone).
        split; [left; cbn; exact Hb | left; apply key_after_clear; left; exact Hb].
      + exfalso. apply (Hne k WS t Hk Hl). reflexivity.
    - (* US *) split; [left; reflexivity | left; apply key_after_clear; right; discriminate].
  Qed.

  (* ---------- acceptance and rejection ---------- *)
  Theorem current_unchanged : forall s prev fuel, get_version s = VInt current ->
    mig fuel prev s = ([], Migrated s).
  Proof.
    intros s prev fuel H. rewrite migrate_unfold. unfold key_of. rewrite H. cbn. rewrite Z.eqb_refl. reflexivity.
  Qed.

  Lemma lookup_not_upgrade : forall fv et, lookup fv chain = Some et -> should_upgrade current fv = false.
  Proof.
    intros fv et Hl. destruct (lookup_split fv chain et Hl) as [pre [post Hc]].
    destruct (split_facts pre fv et post Hc) as [_ [_ [Hup _]]]. exact Hup.
  Qed.

  Theorem newer_rejected : forall s prev fuel z, get_version s = VInt z -> (current < z)%Z ->
    mig fuel prev s = ([], Rejected true).
  Proof.
    intros s prev fuel z H Hz. rewrite migrate_unfold. unfold key_of. rewrite H. cbn [normalise is_current unhashable].
    assert (Hne : (z =? current)%Z = false) by (apply Z.eqb_neq; lia). rewrite Hne.
    assert (Hup : should_upgrade current (FInt z) = true) by (cbn; apply Z.ltb_lt; exact Hz).
    destruct (lookup (FInt z) chain) as [et|] eqn:Hl.
    - rewrite (lookup_not_upgrade _ _ Hl) in Hup. discriminate.
    - rewrite Hup. reflexivity.
  Qed.

  Theorem unknown_rejected : forall s prev fuel fv, key_of s = Some fv ->
    is_current current fv = false -> unhashable fv = false -> lookup fv chain = None ->
    mig fuel prev s = ([], Rejected (should_upgrade current fv))
    /\ (should_upgrade current fv = true <-> exists z, fv = FInt z /\ (current < z)%Z).
  Proof.
    intros s prev fuel fv Hk Hcur Hh Hl. split.
    - rewrite migrate_unfold, Hk, Hcur, Hh, Hl. reflexivity.
    - split.
      + intros H. destruct fv as [z|l]; cbn in H; try discriminate. exists z. split; [reflexivity|]. apply Z.ltb_lt. exact H.
      + intros [z [-> Hz]]. cbn. apply Z.ltb_lt. exact Hz.
  Qed.

  (* every outcome that is not a converter call sequence leaves the trace empty; a rejection is
     produced only for a version that is neither current nor convertible, or (guarded) stalled *)
  Theorem rejected_only_if : forall fuel s prev tr h, mig fuel prev s = (tr, Rejected h) ->
    guard = false -> forall fv, key_of s = Some fv -> lookup fv chain = None \/ tr <> [].
  Proof.
    intros fuel s prev tr h H Hg fv Hk. rewrite migrate_unfold, Hk, Hg in H. cbn [andb] in H.
    destruct (is_current current fv); [inversion H|].
    destruct (unhashable fv); [inversion H|].
    destruct (lookup fv chain) as [et|]; [|left; reflexivity].
    right. destruct fuel as [|f]; [inversion H|].
    destruct (convert body fv et s); inversion H; discriminate.
  Qed.
End Driver.
