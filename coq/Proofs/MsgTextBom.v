(* Proofs/MsgTextBom.v -- exact characterisation of the BOM finding on the default path:
   for a Content-Type that neither declares a charset nor names a sniffed media type (in
   particular: no Content-Type at all) and Latin-1 text s, the strict round trip holds
   IF AND ONLY IF the Latin-1 bytes of s do not start with a byte-order mark.
   (Every BOM-selected decoder yields strictly fewer characters than bytes, or fails.) *)
From Coq Require Import String.
From Coq Require Import List Bool NArith Lia.
From MV Require Import Base.Bytes Model.MsgText Proofs.MsgTextCodec.
Import ListNotations.
Local Open Scope N_scope.

(* ---------- decoders never produce more characters than they consume ---------- *)
Definition olen (o : option text) : nat := match o with Some l => length l | None => O end.

(* length of the decoded text from an equation Some (c :: t1) = Some t, without unfolding c *)
Ltac len_of H := apply (f_equal olen) in H; cbv beta iota delta [olen] in H; cbn [length] in H.

Lemma utf8_step_shrinks b :
  match utf8_step b with
  | U8End => True
  | U8Ok _ r | U8Bad _ r => (length r < length b)%nat
  end.
Proof.
  destruct b as [|b0 r]; [exact I|]. unfold utf8_step.
  repeat match goal with
         | |- context [if ?c then _ else _] => destruct c
         | |- context [match ?l with [] => _ | _ :: _ => _ end] => destruct l
         end; cbn [length]; lia.
Qed.

Lemma utf8_decode_len se : forall fuel b t,
  utf8_decode_fuel se fuel b = Some t -> (length t <= length b)%nat.
Proof.
  induction fuel as [|f IH]; intros b t H; cbn [utf8_decode_fuel] in H.
  - destruct b; [injection H as <-; cbn; lia | discriminate].
  - pose proof (utf8_step_shrinks b) as S. destruct (utf8_step b) as [|c r|x r].
    + injection H as <-. cbn. lia.
    + destruct (utf8_decode_fuel se f r) as [t'|] eqn:E; [|discriminate]. injection H as <-.
      apply IH in E. cbn [length]. lia.
    + destruct se; [|discriminate].
      destruct (utf8_decode_fuel true f r) as [t'|] eqn:E; [|discriminate]. len_of H.
      apply IH in E. lia.
Qed.

Lemma units16_len be : forall fuel b u, units16 be fuel b = Some u -> (2 * length u <= length b)%nat.
Proof.
  induction fuel as [|f IH]; intros b u H; cbn [units16] in H.
  - destruct b; [injection H as <-; cbn; lia | discriminate].
  - destruct b as [|x [|y r]]; [injection H as <-; cbn; lia | discriminate |].
    destruct (units16 be f r) as [t|] eqn:E; [|discriminate]. injection H as <-.
    apply IH in E. cbn [length]. lia.
Qed.

Lemma pair16_len : forall fuel u t, pair16 fuel u = Some t -> (length t <= length u)%nat.
Proof.
  induction fuel as [|f IH]; intros u t H; cbn [pair16] in H.
  - destruct u; [injection H as <-; cbn; lia | discriminate].
  - destruct u as [|a r]; [injection H as <-; cbn; lia|].
    destruct ((55296 <=? a) && (a <=? 56319)).
    + destruct r as [|c r']; [discriminate|]. destruct ((56320 <=? c) && (c <=? 57343)); [|discriminate].
      destruct (pair16 f r') as [t'|] eqn:E; [|discriminate]. len_of H.
      apply IH in E. cbn [length]. lia.
    + destruct ((56320 <=? a) && (a <=? 57343)); [discriminate|].
      destruct (pair16 f r) as [t'|] eqn:E; [|discriminate]. injection H as <-.
      apply IH in E. cbn [length]. lia.
Qed.

Lemma utf16_decode_len be b t : utf16_decode be b = Some t -> (2 * length t <= length b)%nat.
Proof.
  unfold utf16_decode. destruct (units16 be (length b) b) as [u|] eqn:E; [|discriminate].
  intros H. apply units16_len in E. apply pair16_len in H. lia.
Qed.

Lemma utf32_decode_len be : forall fuel b t,
  utf32_decode_fuel be fuel b = Some t -> (4 * length t <= length b)%nat.
Proof.
  induction fuel as [|f IH]; intros b t H; cbn [utf32_decode_fuel] in H.
  - destruct b; [injection H as <-; cbn; lia | discriminate].
  - destruct b as [|w [|x [|y [|z r]]]]; try discriminate; [injection H as <-; cbn; lia|].
    match type of H with (if ?c then _ else _) = _ => destruct c end; [|discriminate].
    destruct (utf32_decode_fuel be f r) as [t'|] eqn:E; [|discriminate]. injection H as <-.
    apply IH in E. cbn [length]. lia.
Qed.

Lemma starts_with_len p b : starts_with p b = true -> (length p <= length b)%nat.
Proof.
  revert b. induction p as [|x p IH]; intros b H; cbn [length]; [lia|].
  destruct b as [|y b]; [discriminate|]. cbn [starts_with] in H. apply andb_true_iff in H as [_ H].
  apply IH in H. cbn [length]. lia.
Qed.

Lemma starts_with_skipn p b : starts_with p b = true -> (length (skipn (length p) b) + length p = length b)%nat.
Proof.
  revert b. induction p as [|x p IH]; intros b H; cbn [length skipn]; [lia|].
  destruct b as [|y b]; [discriminate|]. cbn [starts_with] in H. apply andb_true_iff in H as [_ H].
  apply IH in H. cbn [length]. lia.
Qed.

(* ---------- the default path ---------- *)
Definition plain_ct (ct : bytes) : Prop :=
  falsy (header_charset ct) = true
  /\ contains (B "json") ct = false /\ contains (B "html") ct = false /\ contains (B "xml") ct = false
  /\ contains (B "javascript") ct = false /\ contains (B "ecmascript") ct = false
  /\ contains (B "text/css") ct = false.

Lemma plain_ct_empty : plain_ct [].
Proof. repeat split. Qed.

Lemma infer_plain ct b : plain_ct ct ->
  infer_content_encoding ct b = match bom_encoding b with Some e => e | None => B "latin-1" end.
Proof.
  intros (F & J & H & X & S & E & Cs). unfold infer_content_encoding.
  destruct (bom_encoding b) as [e|] eqn:Eb.
  - unfold bom_encoding in Eb.
    repeat match type of Eb with (if ?c then _ else _) = _ => destruct c end;
      try discriminate Eb; injection Eb as <-; reflexivity.
  - rewrite F, J, H, X, S, E, Cs. cbn [andb orb].
    destruct (header_charset ct) as [[|x e]|]; try discriminate F; reflexivity.
Qed.

Definition latin1_text (s : text) : Prop := Forall (fun c => c < 256) s.

Lemma latin1_encode s : latin1_text s -> narrow_encode 256 s = Some (map Nb s).
Proof.
  unfold narrow_encode. induction 1 as [|c s Hc Hs IH]; cbn [map_opt map]; [reflexivity|].
  rewrite IH. destruct (c <? 256) eqn:E; [reflexivity | lia].
Qed.

Lemma encode_latin1 C s :
  encode C (B "latin-1") s = match narrow_encode 256 s with Some b => EBytes b | None => EValueErr end.
Proof. reflexivity. Qed.

Lemma decode_latin1 C b :
  decode C (B "latin-1") b = match narrow_decode 256 b with Some s => DStr s | None => DValueErr end.
Proof. reflexivity. Qed.

Lemma decode_bom_names C b :
  decode C (B "utf-32be") b = match utf32_decode true b with Some s => DStr s | None => DValueErr end
  /\ decode C (B "utf-32le") b = match utf32_decode false b with Some s => DStr s | None => DValueErr end
  /\ decode C (B "utf-16be") b = match utf16_decode true b with Some s => DStr s | None => DValueErr end
  /\ decode C (B "utf-16le") b = match utf16_decode false b with Some s => DStr s | None => DValueErr end
  /\ decode C (B "utf-8-sig") b = match utf8sig_decode b with Some s => DStr s | None => DValueErr end.
Proof. repeat split. Qed.

(* a body selected by its BOM never decodes to as many characters as it has bytes *)
Lemma bom_decode_shorter C b e t : bom_encoding b = Some e -> decode C e b = DStr t ->
  (length t < length b)%nat.
Proof.
  intros Hb Hd. destruct (decode_bom_names C b) as (D1 & D2 & D3 & D4 & D5). unfold bom_encoding in Hb.
  destruct (starts_with [x00; x00; xfe; xff] b) eqn:S1.
  { injection Hb as <-. rewrite D1 in Hd. destruct (utf32_decode true b) as [t'|] eqn:E; [|discriminate].
    injection Hd as <-. apply utf32_decode_len in E. apply starts_with_len in S1. cbn [length] in S1. lia. }
  destruct (starts_with [xff; xfe; x00; x00] b) eqn:S2.
  { injection Hb as <-. rewrite D2 in Hd. destruct (utf32_decode false b) as [t'|] eqn:E; [|discriminate].
    injection Hd as <-. apply utf32_decode_len in E. apply starts_with_len in S2. cbn [length] in S2. lia. }
  destruct (starts_with [xfe; xff] b) eqn:S3.
  { injection Hb as <-. rewrite D3 in Hd. destruct (utf16_decode true b) as [t'|] eqn:E; [|discriminate].
    injection Hd as <-. apply utf16_decode_len in E. apply starts_with_len in S3. cbn [length] in S3. lia. }
  destruct (starts_with [xff; xfe] b) eqn:S4.
  { injection Hb as <-. rewrite D4 in Hd. destruct (utf16_decode false b) as [t'|] eqn:E; [|discriminate].
    injection Hd as <-. apply utf16_decode_len in E. apply starts_with_len in S4. cbn [length] in S4. lia. }
  destruct (starts_with [xef; xbb; xbf] b) eqn:S5; [|discriminate].
  injection Hb as <-. rewrite D5 in Hd. unfold utf8sig_decode in Hd. fold bom8 in S5. rewrite S5 in Hd.
  destruct (utf8_decode (skipn 3 b)) as [t'|] eqn:E; [|discriminate]. injection Hd as <-.
  unfold utf8_decode in E. apply utf8_decode_len in E.
  pose proof (starts_with_skipn bom8 b S5) as L. cbn [bom8 length] in L. lia.
Qed.

Theorem default_roundtrip_iff C m s :
  plain_ct (ctype_str m) -> latin1_text s ->
  let m' := {| ctype := ctype m; content := Some (map Nb s) |} in
  set_text C m (Some s) = SetOk m'
  /\ (get_text C m' true = GStr s <-> bom_encoding (map Nb s) = None).
Proof.
  intros Hp Hl m'. split.
  - unfold set_text. rewrite (infer_plain _ [] Hp). change (bom_encoding []) with (@None bytes). cbv iota.
    rewrite encode_latin1, (latin1_encode s Hl). reflexivity.
  - unfold get_text, m'. cbn [content]. unfold ctype_str in *. cbn [ctype].
    rewrite (infer_plain _ (map Nb s) Hp). destruct (bom_encoding (map Nb s)) as [e|] eqn:Eb.
    + split; [|discriminate]. intros H. exfalso.
      destruct (decode C e (map Nb s)) as [t| | | |] eqn:Ed; try discriminate H.
      injection H as ->. pose proof (bom_decode_shorter C _ e s Eb Ed) as L. rewrite map_length in L. lia.
    + split; [reflexivity|]. intros _. rewrite decode_latin1.
      rewrite (narrow_rt 256 ltac:(lia) s (map Nb s) (latin1_encode s Hl)). reflexivity.
Qed.

(* instance: a message without Content-Type *)
Corollary no_ctype_roundtrip_iff C s : latin1_text s ->
  set_text C {| ctype := None; content := None |} (Some s)
    = SetOk {| ctype := None; content := Some (map Nb s) |}
  /\ (get_text C {| ctype := None; content := Some (map Nb s) |} true = GStr s
      <-> bom_encoding (map Nb s) = None).
Proof. intros Hl. exact (default_roundtrip_iff C {| ctype := None; content := None |} s plain_ct_empty Hl). Qed.
