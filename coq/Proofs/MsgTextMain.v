(* Proofs/MsgTextMain.v -- C32: when does get_text (set_text m s) give s back.
   The setter infers the encoding from the Content-Type alone, the getter also looks at the body;
   the round trip holds whenever both agree (and the codec itself round-trips), and the declared
   charset is rewritten to utf-8 exactly when the text is not encodable. Witnesses of the three
   ways in which the two inferences disagree are computed in the model. *)
From Coq Require Import String.
From Coq Require Import List Bool NArith Lia.
From MV Require Import Base.Bytes Model.MsgText Proofs.MsgTextCodec Proofs.MsgTextParse.
Import ListNotations.
Local Open Scope N_scope.

Definition scalar_text (s : text) : Prop := Forall (fun c => is_scalar c = true) s.

(* the codec named [enc] gives the text back (proved below for ascii / latin-1 / utf-8(-sig);
   a contract for abstract codecs) *)
Definition codec_rt (C : codecs) (enc : bytes) (s : text) : Prop :=
  forall b, encode C enc s = EBytes b -> decode C enc b = DStr s.

(* the getter, which sees the stored body, infers what the setter would infer without it *)
Definition getter_agrees (m : msg) : Prop :=
  forall b, content m = Some b ->
    infer_content_encoding (ctype_str m) b = infer_content_encoding (ctype_str m) [].

(* ---------- inference facts ---------- *)
Definition gb_fix (e : bytes) : bytes :=
  if mem_bytes (lower e) [B "gb2312"; B "gbk"] then B "gb18030" else e.

Lemma infer_with_charset ct b e : bom_encoding b = None -> header_charset ct = Some e -> e <> [] ->
  infer_content_encoding ct b = gb_fix e.
Proof.
  intros Hb Hc Hne. unfold infer_content_encoding. rewrite Hb, Hc.
  destruct e as [|x e]; [contradiction|]. cbn [falsy andb]. reflexivity.
Qed.

Lemma infer_fallback ct b : bom_encoding b = None ->
  infer_content_encoding (fallback_ctype ct) b = B "utf-8".
Proof.
  intros Hb. rewrite (infer_with_charset _ b (B "utf-8") Hb (fallback_charset ct)); [reflexivity | discriminate].
Qed.

(* syntactic sufficient condition for agreement: no BOM-like prefix, and no in-body declaration
   is consulted (usable header charset, or json, or nothing found by the scanner in use) *)
Theorem infer_stable ct b :
  bom_encoding b = None ->
  (falsy (header_charset ct) = false
   \/ contains (B "json") ct = true
   \/ ((contains (B "html") ct = true -> meta_search b = None)
       /\ (contains (B "html") ct = false -> contains (B "xml") ct = true -> xml_search b = None)
       /\ (contains (B "html") ct = false -> contains (B "xml") ct = false ->
           contains (B "javascript") ct || contains (B "ecmascript") ct = false ->
           contains (B "text/css") ct = true -> css_match b = None))) ->
  infer_content_encoding ct b = infer_content_encoding ct [].
Proof.
  intros Hb H. unfold infer_content_encoding. rewrite Hb. change (bom_encoding []) with (@None bytes).
  destruct (falsy (header_charset ct)) eqn:F.
  2:{ destruct (header_charset ct) as [[|x e]|]; try discriminate F. reflexivity. }
  destruct H as [H | [H | (Hm & Hx & Hc)]]; [discriminate H | |].
  - cbn [andb]. rewrite H. reflexivity.
  - cbn [andb]. destruct (contains (B "json") ct); [reflexivity|]. rewrite F. cbn [andb].
    destruct (contains (B "html") ct) eqn:Eh.
    + rewrite (Hm eq_refl). reflexivity.
    + rewrite F. cbn [andb]. destruct (contains (B "xml") ct) eqn:Ex.
      * rewrite (Hx eq_refl eq_refl). reflexivity.
      * rewrite F. cbn [andb].
        destruct (contains (B "javascript") ct || contains (B "ecmascript") ct) eqn:Ej; [reflexivity|].
        rewrite F. cbn [andb]. destruct (contains (B "text/css") ct) eqn:Ec; [|reflexivity].
        rewrite (Hc eq_refl eq_refl eq_refl eq_refl). reflexivity.
Qed.

(* ---------- exact codecs round-trip ---------- *)
Lemma decode_utf8 C b :
  decode C (B "utf-8") b = match utf8_decode b with Some s => DStr s | None => DValueErr end.
Proof. reflexivity. Qed.

Theorem codec_rt_exact C enc s :
  In (resolve (lower enc)) [CAscii; CLatin1; CUtf8; CUtf8Sig] -> codec_rt C enc s.
Proof.
  intros Hin b. unfold encode, decode.
  destruct Hin as [<- | [<- | [<- | [<- | []]]]]; cbn [exact_encode exact_decode].
  - destruct (narrow_encode 128 s) as [r|] eqn:E; [|discriminate]. intros H. injection H as <-.
    rewrite (narrow_rt 128 ltac:(lia) s r E). reflexivity.
  - destruct (narrow_encode 256 s) as [r|] eqn:E; [|discriminate]. intros H. injection H as <-.
    rewrite (narrow_rt 256 ltac:(lia) s r E). reflexivity.
  - destruct (utf8_encode s) as [r|] eqn:E; [|discriminate]. intros H. injection H as <-.
    rewrite (utf8_rt s r E). reflexivity.
  - destruct (utf8sig_encode s) as [r|] eqn:E; [|discriminate]. intros H. injection H as <-.
    rewrite (utf8sig_rt s r E). reflexivity.
Qed.

(* ---------- the round trip ---------- *)
Theorem roundtrip_partial C m s m' strict :
  set_text C m (Some s) = SetOk m' ->
  getter_agrees m' ->
  codec_rt C (infer_content_encoding (ctype_str m) []) s ->
  scalar_text s ->
  get_text C m' strict = GStr s.
Proof.
  intros Hset Hag Hrt Hsc. unfold set_text in Hset.
  destruct (encode C (infer_content_encoding (ctype_str m) []) s) as [b| | | |] eqn:Ee; try discriminate Hset.
  - injection Hset as <-. unfold get_text. cbn [content].
    specialize (Hag b eq_refl). unfold ctype_str in *. cbn [ctype] in *.
    rewrite Hag. rewrite (Hrt b Ee). reflexivity.
  - destruct (utf8_encode_se s) as [b|] eqn:Eu; [|discriminate Hset]. injection Hset as <-.
    unfold get_text. cbn [content]. specialize (Hag b eq_refl). unfold ctype_str in *. cbn [ctype] in *.
    rewrite Hag. rewrite (infer_fallback _ [] eq_refl). rewrite decode_utf8.
    rewrite (utf8_encode_se_scalar s Hsc) in Eu. rewrite (utf8_rt s b Eu). reflexivity.
Qed.

(* no contract needed when the inferred codec is one of the exact ones *)
Theorem roundtrip_exact C m s m' strict :
  set_text C m (Some s) = SetOk m' ->
  getter_agrees m' ->
  In (resolve (lower (infer_content_encoding (ctype_str m) []))) [CAscii; CLatin1; CUtf8; CUtf8Sig] ->
  scalar_text s ->
  get_text C m' strict = GStr s.
Proof.
  intros Hset Hag Hin Hsc. apply (roundtrip_partial C m s m' strict Hset Hag); [|exact Hsc].
  apply codec_rt_exact, Hin.
Qed.

(* the declared charset is rewritten exactly when the text is not encodable, and then to utf-8 *)
Theorem charset_updated C m s m' :
  set_text C m (Some s) = SetOk m' ->
  (exists b, encode C (infer_content_encoding (ctype_str m) []) s = EBytes b
             /\ ctype m' = ctype m /\ content m' = Some b)
  \/ (encode C (infer_content_encoding (ctype_str m) []) s = EValueErr
      /\ header_charset (ctype_str m') = Some (B "utf-8")
      /\ infer_content_encoding (ctype_str m') [] = B "utf-8"
      /\ content m' = utf8_encode_se s).
Proof.
  intros Hset. unfold set_text in Hset.
  destruct (encode C (infer_content_encoding (ctype_str m) []) s) as [b| | | |] eqn:Ee; try discriminate Hset.
  - left. exists b. injection Hset as <-. repeat split.
  - right. destruct (utf8_encode_se s) as [b|] eqn:Eu; [|discriminate Hset]. injection Hset as <-.
    unfold ctype_str. cbn [ctype content]. repeat split.
    + apply fallback_charset.
    + apply infer_fallback. reflexivity.
Qed.

(* a codec that does not map str to bytes makes the setter raise TypeError *)
Theorem non_text_codec_raises C m s :
  In (encode C (infer_content_encoding (ctype_str m) []) s) [EStr; ETypeErr] ->
  set_text C m (Some s) = SetTypeErr.
Proof.
  intros [H | [H | []]]; unfold set_text; rewrite <- H; reflexivity.
Qed.

(* ---------- witnesses: the unguarded round trip is false ---------- *)
Definition mk (ct : option bytes) : msg := {| ctype := ct; content := None |}.

Definition after_set (C : codecs) (m : msg) (s : text) (strict : bool) : option getres :=
  match set_text C m (Some s) with
  | SetOk m' => Some (get_text C m' strict)
  | _ => None
  end.

Definition meta_text : text := map bN (B "<meta charset=""latin-1"">") ++ [233].
Definition xml_text : text := map bN (B "<?xml version=""1.0"" encoding=""latin-1""?>") ++ [233].
Definition css_text : text := map bN (B "@charset ""latin-1"";") ++ [233].

(* Latin-1 text whose bytes look like a UTF-16 BOM *)
Lemma witness_bom C strict :
  after_set C (mk None) [255; 254; 97; 98] strict = Some (GStr [65279; 25185]).
Proof. vm_compute. reflexivity. Qed.

(* U+FEFF at the start of UTF-8 text is swallowed (body sniffed as utf-8-sig) *)
Lemma witness_feff C strict :
  after_set C (mk (Some (B "text/plain; charset=utf-8"))) [65279; 97] strict = Some (GStr [97]).
Proof. vm_compute. reflexivity. Qed.

(* charset=utf-16 always gains a BOM character *)
Lemma witness_utf16 C strict :
  after_set C (mk (Some (B "text/plain; charset=utf-16"))) [97] strict = Some (GStr [65279; 97]).
Proof. vm_compute. reflexivity. Qed.

Lemma witness_meta C strict :
  after_set C (mk (Some (B "text/html"))) meta_text strict
  = Some (GStr (map bN (B "<meta charset=""latin-1"">") ++ [195; 169])).
Proof. vm_compute. reflexivity. Qed.

Lemma witness_xml C strict :
  after_set C (mk (Some (B "text/xml"))) xml_text strict
  = Some (GStr (map bN (B "<?xml version=""1.0"" encoding=""latin-1""?>") ++ [195; 169])).
Proof. vm_compute. reflexivity. Qed.

Lemma witness_css C strict :
  after_set C (mk (Some (B "text/css"))) css_text strict
  = Some (GStr (map bN (B "@charset ""latin-1"";") ++ [195; 169])).
Proof. vm_compute. reflexivity. Qed.

(* surrogate-escaped byte: stored by the fallback, rejected by the strict getter; the lenient
   getter merges escaped bytes that happen to form valid UTF-8 *)
Lemma witness_escape_strict C :
  after_set C (mk (Some (B "text/plain; charset=utf-8"))) [56575] true = Some GValueErr.
Proof. vm_compute. reflexivity. Qed.

Lemma witness_escape_lenient C :
  after_set C (mk None) [56515; 56489] false = Some (GStr [233]).
Proof. vm_compute. reflexivity. Qed.

Definition bom_stored : msg := {| ctype := None; content := Some [xff; xfe; x61; x62] |}.

Lemma set_bom C : set_text C (mk None) (Some [255; 254; 97; 98]) = SetOk bom_stored.
Proof. vm_compute. reflexivity. Qed.

Lemma get_bom C strict : get_text C bom_stored strict = GStr [65279; 25185].
Proof. vm_compute. reflexivity. Qed.

Theorem roundtrip_refuted :
  exists (m : msg) (s : text), scalar_text s /\
    forall C strict, exists m', set_text C m (Some s) = SetOk m' /\ get_text C m' strict <> GStr s.
Proof.
  exists (mk None), [255; 254; 97; 98]. split.
  - repeat constructor.
  - intros C strict. exists bom_stored. split; [apply set_bom|]. rewrite get_bom. discriminate.
Qed.

Theorem body_declaration_refuted :
  forall C strict,
    (exists g, after_set C (mk (Some (B "text/html"))) meta_text strict = Some g /\ g <> GStr meta_text)
    /\ (exists g, after_set C (mk (Some (B "text/xml"))) xml_text strict = Some g /\ g <> GStr xml_text)
    /\ (exists g, after_set C (mk (Some (B "text/css"))) css_text strict = Some g /\ g <> GStr css_text).
Proof.
  intros C strict. repeat split.
  - eexists. split; [apply witness_meta | vm_compute; discriminate].
  - eexists. split; [apply witness_xml | vm_compute; discriminate].
  - eexists. split; [apply witness_css | vm_compute; discriminate].
Qed.

(* ---------- the guarded theorem is not vacuous ---------- *)
Definition snowman : text := [9731].

Theorem nonvacuous C :
  (* fallback path: latin1 cannot hold U+2603, header rewritten, text read back *)
  (exists m', set_text C (mk (Some (B "text/html; charset=latin1; foo=bar"))) (Some snowman) = SetOk m'
      /\ ctype m' = Some (B "text/html; charset=utf-8; foo=bar")
      /\ getter_agrees m' /\ scalar_text snowman
      /\ codec_rt C (infer_content_encoding (B "text/html; charset=latin1; foo=bar") []) snowman
      /\ get_text C m' true = GStr snowman)
  (* kept path: html without charset, no declaration in the text *)
  /\ (exists m', set_text C (mk (Some (B "text/html"))) (Some [60; 233; 62]) = SetOk m'
      /\ ctype m' = Some (B "text/html") /\ content m' = Some [x3c; xc3; xa9; x3e]
      /\ getter_agrees m'
      /\ In (resolve (lower (infer_content_encoding (B "text/html") []))) [CAscii; CLatin1; CUtf8; CUtf8Sig]
      /\ get_text C m' true = GStr [60; 233; 62]).
Proof.
  split.
  - eexists. split; [vm_compute; reflexivity|]. split; [reflexivity|]. split; [|split; [|split]].
    + intros b Hb. cbn [content] in Hb. injection Hb as <-. vm_compute. reflexivity.
    + repeat constructor.
    + intros b Hb. vm_compute in Hb. discriminate Hb.
    + vm_compute. reflexivity.
  - eexists. split; [vm_compute; reflexivity|]. split; [reflexivity|]. split; [reflexivity|]. split; [|split].
    + intros b Hb. cbn [content] in Hb. injection Hb as <-. vm_compute. reflexivity.
    + vm_compute. right. right. left. reflexivity.
    + vm_compute. reflexivity.
Qed.

(* the remaining BOM witnesses and the surrogate-escape witnesses, bundled *)
Theorem bom_family_refuted C strict :
  after_set C (mk None) [255; 254; 97; 98] strict = Some (GStr [65279; 25185])
  /\ after_set C (mk (Some (B "text/plain; charset=utf-8"))) [65279; 97] strict = Some (GStr [97])
  /\ after_set C (mk (Some (B "text/plain; charset=utf-16"))) [97] strict = Some (GStr [65279; 97]).
Proof. split; [apply witness_bom | split; [apply witness_feff | apply witness_utf16]]. Qed.

Theorem surrogate_escape_refuted C :
  is_escaped_byte 56575 = true
  /\ after_set C (mk (Some (B "text/plain; charset=utf-8"))) [56575] true = Some GValueErr
  /\ after_set C (mk None) [56515; 56489] false = Some (GStr [233]).
Proof. split; [reflexivity | split; [apply witness_escape_strict | apply witness_escape_lenient]]. Qed.
