(* Proofs/MvUrlMain.v -- main theorems for Request.query, urlencoded_form, path_components (C34). *)
From Coq Require Import List Bool NArith Lia.
From MV Require Import Base.Bytes Model.MvCommon Model.MvUrl Model.MvViews
  Proofs.MvCommonLemmas Proofs.MvUrlQuote Proofs.MvUrlViews.
Import ListNotations.

Lemma X_okc path params :
  forallb okc path = true -> forallb okc params = true ->
  forallb okc (if nonempty params then path ++ SEMI :: params else path) = true.
Proof.
  intros H1 H2. destruct (nonempty params); [|exact H1].
  rewrite forallb_app. simpl. rewrite H1, H2. reflexivity.
Qed.

Lemma enc_char_okc c : implb (qpchar c || byte_eqb c EQS || byte_eqb c AMP) (okc c) = true.
Proof. revert c. apply forall_bytes. vm_compute. reflexivity. Qed.

Lemma implb_elim (a b : bool) : implb a b = true -> a = true -> b = true.
Proof. destruct a, b; simpl; congruence. Qed.

Lemma urlencode_okc l : forallb okc (urlencode l) = true.
Proof.
  apply (forallb_impl (fun c => qpchar c || byte_eqb c EQS || byte_eqb c AMP)); [|apply urlencode_chars].
  intros c H. apply (implb_elim _ _ (enc_char_okc c) H).
Qed.

(* Request.query: for EVERY path and EVERY list of pairs, what is assigned is what is read *)
Theorem query_roundtrip p l : get_query (set_query p l) = l.
Proof.
  unfold get_query, set_query. pose proof (urlparse_clean p) as [Hp [Hs [_ _]]].
  rewrite urlunparse_compose. rewrite urlparse_compose.
  - cbn [p_query]. apply url_decode_encode.
  - apply X_okc; assumption.
  - unfold url_encode. rewrite andb_false_r. apply okc_okq, urlencode_okc.
Qed.

(* writing the current query back does not change it *)
Theorem query_writeback p : get_query (set_query p (get_query p)) = get_query p.
Proof. apply query_roundtrip. Qed.

(* urlencoded_form, plain mode (old body empty or every old field has an equals sign) *)
Theorem form_roundtrip old l : plain_mode old = true -> get_urlencoded_form (set_urlencoded_form old l) = l.
Proof. apply url_decode_encode_plain. Qed.

(* the similar_to heuristic loses the pair of two empty strings *)
Lemma form_similar_loses_empty_pair :
  get_urlencoded_form (set_urlencoded_form (Some [x61]) [([], [])]) = [].
Proof. vm_compute. reflexivity. Qed.

(* ---- path components ---- *)
Definition NP (comps : list bytes) : bytes := SLASH :: join [SLASH] (map (quote []) comps).

Definition npchar (c : byte) : bool := qchar [] c || byte_eqb c SLASH.

Lemma NP_chars comps : forallb npchar (NP comps) = true.
Proof.
  unfold NP. simpl forallb. replace (npchar SLASH) with true by reflexivity. simpl.
  assert (J : forall items, (forall i, In i items -> forallb npchar i = true) ->
             forallb npchar (join [SLASH] items) = true).
  { induction items as [|x t IH]; intros H; [reflexivity|].
    destruct t as [|y t].
    - simpl. apply H. left; reflexivity.
    - rewrite join_cons2, !forallb_app. rewrite (H x) by (left; reflexivity). simpl.
      apply IH. intros i Hi'. apply H. right; exact Hi'. }
  apply J. intros i Hin. apply in_map_iff in Hin as [c [<- _]].
  apply (forallb_impl (qchar [])); [|apply quote_chars]. intros x H. unfold npchar. rewrite H. reflexivity.
Qed.

Lemma npchar_okc c : implb (npchar c) (okc c) = true.
Proof. revert c. apply forall_bytes. vm_compute. reflexivity. Qed.

Lemma NP_okc comps : forallb okc (NP comps) = true.
Proof.
  apply (forallb_impl npchar); [|apply NP_chars]. intros c H.
  pose proof (npchar_okc c) as E. apply (implb_elim _ _ E H).
Qed.

Lemma NP_nosemi comps : memb SEMI (NP comps) = false.
Proof. apply (forallb_memb_false npchar); [apply NP_chars|reflexivity]. Qed.

Lemma pp_NP comps params :
  memb SLASH params = false ->
  fst (pp (if nonempty params then NP comps ++ SEMI :: params else NP comps)) = NP comps.
Proof.
  intros Hs. destruct params as [|c params]; simpl nonempty; cbv iota.
  - unfold pp. rewrite NP_nosemi. reflexivity.
  - unfold pp. rewrite memb_app. replace (memb SEMI (SEMI :: c :: params)) with true by reflexivity.
    rewrite orb_true_r. unfold splitparams.
    rewrite rbreak_app by (unfold memb in *; simpl in *; exact Hs).
    pose proof (rbreak_spec (NP comps)) as S.
    destruct (rbreak_slash (NP comps)) as [[a b]|].
    + destruct S as [E Hb].
      assert (Hsemi : memb SEMI b = false).
      { pose proof (NP_nosemi comps) as N. rewrite E, memb_app in N. apply orb_false_iff in N as [_ N].
        unfold memb in *. simpl in N. exact N. }
      rewrite break_at_app by exact Hsemi. simpl. symmetry. exact E.
    + unfold NP, memb in S. simpl in S. discriminate.
Qed.

Lemma quote_nonempty_b s : nonempty s = true -> nonempty (quote [] s) = true.
Proof.
  destruct s as [|b s]; [discriminate|]. intros _. unfold quote. simpl. unfold quote_byte.
  destruct (unreserved b || memb b []); reflexivity.
Qed.

Lemma quote_noslash s : memb SLASH (quote [] s) = false.
Proof. apply (forallb_memb_false (qchar [])); [apply quote_chars|reflexivity]. Qed.

(* path_components: for EVERY path and every list of NON-EMPTY components *)
Theorem path_components_roundtrip p comps :
  forallb nonempty comps = true -> get_path_components (set_path_components p comps) = comps.
Proof.
  intros Hne. unfold get_path_components, set_path_components.
  pose proof (urlparse_clean p) as [_ [Hs [Hsl Hq]]].
  fold (NP comps). rewrite urlunparse_compose. rewrite urlparse_compose.
  - cbn [p_path]. rewrite pp_NP by exact Hsl. unfold NP. simpl split_char.
    destruct comps as [|c0 comps0] eqn:EC; [reflexivity|]. rewrite <- EC in *.
    rewrite split_join.
    + simpl filter. assert (F : filter nonempty (map (quote []) comps) = map (quote []) comps).
      { clear EC. induction comps as [|c t IH]; [reflexivity|]. simpl in Hne. apply andb_true_iff in Hne as [H1 H2].
        simpl. rewrite quote_nonempty_b by exact H1. rewrite IH by exact H2. reflexivity. }
      rewrite F. rewrite map_map. rewrite <- (map_id comps) at 2. apply map_ext. intros a. apply unquote_quote. reflexivity.
    + rewrite EC. discriminate.
    + intros i Hi. apply in_map_iff in Hi as [x [<- _]]. apply quote_noslash.
  - apply X_okc; [apply NP_okc|exact Hs].
  - exact Hq.
Qed.

(* components read from ANY path are non-empty, so writing them back is stable *)
Lemma unquote_nonempty s : nonempty s = true -> nonempty (unquote s) = true.
Proof.
  destruct s as [|c s]; [discriminate|]. intros _. simpl.
  destruct (byte_eqb c PCT); [|reflexivity].
  destruct s as [|h1 [|h2 s]]; try reflexivity.
  destruct (hexval h1), (hexval h2); reflexivity.
Qed.

Theorem path_components_writeback p :
  get_path_components (set_path_components p (get_path_components p)) = get_path_components p.
Proof.
  apply path_components_roundtrip. unfold get_path_components.
  induction (split_char SLASH (p_path (urlparse_path p))) as [|x t IH]; [reflexivity|].
  simpl. destruct (nonempty x) eqn:E; [|exact IH]. simpl. rewrite unquote_nonempty by exact E. exact IH.
Qed.

(* an empty component cannot be written *)
Lemma path_components_empty_lost :
  get_path_components (set_path_components [SLASH] [[x61]; []; [x62]]) = [[x61]; [x62]].
Proof. vm_compute. reflexivity. Qed.

(* ---- MultiDictView mutators over any lossless getter/setter pair ---- *)
Section ViewOps.
  Variable M : Type.
  Variable get : M -> pairs.
  Variable set : M -> pairs -> M.
  Variable representable : pairs -> Prop.
  Hypothesis roundtrip : forall m l, representable l -> get (set m l) = l.

  Lemma view_op_spec m o :
    match apply_op o (get m) with
    | Some f => representable f -> get (view_op get set m o) = f
    | None => view_op get set m o = m
    end.
  Proof.
    unfold view_op. destruct (apply_op o (get m)); [|reflexivity]. intros H. apply roundtrip, H.
  Qed.
End ViewOps.

Theorem query_view_ops p o :
  get_query (view_op get_query set_query p o)
  = match apply_op o (get_query p) with Some f => f | None => get_query p end.
Proof.
  pose proof (view_op_spec bytes get_query set_query (fun _ => True) (fun m l _ => query_roundtrip m l) p o) as H.
  destruct (apply_op o (get_query p)); [apply H; exact I|rewrite H; reflexivity].
Qed.
