(* Proofs/ExportDecode.v -- the argument vector assembled by curl_command (repaired variant), read with the curl reference
   of Model/CurlRef.v, gives back the request: method, URL, header lines, --compressed count, --resolve, body. *)
From Coq Require Import List Bool NArith Lia.
From MV Require Import Base.Bytes Model.Http1Msg Model.Sh Model.Export Model.CurlRef Proofs.ShQuote Proofs.ExportSh.
Import ListNotations.

Definition upd_resolve s v := mkSeen (s_resolve s ++ [v]) (s_headers s) (s_compressed s) (s_method s) (s_urls s) (s_data s).
Definition upd_header s v := mkSeen (s_resolve s) (s_headers s ++ [v]) (s_compressed s) (s_method s) (s_urls s) (s_data s).
Definition upd_compressed s := mkSeen (s_resolve s) (s_headers s) (s_compressed s + 1) (s_method s) (s_urls s) (s_data s).
Definition upd_method s v := mkSeen (s_resolve s) (s_headers s) (s_compressed s) (Some v) (s_urls s) (s_data s).
Definition upd_url s v := mkSeen (s_resolve s) (s_headers s) (s_compressed s) (s_method s) (s_urls s ++ [v]) (s_data s).
Definition upd_data s v := mkSeen (s_resolve s) (s_headers s) (s_compressed s) (s_method s) (s_urls s) (s_data s ++ [v]).

Lemma read_compressed r s : curl_read (OPT_COMPRESSED :: r) s = curl_read r (upd_compressed s).
Proof. reflexivity. Qed.
Lemma read_H v r s : curl_read (OPT_H :: v :: r) s = curl_read r (upd_header s v).
Proof. reflexivity. Qed.
Lemma read_X v r s : curl_read (OPT_X :: v :: r) s = curl_read r (upd_method s v).
Proof. reflexivity. Qed.
Lemma read_D v r s : curl_read (OPT_D :: v :: r) s = curl_read r (upd_data s v).
Proof. reflexivity. Qed.
Lemma read_R v r s : curl_read (OPT_RESOLVE :: v :: r) s = curl_read r (upd_resolve s v).
Proof. reflexivity. Qed.

Lemma not_dash_not_opt a : starts_dash a = false ->
  bytes_eqb a OPT_COMPRESSED = false /\ takes_value a = false.
Proof.
  intros D. unfold takes_value.
  assert (K : forall o, starts_dash o = true -> bytes_eqb a o = false).
  { intros o Ho. destruct (bytes_eqb a o) eqn:E; [|reflexivity]. apply bytes_eqb_eq in E. subst a. congruence. }
  rewrite !K by reflexivity. split; reflexivity.
Qed.

Lemma read_url a r s : starts_dash a = false -> curl_read (a :: r) s = curl_read r (upd_url s a).
Proof.
  intros D. destruct (not_dash_not_opt a D) as [A B]. cbn [curl_read]. rewrite A, B, D. reflexivity.
Qed.

(* ---- the segments of curl_args ---- *)
Definition add_resolve (l : list bytes) (s : curl_seen) : curl_seen :=
  match l with [_; v] => upd_resolve s v | _ => s end.

Lemma read_resolve preserve addr r rest s :
  curl_read (resolve_args preserve addr r ++ rest) s = curl_read rest (add_resolve (resolve_args preserve addr r) s).
Proof.
  unfold resolve_args. destruct addr as [[|a0 a']|]; try reflexivity.
  destruct (preserve && negb (bytes_eqb (x_pretty_host r) (a0 :: a'))); reflexivity.
Qed.

Definition is_ae (f : header) : bool := bytes_eqb (lower (fst f)) ACCEPT_ENCODING_L.
Definition hdr_acc (s : curl_seen) (f : header) : curl_seen :=
  if is_ae f then upd_compressed s else upd_header s (header_line f).

Lemma read_headers h rest s :
  curl_read (curl_header_args h ++ rest) s = curl_read rest (fold_left hdr_acc h s).
Proof.
  revert s; induction h as [|f h IH]; intros s; [reflexivity|].
  unfold curl_header_args. cbn [flat_map fold_left]. fold (curl_header_args h). rewrite <- app_assoc.
  unfold hdr_acc at 2. unfold is_ae. destruct (bytes_eqb (lower (fst f)) ACCEPT_ENCODING_L).
  - change ([OPT_COMPRESSED] ++ curl_header_args h ++ rest) with (OPT_COMPRESSED :: (curl_header_args h ++ rest)).
    rewrite read_compressed. apply IH.
  - change ([OPT_H; header_line f] ++ curl_header_args h ++ rest)
      with (OPT_H :: header_line f :: (curl_header_args h ++ rest)).
    rewrite read_H. apply IH.
Qed.

Definition add_method (r : xreq) (s : curl_seen) : curl_seen :=
  if negb (bytes_eqb (x_method r) GET)
  then upd_method (if x_has_content r then s else upd_header s CL_ZERO) (x_method r)
  else if x_has_content r then upd_method s GET else s.

Lemma read_method r rest s :
  curl_read (curl_method_args repaired r ++ rest) s = curl_read rest (add_method r s).
Proof.
  unfold curl_method_args, add_method. cbn [fix_get_body repaired andb].
  destruct (negb (bytes_eqb (x_method r) GET)); destruct (x_has_content r); reflexivity.
Qed.

Definition add_body (r : xreq) (s : curl_seen) : curl_seen :=
  match curl_body_args r with [_; b] => upd_data s b | _ => s end.

Lemma read_body_args r s : curl_read (curl_body_args r) s = Some (add_body r s).
Proof.
  unfold add_body, curl_body_args. destruct (x_has_content r); [|reflexivity].
  destruct (x_text r); reflexivity.
Qed.

Definition seen_of preserve addr r h : curl_seen :=
  add_body r (upd_url (add_method r (fold_left hdr_acc h (add_resolve (resolve_args preserve addr r) seen0)))
                      (x_pretty_url r)).

Theorem curl_argv_read preserve addr r h : starts_dash (x_pretty_url r) = false ->
  curl_read (tl (curl_args repaired preserve addr r h ++ curl_body_args r)) seen0 = Some (seen_of preserve addr r h).
Proof.
  intros D. unfold curl_args. cbn [app tl]. rewrite <- !app_assoc.
  rewrite read_resolve, read_headers, read_method.
  change ([x_pretty_url r] ++ curl_body_args r) with (x_pretty_url r :: curl_body_args r).
  rewrite read_url by exact D. apply read_body_args.
Qed.

(* ---- projections of the expected state ---- *)
Lemma fold_hdr h s :
  s_resolve (fold_left hdr_acc h s) = s_resolve s
  /\ s_headers (fold_left hdr_acc h s) = s_headers s ++ map header_line (filter (fun f => negb (is_ae f)) h)
  /\ s_compressed (fold_left hdr_acc h s) = (s_compressed s + N.of_nat (length (filter is_ae h)))%N
  /\ s_method (fold_left hdr_acc h s) = s_method s
  /\ s_urls (fold_left hdr_acc h s) = s_urls s
  /\ s_data (fold_left hdr_acc h s) = s_data s.
Proof.
  revert s; induction h as [|f h IH]; intros s.
  - cbn. rewrite app_nil_r, N.add_0_r. repeat split; reflexivity.
  - cbn [fold_left filter]. destruct (IH (hdr_acc s f)) as (A & B & C & D & E & F).
    rewrite A, B, C, D, E, F. unfold hdr_acc. destruct (is_ae f); cbn.
    + repeat split; try reflexivity. lia.
    + repeat split; try reflexivity. rewrite <- app_assoc. reflexivity.
Qed.

Definition cl_zero_lines (r : xreq) : list bytes :=
  if negb (bytes_eqb (x_method r) GET) && negb (x_has_content r) then [CL_ZERO] else [].
Definition resolve_vals preserve addr r : list bytes :=
  match resolve_args preserve addr r with [_; v] => [v] | _ => [] end.
Definition body_vals (r : xreq) : list bytes :=
  match curl_body_args r with [_; b] => [b] | _ => [] end.

Lemma add_resolve_seen0 l :
  add_resolve l seen0 = mkSeen (match l with [_; v] => [v] | _ => [] end) [] 0 None [] [].
Proof. destruct l as [|a [|v [|x l]]]; reflexivity. Qed.

Theorem seen_of_fields preserve addr r h :
  let s := seen_of preserve addr r h in
  curl_method s = x_method r
  /\ s_urls s = [x_pretty_url r]
  /\ s_headers s = map header_line (filter (fun f => negb (is_ae f)) h) ++ cl_zero_lines r
  /\ s_compressed s = N.of_nat (length (filter is_ae h))
  /\ s_resolve s = resolve_vals preserve addr r
  /\ s_data s = body_vals r.
Proof.
  cbv zeta. unfold seen_of. rewrite add_resolve_seen0.
  set (s1 := mkSeen _ [] 0%N None [] []).
  destruct (fold_hdr h s1) as (A & B & C & D & E & F).
  set (s2 := fold_left hdr_acc h s1) in *. subst s1. cbn [s_resolve s_headers s_compressed s_method s_urls s_data] in *.
  unfold curl_method, add_body, body_vals, cl_zero_lines, add_method, resolve_vals.
  destruct (curl_body_args r) as [|o [|b [|x l]]] eqn:BA;
  destruct (bytes_eqb (x_method r) GET) eqn:G; destruct (x_has_content r) eqn:HC;
    cbn [negb andb upd_method upd_header upd_url upd_data s_resolve s_headers s_compressed s_method s_urls s_data];
    rewrite ?A, ?B, ?C, ?D, ?E, ?F, ?app_nil_r; cbn [app];
    try (apply bytes_eqb_eq in G; rewrite G);
    repeat split; try reflexivity.
  all: try (unfold curl_body_args in BA; rewrite HC in BA; try discriminate;
            destruct (x_text r); discriminate).
Qed.

(* header lines determine name and value when the name has no colon *)
Lemma cut_colon_line k v : existsb (byte_eqb x3a) k = false -> cut_colon (k ++ [x3a] ++ v) = Some (k, v).
Proof.
  induction k as [|c k IH]; intros H.
  - reflexivity.
  - simpl in H. apply orb_false_iff in H as [Hc Hk]. cbn [app cut_colon].
    assert (E : byte_eqb c x3a = false).
    { destruct (byte_eqb c x3a) eqn:E; auto. apply byte_eqb_eq in E. subst c. discriminate. }
    rewrite E. change (k ++ x3a :: v) with (k ++ [x3a] ++ v). rewrite IH by exact Hk. reflexivity.
Qed.

Theorem header_line_read k v : existsb (byte_eqb x3a) k = false ->
  read_header_line (header_line (k, v)) = Some (k, v).
Proof.
  intros H. unfold read_header_line, header_line. cbn [fst snd].
  change (k ++ [x3a; x20] ++ v) with (k ++ [x3a] ++ (x20 :: v)).
  rewrite cut_colon_line by exact H. reflexivity.
Qed.

(* ---- the original code: a GET request with a body is sent as POST ---- *)
Definition get_with_body : xreq :=
  mkX GET [x68;x74;x74;x70;x3a;x2f;x2f;x68;x2f] [x68] [x68] 80 [] true (TextOk [x61]).

Lemma original_get_body_refuted :
  exists s, curl_read (tl (curl_args original false None get_with_body [] ++ curl_body_args get_with_body)) seen0 = Some s
            /\ curl_method s = POST /\ x_method get_with_body = GET.
Proof. eexists. split; [vm_compute; reflexivity|]. split; reflexivity. Qed.

Theorem curl_argv_decodes preserve addr r h :
  starts_dash (x_pretty_url r) = false ->
  let s := seen_of preserve addr r h in
  curl_read (tl (curl_args repaired preserve addr r h ++ curl_body_args r)) seen0 = Some s
  /\ curl_method s = x_method r
  /\ s_urls s = [x_pretty_url r]
  /\ s_headers s = map header_line (filter (fun f => negb (is_ae f)) h) ++ cl_zero_lines r
  /\ s_compressed s = N.of_nat (length (filter is_ae h))
  /\ s_resolve s = resolve_vals preserve addr r
  /\ s_data s = body_vals r.
Proof. intros D. split; [exact (curl_argv_read preserve addr r h D) | exact (seen_of_fields preserve addr r h)]. Qed.

(* non-vacuity sample: quotes, a command substitution in URL and header, a control-character body with percent,
   backslash and a trailing dash *)
Definition sample_req : xreq :=
  mkX POST [x68;x74;x74;x70;x3a;x2f;x2f;x68;x2f;x27;x24;x28;x78;x29] [x68] [x68] 80
      [([x78;x2d;x61], [x27;x3b;x20;x60;x78;x60])] true (TextOk [x31;x30;x30;x25;x73;x5c;x6e;x0a;x2d]).
Lemma sample_nonvacuous :
  exists cmd argv, curl_command repaired false None sample_req = XOk cmd
    /\ sh_eval cmd = ShRun argv None
    /\ last argv [] = [x31;x30;x30;x25;x73;x5c;x6e;x0a;x2d]
    /\ existsb (byte_eqb x27) cmd = true.
Proof. eexists. eexists. split; [vm_compute; reflexivity|]. split; [vm_compute; reflexivity|]. split; reflexivity. Qed.
